from runner import Prop, Stream
from qe_common import QE_TRUSTED, QE_ASSUMPTIONS, valid_qe, shrink_request

PROP = Prop(
    pid="C01",
    coq_props="theories/C01/Props.v",
    coq_run=["theories/QE/Run.v", "theories/C07/Run.v"],
    streams=[Stream("filters", "qe", n_quick=400, n_thorough=4000, shards_thorough=8, valid=valid_qe, shrinker=shrink_request,
                    extra_args=["--profile", "c01"],
                    what="GET requests with generated filter trees through NewRequest/NewResponse/Buffer on a daemon loaded by the importer")],
    trusted_base=QE_TRUSTED,
    assumptions=QE_ASSUMPTIONS,
)
