from runner import Prop, Stream

TABLES = ["status", "timeperiods", "contacts", "contactgroups", "commands", "hosts", "hostgroups", "services",
          "servicegroups", "comments", "downtimes"]
PK = {"timeperiods": ["name"], "contacts": ["name"], "contactgroups": ["name"], "commands": ["name"], "hosts": ["name"],
      "hostgroups": ["name"], "services": ["host_name", "description"], "servicegroups": ["name"], "comments": ["id"],
      "downtimes": ["id"]}


def valid(inp):
    """all eleven cached tables once, rectangular rows, primary key columns present with distinct non-empty
    values, at most one status row, known flavour; the malformed classes (short row, object without host,
    no status row) stay expressible"""
    try:
        if inp["parallel"] not in (1, 4) or inp["flavour"] not in ("naemon", "icinga2", "shinken", "plain"):
            return False
        if [t["name"] for t in inp["tables"]] != TABLES:
            return False
        if not (0 <= inp.get("refpct", 0) <= 100):
            return False
        for t in inp["tables"]:
            cols = t["cols"]
            if len(set(cols)) != len(cols) or any(len(r) != len(cols) for r in t["rows"]):
                return False
            if t["name"] == "status":
                if len(t["rows"]) > 1 or "livestatus_version" not in cols:
                    return False
                continue
            idx = []
            for k in PK[t["name"]]:
                if k not in cols:
                    return False
                idx.append(cols.index(k))
            keys = [tuple(r[i] for i in idx) for r in t["rows"]]
            if any(k is None or k == "" or isinstance(k, list) for key in keys for k in key):
                return False
            if len(set(map(repr, keys))) != len(keys):
                return False
            if t["name"] in ("comments", "downtimes"):
                for need in ("host_name", "service_description"):
                    if need not in cols:
                        return False
        sh = inp.get("short")
        if sh is not None:
            tab = [t for t in inp["tables"] if t["name"] == sh["table"]]
            if not tab or not (0 <= sh["row"] < len(tab[0]["rows"])) or sh["table"] == "status":
                return False
        return True
    except (KeyError, TypeError, AttributeError, IndexError):
        return False


REQUIRED = {"status": ["livestatus_version"], "comments": ["id", "host_name", "service_description"],
            "downtimes": ["id", "host_name", "service_description"]}


def _required(name):
    return set(REQUIRED.get(name, PK.get(name, [])))


def _drop_cols(table, drop):
    keep = [i for i, c in enumerate(table["cols"]) if c not in drop]
    return {"name": table["name"], "cols": [table["cols"][i] for i in keep],
            "rows": [[r[i] for i in keep] for r in table["rows"]]}


def shrinker(inp):
    """structure aware reductions, most aggressive first, so that one round already yields a small case
    (a candidate costs a Coq evaluation of the whole case)"""
    import copy
    import itertools
    if inp.get("refpct", 0) > 0:
        c = copy.deepcopy(inp)
        c["refpct"] = 0
        yield c
    if inp.get("short") is None:
        withrows = [i for i, t in enumerate(inp["tables"]) if t["rows"] and t["name"] != "status"]
        emitted = 0
        for k in range(len(withrows), 0, -1):
            for combo in itertools.combinations(withrows, k):
                c = copy.deepcopy(inp)
                for i in combo:
                    c["tables"][i]["rows"] = []
                yield c
                emitted += 1
                if emitted >= 150:
                    break
            if emitted >= 150:
                break
    for i, t in enumerate(inp["tables"]):
        opt = [c for c in t["cols"] if c not in _required(t["name"])]
        for drop in (opt, opt[: len(opt) // 2], opt[len(opt) // 2:]):
            if drop:
                c = copy.deepcopy(inp)
                c["tables"][i] = _drop_cols(t, set(drop))
                yield c
    for i, t in enumerate(inp["tables"]):
        for col in t["cols"]:
            if col not in _required(t["name"]):
                c = copy.deepcopy(inp)
                c["tables"][i] = _drop_cols(t, {col})
                yield c


PROP = Prop(
    pid="C02",
    coq_props="theories/C02/Props.v",
    coq_run=["theories/C02/Run.v"],
    streams=[Stream("c02init", "c02init", n_quick=30, n_thorough=400, shards_thorough=4, valid=valid, shrinker=shrinker,
                    what="real Peer.InitAllTables (MaxParallelPeerConnections 1|4) against the scripted backend serving a generated "
                         "dataset in random row order through a wire wrapper that lets marked bytes travel raw; flags lmd detects, "
                         "the Columns: header of every initial fetch, and a GET with all modelled columns on every cached table are "
                         "compared in Coq with C02.Model.load/query_table (insertion sort instance) and, independently, with the source rows")],
    trusted_base=[
        "Coq 8.16.1 kernel, vm_compute (cases evaluation, the schema obligations and the non-vacuity Example); no native_compute",
        "axioms: none (Print Assumptions: closed under the global context, captured per run)",
        "translator: `lmdverif gen` prints Gen/Schema.v from Objects.Tables on every run; initial columns, primary keys, reference "
        "tables and column types of the model are read from it, C02_schema_obligations is re-proved against it",
        "correspondence harness harness/inpkg/c02_init.go (generator, wire wrapper c02Wire that re-encodes the scripted backend's JSON "
        "with raw bytes and records what was requested and delivered, read back through NewRequest/NewResponse, cell canonicaliser "
        "qeCell of qe_run.go, sparse cases emitter), scripted backend harness/inpkg/vbackend.go",
        "modelled, not verified: djson / jsonparser (their treatment of invalid UTF-8 and raw control bytes is transcribed as "
        "lossy/repair and exercised by the stream), zstd string containers, stringdedup, xxhash32 and the string list de-duplication "
        "(storage sharing: identity in the model, exercised by the stream incl. a real 32-bit collision), Go maps as association "
        "lists, sort.Sort as any sorter (theorems) / insertion sort (stream; unique keys make the result unique), goroutines of the "
        "parallel fetch, strings.ToLower outside ASCII + Latin-1, fmt %v of float64 beyond three decimals",
    ],
    assumptions=[
        "primary keys of a reply are unique (hypothesis of load_perm_invariant; generators and valid() keep it)",
        "numbers: integers up to 2^53 in magnitude and decimals with three places (JSON numbers reach lmd as float64; in_range says so explicitly)",
        "exactly one status row from a single (non federated) backend; MultiBackend/LMD/HTTP sub peers are outside the model",
        "virtual columns outside {custom_variables, peer_key, peer_name, has_long_plugin_output, state_order, total_services, "
        "members_with_state, last_state_change_order} are not read back (time dependent or covered by C12); quick tier samples 30 % of "
        "the reference columns per case, thorough reads all",
    ],
    gen=True,
)
