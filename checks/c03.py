from runner import Prop, Stream

ABORTS = {"", "start", "status", "hosts", "services"}


def _obj_ok(o, ntp):
    return (len(o["scan"]) == 5 and len(o["ints"]) == 5 and len(o["strs"]) == 6 and len(o["tps"]) == 2
            and all(0 <= p < ntp for p in o["tps"]) and 0 <= o["lc"] <= o["st"] < 100000)


def valid(inp):
    try:
        ntp = len(inp["tps"])
        if not (1 <= ntp <= 3) or inp["off"] < 1 or inp["interval"] < 1 or inp["t0"] < 100:
            return False
        nh, ns = len(inp["hosts"]), len(inp["svcs"])
        if nh < 1 or ns < 1 or nh + ns > 24:
            return False   # the 150+ host histories are replayed as generated, not shrunk (each candidate costs seconds)
        if not all(_obj_ok(o, ntp) for o in inp["hosts"] + inp["svcs"]):
            return False
        if not inp["events"] or inp.get("order", "") not in ("", "reversed", "shuffled"):
            return False
        for ev in inp["events"]:
            kind = ev["kind"]
            if kind == "mut":
                n = ns if ev.get("svc") else nh
                if not (0 <= ev.get("k", 0) < n) or ev.get("t", 0) < 1:
                    return False
                if len(ev.get("scan", [])) != 5 or len(ev.get("ints", [])) != 5 or len(ev.get("strs", [])) != 6:
                    return False
            elif kind == "delta":
                if ev.get("ab", "") not in ABORTS or ev.get("from", 0) < 0 or ev.get("until", 0) < max(1, ev.get("from", 0)):
                    return False
            elif kind == "tick":
                if ev.get("ab", "") not in ABORTS or ev.get("now", 0) < 1:
                    return False
            elif kind == "resume":
                if ev.get("now", 0) < 1:
                    return False
            elif kind == "tpflip":
                if not (0 <= ev.get("p", 0) < ntp):
                    return False
            elif kind == "tprefresh":
                if not (0 <= ev.get("n", 0) <= 3):
                    return False
            elif kind != "cmd":
                return False
        return True
    except (KeyError, TypeError, AttributeError):
        return False


def classify(inp):
    """D19: a backend without last_update on which the strings of an object change while its last_check stays
    (same-second double check result, or a change of a string column that is no check result)"""
    try:
        if inp["lu"]:
            return None
        for svc, objs in ((False, inp["hosts"]), (True, inp["svcs"])):
            for k, o in enumerate(objs):
                lc = o["lc"]
                seen = {lc: list(o["strs"])}
                for ev in inp["events"]:
                    if ev["kind"] != "mut" or bool(ev.get("svc")) != svc or ev.get("k", 0) != k:
                        continue
                    if ev.get("check"):
                        lc = ev.get("t", 0)
                    strs = list(ev.get("strs", []))
                    if lc in seen and seen[lc] != strs:
                        return "strings_change_without_last_check_no_last_update"
                    seen[lc] = strs
        return None
    except (KeyError, TypeError, AttributeError):
        return None


def valid_compose(inp):
    try:
        return isinstance(inp["ts"], list) and all(isinstance(v, int) and -1 <= v < 2 ** 40 for v in inp["ts"])
    except (KeyError, TypeError):
        return False


def shrinker(inp):
    """big steps first: prefixes of the history, chunks of events, unused trailing objects"""
    evs = inp["events"]
    n = len(evs)
    lens = sorted(set([1, 2, 3, n // 4, n // 2, (3 * n) // 4, n - 2, n - 1]))
    for m in lens:
        if 0 < m < n:
            yield dict(inp, events=evs[:m])
    size = n // 2
    while size >= 2:
        for start in range(0, n - size + 1, size):
            yield dict(inp, events=evs[:start] + evs[start + size:])
        size //= 2
    for key, svc in (("hosts", False), ("svcs", True)):
        objs = inp[key]
        used = [ev.get("k", 0) for ev in evs if ev["kind"] == "mut" and bool(ev.get("svc")) == svc]
        keep = max(used + [0]) + 1
        if keep < len(objs):
            yield dict(inp, **{key: objs[:keep]})
        if len(objs) > 1 and keep <= len(objs) - 1:
            yield dict(inp, **{key: objs[:-1]})


PROP = Prop(
    pid="C03",
    coq_props="theories/C03/Props.v",
    coq_run=["theories/C03/Run.v", "theories/C03/RunCompose.v"],
    streams=[Stream("delta", "c03delta", n_quick=650, n_thorough=5000, shards_thorough=4, valid=valid, classify=classify, shrinker=shrinker,
                    what="a real Peer (InitAllTables) against a scripted backend whose hosts/services mutate; data.UpdateDelta(from,until), "
                         "periodicUpdate, periodicTimeperiodsUpdate single stepped with explicit windows, shifted lastFull*Update and connection "
                         "errors after the status/hosts/services query; GET hosts/services/timeperiods after every step vs C03.Model.step, plus the "
                         "property itself on the served rows (each row is one version of its object, versions never go back)"),
             Stream("compose", "c03compose", n_quick=600, n_thorough=20000, valid=valid_compose,
                    what="composeTimestampFilter(ts, last_check) of the implementation, entry by entry, vs C03.Filter.compose "
                         "(the function C03_compose_ts_exact is about) on generated lists incl. 0, duplicates, runs, unsorted")],
    trusted_base=[
        "Coq 8.16.1 kernel, vm_compute (cases evaluation, the non-vacuity Examples and the refutation witness); no native_compute",
        "axioms: none (Print Assumptions: closed under the global context, captured per run)",
        "correspondence harness harness/inpkg/c03_delta.go + c03_gen.go (virtual time: backend stamps and UpdateDelta windows are "
        "1700000000+v; lastFullHostUpdate/lastFullServiceUpdate are shifted next to the wall clock before each step; periodicUpdate steps "
        "use the wall clock as upper window bound), scripted backend harness/inpkg/vbackend.go, cases emitter",
        "modelled, not verified: status/comments/downtimes tables (constant in the stream), the 500ms ticker and goroutines of updateLoop, "
        "the wall clock minute test (timeperiod refresh is a step of its own), idle mode, FullUpdateInterval (0), Shinken/Icinga2/LMD/HTTP backends, "
        "objects appearing or disappearing (restart path, C11), schedules (C14)",
    ],
    assumptions=[
        "the set of hosts and services is fixed during a history and the backend returns them in primary key order",
        "last_update and lmd_last_cache_update carry the same stamp (time of the last change the core noticed)",
        "theorem hypotheses are boolean predicates on histories (integrity_hyp, wc_ok, conv_ok), each with a non-vacuity Example",
    ],
    gen=False,
)
