from runner import Prop, Stream
from qe_common import QE_TRUSTED, QE_ASSUMPTIONS, valid_qe, shrink_request

def _has_nul(x):
    if isinstance(x, str):
        return "\x00" in x
    if isinstance(x, list):
        return any(_has_nul(y) for y in x)
    return False


def classify(inp):
    """D30 (repaired, see known_findings.json fixed): a Stats request with group-by Columns over data in which a string
    contains a NUL byte; no longer used as a known-finding class, kept for the histogram"""
    try:
        lines = inp["lines"]
        grouped = any(l.lower().startswith("columns:") for l in lines) and any(l.lower().startswith("stats:") for l in lines)
        if grouped and any(_has_nul(t["rows"]) for b in inp["ds"]["backends"] for t in b["tables"]):
            return "groupby_value_contains_nul"
    except (KeyError, TypeError, AttributeError):
        pass
    return None


PROP = Prop(
    pid="C05",
    coq_props="theories/C05/Props.v",
    coq_run=["theories/QE/Run.v"],
    streams=[Stream("c05", "qe", n_quick=400, n_thorough=4000, shards_thorough=8, valid=valid_qe, shrinker=shrink_request,
                    extra_args=["--profile", "c05"],
                    what="generated requests through NewRequest/NewResponse/Buffer on a daemon loaded by the importer (profile c05)")],
    trusted_base=QE_TRUSTED,
    assumptions=QE_ASSUMPTIONS,
)
