from runner import Prop, Stream

COL = {"UColJson", "UColWrapped"}
STATS = {"UStatsCounter", "UGroupKey"}


def _class(u):
    if u in COL:
        return "col"
    if u in STATS or u.startswith("(UStatsAgg "):
        return "stats"
    if u.startswith("(USort "):
        return "sort"
    if u.startswith("(UShape "):
        return "shape"
    if u.startswith("(UFilter ") or u == "UWaitCond":
        return "other"
    return None


def valid(inp):
    """structured requests must stay inside the fragment the dispatch model describes: one output
    format, either a data query (Columns/Sort) or a stats query, a request level shape alone"""
    try:
        kind = inp["kind"]
        if kind == "struct":
            items = inp["items"]
            if not items or not isinstance(inp["table"], str):
                return False
            classes = [_class(it["u"]) for it in items]
            if None in classes:
                return False
            if "shape" in classes:
                return len(items) == 1
            if "stats" in classes and ("col" in classes or "sort" in classes):
                return False
            if len({it["u"] for it in items if it["u"] in COL}) > 1:
                return False
            return all(isinstance(it["c"], str) and it["c"] != "" and not any(ch.isspace() or ch == ":" for ch in it["c"])
                       for it in items)
        if kind == "raw":
            return bool(inp.get("lines") or inp.get("hex"))
        if kind == "backend":
            f = inp["fault"]
            return not (f["table"] == "status" and f["mode"] == "extra_rows")
        return False
    except (KeyError, TypeError, AttributeError):
        return False


PROP = Prop(
    pid="C09",
    coq_props="theories/C09/Props.v",
    coq_run=["theories/C09/Run.v"],
    streams=[Stream("robust", "c09robust", n_quick=1500, n_thorough=8000, shards_thorough=4, valid=valid, timeout=3000,
                    what="an lmd worker process (unix socket listener, peers, ulimit -v) fed with generated requests and "
                         "wired to a misbehaving scripted backend; liveness, watchdog, canary; response codes against the "
                         "dispatch model, update steps against the reply path model")],
    trusted_base=[
        "Coq 8.16.1 kernel, vm_compute (obligations about the generated matrix, cases evaluation, Examples); no native_compute",
        "axioms: none (Print Assumptions: closed under the global context, captured per run)",
        "the dispatch matrix generator (harness/inpkg/c09_gen.go): it must report what the request path did for each probe "
        "(recover() in the probe goroutine, lmd's own panic handlers observed through the logger, process exit observed by the parent)",
        "the worker driver and scripted backend (harness/inpkg/c09_robust.go), the cases-file emitter",
        "modelled, not verified: the request is the composition of its header lines (a panic is selected by column type x usage kind); "
        "JSON decoding (jsonparser, djson) is an arbitrary function in the reply theorem; Go runtime, scheduler, net, regexp",
        "outside the model, exercised by the worker stream only: deadlocks, unbounded waits, out of memory, goroutine scheduling, "
        "panics inside third-party decoders; HTTP backends, federation (MultiBackend/LMDSub), cluster mode, the pass-through table log (C16)",
    ],
    assumptions=[
        "the matrix is measured on three backend flavours (Naemon, plain, every optional flag) with a small dataset: a panic that needs "
        "other data than present/absent optional columns, missing references, empty and non-empty lists is not in the matrix",
        "reply theorem: the cells a consumer reads are among the requested columns (idxs < width) and the bytes that arrive fit into memory",
    ],
    gen=True, gen_files=["Dispatch.v"],
    extra_targets=["theories/C09/GenProofs.v"],
)
