import os

from runner import Prop, Stream

# input shapes that make the pinned tree fail (notes/C10.md: F1 invalid UTF-8 is copied into the body,
# D23 Stats grouped by custom_variables crashes the daemon when a row has fewer values than names) are generated only on request:
#   VERIF_C10_FLAGS="--rawutf8 --shortcv" ./check C10 quick
EXTRA = ["--rawutf8", "--shortcv"]


def valid(inp):
    try:
        if not isinstance(inp, dict) or not inp.get("ds") or not inp["ds"].get("backends"):
            return False
        reqs = inp.get("reqs")
        if not reqs or len(reqs) > 8 or any(not isinstance(r, str) or not r.endswith("\n") for r in reqs):
            return False
        for b in inp["ds"]["backends"]:
            if not b.get("key") or not b.get("tables"):
                return False
        for inj in inp.get("inject") or []:
            bytes.fromhex(inj.get("hex", "") or "")
            for h in inj.get("list") or []:
                bytes.fromhex(h)
        return isinstance(inp.get("socket"), bool)
    except (KeyError, TypeError, ValueError, AttributeError):
        return False


def shrinker(inp):
    """structural reductions before the generic element dropping: fewer requests, no injections,
    fewer header lines of a request, fewer rows"""
    reqs = inp.get("reqs") or []
    for i in range(len(reqs)):
        if len(reqs) > 1:
            yield dict(inp, reqs=reqs[:i] + reqs[i + 1:])
    if inp.get("inject"):
        yield dict(inp, inject=[])
        for i in range(len(inp["inject"])):
            yield dict(inp, inject=inp["inject"][:i] + inp["inject"][i + 1:])
    if inp.get("socket"):
        yield dict(inp, socket=False)
    for i, r in enumerate(reqs):
        lines = r.split("\n")
        body = [l for l in lines if l]
        for j in range(1, len(body)):
            cand = "\n".join(body[:j] + body[j + 1:]) + "\n\n"
            yield dict(inp, reqs=reqs[:i] + [cand] + reqs[i + 1:])


PROP = Prop(
    pid="C10",
    coq_props="theories/C10/Props.v",
    coq_run=["theories/C10/Run.v"],
    streams=[Stream("frame", "c10frame", n_quick=90, n_thorough=750, shards_thorough=6, valid=valid, shrinker=shrinker,
                    extra_args=EXTRA,
                    what="Response.send into a buffer and keep-alive sequences over a real unix socket listener; "
                         "cells read with the typed accessors before serialisation vs the raw bytes")],
    trusted_base=[
        "Coq 8.16.1 kernel, vm_compute (evaluation of the cases and the non-vacuity Example), primitive 63 bit integers "
        "(only to ship the observed bytes into the cases file, Run.v; not used by any theorem); no native_compute",
        "axioms: none (Print Assumptions: closed under the global context, captured per run)",
        "correspondence harness (Go, harness/inpkg/c10_frame.go): reads the cells of the result rows with lmd's typed "
        "accessors before serialisation, the cases-file emitter (7 bytes per word), Go's encoding/json as a second JSON oracle",
        "modelled, tied by the stream only: jsoniter's string escaping (Stream.WriteString and the HTML escaping encoder "
        "behind WriteVal), fmt's %d / %11d, strconv float formatting (floats are compared by value, not bytes)",
        "modelled, not verified: net / unix sockets, timers (keep-alive timeout, read deadlines), the Go scheduler",
    ],
    assumptions=[
        "tokens written by external formatters (float64 via strconv, raw JSON columns of a peer, WriteVal of interface{} "
        "values) are renderings of their value: hypothesis cell_ok of C10_shape_*; checked per case by the stream",
        "a client sends the next request only after it has read the previous answer (DESIGN appendix B: pipelining is outside the claim)",
        "fixed16: three digit status code and fewer than 10^11 - 1 body bytes (hypotheses of fixed16_len)",
        "the JSON parser of the model copies bytes >= 0x80 inside strings without UTF-8 validation (like Go's encoding/json scanner): "
        "lmd writes cached strings with jsoniter's WriteString, which does not validate UTF-8 either (see notes/C10.md, finding F1)",
    ],
    gen=False,
)
