from runner import Prop, Stream

TABLES = ["timeperiods", "contacts", "contactgroups", "commands", "hosts", "hostgroups", "services",
          "servicegroups", "comments", "downtimes"]
MODES = ("garbage", "refuse", "truncate")


def valid_dataset(ds):
    if sorted(ds.keys()) != sorted(TABLES):
        return False
    for t in TABLES:
        rows = ds[t]
        if len(rows) > 12:
            return False
        for r in rows:
            if len(r) != 2 or not isinstance(r[0], str) or not isinstance(r[1], str) or r[0] == "":
                return False
        keys = [tuple(r) if t == "services" else r[0] for r in rows]
        if len(set(keys)) != len(keys):
            return False
        if t not in ("hosts", "services") and any(r[1] != "" for r in rows):
            return False
    hosts = {r[0] for r in ds["hosts"]}
    if any(r[0] not in hosts or r[1] == "" for r in ds["services"]):
        return False
    if not any(r[0] == "24x7" for r in ds["timeperiods"]):
        return False
    for t in ("comments", "downtimes"):
        if ds[t] and not hosts:
            return False
        if any(not r[0].isdigit() or r[0].startswith("0") for r in ds[t]):
            return False
    return True


def valid(inp):
    try:
        dsets, events = inp["datasets"], inp["events"]
        if inp.get("parallel", False) not in (True, False):
            return False
        if not events or len(events) > 40 or not dsets or not all(valid_dataset(d) for d in dsets):
            return False
        ver = 0
        for ev in events:
            kind = ev["kind"]
            if kind in ("restart", "change"):
                ver += 1
                if ver >= len(dsets):
                    return False
                if kind == "change":
                    # entries are created and deleted by the core: a history of C12, kept out of this one
                    for t in ("comments", "downtimes"):
                        if dsets[ver][t] != dsets[ver - 1][t]:
                            return False
            elif kind == "setok":
                # an outage is garbage or refused connects; a truncated reply is only a reliable failure for queries with
                # a fixed16 header (all rebuild queries), not for the broken peer's headerless status query
                if not ev.get("ok", False) and ev.get("mode") not in ("garbage", "refuse"):
                    return False
            elif kind == "tick":
                if "fault" in ev and ev["fault"] is not None:
                    if not isinstance(ev["fault"], int) or not (0 <= ev["fault"] <= 20):
                        return False
                    fkind = ev.get("fkind", "after")
                    if fkind == "table":
                        # the `GET columns` query (k = 1) has no table that could be taken away
                        if ev["fault"] == 1:
                            return False
                    elif fkind in ("", "after"):
                        if ev.get("fmode") not in MODES:
                            return False
                        # refused connects of the straggling fetches of a parallel rebuild leave nothing to wait for
                        if inp.get("parallel") and ev["fmode"] == "refuse":
                            return False
                    else:
                        return False
            elif kind != "stale":
                return False
        return ver == len(dsets) - 1
    except (KeyError, TypeError, AttributeError):
        return False


def classify(inp):
    """input class of defect D20 (identity stored by a failed rebuild): a rebuild fault after its first query,
    or an outage, at some point after a restart. Only relevant while the fix is not applied to /repo."""
    try:
        restarted = False
        for ev in inp["events"]:
            if ev["kind"] == "restart":
                restarted = True
            if restarted and ev["kind"] == "tick" and ev.get("fault") is not None and ev["fault"] >= 1:
                return "failed_rebuild_after_restart"
        return None
    except (KeyError, TypeError):
        return None


def shrinker(inp):
    """drop one event; a dropped restart/change also drops its dataset"""
    evs = inp["events"]
    for i in range(len(evs)):
        rest = evs[:i] + evs[i + 1:]
        dsets = list(inp["datasets"])
        if evs[i]["kind"] in ("restart", "change"):
            ver = sum(1 for e in evs[:i + 1] if e["kind"] in ("restart", "change"))
            dsets = dsets[:ver] + dsets[ver + 1:]
        yield dict(inp, datasets=dsets, events=rest)
    for i, ev in enumerate(evs):
        if ev["kind"] == "tick":
            for flag in ("minute", "full", "scan"):
                if ev.get(flag):
                    e2 = dict(ev)
                    e2.pop(flag)
                    yield dict(inp, events=evs[:i] + [e2] + evs[i + 1:])


PROP = Prop(
    pid="C11",
    coq_props="theories/C11/Props.v",
    coq_run=["theories/C11/Run.v"],
    streams=[Stream("restart", "c11restart", n_quick=60, n_thorough=3000, shards_thorough=4, valid=valid, classify=classify,
                    shrinker=shrinker,
                    what="a real Peer single-stepped (periodicUpdate + initTablesIfRestartRequiredError, time shifted) against the scripted "
                         "backend: restarts with changed object sets, changes without restart, outages, stale timeout, rebuilds failing at "
                         "every query k (enumerated: every k x 3 failure modes x same/other counts x stale or not, plus generated histories), "
                         "exactly one table fetch of a rebuild failing (404) while all others succeed - every table, serial and parallel rebuild "
                         "(MaxParallelPeerConnections 3: initAllTablesParallel, 40% of the generated histories); "
                         "after every event GET sites status/last_error, the keys of all 10 object tables (hosts with alias) and the status "
                         "table's program_start / nagios_pid / program_version (the row of the backend process the served set came from), and the "
                         "answers a concurrent reader got during the tick (services joined with host_alias; GET status), vs C11.Model.step")],
    trusted_base=[
        "Coq 8.16.1 kernel, vm_compute (cases evaluation, the non-vacuity Example, base cases of the refutation witness); no native_compute",
        "axioms: none (Print Assumptions: closed under the global context, captured per run)",
        "correspondence harness harness/inpkg/c11_restart.go (builds the backend tables from the object set description, shifts lastUpdate / "
        "lastFullUpdate / lastFullHostUpdate / lastFullServiceUpdate / lastOnline / lastTimeperiodUpdateMinute instead of waiting, arms "
        "FailAfter(k) at the start of the rebuild, measures the number of queries of a rebuild and the tables a full update compares on "
        "the code under test), scripted backend harness/inpkg/vbackend.go, cases emitter (shares repeated sub terms by name)",
        "modelled, not verified: the Go scheduler between the concurrent reader and the rebuild (exercised, not enumerated), the 500 ms "
        "ticker of updateLoop (single stepped), the schedule of the parallel table fetches of initAllTablesParallel (exercised; the harness "
        "waits until the straggling fetches of a failed parallel rebuild have reported their errors before the next event; refused "
        "connects are not combined with the parallel rebuild), connection pool (BackendKeepAlive off), HTTP/LMD federation, Icinga2 "
        "(reloadIfNumberOfObjectsChanged), idle mode, several sources (C13)",
    ],
    assumptions=[
        "the backend's object set does not change between the first and the last query of one rebuild (a restart inside a rebuild that "
        "breaks no connection is not noticed before the next status refresh - the identity published with the data is the one read first)",
        "every restart yields a new (program_start, pid) pair",
        "dynamic columns of hosts/services do not differ between objects (the positional full scan and delta windows are C03's business); "
        "comments/downtimes only change with a restart in these histories (their own delta is C12)",
    ],
    gen=False,
)
