from runner import Prop, Stream

OPS = {"add", "remove", "reorder", "run", "delta", "reload"}


def valid(inp):
    """well-formed history: known operations, non-negative numbers below 2^53, 8 numeric columns
    per entry whose int8 columns stay small; ids need not be fresh (a non-fresh Add is ignored
    by the harness and by the model alike)"""
    try:
        if not (1 <= inp["hosts"] <= 3 and 0 <= inp["services"] <= 4):
            return False
        if not inp["ops"] or len(inp["ops"]) > 260:
            return False
        lmd_steps = 0
        for op in inp["ops"]:
            kind = op["op"]
            if kind not in OPS:
                return False
            if kind in ("add", "remove", "reorder", "run") and op.get("t") not in ("c", "d"):
                return False
            if kind == "add":
                ent = op["entry"]
                if not (0 < ent["id"] <= 2 ** 41) or len(ent["nums"]) != 8:
                    return False
                if any((not isinstance(n, int)) or n < 0 or n >= 2 ** 53 for n in ent["nums"]):
                    return False
                small = (1, 2, 4, 5, 6, 7) if op["t"] == "c" else (3, 6, 7)
                if any(ent["nums"][i] > 100 for i in small):
                    return False
                for key in ("host", "svc", "author", "comment"):
                    if not isinstance(ent[key], str):
                        return False
                if ent["host"] == "":
                    return False
            elif kind == "remove":
                if not (0 <= op.get("id", 0) <= 2 ** 41):
                    return False
            elif kind == "reorder":
                if any((not isinstance(i, int)) or i < 0 or i > 2 ** 41 for i in op.get("order", [])):
                    return False
            else:
                lmd_steps += 1
        return lmd_steps >= 1
    except (KeyError, TypeError, AttributeError):
        return False


PROP = Prop(
    pid="C12",
    coq_props="theories/C12/Props.v",
    coq_run=["theories/C12/Run.v"],
    streams=[Stream("comments", "c12comments", n_quick=200, n_thorough=4000, shards_thorough=4, valid=valid,
                    what="a real Peer (NewPeer + InitAllTables) against the scripted backend: generated add/remove/reorder histories on "
                         "comments and downtimes interleaved with updateDeltaCommentsOrDowntimes / UpdateDelta / InitAllTables; after every "
                         "lmd step GET comments, GET downtimes (all stored columns) and GET hosts/services (comments downtimes "
                         "comments_with_info downtimes_with_info) through NewRequest/NewResponse vs C12.Run.trace")],
    trusted_base=[
        "Coq 8.16.1 kernel, vm_compute (cases evaluation and the non-vacuity Example); no native_compute",
        "axioms: none (Print Assumptions: closed under the global context, captured per run)",
        "correspondence harness harness/inpkg/c12_comments.go (applies the history to the scripted backend, drives lmd's update "
        "functions, reads back through lmd's query path, sorts hosts/services by name), scripted backend harness/inpkg/vbackend.go "
        "(its own evaluator for Stats/Filter/Or of lmd's requests), the cases emitter; Run.v sorts id lists / rows by id before comparing",
        "modelled, not verified: Go maps (index) as association lists, the JSON codecs, locks/concurrent readers during an update run "
        "(C14), failures of one of the three backend queries of a run (C13/C03: the run aborts, the next run repeats it)",
    ],
    assumptions=[
        "ids are handed out in strictly increasing order and never reused while the backend process lives (Add is ignored unless "
        "its id is above every id used before); a backend restart is a Reload (C11)",
        "an entry never changes after its creation (all columns of comments/downtimes are static in lmd's schema)",
        "the backend's reply order is arbitrary but the same for the id query and the fetch of one run",
    ],
    gen=False,
)
