from runner import Prop, Stream

MODES = {"ok", "refuse", "garbage", "dead"}


def valid(inp):
    try:
        for k in ("stale", "idle_timeout", "update_interval", "idle_interval"):
            if not isinstance(inp[k], int) or inp[k] < 1 or inp[k] > 100000:
                return False
        nsrc, nfb = inp["nsrc"], inp["nfb"]
        if nsrc < 1 or nsrc > 3 or nfb < 0 or nfb > 2:
            return False
        modes = inp["modes"]
        if len(modes) != nsrc + nfb or any(m not in MODES for m in modes):
            return False
        passes = 0
        for ev in inp["events"]:
            kind = ev["kind"]
            if kind == "setmode":
                a = ev.get("addr", 0)
                if a < 0 or a >= len(modes) or modes[a] == "dead" or ev.get("mode") not in ("ok", "refuse", "garbage"):
                    return False
            elif kind == "pass":
                passes += 1
                if ev.get("d", 0) < 1 or ev["d"] > 1000000:
                    return False
            elif kind == "restart":
                if ev.get("how", "both") not in ("ps", "pid", "both"):
                    return False
            elif kind == "ready":
                if not isinstance(ev.get("on", False), bool):
                    return False
            elif kind not in ("init", "tick", "query"):
                return False
        return passes <= 10 and len(inp["events"]) >= 1
    except (KeyError, TypeError, AttributeError):
        return False


PROP = Prop(
    pid="C13",
    coq_props="theories/C13/Props.v",
    coq_run=["theories/C13/Run.v"],
    streams=[Stream("avail", "c13avail", n_quick=600, n_thorough=20000, shards_thorough=4, valid=valid,
                    what="a real Peer single-stepped (InitAllTables, periodicUpdate+initTablesIfRestartRequiredError, "
                         "client data queries through NewResponse) against 1..5 scripted addresses switched ok/refuse/garbage, the core behind them "
                         "restarting (program_start / nagios_pid change, same or changed objects) or answering the status query with zero rows "
                         "(peered partner not ready), time shifted; GET sites "
                         "(status,last_error,idling,addr), failed, isOnline, the hostsbygroup table and the identity of the cached status / hosts "
                         "tables after every event (also right after the step that re-synchronised) vs C13.Model.trace")],
    trusted_base=[
        "Coq 8.16.1 kernel, vm_compute (cases evaluation, the non-vacuity Example and the refutation witness); no native_compute",
        "axioms: none (Print Assumptions: closed under the global context, captured per run)",
        "correspondence harness harness/inpkg/c13_avail.go (time shifting: real time between events is added back, "
        "timestamps written during an event are snapped to its start), scripted backend harness/inpkg/vbackend.go, cases emitter",
        "the harness probes the code under test with the witness of defect `up without data` and compares with the model of the "
        "pinned code (c_fixed=false) or of the repaired code (c_fixed=true) accordingly; the full-strength theorems are proved for c_fixed=true",
        "modelled, not verified: the 500ms ticker and goroutines of updateLoop (single stepped), the wall clock minute test of "
        "periodicUpdate (forced per tick), the connection pool (BackendKeepAlive off), HTTP/TLS backends, LMD/Thruk federation, "
        "the broken state (setBroken), RestartRequired from a changed number of objects of one table alone, FullUpdateInterval (0)",
    ],
    assumptions=[
        "within one event the environment does not change: an operation is decided by its first backend query",
        "all addresses of one backend serve the same core (same program_start/pid/object counts)",
        "theorems about the repaired machine assume StaleBackendTimeout >= 0 and that time does not run backwards",
    ],
    gen=False,
)
