"""C14 - concurrent queries and updates are safe and see whole objects.

LEVEL: PARTIAL. The theorems (coq/theories/C14/Props.v) are about the locking PROTOCOL model and about the
GENERATED lock coverage matrix (Gen/Locks.v, translator harness/inpkg/c14_gen.go: every table x column x position in a
request -> tables the real getAffectedTables locks, stored tables the column's value reads); the stream `c14race` is an
EXPLORATION (race detector build, go-deadlock, version stamps, comment/downtime lists against the backend), not a proof."""
import json
import os
import shutil

import vcheck as V
from runner import Prop, Stream

RACE_FILES = ["main.go", "util.go", "vbackend.go", "c14_worker.go", "c14_race.go"]


def build_race_harness():
    """second build of the harness, with the race detector: work/C14/lmdverif-race.
    Same overlay mechanism as lib/vcheck.py:build_harness (nothing is written into the repo), restricted to
    the files the C14 worker needs. checkptr is switched off like upstream's `make racetest` does
    (github.com/lkarlslund/stringdedup does pointer arithmetic the checker rejects)."""
    wd = os.path.join(V.WORK, "C14")
    rb = os.path.join(wd, "rbuild")
    os.makedirs(rb, exist_ok=True)
    out = os.path.join(wd, "lmdverif-race")
    with V.Lock("c14race"):
        shutil.copyfile(os.path.join(V.VERIF, "harness", "main.go"), os.path.join(rb, "main.go"))
        gomod = open(os.path.join(V.VERIF, "harness", "go.mod")).read().replace("/repo/pkg/lmd", os.path.join(V.REPO, "pkg/lmd"))
        open(os.path.join(rb, "go.mod"), "w").write(gomod)
        shutil.copyfile(os.path.join(V.REPO, "go.sum"), os.path.join(rb, "go.sum"))
        overlay = {"Replace": {}}
        for name in RACE_FILES:
            overlay["Replace"][os.path.join(V.REPO, "pkg/lmd", "zz_verif_" + name)] = os.path.join(V.VERIF, "harness", "inpkg", name)
        json.dump(overlay, open(os.path.join(rb, "overlay.json"), "w"), indent=1)
        env = dict(V.GOENV, CGO_ENABLED="1")
        rc, txt, dur = V.sh(["go", "build", "-race", "-gcflags=all=-d=checkptr=0", "-tags", "verif", "-overlay", "overlay.json", "-o", out, "."],
                            cwd=rb, env=env, timeout=1500)
        V.log("race harness build rc=%d in %.1fs" % (rc, dur))
        if rc != 0:
            raise V.CheckError("race detector build of the harness failed (CGO_ENABLED=1 go build -race):\n" + txt[-3000:])
    return out


class RaceStream(Stream):
    """the stream's sub command needs the race build: it is made right before the stream runs"""

    @property
    def extra_args(self):
        return ["--racebin", build_race_harness()]

    @extra_args.setter
    def extra_args(self, value):
        pass


def valid(inp):
    """No shrinking: a scenario is a few seconds of uncontrolled scheduling, re-running reduced scenarios
    neither reproduces reliably nor fits the time budget. The replay file holds the scenario as generated
    (replay is best effort: same seed, same goroutines, other interleaving)."""
    return False


PROP = Prop(
    pid="C14",
    coq_props="theories/C14/Props.v",
    coq_run=["theories/C14/Run.v"],
    streams=[RaceStream(
        "c14race", "c14race", n_quick=6, n_thorough=40, valid=valid, timeout=3000,
        what="EXPLORATION, not proof: generated scenarios (seeded; scheduling not controlled) of 1-3 real Peers of one Daemon against scripted "
             "backends that change continuously (every change stamps the row version into 12 int/float/string/list columns; table-wide epochs; "
             "generations changed only by rebuilds), ONE update-loop goroutine per peer (periodicUpdate with shifted timestamps, UpdateDelta, "
             "UpdateFull, per-minute refresh, full scan, comment/downtime diff, InitAllTables swaps, backend down/up with stale timeout, broken "
             "peer, idle mode with spin-up from client goroutines), 4-8 clients over a real unix socket listener (data queries with reference "
             "columns, Stats, sums, by-group tables, virtual columns reading other tables, Filter/Stats/Sort on reference columns, WaitTrigger/"
             "WaitCondition with short timeouts) for 2.2 s (thorough: 6 s) each, in a second build of the harness with -race, go-deadlock on "
             "(6 s lock wait limit, lock order detection). Checked per scenario by C14.Run: lock order of every query kind on the real "
             "getAffectedTables is increasing; every response row carries one version in all stamped columns (also the referenced host); one "
             "generation (and, with whole-table updaters only, one epoch) per backend table and response; Stats counters add up; sums of equally "
             "stamped columns agree; answers well formed, complete per backend, within their Filter; no race detector report; no go-deadlock "
             "report; no panic / fatal error / hang. Backends carry comments and downtimes on hosts and services (fixed ones from the start; in "
             "every other scenario further ones come and go), full reloads (InitAllTables directly, core restart = new program_start, peer back "
             "after the stale timeout) are in every update menu, two more clients ask for comments / downtimes / *_with_info of hosts and "
             "services directly, through reference columns (services.host_*, comments.host_* / service_*) and through the by-group tables: "
             "every served id list must hold all entries the backend had attached the whole time and only entries it ever attached to that "
             "object (C14.Lists.list_ok; exact when the backend's comments never change), no id twice, entry texts as in the backend. Requests "
             "which the generated lock coverage matrix reports as reading an unlocked table are sent by two further clients. Every third "
             "scenario (`waits`): three clients play 'send a command, wait for its effect': two identical WaitTrigger / WaitObject / "
             "`WaitCondition: current_attempt >= threshold` requests for one host or service are sent at the same moment (their WaitCondition "
             "goroutines refresh the object in step every 200 ms, concurrently with each other and with the update loop: several updaters of "
             "one table), the check result that meets the condition arrives 200-406 ms later in the backend, the update menu reloads the "
             "objects meanwhile (rebuild, restart) and never makes the backend fail; the answers go through the torn-row checks and "
             "C14.Lists.wait_ok: an answer delivered more than 300 ms before the 1800 ms timeout shows the object with a version >= threshold")],
    trusted_base=[
        "Coq 8.16.1 kernel, vm_compute (access table theorems, the non-vacuity Example, evaluation of the cases); no native_compute",
        "axioms: none (Print Assumptions: closed under the global context, captured per run)",
        "PARTIAL: the theorems are about the protocol model C14/Model.v (instruction lists, per-store RW locks with writer preference, atomic "
        "pointer publication, ghost commit history), not about Go source or the Go memory model",
        "the lock coverage translator harness/inpkg/c14_gen.go: it asks the real NewRequest + Response.getAffectedTables for the locks (that "
        "lockStores takes exactly these, skipping virtual tables, is read from the source), and MEASURES what a column reads on one small data "
        "set (C09's probe data set, three backend flavours): a read that needs other data, or a table whose perturbation (cells bumped / "
        "zeroed / store emptied) leaves the serialised value unchanged, is not seen; volatile columns (localtime) have no measurement; "
        "WaitCondition on reference columns and pass-through tables are not in the matrix; a request is taken as the union of its columns",
        "the ACCESS TABLE C14/Access.v (shared field x function x locks held) is hand-written from the source; it is only validated by the race "
        "detector stream: a field access the scenarios never execute concurrently is not validated",
        "exploration harness harness/inpkg/c14_worker.go + c14_race.go (scenario generator, stamp encoder/decoder, report parser; distinct stamp "
        "vectors per scenario capped at 250, inconsistent ones always kept), scripted backend harness/inpkg/vbackend.go, the Go race detector "
        "(reports only races that happen in the run; -d=checkptr=0 because of third-party unsafe code), go-deadlock",
        "modelled, not verified: Go runtime and scheduler (interleavings are sampled, not enumerated; replay of a scenario is best effort), "
        "net, timers (the update loop's ticker is replaced by a goroutine calling the step functions back to back), HTTP / federated "
        "backends, cluster mode, config reload (C20), prometheus, logging",
    ],
    assumptions=[
        "waits oracle: only recorded when the update loop did not make the backend fail during the wait (lmd ends a wait with the update's "
        "error then); the backends have no last_update column (rows with unchanged last_check get numbers-only updates)",
        "lists oracle: the lower end of the window is the start of the run (a cache may be arbitrarily stale): 'must' = attached during the "
        "whole run, 'may' = ever attached; only with unchanging comments / downtimes the served list is pinned to one backend state",
        "threads follow the static discipline [safe] (proved for the reader / delta / comment diff / rebuild roles as programs; whether the Go "
        "code follows it is what the access table and the race stream are about)",
        "a rebuild's data set is reachable only through the peer's data pointer (publication = one atomic store)",
        "batches write whole rows (every column of a row it touches): then 'content at a batch boundary' means 'no torn row'; the stream's "
        "version stamps check this on the implementation",
        "the update loop of a peer is one goroutine (as in lmd); additional updaters are the WaitCondition / spin-up goroutines of clients",
    ],
    gen=True, gen_files=["Locks.v"],
    extra_targets=["theories/C14/GenLocksProofs.v"],
)
