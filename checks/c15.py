from runner import Prop, Stream

STATES = {"up", "warning", "down", "broken", "pending", "syncing"}
KINDS = {"accept", "reject", "rejectplain", "drop", "refuse"}


def valid(inp):
    try:
        peers, writes = inp["peers"], inp["writes"]
        if not peers or not writes or len(peers) > 3:
            return False
        ids = [p["id"] for p in peers]
        if len(set(ids)) != len(ids) or any(not i or " " in i for i in ids):
            return False
        for p in peers:
            if p["state"] not in STATES:
                return False
            if p["state"] in ("down", "broken", "pending") and p["hasdata"]:
                return False
            if p["state"] == "warning" and not p["hasdata"]:
                return False
            for b in p.get("script") or []:
                if b["kind"] not in KINDS:
                    return False
                if b["kind"] == "reject" and (b.get("code", 0) in (0, 200) or not b.get("msg")):
                    return False
                if b["kind"] == "rejectplain" and (not b.get("msg") or ":" in b["msg"]):
                    return False
            for r in p.get("resolve") or []:
                if r not in STATES:
                    return False
        for i, w in enumerate(writes):
            items = w.get("items") or []
            last = i == len(writes) - 1
            for j, it in enumerate(items):
                if it["kind"] not in ("cmd", "get", "bad"):
                    return False
                if it["kind"] == "get" and j != len(items) - 1:
                    return False
                if it["kind"] != "get":
                    bytes.fromhex(it.get("hex", ""))
                    if not it.get("hex"):
                        return False
                for b in it.get("backends") or []:
                    if not b or " " in b:
                        return False
            if last:
                if not w["close"]:
                    return False
            elif not items or items[-1]["kind"] != "get":
                return False
        return True
    except (KeyError, TypeError, ValueError, AttributeError):
        return False


PROP = Prop(
    pid="C15",
    coq_props="theories/C15/Props.v",
    coq_run=["theories/C15/Run.v"],
    streams=[Stream("commands", "c15commands", n_quick=400, n_thorough=6000, shards_thorough=4, valid=valid,
                    what="real lmd listener (NewListener/ClientConnection.Handle) + real peers against scripted "
                         "backends: command log per backend connection, client reply tokens, final sites.status, "
                         "refresh due (periodicUpdate) vs C15.Model.connection")],
    trusted_base=[
        "Coq 8.16.1 kernel, vm_compute (cases evaluation and the non-vacuity Example); no native_compute",
        "axioms: none (Print Assumptions: closed under the global context, captured per run)",
        "correspondence harness harness/inpkg/c15_commands.go, the scripted backend harness/inpkg/vbackend.go "
        "(its command log is the observation) and the cases-file emitter",
        "classification of a generated request as COMMAND / malformed is the generator's; lmd's regular expression "
        "`^COMMAND +(\\[\\d+\\].*)$` is exercised, not modelled",
        "modelled, not verified: goroutine scheduling inside ClientConnection.SendCommands (which of several "
        "failing backends is reported: any), the 1s polls of SendCommandsWithRetry and the 9.5s PeerCommandTimeout "
        "(driven by scripted status changes), the EPIPE/ECONNRESET re-send loop of "
        "getSocketQueryResponseWithTemporaryRetries, HTTP backends, cluster forwarding of commands",
    ],
    assumptions=[
        "clients do not pipeline: a GET is the last request of a write and the next write follows its response "
        "(ParseRequests wraps the connection in a fresh bufio.Reader per call, bytes buffered behind a GET are lost)",
        "one source address per backend (source rotation belongs to C13)",
        "a backend that closes the connection without reading (Drop) is indistinguishable from one that accepted: "
        "lmd reports success and schedules the refresh, the batch is lost (at most once)",
    ],
    gen=False,
)
