import os
import re

from runner import Prop, Stream

STATES = {"up", "warning", "down", "broken", "pending", "syncing"}
KINDS = {"accept", "reject", "rejectplain", "drop", "refuse"}
# behaviours of the scripted Thruk http backend (harness/inpkg/c15_http.go)
HTTP_KINDS = KINDS | {"nonjson", "badjson", "status", "rcfail", "remoteerr", "hangup"}
HTTP_STATUS = {401, 403, 404, 500, 502, 503}


def plain_text(msg):
    return bool(msg) and msg == msg.strip() and "\n" not in msg and "\r" not in msg


def valid_behaviour(b, http):
    kind = b["kind"]
    if kind not in (HTTP_KINDS if http else KINDS):
        return False
    if kind == "reject" and (b.get("code", 0) in (0, 200) or not b.get("msg")):
        return False
    if kind == "rejectplain" and (not b.get("msg") or ":" in b["msg"]):
        return False
    if kind == "nonjson" and (not plain_text(b.get("msg")) or ":" in b["msg"] or b["msg"][0] == "{"):
        return False
    if kind == "status" and b.get("code") not in HTTP_STATUS:
        return False
    if kind == "rcfail" and (not isinstance(b.get("code"), int) or b["code"] == 0 or not plain_text(b.get("msg"))):
        return False
    if kind == "remoteerr":
        if not plain_text(b.get("msg")):
            return False
    return True


def valid(inp):
    try:
        peers, writes = inp["peers"], inp["writes"]
        if not peers or not writes or len(peers) > 3:
            return False
        ids = [p["id"] for p in peers]
        if len(set(ids)) != len(ids) or any(not i or " " in i for i in ids):
            return False
        http = any(p.get("transport") for p in peers)
        for p in peers:
            if p.get("transport", "") not in ("", "http"):
                return False
            if p.get("transport") == "http" and not re.match(r"^\d+\.\d+$", p.get("thruk", "")):
                return False
            if p["state"] not in STATES:
                return False
            if p["state"] in ("down", "broken", "pending") and p["hasdata"]:
                return False
            if p["state"] == "warning" and not p["hasdata"]:
                return False
            for b in p.get("script") or []:
                if not valid_behaviour(b, p.get("transport") == "http"):
                    return False
            for r in p.get("resolve") or []:
                if r not in STATES:
                    return False
        for i, w in enumerate(writes):
            items = w.get("items") or []
            last = i == len(writes) - 1
            for j, it in enumerate(items):
                if it["kind"] not in ("cmd", "get", "bad"):
                    return False
                if it["kind"] == "get" and j != len(items) - 1:
                    return False
                if it["kind"] != "get":
                    raw = bytes.fromhex(it.get("hex", ""))
                    if not it.get("hex"):
                        return False
                    if http and it["kind"] == "cmd":
                        raw.decode("utf-8")     # the json envelope of the http transport cannot carry other bytes
                for b in it.get("backends") or []:
                    if not b or " " in b:
                        return False
            if last:
                if not w["close"]:
                    return False
            elif not items or items[-1]["kind"] != "get":
                return False
        return True
    except (KeyError, TypeError, ValueError, AttributeError, IndexError):
        return False


PROP = Prop(
    pid="C15",
    coq_props="theories/C15/Props.v",
    coq_run=["theories/C15/Run.v"],
    streams=[Stream("commands", "c15commands", n_quick=400, n_thorough=6000, shards_thorough=4, valid=valid,
                    what="real lmd listener (NewListener/ClientConnection.Handle) + real peers against scripted "
                         "backends (Livestatus unix sockets; in a third of the cases one backend is a scripted Thruk "
                         "http server on a loopback address): command log per backend connection / POST, client reply tokens, final sites.status, "
                         "refresh due (periodicUpdate) vs C15.Model.connection")],
    trusted_base=[
        "Coq 8.16.1 kernel, vm_compute (cases evaluation and the non-vacuity Example); no native_compute",
        "axioms: none (Print Assumptions: closed under the global context, captured per run)",
        "correspondence harness harness/inpkg/c15_commands.go, the scripted backends harness/inpkg/vbackend.go and "
        "harness/inpkg/c15_http.go (their command logs are the observation) and the cases-file emitter",
        "http transport: the mapping of lmd's error texts to classes (HTTPERR, HTTPSTATUS n, REMOTE rc=n text, JSONERR, TOOOLD) "
        "and of the scripted answers to the model's RejectPlain/HttpBroken is the harness's; the scripted server disables "
        "keep-alive (one tcp connection per POST), Go's http client is not modelled",
        "classification of a generated request as COMMAND / malformed is the generator's; lmd's regular expression "
        "`^COMMAND +(\\[\\d+\\].*)$` is exercised, not modelled",
        "modelled, not verified: goroutine scheduling inside ClientConnection.SendCommands (which of several "
        "failing backends is reported: any), the 1s polls of SendCommandsWithRetry and the 9.5s PeerCommandTimeout "
        "(driven by scripted status changes), the EPIPE/ECONNRESET re-send loop of "
        "getSocketQueryResponseWithTemporaryRetries, "
        "https/proxies/several sources of an http backend, cluster forwarding of commands",
    ],
    assumptions=[
        "the command sessions of this stream do not pipeline: a GET is the last request of a write and the next write "
        "follows its response (pipelined keep-alive sequences are exercised by C10 since /repo efca934)",
        "one source address per backend (source rotation belongs to C13)",
        "http backends: command arguments are valid UTF-8 (json.Marshal replaces other bytes by U+FFFD); the remote "
        "answer 'ERROR: broken pipe.' is generated (D-C15-2, re-POST of the batch, repaired by /repo 4f784aa)",
        "a socket backend that closes the connection without reading (Drop) is indistinguishable from one that accepted: "
        "lmd reports success and schedules the refresh, the batch is lost (at most once)",
    ],
    gen=False,
)
