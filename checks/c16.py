from runner import Prop, Stream

NUM = {"time", "state", "class", "lineno", "attempt"}
LIST = {"current_host_contacts", "current_service_contacts"}
BACKEND = NUM | LIST | {"contact_name", "host_name", "message", "options", "plugin_output", "service_description",
                        "state_type", "type", "command_name"}
VIRTUAL = {"peer_key", "peer_name"}
STATES = {"up", "warning", "down", "refuse"}
NO_GROUP = {"time", "lineno", "attempt"} | LIST     # group keys the model does not render (large numbers, lists)


def _token(s):
    return isinstance(s, str) and s != "" and not any(c.isspace() for c in s)


def valid(inp):
    try:
        cols = inp["cols"]
        if not cols or len(set(cols)) != len(cols) or any(c not in BACKEND for c in cols):
            return False
        backends = inp["backends"]
        if not 1 <= len(backends) <= 4:
            return False
        keys = [b["key"] for b in backends]
        if len(set(keys)) != len(keys) or not all(_token(k) for k in keys):
            return False
        for b in backends:
            if b["state"] not in STATES or not isinstance(b["name"], str) or b["name"] == "":
                return False
            for row in b.get("rows") or []:
                if len(row) != len(cols):
                    return False
                for c, v in zip(cols, row):
                    if c in NUM:
                        if isinstance(v, bool) or not isinstance(v, (int, float)) or v != int(v) or abs(v) > 1e12:
                            return False
                    elif c in LIST:
                        if not isinstance(v, list) or not all(isinstance(e, str) for e in v):
                            return False
                    elif not isinstance(v, str):
                        return False
        columns = inp.get("columns") or []
        if not all(_token(c) for c in columns):
            return False
        stats = inp.get("stats") or []
        sort = inp.get("sort") or []
        for s in sort:
            name = s["col"].lower()
            if name not in (BACKEND | VIRTUAL) - LIST or not isinstance(s["desc"], bool):
                return False
        if stats and sort:
            return False
        for s in stats:
            parts = s.split(" ")
            if parts[0] in ("sum", "avg", "min", "max"):
                if len(parts) != 2 or parts[1] not in NUM:
                    return False
            elif len(parts) < 3 or parts[0] not in BACKEND - LIST or parts[1] not in ("=", "!=", ">=", "<", "~"):
                return False
        if stats and any(c in NO_GROUP or c.startswith("log_") for c in columns):
            return False
        limit = inp.get("limit")
        if limit is not None and (isinstance(limit, bool) or not isinstance(limit, int) or limit < 0):
            return False
        if not isinstance(inp.get("offset", 0), int) or inp.get("offset", 0) < 0:
            return False
        depth = 0
        for line in inp.get("filter") or []:
            if line.startswith("Filter: ") and len(line.split(" ")) >= 3:
                depth += 1
            elif line in ("And: 2", "Or: 2"):
                if depth < 2:
                    return False
                depth -= 1
            elif line == "Negate:":
                if depth < 1:
                    return False
            else:
                return False
        if inp["format"] not in ("json", "wrapped_json"):
            return False
        if inp.get("authuser") and not _token(inp["authuser"]):
            return False
        if any(k not in keys for k in inp.get("select") or []):
            return False
        return isinstance(inp.get("headers", False), bool)
    except (KeyError, TypeError, ValueError, AttributeError):
        return False


def classify(inp):
    """input classes of the defects described in notes/C16.md (for known_findings.json)"""
    columns = [c[4:] if c.startswith("log_") else c for c in inp.get("columns") or []]
    if inp.get("stats"):
        if any(s.split(" ")[0] not in ("sum", "avg", "min", "max") for s in inp["stats"]):
            return "stats-counter-merge"
        return None
    virt = [c for c in columns if c not in BACKEND]
    if columns and any((s["col"].lower() not in columns) for s in inp.get("sort") or []):
        return "sort-key-outside-columns"
    if len(set(virt)) != len(virt):
        return "duplicate-virtual-column"
    if columns and len(virt) == len(columns):
        return "only-virtual-columns"
    return None


PROP = Prop(
    pid="C16",
    coq_props="theories/C16/Props.v",
    coq_run=["theories/C16/Run.v"],
    streams=[Stream("passthrough", "c16passthrough", n_quick=300, n_thorough=3000, shards_thorough=4, valid=valid,
                    classify=classify,
                    what="real Daemon + 1..4 real Peers (vNewPeer) against scripted backends answering GET log "
                         "(rows, Stats with and without group-by columns, unreachable subsets); generated requests "
                         "through NewRequest/NewResponse/Buffer in a child process; client response (rows, failed map, "
                         "header, total_count) and the sub query every backend received vs C16.Model")],
    trusted_base=[
        "Coq 8.16.1 kernel, vm_compute (cases evaluation and the non-vacuity Example); no native_compute",
        "axioms: none (Print Assumptions: closed under the global context, captured per run)",
        "correspondence harness harness/inpkg/c16_passthrough.go: the scripted backend front (answers GET log from a "
        "vBackend dataset with vbackend.go's evaluator vMatch/vStats; no Columns header = all columns like Livestatus), "
        "the child process protocol (a dead child = crash of the running case), the JSON decoding of the response and "
        "the cases-file emitter; the log table schema (which columns are LMD-side, column types) is dumped from "
        "Objects.Tables on every run",
        "the sub query is parsed back with lmd's own NewRequest(ParseDefault) and compared structurally (table, columns, "
        "rendered filter lines with top-level And groups flattened, rendered Stats lines, Limit, AuthUser); faithfulness "
        "of Filter.String itself is C17's subject",
        "modelled, not verified: Go sort.Sort (any permutation sorted for Response.Less; ties and the order among "
        "backends are not determined, the comparison is modulo both), goroutine completion order, djson decoding, "
        "float formatting of Stats values (compared within 10^-6), HTTP backends and LMD sub peers",
    ],
    assumptions=[
        "backends answer well-formed rows: one cell per requested column of the column's type; Stats answers carry one "
        "key cell per requested backend column and one number per Stats header, counters are natural numbers",
        "Sort together with Stats, sorting by list columns, group keys that are lists or numbers >= 10^6 (rendered "
        "with an exponent by fmt %v) and values containing the internal key separator are outside the model",
        "Stats avg of several backends is the mean of the backends' averages, min/max include the 0 a backend reports "
        "for an empty set (stated in C16_stats_add_up / final_spec, not a defect of the merge itself)",
    ],
    gen=False,
)
