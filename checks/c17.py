from runner import Prop, Stream
from qe_common import QE_TRUSTED, QE_ASSUMPTIONS, valid_qe, shrink_request


def classify_sub(inp):
    """input classes of the defects of the sub-request form described in notes/C17.md (for known_findings.json)"""
    try:
        for line in inp["lines"][1:]:
            head, _, arg = line.partition(":")
            if head.strip().lower() == "limit" and arg.strip() == "0":
                return "sub_limit0_sent_unlimited"
    except (KeyError, TypeError, AttributeError):
        pass
    return None


PROP = Prop(
    pid="C17",
    coq_props="theories/C17/Props.v",
    coq_run=["theories/QE/Run.v", "theories/C17/Run.v", "theories/C17/RunSub.v"],
    streams=[Stream("c17", "qe", n_quick=400, n_thorough=4000, shards_thorough=8, valid=valid_qe, shrinker=shrink_request,
                    extra_args=["--profile", "c17"],
                    what="generated requests through NewRequest/NewResponse/Buffer on a daemon loaded by the importer (profile c17)"),
             Stream("c17sub", "c17sub", n_quick=250, n_thorough=3000, shards_thorough=6, valid=valid_qe, shrinker=shrink_request,
                    classify=classify_sub,
                    what="the cluster sub-request form: generated requests through NewRequest / buildDistributedRequestData / JSON / "
                         "parseRequestDataToRequest / NewResponse / Buffer on a daemon loaded by the importer, compared with the model's answer "
                         "to the request the sub-request has to mean (data rows in order, total_count, raw Stats accumulators)")],
    trusted_base=QE_TRUSTED,
    assumptions=QE_ASSUMPTIONS,
)
