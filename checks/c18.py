from runner import Prop, Stream


def valid(inp):
    try:
        nn = inp["nodes"]
        if nn < 1 or not (0 <= inp["own"] < nn) or not inp["hist"]:
            return False
        if len(set(inp["backends"])) != len(inp["backends"]) or any(b == "" for b in inp["backends"]):
            return False
        for h in inp["hist"]:
            if len(h) != nn or not h[inp["own"]]:
                return False
        return True
    except (KeyError, TypeError):
        return False


PROP = Prop(
    pid="C18",
    coq_props="theories/C18/Props.v",
    coq_run=["theories/C18/Run.v"],
    streams=[Stream("assign", "c18assign", n_quick=150, n_thorough=3000, valid=valid,
                    what="Nodes.redistribute/updateBackends/IsOurBackend on real Nodes and Peer objects")],
    trusted_base=[
        "Coq 8.16.1 kernel, vm_compute (cases evaluation and the non-vacuity Example); no native_compute",
        "axioms: none (Print Assumptions: closed under the global context, captured per run)",
        "correspondence harness (Go, harness/inpkg/c18_assign.go) and the cases-file emitter",
        "modelled, not verified: ping/heartbeat timing and HTTP transport between nodes (membership sets are driven), sub-peers of federated backends",
    ],
    assumptions=[
        "all nodes see the same membership set (each computes the same pure function of it)",
        "configured backend ids are non-empty and distinct (hypotheses of the theorems)",
    ],
    gen=False,
)
