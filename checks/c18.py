from runner import Prop, Stream
from qe_common import valid_qe, shrink_request


def valid(inp):
    try:
        nn = inp["nodes"]
        if nn < 1 or not (0 <= inp["own"] < nn) or not inp["hist"]:
            return False
        if len(set(inp["backends"])) != len(inp["backends"]) or any(b == "" for b in inp["backends"]):
            return False
        for h in inp["hist"]:
            if len(h) != nn or not h[inp["own"]]:
                return False
        return True
    except (KeyError, TypeError):
        return False


def valid_member(inp):
    """first round: exactly one node answers with our identifier; one reply per node in every round; distinct non-empty backends and identifiers"""
    try:
        nn, me = inp["nodes"], inp["own_id"]
        if nn < 1 or not inp["hist"] or not me:
            return False
        if len(set(inp["backends"])) != len(inp["backends"]) or any(b == "" for b in inp["backends"]):
            return False
        for h in inp["hist"]:
            if len(h) != nn:
                return False
            for r in h:
                if r["kind"] not in ("none", "garbage", "pong") or (r["kind"] == "pong" and not r.get("ident")):
                    return False
        first = [i for i, r in enumerate(inp["hist"][0]) if r["kind"] == "pong" and r["ident"] == me]
        if len(first) != 1:
            return False
        # a failing ping waits for the heartbeat timeout, and in the first round it must not be our own node
        if sum(1 for h in inp["hist"] for r in h if r["kind"] == "none") > 12:
            return False
        # identifiers of two different nodes never coincide
        owner = {}
        for h in inp["hist"]:
            for i, r in enumerate(h):
                if r["kind"] == "pong":
                    if owner.setdefault(r["ident"], i) != i:
                        return False
        return True
    except (KeyError, TypeError):
        return False


def classify_cluster(inp):
    """a request that needs a backend held by another node takes the distributed code path
    (was the class of known finding D22 until the 14 fix: commits 4ad91fb..add3332; kept for the histogram)"""
    try:
        mine = set(inp["cluster"][0] or [])
        listed = None
        for line in inp["lines"][1:]:
            head, _, arg = line.partition(":")
            if head.strip().lower() == "backends":
                listed = arg.split()
        if listed is None or len(listed) == 0:
            return "distributed_query" if len(inp["cluster"]) > 1 else None
        if any(b not in mine for b in listed):
            return "distributed_query"
        return None
    except (KeyError, TypeError, IndexError):
        return None


def valid_cluster(inp):
    """the nodes' backend lists partition the backends of the dataset (a shrink must not drop a backend from one only)"""
    if not (valid_qe(inp) and isinstance(inp.get("cluster"), list) and len(inp["cluster"]) >= 2):
        return False
    try:
        assigned = [b for node in inp["cluster"] for b in (node or [])]
        keys = [b["key"] for b in inp["ds"]["backends"]]
        return sorted(assigned) == sorted(keys)
    except (KeyError, TypeError):
        return False


PROP = Prop(
    pid="C18",
    coq_props="theories/C18/Props.v",
    coq_run=["theories/C18/Run.v", "theories/C18/RunM.v", "theories/QE/Run.v", "theories/C18/RunQ.v"],
    streams=[Stream("assign", "c18assign", n_quick=150, n_thorough=3000, valid=valid,
                    what="Nodes.redistribute/updateBackends/IsOurBackend on real Nodes and Peer objects"),
             Stream("member", "c18member", n_quick=80, n_thorough=1500, valid=valid_member, timeout=600,
                    what="Nodes.checkNodeAvailability/sendPing/getOnlineNodes on a real Nodes object pinging scripted partner nodes over HTTP "
                         "(all on one ip address, ports differ); expected = C18/Member.v round by round"),
             Stream("cluster", "qe", n_quick=200, n_thorough=2000, shards_thorough=4, valid=valid_cluster,
                    shrinker=shrink_request, extra_args=["--profile", "c18"],
                    what="2-3 in-process lmd nodes connected through their real HTTP /query endpoint, request sent to node 0; "
                         "expected = the query-engine model's answer for a single lmd holding all backends")],
    trusted_base=[
        "Coq 8.16.1 kernel, vm_compute (cases evaluation and the non-vacuity Example); no native_compute",
        "axioms: none (Print Assumptions: closed under the global context, captured per run)",
        "correspondence harness (Go, harness/inpkg/c18_assign.go) and the cases-file emitter",
        "correspondence harness harness/inpkg/c18_member.go (scripted partner nodes answering the real HTTP ping)",
        "modelled, not verified: heartbeat timing (a ping that fails or exceeds the heartbeat timeout is the model's NoReply; the loop interval is not modelled), "
        "the first ping round is assumed to identify this node (nodes.go panics otherwise), sub-peers of federated backends",
    ],
    assumptions=[
        "all nodes see the same membership set (each computes the same pure function of it)",
        "configured backend ids are non-empty and distinct (hypotheses of the theorems)",
    ],
    gen=True,
)
