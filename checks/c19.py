import copy
import itertools

from runner import Prop, Stream

import c02


INSTANCE_COLS = {"lmd_last_cache_update", "localtime", "peer_section", "peer_addr", "peer_status", "peer_bytes_send", "peer_bytes_received",
                 "peer_queries", "peer_last_error", "peer_last_update", "peer_last_online", "peer_response_time", "configtool", "thruk",
                 "host_lmd_last_cache_update", "service_lmd_last_cache_update"}


def valid(inp):
    """1..3 well-formed backends (C02's input shape, no malformed reply classes, exactly one status row),
    one name per backend, queries are single GET requests"""
    try:
        bks = inp["backends"]
        if not (1 <= len(bks) <= 3) or len(inp["names"]) != len(bks):
            return False
        if any((not isinstance(n, str)) or n == "" for n in inp["names"]):
            return False
        for b in bks:
            if not c02.valid(b) or b.get("short") is not None:
                return False
            status = [t for t in b["tables"] if t["name"] == "status"][0]
            if len(status["rows"]) != 1:
                return False
            # consistent data: services, comments and downtimes name existing hosts (a filter on host_custom_variables of
            # an object without host takes lmd down: C09's finding, not this property's)
            hosts = [t for t in b["tables"] if t["name"] == "hosts"][0]
            names = set(r[hosts["cols"].index("name")] for r in hosts["rows"])
            for tn in ("services", "comments", "downtimes"):
                tab = [t for t in b["tables"] if t["name"] == tn][0]
                hi = tab["cols"].index("host_name")
                if any(r[hi] not in names for r in tab["rows"]):
                    return False
        for q in inp["queries"]:
            if not (isinstance(q, str) and q.startswith("GET ") and q.endswith("\n\n") and q.count("\n\n") == 1):
                return False
            lines = q.rstrip("\n").split("\n")
            # a request without Columns:/Stats: answers every column, also the instance columns (timestamps of the
            # answering process) that legitimately differ between two daemons
            if not any(l.startswith("Columns:") or l.startswith("Stats:") for l in lines[1:]):
                return False
            words = set(q.replace("\n", " ").split(" "))
            if words & INSTANCE_COLS or lines[0].strip() in ("GET sites", "GET backends", "GET columns", "GET tables", "GET log"):
                return False
        if len(inp.get("optimize", [])) > len(inp["queries"]):
            return False
        return True
    except (KeyError, TypeError, AttributeError, IndexError):
        return False


def shrinker(inp):
    """fewer queries, fewer backends, then C02's structural reductions inside one backend"""
    qs = inp["queries"]
    opt = list(inp.get("optimize", [])) + [False] * len(qs)
    if len(qs) > 1:
        for i in range(len(qs)):
            c = copy.deepcopy(inp)
            c["queries"], c["optimize"] = [qs[i]], [opt[i]]
            yield c
        c = copy.deepcopy(inp)
        c["queries"], c["optimize"] = [], []
        yield c
    if len(inp["backends"]) > 1:
        for i in range(len(inp["backends"])):
            c = copy.deepcopy(inp)
            c["backends"], c["names"] = [inp["backends"][i]], [inp["names"][i]]
            yield c
    for i, b in enumerate(inp["backends"]):
        for sb in itertools.islice(c02.shrinker(b), 120):
            c = copy.deepcopy(inp)
            c["backends"][i] = sb
            yield c
    for i, q in enumerate(qs):
        lines = q.rstrip("\n").split("\n")
        for j in range(1, len(lines)):
            c = copy.deepcopy(inp)
            c["queries"][i] = "\n".join(lines[:j] + lines[j + 1:]) + "\n\n"
            yield c


PROP = Prop(
    pid="C19", gen_files=["Export.v"],
    coq_props="theories/C19/Props.v",
    coq_run=["theories/C19/Run.v"],
    streams=[Stream("c19snapshot", "c19snapshot", n_quick=12, n_thorough=160, shards_thorough=4, valid=valid, shrinker=shrinker,
                    what="daemon A: one connection per generated backend (scripted backends of different flavours), the real Exporter.Export "
                         "(NewPeer + InitAllTables + exportPeers) writes a tarball under /verif/work/c19; daemon B: initializePeersWithImport "
                         "from that tarball; 18 queries (12 generated of the C01/C05/C06 kind + 6 fixed on cross-table virtual columns) to both "
                         "through NewRequest/NewResponse, canonicalised answers must be identical; tarball file list and header rows vs the "
                         "model's export; B's answer to a GET with all modelled columns on every table vs query_table (import (export (load delivered)))")],
    trusted_base=[
        "Coq 8.16.1 kernel, vm_compute (cases evaluation, the generated obligations, the non-vacuity Example); no native_compute",
        "axioms: none (Print Assumptions: closed under the global context, captured per run)",
        "translator: `lmdverif gen` prints Gen/Schema.v from Objects.Tables and Gen/Export.v from Exporter.isExportColumn (every column, "
        "peer with all / without flags) on every run; C19_export_rule, C19_observable_exported_or_recomputed and C19_schema_obligations are "
        "re-proved against them",
        "correspondence harness harness/inpkg/c19_snapshot.go (+ c02_init.go generator and wire wrapper, qe_query.go request generator, "
        "qe_run.go answer canonicaliser: rows compared as multisets, as sequences for sorted single-backend queries), c19_gen.go dumper",
        "modelled, not verified: archive/tar + gzip, jsoniter output and djson input of the snapshot files (the cell encoding is modelled as "
        "enc / coerce and proved to round trip; the byte level is C10's), the virtual sites/backends table and backends.json "
        "(identity, flags and status of the peer are compared by the stream; addr, counters and timestamps are instance state), "
        "float64 exactness of stored numbers",
    ],
    assumptions=[
        "the exporting store is well-formed (store_wfb: exactly the exportable local columns, one well-typed cell each, no raw control "
        "bytes in what is written) - what InitAllTables / an import produce; evaluated on every loaded store by the stream, not proved for load in general",
        "columns that show state of the answering lmd process are not part of the claim: lmd_last_cache_update, localtime, status.peer_* "
        "(except key/name), configtool, thruk (instance_col in Props.v)",
        "all backends of the snapshot were up when it was written (a down peer exports no tables)",
        "lmd runs without -debug-deadlock (exportPeers re-enters PeerMapLock.RLock; the detector would abort the export)",
    ],
    gen=True,
)
