import re

from runner import Prop, Stream

NAME = re.compile(r"^[A-Za-z0-9_-]{1,24}$")
STR_KEYS = ("id", "name", "section", "auth", "remote_name", "proxy", "tlscertificate", "tlskey", "tlsca", "tlsservername")
LIST_KEYS = ("source", "fallback")
INT_KEYS = ("noconfigtool", "tlsskipverify")
ALL_KEYS = set(STR_KEYS + LIST_KEYS + INT_KEYS + ("flags",))


def plain(text):
    return isinstance(text, str) and len(text) <= 60 and all(ord(ch) >= 0x20 and ord(ch) != 0x7f for ch in text)


def valid_conn(conn):
    if not isinstance(conn, dict) or not set(conn) <= ALL_KEYS or "id" not in conn or "name" not in conn:
        return False
    for key in STR_KEYS:
        if key in conn and not plain(conn[key]):
            return False
    for key in LIST_KEYS:
        val = conn.get(key) or []
        if not (isinstance(val, list) and all(isinstance(x, str) and NAME.match(x) for x in val)):
            return False
    flags = conn.get("flags") or []
    if not (isinstance(flags, list) and all(plain(x) for x in flags)):
        return False
    for key in INT_KEYS:
        if key in conn and conn[key] not in (0, 1):
            return False
    return True


def valid(inp):
    """a case is a non-empty list of configurations; listener and source
    names are symbolic (file names below the socket directory)"""
    try:
        steps = inp["steps"]
        if not isinstance(steps, list) or not steps or len(steps) > 12:
            return False
        for cfg in steps:
            if not isinstance(cfg, dict) or set(cfg) != {"listen", "conns"}:
                return False
            listen, conns = cfg["listen"], cfg["conns"]
            if listen is None:
                listen = []
            if conns is None:
                conns = []
            if not isinstance(listen, list) or not all(isinstance(x, str) and NAME.match(x) for x in listen):
                return False
            if len(set(listen)) != len(listen):
                return False  # duplicate listener addresses are outside the model (notes/C20.md)
            if not isinstance(conns, list) or not all(valid_conn(c) for c in conns):
                return False
            # shrinking must not turn a case into one of a configuration the daemon rejects
            # (generated terminal cases of that kind are simply not shrunk)
            if not listen or not conns or any(not c.get("source") for c in conns):
                return False
            if len(set(c["id"] for c in conns)) != len(conns):
                return False
        return True
    except (KeyError, TypeError):
        return False


def valid_busy(inp):
    """stream busy: exactly a start configuration and one reload, the client's listener (first of the start
    configuration) in both, hang = symbolic source names"""
    if not valid(inp) or len(inp["steps"]) != 2:
        return False
    hang = inp.get("hang") or []
    if not (isinstance(hang, list) and all(isinstance(x, str) and NAME.match(x) for x in hang)):
        return False
    if inp["steps"][0]["listen"][0] not in inp["steps"][1]["listen"]:
        return False
    return True


def classify_busy(inp):
    """(repaired by /repo 77a7b2d, no longer a known-finding class) the reload REMOVES a connection whose peer waits for its backend
    (removal pass of initializePeers stops the peer while it holds PeerMapLock)"""
    try:
        hang = set(inp.get("hang") or [])
        steps = inp["steps"]
        if len(steps) != 2:
            return None
        after = set(c["id"] for c in steps[1]["conns"])
        for conn in steps[0]["conns"]:
            if conn.get("source") and conn["source"][0] in hang and conn["id"] not in after:
                return "reload_removes_busy_backend"
    except (KeyError, TypeError, IndexError):
        pass
    return None


def classify_order(inp):
    """(repaired by /repo 2efe383, no longer a known-finding class) the rows of the sites table are not in configuration order (any case with two backends)"""
    try:
        if any(len(cfg["conns"]) >= 2 for cfg in inp["steps"]):
            return "sites_row_order"
    except (KeyError, TypeError):
        pass
    return None


PROP = Prop(
    pid="C20",
    coq_props="theories/C20/Props.v",
    coq_run=["theories/C20/Run.v", "theories/C20/Run2.v", "theories/C20/Run3.v", "theories/C20/Run4.v"],
    streams=[Stream("reload", "c20reload", n_quick=150, n_thorough=2500, valid=valid,
                    what="real Daemon.mainLoop driven by a TOML config file and SIGHUP through mainSignalChannel; "
                         "observed with GET sites over every unix listener plus object identity of peers and listeners"),
             Stream("serve", "c20serve", n_quick=45, n_thorough=900, valid=valid,
                    what="same driver while a unix socket client keeps sending GET sites over a listener that is in every "
                         "configuration; every answer must be explained by the model states its lifetime overlaps "
                         "(schedule dependent: exercised, not proved)"),
             Stream("sources", "c20sources", n_quick=40, n_thorough=600, valid=valid,
                    what="same driver, every source / fallback address a scripted backend of its own whose objects name it and their "
                         "generation; edits mostly on the list attributes (source / fallback / flags permuted, extended, shortened); "
                         "observed with GET sites (addr = primary address, status) and GET hosts (whose objects, how old) plus the request "
                         "logs of the scripted backends: recreated iff the connection differs as the file spells it"),
             Stream("order", "c20order", n_quick=12, n_thorough=100, valid=valid,
                    what="same driver and backends, judged only for the order of the rows of the sites table = configuration order"),
             Stream("busy", "c20busy", n_quick=14, n_thorough=150, valid=valid_busy,
                    what="one or two connections to a scripted backend that accepts the request and does not answer (NetTimeout 15 s): "
                         "SIGHUP while their peers wait; the reload changes / removes / keeps the busy connection; two clients send GET "
                         "sites with a 3 s limit while the reload waits: every answer in time and explained by the states before / after "
                         "(schedule dependent: exercised, not proved)")],
    trusted_base=[
        "Coq 8.16.1 kernel, vm_compute (cases evaluation and the non-vacuity Example); no native_compute",
        "axioms: none (Print Assumptions: closed under the global context, captured per run)",
        "correspondence harness (Go, harness/inpkg/c20_reload.go): config file writer, unix socket client, "
        "pointer-identity bookkeeping, cache token written into Peer.bytesReceived, cases-file emitter",
        "modelled, not verified: Go scheduler (what a client sees *while* initializePeers runs), net/unix sockets, "
        "BurntSushi/toml (Connection.Equals = structural equality of the decoded block), peer update loop and "
        "backend protocol (backends are sockets where nothing listens), cluster mode (Nodes with more than one address), "
        "HTTP(S)/TLS listeners and http sources",
    ],
    assumptions=[
        "histories consist of accepted configurations (cfg_ok: a listener, a connection, distinct ids, a source per "
        "connection, distinct listener addresses); other configurations end the process (C20_invalid_config_exits)",
        "one reload is an atomic step of the model; reloads do not overlap (mainLoop is single threaded)",
        "stream busy: 'in time' = within 3000 ms per GET sites answer (the pinned tree answers in 1-5 ms while the reload waits; "
        "a reload that keeps clients waiting for a busy peer does so until the backend request ends, here >= 3 s, up to NetTimeout)",
        "stream sources: go-deadlock switched off as in a daemon started without -debug-deadlock (notes/C20.md F5)",
        "an explicit empty list (`flags = []`) and an absent key are the same definition (not generated: "
        "Connection.Equals distinguishes them, see notes/C20.md)",
    ],
    gen=False,
)
