import re

from runner import Prop, Stream

NAME = re.compile(r"^[A-Za-z0-9_-]{1,24}$")
STR_KEYS = ("id", "name", "section", "auth", "remote_name")
LIST_KEYS = ("source", "fallback")
INT_KEYS = ("noconfigtool", "tlsskipverify")
ALL_KEYS = set(STR_KEYS + LIST_KEYS + INT_KEYS + ("flags",))


def plain(text):
    return isinstance(text, str) and len(text) <= 60 and all(ord(ch) >= 0x20 and ord(ch) != 0x7f for ch in text)


def valid_conn(conn):
    if not isinstance(conn, dict) or not set(conn) <= ALL_KEYS or "id" not in conn or "name" not in conn:
        return False
    for key in STR_KEYS:
        if key in conn and not plain(conn[key]):
            return False
    for key in LIST_KEYS:
        val = conn.get(key) or []
        if not (isinstance(val, list) and all(isinstance(x, str) and NAME.match(x) for x in val)):
            return False
    flags = conn.get("flags") or []
    if not (isinstance(flags, list) and all(plain(x) for x in flags)):
        return False
    for key in INT_KEYS:
        if key in conn and conn[key] not in (0, 1):
            return False
    return True


def valid(inp):
    """a case is a non-empty list of configurations; listener and source
    names are symbolic (file names below the socket directory)"""
    try:
        steps = inp["steps"]
        if not isinstance(steps, list) or not steps or len(steps) > 12:
            return False
        for cfg in steps:
            if not isinstance(cfg, dict) or set(cfg) != {"listen", "conns"}:
                return False
            listen, conns = cfg["listen"], cfg["conns"]
            if listen is None:
                listen = []
            if conns is None:
                conns = []
            if not isinstance(listen, list) or not all(isinstance(x, str) and NAME.match(x) for x in listen):
                return False
            if len(set(listen)) != len(listen):
                return False  # duplicate listener addresses are outside the model (notes/C20.md)
            if not isinstance(conns, list) or not all(valid_conn(c) for c in conns):
                return False
            # shrinking must not turn a case into one of a configuration the daemon rejects
            # (generated terminal cases of that kind are simply not shrunk)
            if not listen or not conns or any(not c.get("source") for c in conns):
                return False
            if len(set(c["id"] for c in conns)) != len(conns):
                return False
        return True
    except (KeyError, TypeError):
        return False


PROP = Prop(
    pid="C20",
    coq_props="theories/C20/Props.v",
    coq_run=["theories/C20/Run.v", "theories/C20/Run2.v"],
    streams=[Stream("reload", "c20reload", n_quick=150, n_thorough=2500, valid=valid,
                    what="real Daemon.mainLoop driven by a TOML config file and SIGHUP through mainSignalChannel; "
                         "observed with GET sites over every unix listener plus object identity of peers and listeners"),
             Stream("serve", "c20serve", n_quick=45, n_thorough=900, valid=valid,
                    what="same driver while a unix socket client keeps sending GET sites over a listener that is in every "
                         "configuration; every answer must be explained by the model states its lifetime overlaps "
                         "(schedule dependent: exercised, not proved)")],
    trusted_base=[
        "Coq 8.16.1 kernel, vm_compute (cases evaluation and the non-vacuity Example); no native_compute",
        "axioms: none (Print Assumptions: closed under the global context, captured per run)",
        "correspondence harness (Go, harness/inpkg/c20_reload.go): config file writer, unix socket client, "
        "pointer-identity bookkeeping, cache token written into Peer.bytesReceived, cases-file emitter",
        "modelled, not verified: Go scheduler (what a client sees *while* initializePeers runs), net/unix sockets, "
        "BurntSushi/toml (Connection.Equals = structural equality of the decoded block), peer update loop and "
        "backend protocol (backends are sockets where nothing listens), cluster mode (Nodes with more than one address), "
        "HTTP(S)/TLS listeners and http sources",
    ],
    assumptions=[
        "histories consist of accepted configurations (cfg_ok: a listener, a connection, distinct ids, a source per "
        "connection, distinct listener addresses); other configurations end the process (C20_invalid_config_exits)",
        "one reload is an atomic step of the model; reloads do not overlap (mainLoop is single threaded)",
        "an explicit empty list (`flags = []`) and an absent key are the same definition (not generated: "
        "Connection.Equals distinguishes them, see notes/C20.md)",
    ],
    gen=False,
)
