"""shared bits of the query-engine properties (C01, C04-C08, C17)"""

QE_TRUSTED = [
    "Coq 8.16.1 kernel, vm_compute (cases evaluation, non-vacuity Examples); no native_compute",
    "axioms: none (Print Assumptions captured per run)",
    "translator: `lmdverif gen` prints Gen/Schema.v from Objects.Tables on every run; the model resolves every column through it",
    "correspondence harness (harness/inpkg/qe_*.go): dataset generator, snapshot writer, response parser/canonicaliser, cases emitter",
    "modelled, not verified: Go regexp engine (model has its own matcher for the generated RE2 subset, agreement checked by the stream), "
    "strings.ToLower/EqualFold outside ASCII+Latin-1, float64 arithmetic (3-decimal fixed point in the model), jsoniter output encoding (decoded by the harness), sort.Sort (model: any stable sort, results compared modulo ties)",
]

QE_ASSUMPTIONS = [
    "datasets are consistent livestatus data: unique primary keys, services reference existing hosts, group member lists equal the objects naming the group; stores are in primary-key order (what InitAllTables and the exporter produce)",
    "request texts stay inside the modelled header fragment (Wait* headers, InterfaceList filters, {n,m} and inner anchors in regexes are reported as skipped, never as agreement)",
]


def valid_qe(inp):
    try:
        if not (isinstance(inp["lines"], list) and len(inp["lines"]) >= 1 and inp["lines"][0].startswith("GET ")):
            return False
        bks = inp["ds"]["backends"]
        if not isinstance(bks, list) or len(bks) < 1:
            return False
        for b in bks:
            if len(b["tables"]) != 11 or not isinstance(b["key"], str) or not b["key"]:
                return False
            for t in b["tables"]:
                if any(len(r) != len(t["cols"]) for r in t["rows"]):
                    return False
                if t["name"] == "status" and len(t["rows"]) != 1:
                    return False
        return True
    except (KeyError, TypeError, AttributeError):
        return False


# ---- structure aware shrinking of request header lines ------------------------

def _parse_stack(lines):
    """splits header lines into (other headers, filter forest, stats forest).
    a node is ['leaf', line, neg] or ['grp', op, [children], neg]"""
    other, fstack, sstack = [], [], []
    for line in lines:
        head, _, arg = line.partition(":")
        h, arg = head.strip().lower(), arg.strip()
        if h == "filter":
            fstack.append(["leaf", line, False])
        elif h == "stats":
            sstack.append(["leaf", line, False])
        elif h in ("and", "or", "statsand", "statsor"):
            stack = fstack if h in ("and", "or") else sstack
            try:
                n = int(arg)
            except ValueError:
                return None
            if n <= 0 or n > len(stack):
                return None
            kids = stack[-n:]
            del stack[-n:]
            stack.append(["grp", head.strip(), kids, False])
        elif h == "negate":
            if not fstack:
                return None
            fstack[-1][-1] = True
        elif h == "statsnegate":
            if not sstack:
                return None
            sstack[-1][-1] = True
        else:
            other.append(line)
    return other, fstack, sstack


def _emit(node, stats):
    out = []
    if node[0] == "leaf":
        out.append(node[1])
    else:
        for k in node[2]:
            out += _emit(k, stats)
        out.append("%s: %d" % (node[1], len(node[2])))
    if node[-1]:
        out.append("StatsNegate:" if stats else "Negate:")
    return out


def _variants(node):
    """structurally smaller versions of a node"""
    if node[-1]:
        yield node[:-1] + [False]
    if node[0] == "grp":
        for k in node[2]:
            yield k
            if node[-1]:
                yield k[:-1] + [not k[-1]]
        if len(node[2]) > 1:
            for i in range(len(node[2])):
                yield ["grp", node[1], node[2][:i] + node[2][i + 1:], node[-1]]
        for i, k in enumerate(node[2]):
            for v in _variants(k):
                yield ["grp", node[1], node[2][:i] + [v] + node[2][i + 1:], node[-1]]


def shrink_request(inp):
    parsed = _parse_stack(inp["lines"][1:])
    if not parsed:
        return
    other, fst, sst = parsed

    def build(f, s, o):
        lines = [inp["lines"][0]]
        cols = [l for l in o if l.lower().startswith("columns:")]
        rest = [l for l in o if not l.lower().startswith("columns:")]
        lines += cols
        for n in f:
            lines += _emit(n, False)
        for n in s:
            lines += _emit(n, True)
        lines += rest
        d = dict(inp)
        d["lines"] = lines
        return d

    for i in range(len(fst)):
        yield build(fst[:i] + fst[i + 1:], sst, other)
    for i in range(len(sst)):
        if len(sst) > 1:
            yield build(fst, sst[:i] + sst[i + 1:], other)
    for i, n in enumerate(fst):
        for v in _variants(n):
            yield build(fst[:i] + [v] + fst[i + 1:], sst, other)
    for i, n in enumerate(sst):
        for v in _variants(n):
            yield build(fst, sst[:i] + [v] + sst[i + 1:], other)
    for i in range(len(other)):
        yield build(fst, sst, other[:i] + other[i + 1:])
    # fewer backends / tables / rows
    ds = inp["ds"]
    for bi, bk in enumerate(ds["backends"]):
        if len(ds["backends"]) > 1:
            d = dict(inp)
            d["ds"] = {"backends": ds["backends"][:bi] + ds["backends"][bi + 1:]}
            yield d
        for ti, t in enumerate(bk["tables"]):
            if t["name"] in ("comments", "downtimes", "services") and t["rows"]:
                nb = dict(bk)
                nt = dict(t)
                nt["rows"] = []
                nb["tables"] = bk["tables"][:ti] + [nt] + bk["tables"][ti + 1:]
                d = dict(inp)
                d["ds"] = {"backends": ds["backends"][:bi] + [nb] + ds["backends"][bi + 1:]}
                yield d
