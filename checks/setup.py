"""MANIFEST.setup_cmd: build the harness, regenerate Gen/, full Coq build."""
import vcheck as V


def main():
    with V.Lock("global"):
        ok, out = V.build_harness()
        if not ok:
            print(out)
            return 1
        ok, out = V.regen()
        if not ok:
            print(out)
            return 1
        ok, out = V.coq_make([])
        if not ok:
            print(out[-6000:])
            return 1
        bad = V.gate()
        if bad:
            print("forbidden vernacular: %s" % bad)
            return 1
    print("setup ok")
    return 0
