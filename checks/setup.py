"""MANIFEST.setup_cmd: build the harness, regenerate Gen/, build the Coq files of every claimed property."""
import importlib
import json
import os

import vcheck as V


def main():
    manifest = json.load(open(os.path.join(V.VERIF, "MANIFEST.json")))
    targets, vfiles = [], []
    for chk in manifest["checks"]:
        mod = importlib.import_module(chk["property_id"].lower())
        prop = mod.PROP
        for v in [prop.coq_props] + prop.coq_run + prop.extra_targets:
            if v not in vfiles:
                vfiles.append(v)
                targets.append(v[:-2] + ".vo")
    with V.Lock("global"):
        ok, out = V.build_harness()
        if not ok:
            print(out)
            return 1
        ok, out = V.regen()
        if not ok:
            print(out)
            return 1
        ok, out = V.coq_make(targets)
        if not ok:
            print(out[-6000:])
            return 1
        bad = V.gate(vfiles)
        if bad:
            print("forbidden vernacular: %s" % bad)
            return 1
    print("setup ok: %d coq targets" % len(targets))
    return 0
