(** Strings of the model: lists of Unicode code points ([N]).
    The harness decodes the implementation's UTF-8 byte strings into code
    points before emitting cases (an invalid byte [b] is emitted as
    [0x110000 + b]).  Go compares strings bytewise; UTF-8 preserves code point
    order, so [str_ltb] below is the order the implementation uses. *)
From Coq Require Export List NArith ZArith Bool Lia.
From Coq Require String Ascii.
Export ListNotations.
Export String.StringSyntax.
Global Open Scope string_scope.
Global Open Scope list_scope.

Definition str := list N.

(** ASCII literals: [s "host_name"] *)
Definition s (x : String.string) : str := map Ascii.N_of_ascii (String.list_ascii_of_string x).

Fixpoint str_eqb (a b : str) : bool :=
  match a, b with
  | [], [] => true
  | x :: a', y :: b' => N.eqb x y && str_eqb a' b'
  | _, _ => false
  end.

Lemma str_eqb_spec a b : reflect (a = b) (str_eqb a b).
Proof.
  revert b; induction a as [|x a IH]; intros [|y b]; cbn [str_eqb];
    try (constructor; congruence).
  destruct (N.eqb_spec x y) as [->|Hne]; cbn [andb].
  - destruct (IH b) as [->|Hne]; constructor; congruence.
  - constructor; congruence.
Qed.

Lemma str_eqb_eq a b : str_eqb a b = true <-> a = b.
Proof. destruct (str_eqb_spec a b); split; congruence. Qed.

Lemma str_eqb_refl a : str_eqb a a = true.
Proof. apply str_eqb_eq; reflexivity. Qed.

Lemma str_eqb_neq a b : str_eqb a b = false <-> a <> b.
Proof. destruct (str_eqb_spec a b); split; congruence. Qed.

Definition str_eq_dec (a b : str) : {a = b} + {a <> b}.
Proof. destruct (str_eqb_spec a b); [left|right]; assumption. Defined.

(** lexicographic order on code points = Go's bytewise order on UTF-8 *)
Fixpoint str_ltb (a b : str) : bool :=
  match a, b with
  | _, [] => false
  | [], _ :: _ => true
  | x :: a', y :: b' => if N.ltb x y then true else if N.eqb x y then str_ltb a' b' else false
  end.

Definition str_leb (a b : str) : bool := negb (str_ltb b a).

Definition mem_str (x : str) (l : list str) : bool := existsb (str_eqb x) l.

Lemma mem_str_In x l : mem_str x l = true <-> In x l.
Proof.
  unfold mem_str; rewrite existsb_exists; split.
  - intros [y [Hy He]]; apply str_eqb_eq in He; subst; assumption.
  - intros H; exists x; split; [assumption|apply str_eqb_refl].
Qed.
