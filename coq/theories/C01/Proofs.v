(** C01: a GET returns exactly the rows that satisfy its filter. *)
From LMD Require Import QE.Engine QE.FilterProofs.

Lemma row_selected_is_spec schema cfg rq bk td r :
  row_selected schema cfg rq bk td r = row_selected_spec schema cfg rq bk td r.
Proof.
  unfold row_selected, row_selected_spec. f_equal.
  apply forallb_ext_Forall. apply Forall_forall; intros f _. apply match_filter_top.
Qed.

Lemma filter_ext_in {A} (f g : A -> bool) (l : list A) :
  (forall x, f x = g x) -> filter f l = filter g l.
Proof. intros H; induction l as [|x l IH]; cbn; [reflexivity|]. rewrite H, IH; reflexivity. Qed.

(** the reference result: per contributing backend, in backend order, the rows
    whose filter expression is literally true and which the user may see *)
Definition reference_rows (schema : list tschema) (cfg : config) (ds : dataset) (rq : request) : list (list value) :=
  flat_map (fun bk =>
              match table_data bk (rq_table rq) with
              | Some td => map (out_row schema rq bk td) (filter (row_selected_spec schema cfg rq bk td) (td_rows td))
              | None => []
              end)
           (filter (contributes rq) (selected_backends ds rq)).

Lemma hits_of_out schema cfg rq bk :
  map h_out (hits_of schema cfg rq bk) =
  match table_data bk (rq_table rq) with
  | Some td => map (out_row schema rq bk td) (filter (row_selected_spec schema cfg rq bk td) (td_rows td))
  | None => []
  end.
Proof.
  unfold hits_of. destruct (table_data bk (rq_table rq)) as [td|]; [|reflexivity].
  rewrite map_map; cbn [h_out].
  rewrite (filter_ext_in _ (row_selected_spec schema cfg rq bk td)); [reflexivity|].
  intros r; apply row_selected_is_spec.
Qed.

Lemma spec_hits_out schema cfg ds rq :
  map h_out (spec_hits schema cfg ds rq) = reference_rows schema cfg ds rq.
Proof.
  unfold spec_hits, reference_rows.
  induction (filter (contributes rq) (selected_backends ds rq)) as [|bk bks IH]; [reflexivity|].
  cbn [map concat flat_map]. rewrite map_app, IH, hits_of_out; reflexivity.
Qed.

Lemma cut_none {A} (l : list A) : cut None l = l.
Proof. reflexivity. Qed.

Lemma map_cut_none {A} (ls : list (list A)) : map (cut None) ls = ls.
Proof. induction ls as [|l ls IH]; cbn; [reflexivity|]. rewrite IH; reflexivity. Qed.

Lemma total_none rq (per : list (list hit)) :
  fold_right Nat.add 0%nat (map (fun h => backend_total rq None (length h)) per) = length (concat per).
Proof.
  induction per as [|h per IH]; [reflexivity|].
  cbn [map fold_right concat]. rewrite app_length, IH. unfold backend_total. reflexivity.
Qed.

(** without Sort, Limit and Offset the response rows are exactly the reference rows *)
Lemma data_result_plain schema cfg ds rq :
  rq_sort rq = [] -> rq_limit rq = None -> rq_offset rq = 0%Z ->
  map h_out (fst (data_result schema cfg ds rq)) = reference_rows schema cfg ds rq /\
  snd (data_result schema cfg ds rq) = length (reference_rows schema cfg ds rq).
Proof.
  intros Hs Hl Ho. unfold data_result, backend_limit. rewrite Hl, Ho.
  rewrite map_cut_none, total_none.
  assert (Hlt : Z.ltb (Z.of_nat (length (concat (map (hits_of schema cfg rq)
             (filter (contributes rq) (selected_backends ds rq)))))) 0 = false) by (apply Z.ltb_ge; lia).
  rewrite Hlt. cbn [fst snd]. unfold window, sort_hits. rewrite Hl, Ho, Hs. cbn [Z.to_nat skipn].
  split.
  - apply spec_hits_out.
  - rewrite <- spec_hits_out, map_length. reflexivity.
Qed.

(** values: a stored cell of a column the backend provides is returned unchanged *)
Lemma get_out_local schema bk t td r c v :
  c_store c = SLocal -> has_flag (b_flags bk) (c_opt c) = true ->
  cell td r (c_name c) = Some v ->
  get_out schema bk t td r c = v.
Proof.
  intros Hst Hfl Hc. unfold get_out. rewrite Hfl. cbn [negb]. rewrite Hst.
  unfold get_own. rewrite Hst. unfold get_local. rewrite Hc. reflexivity.
Qed.
