(** C01 — a GET query returns exactly the rows that satisfy its filter.
    Statements only; proofs in QE/FilterProofs.v and C01/Proofs.v. *)
From LMD Require Import QE.Engine QE.FilterProofs C01.Proofs.
From LMD Require Import Gen.Schema.

(** The evaluation strategy of the implementation (negation handed down through
    the tree, And/Or swapped) equals the literal reading of the expression: for
    every row, every expression, every nesting depth incl. double negation. *)
Theorem C01_match_filter_is_semantics :
  forall (x : rowctx) (f : filt) (negate : bool),
    match_filter x f negate = xorb negate (sem x f).
Proof. exact match_filter_sem. Qed.

(** For every dataset, configuration and parsed request without Sort/Limit/Offset
    the response consists of exactly the rows of the selected, available backends
    whose filter expressions are all true (and which the AuthUser may see), each
    once, in backend order; total_count is their number. *)
Theorem C01_get_exact :
  forall (schema : list tschema) (cfg : config) (ds : dataset) (rq : request),
    rq_sort rq = [] -> rq_limit rq = None -> rq_offset rq = 0%Z ->
    map h_out (fst (data_result schema cfg ds rq)) = reference_rows schema cfg ds rq /\
    snd (data_result schema cfg ds rq) = length (reference_rows schema cfg ds rq).
Proof. exact data_result_plain. Qed.

(** each returned value of a stored column equals the stored cell *)
Theorem C01_values :
  forall schema bk t td r c v,
    c_store c = SLocal -> has_flag (b_flags bk) (c_opt c) = true ->
    cell td r (c_name c) = Some v ->
    get_out schema bk t td r c = v.
Proof. exact get_out_local. Qed.

(** non-vacuity: a doubly negated nested expression on a two-backend dataset *)
Example C01_example :
  let h n st := [VStr n; VInt st] in
  let bk k rows := mkBackend k k 0 true [] [mkData (s "hosts") [s "name"; s "state"] rows] in
  let ds := [bk (s "a") [h (s "alpha") 0; h (s "Beta") 2]; bk (s "b") [h (s "alpha") 1]]%Z in
  match parse_request schema true
          [s "GET hosts"; s "Columns: name state peer_key"; s "Filter: name ~~ ALP"; s "Negate:";
           s "Filter: state = 2"; s "Or: 2"; s "Negate:"] with
  | Ok rq => map h_out (fst (data_result schema (mkCfg false true) ds rq))
             = [[VStr (s "alpha"); VInt 0; VStr (s "a")]; [VStr (s "alpha"); VInt 1; VStr (s "b")]]%Z
  | Err _ => False
  end.
Proof. vm_compute. reflexivity. Qed.

Print Assumptions C01_match_filter_is_semantics.
Print Assumptions C01_get_exact.
Print Assumptions C01_values.
