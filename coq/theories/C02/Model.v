(** C02: initial synchronisation stores the backend's objects faithfully.

    Transcribes, of pkg/lmd:
      resultset.go     NewResultSet (djson decoding + bytesToValidUTF8 repair of a
                       broken row), SortByPrimaryKey / ResultSetSorted.Less
      future.go        bytesToValidUTF8
      datastoreset.go  CreateObjectByType (row width check, sort, InsertData),
                       SetReferences, buildDowntimeCommentsList
      datastore.go     GetInitialColumns, InsertData / InsertItem (primary key index)
      datarow.go       UpdateValues, interface2string / 2stringlist / 2int8
                       (checkInt8Bounds) / 2int64 / 2float64 / 2int64list /
                       2servicememberlist / 2interfacelist, setLowerCaseCache,
                       DataRow.SetReferences, VirtualColMembersWithState,
                       VirtualColLastStateChangeOrder
      peer.go          InitAllTables / initTable / updateInitialStatus (status row)

    The store is the query engine's [backend] (QE/Value.v): one [tdata] per
    cached table whose columns are the fetched ones (schema order) plus, for
    hosts and services, the computed [comments] / [downtimes] id lists.
    String containers (zstd above 512 bytes), stringdedup and the string-list
    de-duplication are storage sharing only: the model stores the value. That
    they are the identity on what a client reads is what the stream checks. *)
From LMD Require Export Base.Str QE.SchemaTypes QE.Value QE.Text.
From LMD Require C12.Model.
From Coq Require Export Permutation Sorted.
Open Scope Z_scope.

(** ** what the backend delivers: JSON as decoded by djson *)
Inductive atom := ANull | AStr (x : str) | ANum (milli : Z).   (* numbers: three decimals *)
Inductive raw := RAtom (a : atom) | RList (l : list atom) | RList2 (l : list (list atom)).

(** *** strings of a reply row (resultset.go:30-63, future.go)
    A raw byte [b] of the reply that is no legal content of a JSON string - a
    byte outside any valid UTF-8 sequence, or a control byte (< 0x20) sent
    unescaped - is the code point [0x110000 + b]; an escaped control character
    (\u0001) is the plain code point. djson accepts the first kind and turns
    each such byte into U+FFFD; it rejects an unescaped control byte, then the
    WHOLE row is passed through bytesToValidUTF8, which replaces every run of
    raw control bytes, DEL and invalid bytes by one U+FFFD, and is decoded again. *)
Definition bad_byte (c : N) : bool := N.leb 1114112 c.
Definition raw_ctl (c : N) : bool := N.leb 1114112 c && N.ltb c 1114144.
Definition del (c : N) : bool := N.eqb c 127.
Definition fffd : N := 65533%N.

Definition lossy (x : str) : str := map (fun c => if bad_byte c then fffd else c) x.

Fixpoint repair_from (inv : bool) (x : str) : str :=
  match x with
  | [] => []
  | c :: r => if del c || bad_byte c
              then (if inv then repair_from true r else fffd :: repair_from true r)
              else c :: repair_from false r
  end.
Definition repair : str -> str := repair_from false.

Definition atom_map (f : str -> str) (a : atom) : atom := match a with AStr x => AStr (f x) | _ => a end.
Definition raw_map (f : str -> str) (r : raw) : raw :=
  match r with
  | RAtom a => RAtom (atom_map f a)
  | RList l => RList (map (atom_map f) l)
  | RList2 l => RList2 (map (map (atom_map f)) l)
  end.

Definition atom_dirty (a : atom) : bool := match a with AStr x => existsb raw_ctl x | _ => false end.
Definition raw_dirty (r : raw) : bool :=
  match r with
  | RAtom a => atom_dirty a
  | RList l => existsb atom_dirty l
  | RList2 l => existsb (existsb atom_dirty) l
  end.

Definition norm_row (row : list raw) : list raw :=
  map (raw_map (if existsb raw_dirty row then repair else lossy)) row.

(** *** typed coercions (datarow.go:945-1260) *)
Definition int8 (v : Z) : Z := if Z.leb (-128) v && Z.leb v 127 then v else 0.   (* checkInt8Bounds *)

(** interface2string: nil -> "", a number prints like fmt "%v" *)
Definition atom_str (a : atom) : str :=
  match a with AStr x => x | ANull => [] | ANum m => show_milli m end.
(** interface2int64: int64(float64) truncates towards zero; nil -> 0 *)
Definition atom_int (a : atom) : Z := match a with ANum m => Z.quot m 1000 | _ => 0 end.
(** fmt "%v" of an interface list element *)
Definition atom_text (a : atom) : str :=
  match a with AStr x => x | ANull => s "<nil>" | ANum m => show_milli m end.

Definition pair_of (l : list atom) : str * str :=
  match l with [a; b] => (atom_str a, atom_str b) | _ => ([], []) end.

Definition coerce (t : dtype) (r : raw) : value :=
  match t with
  | TStr | TStrLarge => VStr (match r with RAtom a => atom_str a | _ => [] end)
  | TInt => VInt (int8 (match r with RAtom a => atom_int a | _ => 0 end))
  | TInt64 => VInt (match r with RAtom a => atom_int a | _ => 0 end)
  | TFloat => VFloat (match r with RAtom (ANum m) => m | _ => 0 end)
  | TStrList =>
      VStrList (match r with
                | RList l => map atom_str l
                | RList2 l => map (fun _ => []) l
                | RAtom (ANum m) => if Z.eqb m 0 then [] else [show_milli m]   (* Icinga2: 0 = empty list *)
                | RAtom (AStr []) => []
                | RAtom (AStr x) => [x]
                | RAtom ANull => []
                end)
  | TInt64List =>
      VIntList (match r with RList l => map atom_int l | RList2 l => map (fun _ => 0) l | RAtom _ => [] end)
  | TSvcMemberList =>
      VPairs (match r with RList2 l => map pair_of l | RList l => map (fun _ => ([], [])) l | RAtom _ => [] end)
  | TIfaceList =>
      VRows (match r with RList2 l => map (map atom_text) l | RList l => map (fun a => [atom_text a]) l | RAtom _ => [] end)
  | TCustVar | TJSON => zero_value t
  end.

(** *** the column's range: where the coercion loses nothing *)
Definition whole (m : Z) : bool := Z.eqb (Z.rem m 1000) 0.
Definition max_exact : Z := 9007199254740992.                     (* 2^53: JSON numbers travel as float64 *)
Definition int64_ok (m : Z) : bool := whole m && Z.leb (Z.abs m) (max_exact * 1000).
Definition is_str (a : atom) : bool := match a with AStr _ => true | _ => false end.

Definition in_range (t : dtype) (r : raw) : bool :=
  match t, r with
  | (TStr | TStrLarge), RAtom (AStr _) => true
  | TInt, RAtom (ANum m) => whole m && Z.leb (-128000) m && Z.leb m 127000
  | TInt64, RAtom (ANum m) => int64_ok m
  | TFloat, RAtom (ANum _) => true
  | TStrList, RList l => forallb is_str l
  | TInt64List, RList l => forallb (fun a => match a with ANum m => int64_ok m | _ => false end) l
  | TSvcMemberList, RList2 l => forallb (fun p => match p with [AStr _; AStr _] => true | _ => false end) l
  | TSvcMemberList, RList [] => true
  | TIfaceList, RList2 _ => true
  | TIfaceList, RList [] => true
  | _, _ => false
  end.

(** the plain reading of a delivered value of the column's type (no clamping,
    no truncation, no special cases) *)
Definition natural (t : dtype) (r : raw) : value :=
  match t, r with
  | (TStr | TStrLarge), RAtom (AStr x) => VStr x
  | (TInt | TInt64), RAtom (ANum m) => VInt (m / 1000)
  | TFloat, RAtom (ANum m) => VFloat m
  | TStrList, RList l => VStrList (map (fun a => match a with AStr x => x | _ => [] end) l)
  | TInt64List, RList l => VIntList (map (fun a => match a with ANum m => m / 1000 | _ => 0 end) l)
  | TSvcMemberList, RList2 l =>
      VPairs (map (fun p => match p with [AStr a; AStr b] => (a, b) | _ => ([], []) end) l)
  | TIfaceList, RList2 l => VRows (map (map atom_text) l)
  | _, _ => zero_value t
  end.

(** ** one table *)

(** DataStore.GetInitialColumns: local columns that are fetched and whose flag the backend has *)
Definition fetched (flags : N) (c : column) : bool :=
  match c_store c, c_fetch c with
  | SLocal, FNone => false
  | SLocal, _ => has_flag flags (c_opt c)
  | _, _ => false
  end.
Definition initial_cols (flags : N) (t : tschema) : list column := filter (fetched flags) (t_cols t).

Definition coerce_row (cols : list column) (row : list raw) : list value :=
  map (fun p => coerce (c_type (fst p)) (snd p)) (combine cols (norm_row row)).

(** primary key values as compared by ResultSetSorted.Less: numbers as numbers,
    strings bytewise *)
Inductive kv := KI (z : Z) | KS (x : str).
Definition to_kv (v : value) : kv := match v with VInt z => KI z | VFloat z => KI z | _ => KS (as_str v) end.

Definition row_key (names pk : list str) (r : list value) : list kv :=
  map (fun k => to_kv (match index_of k names with Some i => nth i r (VStr []) | None => VStr [] end)) pk.

(** lexicographic comparison *)
Fixpoint lex {A} (cmp : A -> A -> comparison) (a b : list A) : comparison :=
  match a, b with
  | [], [] => Eq
  | [], _ :: _ => Lt
  | _ :: _, [] => Gt
  | x :: a', y :: b' => match cmp x y with Eq => lex cmp a' b' | c => c end
  end.
Definition str_cmp : str -> str -> comparison := lex N.compare.
Definition kv_cmp (a b : kv) : comparison :=
  match a, b with
  | KI x, KI y => Z.compare x y
  | KS x, KS y => str_cmp x y
  | KI _, KS _ => Lt
  | KS _, KI _ => Gt
  end.
Definition key_cmp : list kv -> list kv -> comparison := lex kv_cmp.
Definition key_leb (a b : list kv) : bool := match key_cmp a b with Gt => false | _ => true end.

(** a sorting function: anything that returns a sorted permutation (sort.Sort) *)
Definition sorter := (list value -> list kv) -> list (list value) -> list (list value).
Definition sorter_ok (srt : sorter) : Prop :=
  forall key l, Permutation (srt key l) l /\
                StronglySorted (fun a b => key_leb (key a) (key b) = true) (srt key l).

(** executable instance: insertion sort *)
Fixpoint insert_row (key : list value -> list kv) (x : list value) (l : list (list value)) : list (list value) :=
  match l with
  | [] => [x]
  | y :: r => if key_leb (key x) (key y) then x :: l else y :: insert_row key x r
  end.
Definition isort : sorter := fun key l => fold_right (insert_row key) [] l.

Definition load_table (srt : sorter) (flags : N) (t : tschema) (rows : list (list raw)) : option tdata :=
  let cols := initial_cols flags t in
  if forallb (fun r => Nat.eqb (length r) (length cols)) rows then
    let names := map c_name cols in
    let typed := map (coerce_row cols) rows in
    Some (mkData (t_name t) names
            (match t_pk t with [] => typed | pk => srt (row_key names pk) typed end))
  else None.

(** ** one backend *)
Record reply := mkReply { rp_table : str; rp_rows : list (list raw) }.

Definition stored (t : tschema) : bool := negb (t_passthrough t) && negb (t_virtual t).

Definition rows_of (replies : list reply) (t : tschema) : list (list raw) :=
  match find (fun r => str_eqb (rp_table r) (t_name t)) replies with
  | Some r => rp_rows r
  | None => []
  end.

Fixpoint load_tables (srt : sorter) (flags : N) (ts : list tschema) (replies : list reply) : option (list tdata) :=
  match ts with
  | [] => Some []
  | t :: rest =>
      match load_table srt flags t (rows_of replies t), load_tables srt flags rest replies with
      | Some td, Some tds => Some (td :: tds)
      | _, _ => None
      end
  end.

(** *** comment / downtime id lists (buildDowntimeCommentsList), through the
    accumulation C12 models and proves: rows in table order; a row with a
    service description goes to that service (if it exists), else to its host *)
Definition cell_str (td : tdata) (r : list value) (n : str) : str :=
  match cell td r n with Some (VStr x) => x | _ => [] end.
Definition cell_int (td : tdata) (r : list value) (n : str) : Z :=
  match cell td r n with Some (VInt z) => z | _ => 0 end.

Definition entries_of (td : tdata) : list C12.Model.entry :=
  map (fun r => C12.Model.mkE (Z.to_N (cell_int td r (s "id"))) (cell_str td r (s "host_name"))
                              (cell_str td r (s "service_description")) [] [] [])
      (td_rows td).

Definition host_names (td : tdata) : list str := map (fun r => cell_str td r (s "name")) (td_rows td).
Definition svc_keys (td : tdata) : list (str * str) :=
  map (fun r => (cell_str td r (s "host_name"), cell_str td r (s "description"))) (td_rows td).

Definition table_or_empty (tds : list tdata) (name : str) : tdata :=
  match find (fun td => str_eqb (td_table td) name) tds with
  | Some td => td
  | None => mkData name [] []
  end.

Definition zlist (x : option (list N)) : list Z := match x with Some l => map Z.of_N l | None => [] end.

Definition with_idlists (tds : list tdata) : list tdata :=
  let o := C12.Model.mkObjs (host_names (table_or_empty tds (s "hosts"))) (svc_keys (table_or_empty tds (s "services"))) in
  let ce := entries_of (table_or_empty tds (s "comments")) in
  let de := entries_of (table_or_empty tds (s "downtimes")) in
  let hc := C12.Model.build_h o ce in
  let hd := C12.Model.build_h o de in
  let sc := C12.Model.build_s o ce in
  let sd := C12.Model.build_s o de in
  map (fun td =>
         if str_eqb (td_table td) (s "hosts") then
           mkData (td_table td) (td_cols td ++ [s "comments"; s "downtimes"])
             (map (fun r => let h := cell_str td r (s "name") in
                            r ++ [VIntList (zlist (C12.Model.get_h h hc)); VIntList (zlist (C12.Model.get_h h hd))])
                  (td_rows td))
         else if str_eqb (td_table td) (s "services") then
           mkData (td_table td) (td_cols td ++ [s "comments"; s "downtimes"])
             (map (fun r => let k := (cell_str td r (s "host_name"), cell_str td r (s "description")) in
                            r ++ [VIntList (zlist (C12.Model.get_s k sc)); VIntList (zlist (C12.Model.get_s k sd))])
                  (td_rows td))
         else td) tds.

(** *** references (DataRow.SetReferences)
    [d.refs[table] = index[key]] stores a nil pointer for a key the referenced
    table does not have, and the following [_, ok := d.refs[table]] test then
    always succeeds: the "reference not found" error is unreachable. A dangling
    reference (the service of a host comment, but also a service whose host the
    backend did not deliver) loads, and its columns read as the empty value
    ([get_out]: [find_ref] = None). *)

(** error classes of InitAllTables *)
Definition e_width : N := 1%N.      (* "result set verification failed: len mismatch" *)
Definition e_status : N := 3%N.     (* "peered partner not ready yet": no status row *)

Inductive outcome := Loaded (b : backend) | Failed (e : N).

Definition load (srt : sorter) (schema : list tschema) (key name : str) (flags : N) (replies : list reply) : outcome :=
  match load_tables srt flags (filter stored schema) replies with
  | None => Failed e_width
  | Some tds =>
      match td_rows (table_or_empty tds (s "status")) with
      | [] => Failed e_status
      | _ =>
          Loaded (mkBackend key name flags true [] (with_idlists tds))
      end
  end.

(** ** reading back *)

(** hostgroups / servicegroups [members_with_state] (datarow.go:571-618); a member
    that does not exist leaves a JSON null *)
Definition members_with_state (bk : backend) (t : tschema) (td : tdata) (r : list value) : value :=
  if str_eqb (t_name t) (s "hostgroups") then
    match find_data bk (s "hosts") with
    | None => VRows []
    | Some htd =>
        VRows (map (fun m =>
                 match find (fun hr => str_eqb (cell_str htd hr (s "name")) m) (td_rows htd) with
                 | Some hr => [m; show_Z (cell_int htd hr (s "state")); show_Z (cell_int htd hr (s "has_been_checked"))]
                 | None => [s "<nil>"]
                 end)
               (as_strlist (match cell td r (s "members") with Some v => v | None => VStrList [] end)))
    end
  else
    match find_data bk (s "services") with
    | None => VRows []
    | Some std =>
        VRows (map (fun m =>
                 match find (fun sr => str_eqb (cell_str std sr (s "host_name")) (fst m)
                                       && str_eqb (cell_str std sr (s "description")) (snd m)) (td_rows std) with
                 | Some sr => [fst m; snd m; show_Z (cell_int std sr (s "state")); show_Z (cell_int std sr (s "has_been_checked"))]
                 | None => [s "<nil>"]
                 end)
               (match cell td r (s "members") with Some (VPairs l) => l | _ => [] end))
    end.

(** [last_state_change_order]: last_state_change, or the backend's program_start if that is 0 *)
Definition program_start (bk : backend) : Z :=
  match find_data bk (s "status") with
  | Some std => match td_rows std with r :: _ => cell_int std r (s "program_start") | [] => 0 end
  | None => 0
  end.

(** the value a client reads for column [c] of row [r] (DataRow.WriteJSONColumn) *)
Definition get_col (schema : list tschema) (bk : backend) (t : tschema) (td : tdata) (r : list value) (c : column) : value :=
  match c_store c with
  | SVirtual =>
      if str_eqb (c_name c) (s "members_with_state") then members_with_state bk t td r
      else if str_eqb (c_name c) (s "last_state_change_order") then
        VInt (let l := cell_int td r (s "last_state_change") in if Z.eqb l 0 then program_start bk else l)
      else get_out schema bk t td r c
  | _ => get_out schema bk t td r c
  end.

Definition query_table (schema : list tschema) (bk : backend) (t : tschema) (cols : list column) : list (list value) :=
  match find_data bk (t_name t) with
  | Some td => map (fun r => map (get_col schema bk t td r) cols) (td_rows td)
  | None => []
  end.

(** full-column GET on every cached table *)
Definition query_all (schema : list tschema) (bk : backend) : list (str * list (list value)) :=
  map (fun t => (t_name t, query_table schema bk t (t_cols t))) (filter stored schema).
