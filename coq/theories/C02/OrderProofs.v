(** C02: the primary key order is a total order; a sorted permutation of rows
    with distinct keys is unique; insertion sort is a sorter. *)
From LMD Require Import C02.Model.
From Coq Require Import Permutation Sorted.

Section Lex.
  Context {A : Type} (cmp : A -> A -> comparison).
  Hypothesis cmp_eq : forall a b, cmp a b = Eq <-> a = b.
  Hypothesis cmp_anti : forall a b, cmp b a = CompOpp (cmp a b).
  Hypothesis cmp_lt_trans : forall a b c, cmp a b = Lt -> cmp b c = Lt -> cmp a c = Lt.

  Lemma lex_eq a : forall b, lex cmp a b = Eq <-> a = b.
  Proof.
    induction a as [|x a IH]; intros [|y b]; cbn [lex]; try (split; congruence).
    destruct (cmp x y) eqn:E.
    - apply cmp_eq in E; subst. rewrite IH. split; congruence.
    - split; [discriminate|]. intros H; inversion H; subst.
      assert (cmp y y = Eq) by (apply cmp_eq; reflexivity). congruence.
    - split; [discriminate|]. intros H; inversion H; subst.
      assert (cmp y y = Eq) by (apply cmp_eq; reflexivity). congruence.
  Qed.

  Lemma lex_anti a : forall b, lex cmp b a = CompOpp (lex cmp a b).
  Proof.
    induction a as [|x a IH]; intros [|y b]; cbn [lex CompOpp]; try reflexivity.
    rewrite (cmp_anti x y). destruct (cmp x y); cbn [CompOpp]; [apply IH|reflexivity|reflexivity].
  Qed.

  Lemma lex_lt_trans a : forall b c, lex cmp a b = Lt -> lex cmp b c = Lt -> lex cmp a c = Lt.
  Proof.
    induction a as [|x a IH]; intros [|y b] [|z c]; cbn [lex]; try congruence.
    destruct (cmp x y) eqn:Exy; try discriminate.
    - apply cmp_eq in Exy; subst y. destruct (cmp x z); try congruence. apply IH.
    - intros _. destruct (cmp y z) eqn:Eyz; try discriminate.
      + apply cmp_eq in Eyz; subst z. rewrite Exy. reflexivity.
      + rewrite (cmp_lt_trans _ _ _ Exy Eyz). reflexivity.
  Qed.
End Lex.

Lemma N_cmp_anti a b : N.compare b a = CompOpp (N.compare a b).
Proof. apply N.compare_antisym. Qed.
Lemma N_cmp_lt_trans a b c : N.compare a b = Lt -> N.compare b c = Lt -> N.compare a c = Lt.
Proof. rewrite !N.compare_lt_iff. apply N.lt_trans. Qed.

Lemma str_cmp_eq a b : str_cmp a b = Eq <-> a = b.
Proof. apply lex_eq. exact N.compare_eq_iff. Qed.
Lemma str_cmp_anti a b : str_cmp b a = CompOpp (str_cmp a b).
Proof. apply lex_anti. exact N_cmp_anti. Qed.
Lemma str_cmp_lt_trans a b c : str_cmp a b = Lt -> str_cmp b c = Lt -> str_cmp a c = Lt.
Proof. apply lex_lt_trans; [exact N.compare_eq_iff|exact N_cmp_lt_trans]. Qed.

(** [str_cmp] is the order of Base.Str ([str_ltb] = Go's bytewise [<]) *)
Lemma str_cmp_ltb a : forall b, str_ltb a b = true <-> str_cmp a b = Lt.
Proof.
  induction a as [|x a IH]; intros [|y b]; cbn [str_ltb]; unfold str_cmp; cbn [lex];
    try (split; congruence).
  fold (str_cmp a b). destruct (N.ltb_spec x y) as [Hlt|Hge].
  - apply N.compare_lt_iff in Hlt. rewrite Hlt. split; reflexivity.
  - destruct (N.eqb_spec x y) as [->|Hne].
    + rewrite N.compare_refl. apply IH.
    + assert (N.compare x y = Gt) as -> by (apply N.compare_gt_iff; lia). split; discriminate.
Qed.

Lemma kv_cmp_eq a b : kv_cmp a b = Eq <-> a = b.
Proof.
  destruct a as [x|x], b as [y|y]; cbn [kv_cmp]; try (split; congruence).
  - rewrite Z.compare_eq_iff. split; congruence.
  - rewrite str_cmp_eq. split; congruence.
Qed.
Lemma kv_cmp_anti a b : kv_cmp b a = CompOpp (kv_cmp a b).
Proof.
  destruct a as [x|x], b as [y|y]; cbn [kv_cmp CompOpp]; try reflexivity.
  - apply Z.compare_antisym.
  - apply str_cmp_anti.
Qed.
Lemma kv_cmp_lt_trans a b c : kv_cmp a b = Lt -> kv_cmp b c = Lt -> kv_cmp a c = Lt.
Proof.
  destruct a as [x|x], b as [y|y], c as [z|z]; cbn [kv_cmp]; try congruence.
  - rewrite !Z.compare_lt_iff. apply Z.lt_trans.
  - apply str_cmp_lt_trans.
Qed.

Lemma key_cmp_eq a b : key_cmp a b = Eq <-> a = b.
Proof. apply lex_eq. exact kv_cmp_eq. Qed.
Lemma key_cmp_anti a b : key_cmp b a = CompOpp (key_cmp a b).
Proof. apply lex_anti. exact kv_cmp_anti. Qed.
Lemma key_cmp_lt_trans a b c : key_cmp a b = Lt -> key_cmp b c = Lt -> key_cmp a c = Lt.
Proof. apply lex_lt_trans; [exact kv_cmp_eq|exact kv_cmp_lt_trans]. Qed.

Lemma key_leb_antisym a b : key_leb a b = true -> key_leb b a = true -> a = b.
Proof.
  unfold key_leb. rewrite (key_cmp_anti a b). destruct (key_cmp a b) eqn:E; cbn [CompOpp]; try discriminate.
  intros _ _. apply key_cmp_eq; exact E.
Qed.

Lemma key_leb_total a b : key_leb a b = false -> key_leb b a = true.
Proof.
  unfold key_leb. rewrite (key_cmp_anti a b). destruct (key_cmp a b); cbn [CompOpp]; congruence.
Qed.

Lemma key_leb_trans a b c : key_leb a b = true -> key_leb b c = true -> key_leb a c = true.
Proof.
  unfold key_leb. destruct (key_cmp a b) eqn:Eab; try discriminate; intros _.
  - apply key_cmp_eq in Eab; subst b. trivial.
  - destruct (key_cmp b c) eqn:Ebc; try discriminate; intros _.
    + apply key_cmp_eq in Ebc; subst c. rewrite Eab; reflexivity.
    + rewrite (key_cmp_lt_trans _ _ _ Eab Ebc); reflexivity.
Qed.

(** *** sorted permutations with distinct keys are unique *)
Lemma sorted_perm_unique {A} (R : A -> A -> Prop) (l1 : list A) : forall l2,
  (forall a b, In a l1 -> In b l1 -> R a b -> R b a -> a = b) ->
  StronglySorted R l1 -> StronglySorted R l2 -> Permutation l1 l2 -> l1 = l2.
Proof.
  induction l1 as [|x l1 IH]; intros l2 Hanti S1 S2 HP.
  - apply Permutation_nil in HP; subst; reflexivity.
  - destruct l2 as [|y l2]; [apply Permutation_sym, Permutation_nil in HP; discriminate|].
    apply StronglySorted_inv in S1 as [S1 F1]. apply StronglySorted_inv in S2 as [S2 F2].
    rewrite Forall_forall in F1, F2.
    assert (Hy : In y (x :: l1)) by (eapply Permutation_in; [apply Permutation_sym; exact HP|left; reflexivity]).
    assert (Hx : In x (y :: l2)) by (eapply Permutation_in; [exact HP|left; reflexivity]).
    assert (Exy : x = y).
    { destruct Hy as [Hy|Hy]; [congruence|]. destruct Hx as [Hx|Hx]; [congruence|].
      apply Hanti; [left; reflexivity|right; exact Hy|apply F1; exact Hy|apply F2; exact Hx]. }
    subst y. f_equal. apply IH; [|assumption|assumption|eapply Permutation_cons_inv; exact HP].
    intros a b Ha Hb; apply Hanti; right; assumption.
Qed.

Lemma NoDup_map_inj_in {A B} (f : A -> B) (l : list A) a b :
  NoDup (map f l) -> In a l -> In b l -> f a = f b -> a = b.
Proof.
  induction l as [|x l IH]; intros Hnd Ha Hb E; [contradiction|].
  cbn [map] in Hnd; inversion Hnd as [|? ? Hx Hnd']; subst.
  destruct Ha as [->|Ha], Hb as [->|Hb].
  - reflexivity.
  - exfalso; apply Hx. rewrite E. apply in_map; exact Hb.
  - exfalso; apply Hx. rewrite <- E. apply in_map; exact Ha.
  - apply IH; assumption.
Qed.

Lemma sorter_unique (srt : sorter) (key : list value -> list kv) l1 l2 :
  sorter_ok srt -> Permutation l1 l2 -> NoDup (map key l1) -> srt key l1 = srt key l2.
Proof.
  intros Hok HP Hnd.
  destruct (Hok key l1) as [P1 S1]. destruct (Hok key l2) as [P2 S2].
  apply (sorted_perm_unique (fun a b => key_leb (key a) (key b) = true)); [|assumption|assumption|].
  - intros a b Ha Hb Hab Hba.
    apply (NoDup_map_inj_in key l1); [assumption| | |apply key_leb_antisym; assumption];
      eapply Permutation_in; eassumption.
  - eapply Permutation_trans; [exact P1|]. eapply Permutation_trans; [exact HP|]. apply Permutation_sym; exact P2.
Qed.

(** *** insertion sort is a sorter *)
Lemma insert_row_perm key x l : Permutation (insert_row key x l) (x :: l).
Proof.
  induction l as [|y l IH]; cbn [insert_row]; [apply Permutation_refl|].
  destruct (key_leb (key x) (key y)); [apply Permutation_refl|].
  eapply Permutation_trans; [apply perm_skip; exact IH|apply perm_swap].
Qed.

Lemma isort_perm key l : Permutation (isort key l) l.
Proof.
  induction l as [|x l IH]; cbn [isort fold_right]; [constructor|].
  eapply Permutation_trans; [apply insert_row_perm|apply perm_skip; exact IH].
Qed.

Lemma insert_row_sorted key x l :
  StronglySorted (fun a b => key_leb (key a) (key b) = true) l ->
  StronglySorted (fun a b => key_leb (key a) (key b) = true) (insert_row key x l).
Proof.
  induction l as [|y l IH]; intros HS; cbn [insert_row].
  - constructor; [constructor|constructor].
  - apply StronglySorted_inv in HS as [HS HF].
    destruct (key_leb (key x) (key y)) eqn:E.
    + constructor; [constructor; assumption|]. constructor; [exact E|].
      rewrite Forall_forall in *; intros z Hz. eapply key_leb_trans; [exact E|apply HF; exact Hz].
    + constructor; [apply IH; exact HS|].
      rewrite Forall_forall in *; intros z Hz.
      apply (Permutation_in _ (insert_row_perm key x l)) in Hz. destruct Hz as [<-|Hz].
      * apply key_leb_total; exact E.
      * apply HF; exact Hz.
Qed.

Lemma isort_ok : sorter_ok isort.
Proof.
  intros key l; split; [apply isort_perm|].
  induction l as [|x l IH]; cbn [isort fold_right]; [constructor|].
  apply insert_row_sorted; exact IH.
Qed.
