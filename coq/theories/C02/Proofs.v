(** C02: proofs about the load model. *)
From LMD Require Import C02.Model C02.OrderProofs.
From LMD Require C12.Model C12.Proofs.
From Coq Require Import Permutation Sorted.
Open Scope Z_scope.

(** ** coercions *)

Lemma whole_quot m : whole m = true -> Z.quot m 1000 = m / 1000 /\ m = 1000 * (m / 1000).
Proof.
  unfold whole; intros H. apply Z.eqb_eq in H.
  pose proof (Z.quot_rem' m 1000) as Hq. rewrite H, Z.add_0_r in Hq.
  assert (Hd : m / 1000 = Z.quot m 1000).
  { rewrite Hq at 1. rewrite Z.mul_comm. apply Z.div_mul. lia. }
  split; [symmetry; exact Hd|]. rewrite Hd. exact Hq.
Qed.

Lemma map_atom_str l : forallb is_str l = true ->
  map atom_str l = map (fun a => match a with AStr x => x | _ => [] end) l.
Proof.
  induction l as [|a l IH]; cbn [forallb map]; [reflexivity|].
  intros H; apply andb_true_iff in H as [Ha Hl]. rewrite IH by exact Hl.
  destruct a; cbn [is_str] in Ha; try discriminate. reflexivity.
Qed.

Lemma map_atom_int l :
  forallb (fun a => match a with ANum m => int64_ok m | _ => false end) l = true ->
  map atom_int l = map (fun a => match a with ANum m => m / 1000 | _ => 0 end) l.
Proof.
  induction l as [|a l IH]; cbn [forallb map]; [reflexivity|].
  intros H; apply andb_true_iff in H as [Ha Hl]. rewrite IH by exact Hl.
  destruct a as [|x|m]; try discriminate. cbn [atom_int].
  unfold int64_ok in Ha. apply andb_true_iff in Ha as [Hw _].
  destruct (whole_quot m Hw) as [-> _]. reflexivity.
Qed.

Lemma map_pair_of l :
  forallb (fun p => match p with [AStr _; AStr _] => true | _ => false end) l = true ->
  map pair_of l = map (fun p => match p with [AStr a; AStr b] => (a, b) | _ => ([], []) end) l.
Proof.
  induction l as [|p l IH]; cbn [forallb map]; [reflexivity|].
  intros H; apply andb_true_iff in H as [Hp Hl]. rewrite IH by exact Hl. f_equal.
  destruct p as [|[|a|?] [|[|b|?] [|? ?]]]; try discriminate. reflexivity.
Qed.

(** within the column's range the stored value is the delivered value *)
Lemma coerce_in_range t r : in_range t r = true -> coerce t r = natural t r.
Proof.
  destruct t, r as [a|l|l]; cbn [in_range]; try discriminate;
    try (destruct a as [|x|m]; try discriminate); intros H; cbn [coerce natural].
  - reflexivity.
  - rewrite map_atom_str by exact H. reflexivity.
  - apply andb_true_iff in H as [H H2]. apply andb_true_iff in H as [Hw H1].
    destruct (whole_quot m Hw) as [Hq Hm]. cbn [atom_int]. rewrite Hq.
    unfold int8. apply Z.leb_le in H1, H2.
    assert (-128 <= m / 1000 <= 127) as [Ha Hb] by lia.
    apply Z.leb_le in Ha, Hb. rewrite Ha, Hb. reflexivity.
  - unfold int64_ok in H. apply andb_true_iff in H as [Hw _].
    destruct (whole_quot m Hw) as [Hq _]. cbn [atom_int]. rewrite Hq. reflexivity.
  - rewrite map_atom_int by exact H. reflexivity.
  - reflexivity.
  - destruct l; [reflexivity|discriminate].
  - rewrite map_pair_of by exact H. reflexivity.
  - destruct l; [reflexivity|discriminate].
  - reflexivity.
  - reflexivity.
Qed.

(** the documented special cases *)
Lemma coerce_null t : coerce t (RAtom ANull) = zero_value t.
Proof. destruct t; reflexivity. Qed.

Lemma coerce_icinga2_zero : coerce TStrList (RAtom (ANum 0)) = VStrList [].
Proof. reflexivity. Qed.

Lemma coerce_empty_string_list : coerce TStrList (RAtom (AStr [])) = VStrList [].
Proof. reflexivity. Qed.

Lemma coerce_int8_clamp v : v < -128 \/ 127 < v -> coerce TInt (RAtom (ANum (v * 1000))) = VInt 0.
Proof.
  intros H. cbn [coerce atom_int]. rewrite Z.quot_mul by lia. unfold int8.
  destruct (Z.leb_spec (-128) v), (Z.leb_spec v 127); cbn [andb]; try reflexivity; lia.
Qed.

(** ** generic list facts *)
Lemma forallb_perm {A} (p : A -> bool) l1 l2 : Permutation l1 l2 -> forallb p l1 = forallb p l2.
Proof.
  induction 1 as [|x l1 l2 _ IH|x y l|l1 l2 l3 _ IH1 _ IH2]; cbn [forallb].
  - reflexivity.
  - rewrite IH; reflexivity.
  - destruct (p x), (p y); reflexivity.
  - congruence.
Qed.

Lemma perm_short {A} (l1 l2 : list A) : Permutation l1 l2 -> (length l1 <= 1)%nat -> l1 = l2.
Proof.
  intros HP Hlen. destruct l1 as [|x [|y l1]]; cbn [length] in Hlen; try lia.
  - apply Permutation_nil in HP; congruence.
  - apply Permutation_length_1_inv in HP; congruence.
Qed.

Lemma find_some_unique {A B} (f : A -> B) (eqb : B -> B -> bool) (l : list A) x :
  (forall a b, eqb a b = true <-> a = b) ->
  NoDup (map f l) -> In x l -> find (fun y => eqb (f y) (f x)) l = Some x.
Proof.
  intros Heq. induction l as [|y l IH]; intros Hnd Hin; [contradiction|].
  cbn [map] in Hnd; inversion Hnd as [|? ? Hy Hnd']; subst. cbn [find].
  destruct (eqb (f y) (f x)) eqn:E.
  - apply Heq in E. destruct Hin as [->|Hin]; [reflexivity|].
    exfalso; apply Hy. rewrite E. apply in_map; exact Hin.
  - destruct Hin as [->|Hin]; [|apply IH; assumption].
    assert (eqb (f x) (f x) = true) by (apply Heq; reflexivity). congruence.
Qed.

Lemma index_of_app_l n l1 l2 i : index_of n l1 = Some i -> index_of n (l1 ++ l2) = Some i.
Proof.
  revert i; induction l1 as [|c l1 IH]; intros i; cbn [index_of app]; [discriminate|].
  destruct (str_eqb c n); [trivial|].
  destruct (index_of n l1) as [j|]; [|discriminate]. rewrite (IH j eq_refl). trivial.
Qed.

Lemma index_of_app_r n l1 l2 : index_of n l1 = None ->
  index_of n (l1 ++ l2) = match index_of n l2 with Some i => Some (length l1 + i)%nat | None => None end.
Proof.
  induction l1 as [|c l1 IH]; cbn [index_of app length]; intros H.
  - destruct (index_of n l2); reflexivity.
  - destruct (str_eqb c n); [discriminate|].
    destruct (index_of n l1); [discriminate|]. rewrite IH by reflexivity.
    destruct (index_of n l2); reflexivity.
Qed.

Lemma index_of_lt n l i : index_of n l = Some i -> (i < length l)%nat.
Proof.
  revert i; induction l as [|c l IH]; intros i; cbn [index_of length]; [discriminate|].
  destruct (str_eqb c n); [intros [= <-]; lia|].
  destruct (index_of n l) as [j|]; [|discriminate]. intros [= <-]. specialize (IH j eq_refl). lia.
Qed.

Lemma index_of_none n l : index_of n l = None <-> ~ In n l.
Proof.
  induction l as [|c l IH]; cbn [index_of In]; [tauto|].
  destruct (str_eqb_spec c n) as [->|Hne].
  - split; [discriminate|]. intros H; exfalso; apply H; left; reflexivity.
  - destruct (index_of n l) as [j|].
    + split; [discriminate|]. intros H. exfalso.
      assert (Hn : ~ In n l) by tauto. apply IH in Hn. discriminate.
    + split; [|reflexivity]. intros _ [E|Hin]; [contradiction|]. apply IH in Hin; [exact Hin|reflexivity].
Qed.

(** position of a column name in a duplicate-free column list *)
Lemma index_of_nth (cols : list column) i c :
  NoDup (map c_name cols) -> nth_error cols i = Some c -> index_of (c_name c) (map c_name cols) = Some i.
Proof.
  revert i; induction cols as [|d cols IH]; intros i Hnd Hi; [destruct i; discriminate|].
  cbn [map] in Hnd; inversion Hnd as [|? ? Hd Hnd']; subst.
  destruct i as [|i]; cbn [nth_error] in Hi; cbn [map index_of].
  - inversion Hi; subst. rewrite str_eqb_refl. reflexivity.
  - destruct (str_eqb_spec (c_name d) (c_name c)) as [E|_].
    + exfalso; apply Hd. rewrite E. apply in_map. eapply nth_error_In; exact Hi.
    + rewrite (IH i Hnd' Hi). reflexivity.
Qed.

Lemma NoDup_filter_map {A B} (f : A -> B) (p : A -> bool) l : NoDup (map f l) -> NoDup (map f (filter p l)).
Proof.
  induction l as [|x l IH]; cbn [map filter]; intros H; [constructor|].
  inversion H as [|? ? Hx H']; subst. destruct (p x); cbn [map]; [|apply IH; exact H'].
  constructor; [|apply IH; exact H'].
  intros Hin; apply Hx. apply in_map_iff in Hin as [y [Ey Hy]]. apply filter_In in Hy as [Hy _].
  rewrite <- Ey. apply in_map; exact Hy.
Qed.

(** ** one table *)

Definition unique_pk (flags : N) (t : tschema) (rows : list (list raw)) : Prop :=
  let cols := initial_cols flags t in
  match t_pk t with
  | [] => (length rows <= 1)%nat
  | pk => NoDup (map (row_key (map c_name cols) pk) (map (coerce_row cols) rows))
  end.

Lemma load_table_perm srt flags t rows1 rows2 :
  sorter_ok srt -> Permutation rows1 rows2 -> unique_pk flags t rows1 ->
  load_table srt flags t rows1 = load_table srt flags t rows2.
Proof.
  intros Hok HP Hu. unfold load_table.
  rewrite (forallb_perm _ _ _ HP).
  destruct (forallb _ rows2); [|reflexivity]. f_equal. f_equal.
  unfold unique_pk in Hu. destruct (t_pk t) as [|k pk].
  - rewrite (perm_short _ _ HP Hu). reflexivity.
  - apply sorter_unique; [exact Hok|apply Permutation_map; exact HP|exact Hu].
Qed.

Lemma load_table_spec srt flags t rows td :
  sorter_ok srt -> load_table srt flags t rows = Some td ->
  td_table td = t_name t /\ td_cols td = map c_name (initial_cols flags t) /\
  Permutation (td_rows td) (map (coerce_row (initial_cols flags t)) rows) /\
  forallb (fun r => Nat.eqb (length r) (length (initial_cols flags t))) rows = true.
Proof.
  intros Hok. unfold load_table. destruct (forallb _ rows) eqn:Hw; [|discriminate].
  intros [= <-]; cbn [td_table td_cols td_rows]. repeat split.
  destruct (t_pk t); [apply Permutation_refl|]. apply Hok.
Qed.

Lemma coerce_row_length cols row : length row = length cols -> length (coerce_row cols row) = length cols.
Proof.
  intros H. unfold coerce_row, norm_row. rewrite map_length, combine_length, map_length. lia.
Qed.

Lemma combine_nth_error {A B} (l1 : list A) : forall (l2 : list B) i a b,
  nth_error l1 i = Some a -> nth_error l2 i = Some b -> nth_error (combine l1 l2) i = Some (a, b).
Proof.
  induction l1 as [|x l1 IH]; intros [|y l2] [|i] a b H1 H2; cbn [nth_error combine] in *; try discriminate.
  - congruence.
  - apply IH; assumption.
Qed.

Lemma coerce_row_nth cols row i c :
  length row = length cols -> nth_error cols i = Some c ->
  nth i (coerce_row cols row) (VStr []) = coerce (c_type c) (nth i (norm_row row) (RAtom ANull)).
Proof.
  intros Hlen Hi. unfold coerce_row.
  assert (Hlt : (i < length cols)%nat) by (apply nth_error_Some; congruence).
  assert (Hn : length (norm_row row) = length cols) by (unfold norm_row; rewrite map_length; exact Hlen).
  destruct (nth_error (norm_row row) i) as [x|] eqn:Ex.
  2:{ apply nth_error_None in Ex. lia. }
  rewrite (nth_error_nth _ _ _ Ex).
  apply nth_error_nth.
  apply (map_nth_error (fun p => coerce (c_type (fst p)) (snd p)) i (combine cols (norm_row row))
           (combine_nth_error _ _ _ _ _ Hi Ex)).
Qed.

(** ** all tables of one backend *)

Definition replies_perm (rs1 rs2 : list reply) : Prop :=
  Forall2 (fun a b => rp_table a = rp_table b /\ Permutation (rp_rows a) (rp_rows b)) rs1 rs2.

Lemma rows_of_perm rs1 rs2 t : replies_perm rs1 rs2 -> Permutation (rows_of rs1 t) (rows_of rs2 t).
Proof.
  unfold rows_of. induction 1 as [|a b rs1 rs2 [Hn HP] _ IH]; cbn [find]; [constructor|].
  rewrite <- Hn. destruct (str_eqb (rp_table a) (t_name t)); [exact HP|exact IH].
Qed.

Lemma load_tables_perm srt flags ts rs1 rs2 :
  sorter_ok srt -> replies_perm rs1 rs2 ->
  Forall (fun t => unique_pk flags t (rows_of rs1 t)) ts ->
  load_tables srt flags ts rs1 = load_tables srt flags ts rs2.
Proof.
  intros Hok HP. induction 1 as [|t ts Hu _ IH]; cbn [load_tables]; [reflexivity|].
  rewrite (load_table_perm srt flags t _ _ Hok (rows_of_perm _ _ t HP) Hu), IH. reflexivity.
Qed.

(** the store does not depend on the row order of the backend's replies *)
Lemma load_perm_invariant srt schema key name flags rs1 rs2 :
  sorter_ok srt -> replies_perm rs1 rs2 ->
  Forall (fun t => unique_pk flags t (rows_of rs1 t)) (filter stored schema) ->
  load srt schema key name flags rs1 = load srt schema key name flags rs2.
Proof.
  intros Hok HP Hu. unfold load. rewrite (load_tables_perm srt flags _ rs1 rs2 Hok HP Hu). reflexivity.
Qed.

Lemma load_tables_find srt flags ts replies tds t :
  sorter_ok srt -> NoDup (map t_name ts) -> load_tables srt flags ts replies = Some tds -> In t ts ->
  exists td, find (fun td => str_eqb (td_table td) (t_name t)) tds = Some td /\
             load_table srt flags t (rows_of replies t) = Some td.
Proof.
  intros Hok. revert tds; induction ts as [|u ts IH]; intros tds Hnd Hl Hin; [contradiction|].
  cbn [map] in Hnd; inversion Hnd as [|? ? Hu Hnd']; subst. cbn [load_tables] in Hl.
  destruct (load_table srt flags u (rows_of replies u)) as [ud|] eqn:Eu; [|discriminate].
  destruct (load_tables srt flags ts replies) as [rest|] eqn:Er; [|discriminate].
  inversion Hl; subst tds. cbn [find].
  destruct (load_table_spec _ _ _ _ _ Hok Eu) as [Hname _].
  destruct Hin as [->|Hin].
  - exists ud. rewrite Hname, str_eqb_refl. split; [reflexivity|exact Eu].
  - destruct (str_eqb_spec (td_table ud) (t_name t)) as [E|_].
    + exfalso; apply Hu. rewrite <- Hname, E. apply in_map; exact Hin.
    + apply (IH rest Hnd' eq_refl Hin).
Qed.
