(** C02: faithfulness of the loaded store, references, id lists. *)
From LMD Require Import C02.Model C02.OrderProofs C02.Proofs.
From LMD Require C12.Model C12.Proofs.
From Coq Require Import Permutation Sorted.
Open Scope Z_scope.

(** ** shape of [with_idlists]: every table keeps its name and rows, hosts and
    services get two more columns at the end *)
Lemma with_idlists_shape tds :
  exists g, with_idlists tds = map g tds /\
    forall td, td_table (g td) = td_table td /\
      exists extra ext, td_cols (g td) = td_cols td ++ extra /\
                        td_rows (g td) = map (fun r => r ++ ext r) (td_rows td) /\
                        (extra = [] \/ extra = [s "comments"; s "downtimes"]) /\
                        (str_eqb (td_table td) (s "hosts") || str_eqb (td_table td) (s "services") = false -> g td = td).
Proof.
  unfold with_idlists. eexists; split; [reflexivity|]. intros td; cbv beta.
  destruct (str_eqb (td_table td) (s "hosts")) eqn:Eh; [|destruct (str_eqb (td_table td) (s "services")) eqn:Es].
  - split; [reflexivity|]. do 2 eexists. cbn [td_cols td_rows]. repeat split; [right; reflexivity|discriminate].
  - split; [reflexivity|]. do 2 eexists. cbn [td_cols td_rows]. repeat split; [right; reflexivity|discriminate].
  - split; [reflexivity|]. exists [], (fun _ => []). rewrite app_nil_r. repeat split.
    + rewrite <- (map_id (td_rows td)) at 1. apply map_ext. intros r; rewrite app_nil_r; reflexivity.
    + left; reflexivity.
Qed.

Lemma find_map_tbl (g : tdata -> tdata) tds n :
  (forall td, td_table (g td) = td_table td) ->
  find (fun td => str_eqb (td_table td) n) (map g tds) = option_map g (find (fun td => str_eqb (td_table td) n) tds).
Proof.
  intros Hg. induction tds as [|td tds IH]; cbn [map find]; [reflexivity|].
  rewrite Hg. destruct (str_eqb (td_table td) n); [reflexivity|exact IH].
Qed.

Lemma load_loaded srt schema key name flags replies bk :
  load srt schema key name flags replies = Loaded bk ->
  exists tds, load_tables srt flags (filter stored schema) replies = Some tds /\
              bk = mkBackend key name flags true [] (with_idlists tds).
Proof.
  unfold load. destruct (load_tables _ _ _ _) as [tds|]; [|discriminate].
  destruct (td_rows (table_or_empty tds (s "status"))); [discriminate|].
  intros [= <-]. exists tds. repeat split.
Qed.

Lemma load_tables_in srt flags ts replies tds td :
  load_tables srt flags ts replies = Some tds -> In td tds ->
  exists t, In t ts /\ load_table srt flags t (rows_of replies t) = Some td.
Proof.
  revert tds; induction ts as [|u ts IH]; intros tds Hl Hin; cbn [load_tables] in Hl.
  - inversion Hl; subst; contradiction.
  - destruct (load_table srt flags u (rows_of replies u)) as [ud|] eqn:Eu; [|discriminate].
    destruct (load_tables srt flags ts replies) as [rest|] eqn:Er; [|discriminate].
    inversion Hl; subst tds. destruct Hin as [<-|Hin].
    + exists u; split; [left; reflexivity|exact Eu].
    + destruct (IH rest eq_refl Hin) as [t [Ht Hlt]]. exists t; split; [right; exact Ht|exact Hlt].
Qed.

(** rows of a loaded table have one cell per column *)
Lemma load_table_row_length srt flags t rows td r :
  sorter_ok srt -> load_table srt flags t rows = Some td -> In r (td_rows td) -> length r = length (td_cols td).
Proof.
  intros Hok Hl Hin. destruct (load_table_spec _ _ _ _ _ Hok Hl) as (_ & Hc & HP & Hw).
  rewrite Hc, map_length. apply (Permutation_in _ HP) in Hin. apply in_map_iff in Hin as [row [<- Hrow]].
  apply coerce_row_length. rewrite forallb_forall in Hw. apply Nat.eqb_eq. apply Hw; exact Hrow.
Qed.

Lemma firstn_app_exact {A} (l1 l2 : list A) : firstn (length l1) (l1 ++ l2) = l1.
Proof. rewrite firstn_app, firstn_all, Nat.sub_diag, firstn_O, app_nil_r. reflexivity. Qed.

(** ** reading a stored cell back *)
Lemma fetched_local flags c : fetched flags c = true -> c_store c = SLocal /\ has_flag flags (c_opt c) = true.
Proof. unfold fetched. destruct (c_store c), (c_fetch c); try discriminate; auto. Qed.

Lemma get_col_local schema bk t td r c i :
  c_store c = SLocal -> has_flag (b_flags bk) (c_opt c) = true ->
  index_of (c_name c) (td_cols td) = Some i -> (i < length r)%nat ->
  get_col schema bk t td r c = nth i r (VStr []).
Proof.
  intros Hs Hf Hi Hlt. unfold get_col, get_out. rewrite Hs, Hf. cbn [negb].
  unfold get_own. rewrite Hs. unfold get_local, cell. rewrite Hi.
  rewrite (nth_error_nth' r (VStr []) Hlt). reflexivity.
Qed.

(** ** load_faithful *)
Lemma load_faithful srt schema key name flags replies bk t :
  sorter_ok srt -> NoDup (map t_name (filter stored schema)) -> NoDup (map c_name (t_cols t)) ->
  load srt schema key name flags replies = Loaded bk -> In t (filter stored schema) ->
  let cols := initial_cols flags t in
  exists td, find_data bk (t_name t) = Some td /\
    (* every delivered object exactly once *)
    Permutation (map (firstn (length cols)) (td_rows td)) (map (coerce_row cols) (rows_of replies t)) /\
    (* a client reads the stored cell of every fetched column *)
    (forall r i c, In r (td_rows td) -> nth_error cols i = Some c ->
                   get_col schema bk t td r c = nth i r (VStr [])) /\
    (* which is the delivered value after the documented coercion, and the
       delivered value itself within the column's range *)
    (forall row i c, In row (rows_of replies t) -> nth_error cols i = Some c ->
       nth i (coerce_row cols row) (VStr []) = coerce (c_type c) (nth i (norm_row row) (RAtom ANull)) /\
       (in_range (c_type c) (nth i (norm_row row) (RAtom ANull)) = true ->
        nth i (coerce_row cols row) (VStr []) = natural (c_type c) (nth i (norm_row row) (RAtom ANull)))).
Proof.
  intros Hok Hnt Hnc Hload Hin cols.
  destruct (load_loaded _ _ _ _ _ _ _ Hload) as (tds & Htds & ->).
  destruct (load_tables_find _ _ _ _ _ _ Hok Hnt Htds Hin) as (td0 & Hfind & Hlt).
  destruct (with_idlists_shape tds) as (g & Hg & Hshape).
  destruct (load_table_spec _ _ _ _ _ Hok Hlt) as (Hname & Hcols & HP & Hw).
  destruct (Hshape td0) as (Hgn & extra & ext & Hgc & Hgr & _ & _).
  exists (g td0). split; [|split; [|split]].
  - unfold find_data; cbn [b_tables]. rewrite Hg, find_map_tbl by (intros x; apply Hshape).
    rewrite Hfind. reflexivity.
  - rewrite Hgr, map_map. eapply Permutation_trans; [|exact HP].
    rewrite <- (map_id (td_rows td0)) at 2. apply Permutation_refl'. apply map_ext_in.
    intros r Hr. unfold id. replace (length cols) with (length r); [apply firstn_app_exact|].
    rewrite (load_table_row_length _ _ _ _ _ _ Hok Hlt Hr), Hcols, map_length. reflexivity.
  - intros r' i c Hr' Hi. rewrite Hgr in Hr'. apply in_map_iff in Hr' as [r [<- Hr]].
    assert (Hc : In c cols) by (eapply nth_error_In; exact Hi).
    apply filter_In in Hc as [_ Hf]. destruct (fetched_local _ _ Hf) as [Hs Hfl].
    assert (Hlen : length r = length cols).
    { rewrite (load_table_row_length _ _ _ _ _ _ Hok Hlt Hr), Hcols, map_length. reflexivity. }
    assert (Hlti : (i < length cols)%nat) by (apply nth_error_Some; congruence).
    apply get_col_local; [exact Hs|exact Hfl| |rewrite app_length; lia].
    rewrite Hgc, Hcols. apply index_of_app_l. apply index_of_nth; [|exact Hi].
    apply NoDup_filter_map; exact Hnc.
  - intros row i c Hrow Hi. rewrite forallb_forall in Hw. specialize (Hw _ Hrow). apply Nat.eqb_eq in Hw.
    pose proof (coerce_row_nth cols row i c Hw Hi) as E. split; [exact E|].
    intros Hr. rewrite E. apply coerce_in_range; exact Hr.
Qed.

(** ** references *)
Definition keyeq (a b : list str) : bool := if list_eq_dec (list_eq_dec N.eq_dec) a b then true else false.

Lemma keyeq_spec a b : keyeq a b = true <-> a = b.
Proof. unfold keyeq. destruct (list_eq_dec (list_eq_dec N.eq_dec) a b); split; congruence. Qed.

(** the row a reference resolves to: THE row of the referenced table whose
    primary key equals the local key columns *)
Lemma find_ref_hit schema bk t td r rtn rtn' keycols rt rtd rr :
  find (fun x => str_eqb (fst x) rtn) (t_refs t) = Some (rtn', keycols) ->
  find_table schema rtn = Some rt -> find_data bk rtn = Some rtd ->
  NoDup (map (fun x => key_of rtd x (t_pk rt)) (td_rows rtd)) ->
  In rr (td_rows rtd) -> key_of rtd rr (t_pk rt) = key_of td r keycols ->
  find_ref schema bk t td r rtn = Some (rt, rtd, rr).
Proof.
  intros H1 H2 H3 Hnd Hin Hk. unfold find_ref. rewrite H1, H2, H3. rewrite <- Hk.
  pose proof (find_some_unique (fun x => key_of rtd x (t_pk rt)) keyeq (td_rows rtd) rr keyeq_spec Hnd Hin) as Hf.
  unfold keyeq in Hf. rewrite Hf. reflexivity.
Qed.

(** a reference column reads the referenced row's column *)
Lemma ref_read schema bk t td r c rtn rcn rt rtd rr rc :
  c_store c = SRef -> c_ref c = Some (rtn, rcn) -> has_flag (b_flags bk) (c_opt c) = true ->
  find_ref schema bk t td r rtn = Some (rt, rtd, rr) -> find_col rt rcn = Some rc ->
  get_col schema bk t td r c =
    if has_flag (b_flags bk) (c_opt rc) then get_own bk rtd rr rc else empty_value (c_type rc).
Proof.
  intros Hs Hr Hf Hfr Hfc. unfold get_col, get_out. rewrite Hs, Hf, Hr, Hfr, Hfc. cbn [negb].
  destruct (has_flag (b_flags bk) (c_opt rc)); reflexivity.
Qed.

(** a dangling reference (the service of a host comment) reads as the empty value *)
Lemma ref_dangling schema bk t td r c rtn rcn :
  c_store c = SRef -> c_ref c = Some (rtn, rcn) ->
  find_ref schema bk t td r rtn = None ->
  get_col schema bk t td r c = empty_value (c_type c).
Proof.
  intros Hs Hr Hfr. unfold get_col, get_out. rewrite Hs, Hr, Hfr.
  destruct (negb (has_flag (b_flags bk) (c_opt c))); reflexivity.
Qed.

(** group member states: the entry of member [m] shows the state of THE host named [m] *)
Definition host_entry (htd : tdata) (m : str) : list str :=
  match find (fun hr => str_eqb (cell_str htd hr (s "name")) m) (td_rows htd) with
  | Some hr => [m; show_Z (cell_int htd hr (s "state")); show_Z (cell_int htd hr (s "has_been_checked"))]
  | None => [s "<nil>"]
  end.

Lemma members_hosts bk t td r htd :
  t_name t = s "hostgroups" -> find_data bk (s "hosts") = Some htd ->
  members_with_state bk t td r =
    VRows (map (host_entry htd) (as_strlist (match cell td r (s "members") with Some v => v | None => VStrList [] end))).
Proof. intros Ht Hh. unfold members_with_state. rewrite Ht, Hh. reflexivity. Qed.

Lemma host_entry_hit htd hr :
  NoDup (host_names htd) -> In hr (td_rows htd) ->
  host_entry htd (cell_str htd hr (s "name")) =
    [cell_str htd hr (s "name"); show_Z (cell_int htd hr (s "state")); show_Z (cell_int htd hr (s "has_been_checked"))].
Proof.
  intros Hnd Hin. unfold host_entry.
  pose proof (find_some_unique (fun x => cell_str htd x (s "name")) str_eqb (td_rows htd) hr str_eqb_eq Hnd Hin) as Hf.
  rewrite Hf. reflexivity.
Qed.

Definition svc_entry (std : tdata) (m : str * str) : list str :=
  match find (fun sr => str_eqb (cell_str std sr (s "host_name")) (fst m)
                        && str_eqb (cell_str std sr (s "description")) (snd m)) (td_rows std) with
  | Some sr => [fst m; snd m; show_Z (cell_int std sr (s "state")); show_Z (cell_int std sr (s "has_been_checked"))]
  | None => [s "<nil>"]
  end.

Lemma members_services bk t td r std :
  t_name t <> s "hostgroups" -> find_data bk (s "services") = Some std ->
  members_with_state bk t td r =
    VRows (map (svc_entry std) (match cell td r (s "members") with Some (VPairs l) => l | _ => [] end)).
Proof.
  intros Ht Hs. unfold members_with_state. apply str_eqb_neq in Ht. rewrite Ht, Hs. reflexivity.
Qed.

Lemma svc_entry_hit std sr :
  NoDup (svc_keys std) -> In sr (td_rows std) ->
  svc_entry std (cell_str std sr (s "host_name"), cell_str std sr (s "description")) =
    [cell_str std sr (s "host_name"); cell_str std sr (s "description");
     show_Z (cell_int std sr (s "state")); show_Z (cell_int std sr (s "has_been_checked"))].
Proof.
  intros Hnd Hin. unfold svc_entry; cbn [fst snd].
  pose proof (find_some_unique (fun x => (cell_str std x (s "host_name"), cell_str std x (s "description")))
                C12.Model.svc_key_eqb (td_rows std) sr) as Hf.
  unfold C12.Model.svc_key_eqb in Hf; cbn [fst snd] in Hf. rewrite Hf; [reflexivity| |exact Hnd|exact Hin].
  intros a b. destruct (C12.Proofs.svc_key_eqb_spec a b) as [E|N]; unfold C12.Model.svc_key_eqb in *.
  - split; [intros _; exact E|]. intros _. subst. rewrite !str_eqb_refl. reflexivity.
  - split; [|contradiction]. destruct a, b; cbn [fst snd] in *. intros H. apply andb_true_iff in H as [H1 H2].
    apply str_eqb_eq in H1, H2. subst. contradiction N; reflexivity.
Qed.
