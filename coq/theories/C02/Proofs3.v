(** C02: the comment / downtime id lists of hosts and services. *)
From LMD Require Import C02.Model C02.OrderProofs C02.Proofs C02.Proofs2.
From LMD Require C12.Model C12.Proofs.
From Coq Require Import Permutation Sorted.
Open Scope Z_scope.

(** the schema never fetches a column called comments / downtimes (they are
    computed): a boolean check over the generated schema *)
Definition is_idlist_name (n : str) : bool := str_eqb n (s "comments") || str_eqb n (s "downtimes").
Definition local_fetched (c : column) : bool :=
  match c_store c, c_fetch c with SLocal, FNone => false | SLocal, _ => true | _, _ => false end.
Definition idlist_cols_free (schema : list tschema) : bool :=
  forallb (fun t => forallb (fun c => negb (is_idlist_name (c_name c) && local_fetched c)) (t_cols t))
          (filter stored schema).

Lemma idlist_not_fetched schema flags t n :
  idlist_cols_free schema = true -> In t (filter stored schema) -> is_idlist_name n = true ->
  ~ In n (map c_name (initial_cols flags t)).
Proof.
  intros Hfree Ht Hn Hin. unfold idlist_cols_free in Hfree. rewrite forallb_forall in Hfree.
  specialize (Hfree _ Ht). rewrite forallb_forall in Hfree.
  apply in_map_iff in Hin as [c [<- Hc]]. apply filter_In in Hc as [Hc Hf].
  specialize (Hfree _ Hc). rewrite Hn in Hfree. cbn [andb] in Hfree.
  unfold fetched in Hf. unfold local_fetched in Hfree.
  destruct (c_store c), (c_fetch c); cbn in *; congruence.
Qed.

Lemma cell_ext td td' extra r tl n :
  td_cols td' = td_cols td ++ extra -> length r = length (td_cols td) -> ~ In n extra ->
  cell td' (r ++ tl) n = cell td r n.
Proof.
  intros Hc Hlen Hn. unfold cell. rewrite Hc.
  destruct (index_of n (td_cols td)) as [i|] eqn:Ei.
  - rewrite (index_of_app_l _ _ _ _ Ei). apply nth_error_app1. rewrite Hlen. eapply index_of_lt; exact Ei.
  - rewrite (index_of_app_r _ _ _ Ei). apply index_of_none in Hn. rewrite Hn. reflexivity.
Qed.

Lemma cell_added_1 td td' n1 n2 r a b :
  td_cols td' = td_cols td ++ [n1; n2] -> length r = length (td_cols td) -> ~ In n1 (td_cols td) ->
  cell td' (r ++ [a; b]) n1 = Some a.
Proof.
  intros Hc Hlen Hn. unfold cell. rewrite Hc. apply index_of_none in Hn.
  rewrite (index_of_app_r _ _ _ Hn). cbn [index_of]. rewrite str_eqb_refl.
  rewrite nth_error_app2 by lia. rewrite <- Hlen. replace (length r + 0 - length r)%nat with 0%nat by lia. reflexivity.
Qed.

Lemma cell_added_2 td td' n1 n2 r a b :
  td_cols td' = td_cols td ++ [n1; n2] -> length r = length (td_cols td) -> ~ In n2 (td_cols td) -> n1 <> n2 ->
  cell td' (r ++ [a; b]) n2 = Some b.
Proof.
  intros Hc Hlen Hn Hne. unfold cell. rewrite Hc. apply index_of_none in Hn.
  rewrite (index_of_app_r _ _ _ Hn). cbn [index_of]. apply str_eqb_neq in Hne. rewrite Hne, str_eqb_refl.
  rewrite nth_error_app2 by lia. rewrite <- Hlen. replace (length r + 1 - length r)%nat with 1%nat by lia. reflexivity.
Qed.

(** the per-table function of [with_idlists], named *)
Definition idl_fun (tds : list tdata) (td : tdata) : tdata :=
  let o := C12.Model.mkObjs (host_names (table_or_empty tds (s "hosts"))) (svc_keys (table_or_empty tds (s "services"))) in
  let ce := entries_of (table_or_empty tds (s "comments")) in
  let de := entries_of (table_or_empty tds (s "downtimes")) in
  if str_eqb (td_table td) (s "hosts") then
    mkData (td_table td) (td_cols td ++ [s "comments"; s "downtimes"])
      (map (fun r => let h := cell_str td r (s "name") in
                     r ++ [VIntList (zlist (C12.Model.get_h h (C12.Model.build_h o ce)));
                           VIntList (zlist (C12.Model.get_h h (C12.Model.build_h o de)))])
           (td_rows td))
  else if str_eqb (td_table td) (s "services") then
    mkData (td_table td) (td_cols td ++ [s "comments"; s "downtimes"])
      (map (fun r => let k := (cell_str td r (s "host_name"), cell_str td r (s "description")) in
                     r ++ [VIntList (zlist (C12.Model.get_s k (C12.Model.build_s o ce)));
                           VIntList (zlist (C12.Model.get_s k (C12.Model.build_s o de)))])
           (td_rows td))
  else td.

Lemma with_idlists_eq tds : with_idlists tds = map (idl_fun tds) tds.
Proof. reflexivity. Qed.

Lemma idl_fun_name tds td : td_table (idl_fun tds td) = td_table td.
Proof.
  unfold idl_fun. destruct (str_eqb (td_table td) (s "hosts")); [reflexivity|].
  destruct (str_eqb (td_table td) (s "services")); reflexivity.
Qed.

Lemma find_some_name tds n td :
  find (fun td => str_eqb (td_table td) n) tds = Some td -> In td tds /\ td_table td = n.
Proof. intros H. apply find_some in H as [H1 H2]. apply str_eqb_eq in H2. auto. Qed.

Lemma table_or_empty_idl tds n :
  str_eqb n (s "hosts") = false -> str_eqb n (s "services") = false ->
  table_or_empty (with_idlists tds) n = table_or_empty tds n.
Proof.
  intros H1 H2. unfold table_or_empty. rewrite with_idlists_eq, (find_map_tbl _ _ _ (idl_fun_name tds)).
  destruct (find _ tds) as [td|] eqn:E; cbn [option_map]; [|reflexivity].
  apply find_some_name in E as [_ E]. unfold idl_fun. rewrite E, H1, H2. reflexivity.
Qed.

Lemma sname_ne a b : str_eqb (s a) (s b) = false -> s a <> s b.
Proof. apply str_eqb_neq. Qed.

Section Loaded.
  Variables (srt : sorter) (schema : list tschema) (key name : str) (flags : N) (replies : list reply) (bk : backend).
  Hypothesis Hok : sorter_ok srt.
  Hypothesis Hfree : idlist_cols_free schema = true.
  Hypothesis Hload : load srt schema key name flags replies = Loaded bk.

  (** common part: a table of the loaded store, its source table, row shape *)
  Lemma loaded_table n td' :
    find_data bk n = Some td' ->
    exists tds td0, bk = mkBackend key name flags true [] (with_idlists tds) /\
      find (fun td => str_eqb (td_table td) n) tds = Some td0 /\ td' = idl_fun tds td0 /\ td_table td0 = n /\
      (forall r, In r (td_rows td0) -> length r = length (td_cols td0)) /\
      (forall m, is_idlist_name m = true -> ~ In m (td_cols td0)).
  Proof.
    intros Hfd. destruct (load_loaded _ _ _ _ _ _ _ Hload) as (tds & Htds & Hbk).
    exists tds. subst bk. unfold find_data in Hfd; cbn [b_tables] in Hfd.
    rewrite with_idlists_eq, (find_map_tbl _ _ _ (idl_fun_name tds)) in Hfd.
    destruct (find _ tds) as [td0|] eqn:E; cbn [option_map] in Hfd; [|discriminate].
    exists td0. inversion Hfd; subst td'. destruct (find_some_name _ _ _ E) as [Hin Hn].
    destruct (load_tables_in _ _ _ _ _ _ Htds Hin) as (t & Ht & Hlt).
    destruct (load_table_spec _ _ _ _ _ Hok Hlt) as (_ & Hc & _ & _).
    repeat split; try assumption; try reflexivity.
    - intros r Hr. eapply load_table_row_length; eassumption.
    - intros m Hm. rewrite Hc. eapply idlist_not_fetched; eassumption.
  Qed.

  (** comments of host h = ids of the comments attached to h with empty
      service description, in table order; same for downtimes *)
  Lemma idlists_hosts htd r :
    find_data bk (s "hosts") = Some htd -> In r (td_rows htd) ->
    let h := cell_str htd r (s "name") in
    cell htd r (s "comments") =
      Some (VIntList (map Z.of_N (C12.Model.ids (filter (C12.Model.att_h h)
              (entries_of (table_or_empty (b_tables bk) (s "comments"))))))) /\
    cell htd r (s "downtimes") =
      Some (VIntList (map Z.of_N (C12.Model.ids (filter (C12.Model.att_h h)
              (entries_of (table_or_empty (b_tables bk) (s "downtimes"))))))).
  Proof.
    intros Hfd Hr h. destruct (loaded_table _ _ Hfd) as (tds & td0 & Hbk & Hfind & Htd & Hn & Hlen & Hfreec).
    subst bk; cbn [b_tables]. rewrite !table_or_empty_idl by reflexivity.
    unfold idl_fun in Htd. rewrite Hn, str_eqb_refl in Htd.
    assert (Ht0 : table_or_empty tds (s "hosts") = td0) by (unfold table_or_empty; rewrite Hfind; reflexivity).
    rewrite Ht0 in Htd. subst htd. cbn [td_rows] in Hr. apply in_map_iff in Hr as [r0 [<- Hr0]].
    set (td' := mkData _ _ _) in *.
    assert (Hc : td_cols td' = td_cols td0 ++ [s "comments"; s "downtimes"]) by reflexivity.
    assert (Hh : h = cell_str td0 r0 (s "name")).
    { subst h. unfold cell_str. rewrite (cell_ext td0 td' _ r0 _ (s "name") Hc (Hlen _ Hr0)); [reflexivity|].
      intros [H|[H|[]]]; vm_compute in H; discriminate H. }
    assert (Hmem : mem_str h (host_names td0) = true).
    { apply mem_str_In. rewrite Hh. unfold host_names. apply in_map_iff. exists r0; split; [reflexivity|exact Hr0]. }
    split.
    - rewrite (cell_added_1 td0 td' _ _ r0 _ _ Hc (Hlen _ Hr0)) by (apply Hfreec; reflexivity).
      rewrite <- Hh. rewrite C12.Proofs.get_build_h. cbn [C12.Model.o_hosts]. rewrite Hmem. reflexivity.
    - rewrite (cell_added_2 td0 td' _ _ r0 _ _ Hc (Hlen _ Hr0)); [|apply Hfreec; reflexivity|apply sname_ne; reflexivity].
      rewrite <- Hh. rewrite C12.Proofs.get_build_h. cbn [C12.Model.o_hosts]. rewrite Hmem. reflexivity.
  Qed.

  Lemma idlists_services std r :
    find_data bk (s "services") = Some std -> In r (td_rows std) ->
    let k := (cell_str std r (s "host_name"), cell_str std r (s "description")) in
    cell std r (s "comments") =
      Some (VIntList (map Z.of_N (C12.Model.ids (filter (C12.Model.att_s k)
              (entries_of (table_or_empty (b_tables bk) (s "comments"))))))) /\
    cell std r (s "downtimes") =
      Some (VIntList (map Z.of_N (C12.Model.ids (filter (C12.Model.att_s k)
              (entries_of (table_or_empty (b_tables bk) (s "downtimes"))))))).
  Proof.
    intros Hfd Hr k. destruct (loaded_table _ _ Hfd) as (tds & td0 & Hbk & Hfind & Htd & Hn & Hlen & Hfreec).
    subst bk; cbn [b_tables]. rewrite !table_or_empty_idl by reflexivity.
    unfold idl_fun in Htd. rewrite Hn in Htd.
    replace (str_eqb (s "services") (s "hosts")) with false in Htd by reflexivity. rewrite str_eqb_refl in Htd.
    assert (Ht0 : table_or_empty tds (s "services") = td0) by (unfold table_or_empty; rewrite Hfind; reflexivity).
    rewrite Ht0 in Htd. subst std. cbn [td_rows] in Hr. apply in_map_iff in Hr as [r0 [<- Hr0]].
    set (td' := mkData _ _ _) in *.
    assert (Hc : td_cols td' = td_cols td0 ++ [s "comments"; s "downtimes"]) by reflexivity.
    assert (Hk : k = (cell_str td0 r0 (s "host_name"), cell_str td0 r0 (s "description"))).
    { subst k. unfold cell_str.
      rewrite (cell_ext td0 td' _ r0 _ (s "host_name") Hc (Hlen _ Hr0)) by (intros [H|[H|[]]]; vm_compute in H; discriminate H).
      rewrite (cell_ext td0 td' _ r0 _ (s "description") Hc (Hlen _ Hr0)) by (intros [H|[H|[]]]; vm_compute in H; discriminate H).
      reflexivity. }
    assert (Hmem : C12.Proofs.mem_svc k (svc_keys td0) = true).
    { unfold C12.Proofs.mem_svc. apply existsb_exists. exists k. split.
      - rewrite Hk. unfold svc_keys. apply in_map_iff. exists r0; split; [reflexivity|exact Hr0].
      - destruct (C12.Proofs.svc_key_eqb_spec k k) as [_|N]; [reflexivity|contradiction N; reflexivity]. }
    split.
    - rewrite (cell_added_1 td0 td' _ _ r0 _ _ Hc (Hlen _ Hr0)) by (apply Hfreec; reflexivity).
      rewrite <- Hk. rewrite C12.Proofs.get_build_s. cbn [C12.Model.o_svcs]. rewrite Hmem. reflexivity.
    - rewrite (cell_added_2 td0 td' _ _ r0 _ _ Hc (Hlen _ Hr0)); [|apply Hfreec; reflexivity|apply sname_ne; reflexivity].
      rewrite <- Hk. rewrite C12.Proofs.get_build_s. cbn [C12.Model.o_svcs]. rewrite Hmem. reflexivity.
  Qed.
End Loaded.

(** what "attached" means (C12.Model.att_h / att_s), spelled out *)
Lemma att_h_spec h e :
  C12.Model.att_h h e = true <-> C12.Model.e_svc e = [] /\ C12.Model.e_host e = h.
Proof.
  unfold C12.Model.att_h, C12.Model.nonempty. rewrite andb_true_iff, str_eqb_eq.
  destruct (C12.Model.e_svc e); cbn [negb]; split; intros [H1 H2]; split; congruence.
Qed.

Lemma att_s_spec k e :
  C12.Model.att_s k e = true <-> C12.Model.e_svc e <> [] /\ (C12.Model.e_host e, C12.Model.e_svc e) = k.
Proof.
  unfold C12.Model.att_s, C12.Model.nonempty. rewrite andb_true_iff.
  destruct (C12.Proofs.svc_key_eqb_spec (C12.Model.e_host e, C12.Model.e_svc e) k) as [E|N].
  - destruct (C12.Model.e_svc e); split; intros [H1 H2]; split; congruence.
  - split; intros [H1 H2]; [discriminate|contradiction].
Qed.

(** ** boolean obligations on the generated schema *)
Fixpoint nodupb (l : list str) : bool :=
  match l with [] => true | x :: r => negb (mem_str x r) && nodupb r end.

Lemma nodupb_NoDup l : nodupb l = true -> NoDup l.
Proof.
  induction l as [|x l IH]; cbn [nodupb]; intros H; [constructor|].
  apply andb_true_iff in H as [Hx Hl]. constructor; [|apply IH; exact Hl].
  intros Hin. apply mem_str_In in Hin. rewrite Hin in Hx. discriminate.
Qed.

Definition schema_ok (sch : list tschema) : bool :=
  nodupb (map t_name (filter stored sch)) &&
  forallb (fun t => nodupb (map c_name (t_cols t))) (filter stored sch) &&
  idlist_cols_free sch.

Lemma schema_ok_spec sch : schema_ok sch = true ->
  NoDup (map t_name (filter stored sch)) /\
  (forall t, In t (filter stored sch) -> NoDup (map c_name (t_cols t))) /\
  idlist_cols_free sch = true.
Proof.
  unfold schema_ok. intros H. apply andb_true_iff in H as [H H3]. apply andb_true_iff in H as [H1 H2].
  split; [apply nodupb_NoDup; exact H1|]. split; [|exact H3].
  intros t Ht. rewrite forallb_forall in H2. apply nodupb_NoDup, H2, Ht.
Qed.
