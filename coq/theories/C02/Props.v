(** C02: initial synchronisation stores the backend's objects faithfully.
    Only statements, each closed by [exact] / [apply] of a lemma; proofs live in
    OrderProofs.v, Proofs.v, Proofs2.v, Proofs3.v.

    [load srt schema key name flags replies] is the store lmd builds from the
    backend's replies (one per cached table, rows in wire order) for a backend
    that announced [flags]; [srt] is the sorting function (ANY function that
    returns a sorted permutation - Go's sort.Sort is one, [isort] the executable
    instance); [get_col] is what a client reads for a column of a stored row,
    [query_all] the full-column GET on every cached table.
    The schema is the one GENERATED from the code on every run (Gen/Schema.v);
    the facts about it that the theorems need are the boolean [schema_ok],
    re-proved by computation against the regenerated file. *)
From LMD Require Import C02.Model C02.OrderProofs C02.Proofs C02.Proofs2 C02.Proofs3 C02.Run.
From LMD Require C12.Model C12.Proofs.
From LMD Require Import Gen.Schema.
From Coq Require Import Permutation Sorted.
Open Scope Z_scope.

(** obligations on the generated schema: cached tables have distinct names,
    every cached table has distinct column names, no fetched column is called
    comments / downtimes (those are computed) *)
Theorem C02_schema_obligations : schema_ok Gen.Schema.schema = true.
Proof. vm_compute. reflexivity. Qed.

(** the primary key order (ResultSetSorted.Less on distinct keys) is a total order ... *)
Theorem C02_key_order :
  (forall a b, key_leb a b = true -> key_leb b a = true -> a = b) /\
  (forall a b c, key_leb a b = true -> key_leb b c = true -> key_leb a c = true) /\
  (forall a b, key_leb a b = false -> key_leb b a = true) /\
  (forall a b, str_ltb a b = true <-> str_cmp a b = Lt).
Proof.
  exact (conj key_leb_antisym (conj key_leb_trans (conj key_leb_total (fun a b => str_cmp_ltb a b)))).
Qed.

(** ... so sorters exist (insertion sort is the one the stream executes) *)
Theorem C02_isort_is_sorter : sorter_ok isort.
Proof. exact isort_ok. Qed.

(** load_perm_invariant: the store does not depend on the row order of the
    backend's replies, given unique primary keys (tables without key: at most one row) *)
Theorem C02_load_perm_invariant :
  forall (srt : sorter) (schema : list tschema) (key name : str) (flags : N) (rs1 rs2 : list reply),
    sorter_ok srt -> replies_perm rs1 rs2 ->
    Forall (fun t => unique_pk flags t (rows_of rs1 t)) (filter stored schema) ->
    load srt schema key name flags rs1 = load srt schema key name flags rs2.
Proof. exact load_perm_invariant. Qed.

(** load_faithful: every delivered object is stored exactly once; a client reads
    for every fetched column the stored cell; that cell is the delivered value
    after the documented coercion, and the delivered value itself (its plain
    typed reading [natural]) whenever it is within the column's range [in_range] *)
Theorem C02_load_faithful :
  forall (srt : sorter) (schema : list tschema) (key name : str) (flags : N) (replies : list reply) (bk : backend) (t : tschema),
    sorter_ok srt -> schema_ok schema = true ->
    load srt schema key name flags replies = Loaded bk -> In t (filter stored schema) ->
    let cols := initial_cols flags t in
    exists td, find_data bk (t_name t) = Some td /\
      Permutation (map (firstn (length cols)) (td_rows td)) (map (coerce_row cols) (rows_of replies t)) /\
      (forall r i c, In r (td_rows td) -> nth_error cols i = Some c ->
                     get_col schema bk t td r c = nth i r (VStr [])) /\
      (forall row i c, In row (rows_of replies t) -> nth_error cols i = Some c ->
         nth i (coerce_row cols row) (VStr []) = coerce (c_type c) (nth i (norm_row row) (RAtom ANull)) /\
         (in_range (c_type c) (nth i (norm_row row) (RAtom ANull)) = true ->
          nth i (coerce_row cols row) (VStr []) = natural (c_type c) (nth i (norm_row row) (RAtom ANull)))).
Proof.
  intros srt schema key name flags replies bk t Hok Hs Hl Ht.
  destruct (schema_ok_spec _ Hs) as (H1 & H2 & _).
  apply (load_faithful srt schema key name flags replies bk t Hok H1); [|exact Hl|exact Ht].
  apply H2. exact Ht.
Qed.

(** the coercions: identity within the range; nil -> the type's empty value;
    Icinga2's 0 and "" -> the empty list; beyond int8 -> 0 (checkInt8Bounds) *)
Theorem C02_coercions :
  (forall t r, in_range t r = true -> coerce t r = natural t r) /\
  (forall t, coerce t (RAtom ANull) = zero_value t) /\
  coerce TStrList (RAtom (ANum 0)) = VStrList [] /\
  coerce TStrList (RAtom (AStr [])) = VStrList [] /\
  (forall v, v < -128 \/ 127 < v -> coerce TInt (RAtom (ANum (v * 1000))) = VInt 0).
Proof.
  exact (conj coerce_in_range (conj coerce_null (conj coerce_icinga2_zero (conj coerce_empty_string_list coerce_int8_clamp)))).
Qed.

(** refs_resolve: a reference column (host_X of a service, host_X / service_X of a
    comment or downtime) reads column X of THE row of the referenced table whose
    primary key equals the local key columns ... *)
Theorem C02_refs_resolve :
  forall schema bk t td r c rtn rcn rtn' keycols rt rtd rr rc,
    c_store c = SRef -> c_ref c = Some (rtn, rcn) -> has_flag (b_flags bk) (c_opt c) = true ->
    find (fun x => str_eqb (fst x) rtn) (t_refs t) = Some (rtn', keycols) ->
    find_table schema rtn = Some rt -> find_data bk rtn = Some rtd ->
    NoDup (map (fun x => key_of rtd x (t_pk rt)) (td_rows rtd)) ->
    In rr (td_rows rtd) -> key_of rtd rr (t_pk rt) = key_of td r keycols ->
    find_col rt rcn = Some rc ->
    get_col schema bk t td r c =
      if has_flag (b_flags bk) (c_opt rc) then get_own bk rtd rr rc else empty_value (c_type rc).
Proof.
  intros schema bk t td r c rtn rcn rtn' keycols rt rtd rr rc Hs Hr Hf H1 H2 H3 Hnd Hin Hk Hc.
  apply (ref_read schema bk t td r c rtn rcn rt rtd rr rc Hs Hr Hf); [|exact Hc].
  exact (find_ref_hit schema bk t td r rtn rtn' keycols rt rtd rr H1 H2 H3 Hnd Hin Hk).
Qed.

(** ... and a dangling reference (the service of a host comment) as the empty value *)
Theorem C02_refs_dangling :
  forall schema bk t td r c rtn rcn,
    c_store c = SRef -> c_ref c = Some (rtn, rcn) -> find_ref schema bk t td r rtn = None ->
    get_col schema bk t td r c = empty_value (c_type c).
Proof. exact ref_dangling. Qed.

(** group member states: the entry of a member shows the state of THE host /
    service with that name *)
Theorem C02_member_states :
  (forall bk t td r htd, t_name t = s "hostgroups" -> find_data bk (s "hosts") = Some htd ->
     members_with_state bk t td r =
       VRows (map (host_entry htd) (as_strlist (match cell td r (s "members") with Some v => v | None => VStrList [] end)))) /\
  (forall htd hr, NoDup (host_names htd) -> In hr (td_rows htd) ->
     host_entry htd (cell_str htd hr (s "name")) =
       [cell_str htd hr (s "name"); show_Z (cell_int htd hr (s "state")); show_Z (cell_int htd hr (s "has_been_checked"))]) /\
  (forall bk t td r std, t_name t <> s "hostgroups" -> find_data bk (s "services") = Some std ->
     members_with_state bk t td r =
       VRows (map (svc_entry std) (match cell td r (s "members") with Some (VPairs l) => l | _ => [] end))) /\
  (forall std sr, NoDup (svc_keys std) -> In sr (td_rows std) ->
     svc_entry std (cell_str std sr (s "host_name"), cell_str std sr (s "description")) =
       [cell_str std sr (s "host_name"); cell_str std sr (s "description");
        show_Z (cell_int std sr (s "state")); show_Z (cell_int std sr (s "has_been_checked"))]).
Proof. exact (conj members_hosts (conj host_entry_hit (conj members_services svc_entry_hit))). Qed.

(** idlists_exact: the comments of host h are the ids of the comments attached to
    h with empty service description, in table order; a service's are those
    naming the service; same for downtimes ([att_h] / [att_s] spelled out below) *)
Theorem C02_idlists_exact :
  forall (srt : sorter) (schema : list tschema) (key name : str) (flags : N) (replies : list reply) (bk : backend),
    sorter_ok srt -> schema_ok schema = true ->
    load srt schema key name flags replies = Loaded bk ->
    let ce := entries_of (table_or_empty (b_tables bk) (s "comments")) in
    let de := entries_of (table_or_empty (b_tables bk) (s "downtimes")) in
    (forall htd r, find_data bk (s "hosts") = Some htd -> In r (td_rows htd) ->
       let h := cell_str htd r (s "name") in
       cell htd r (s "comments") = Some (VIntList (map Z.of_N (C12.Model.ids (filter (C12.Model.att_h h) ce)))) /\
       cell htd r (s "downtimes") = Some (VIntList (map Z.of_N (C12.Model.ids (filter (C12.Model.att_h h) de))))) /\
    (forall std r, find_data bk (s "services") = Some std -> In r (td_rows std) ->
       let k := (cell_str std r (s "host_name"), cell_str std r (s "description")) in
       cell std r (s "comments") = Some (VIntList (map Z.of_N (C12.Model.ids (filter (C12.Model.att_s k) ce)))) /\
       cell std r (s "downtimes") = Some (VIntList (map Z.of_N (C12.Model.ids (filter (C12.Model.att_s k) de))))).
Proof.
  intros srt schema key name flags replies bk Hok Hs Hl ce de.
  destruct (schema_ok_spec _ Hs) as (_ & _ & H3).
  split.
  - intros htd r. exact (idlists_hosts srt schema key name flags replies bk Hok H3 Hl htd r).
  - intros std r. exact (idlists_services srt schema key name flags replies bk Hok H3 Hl std r).
Qed.

Theorem C02_attached :
  (forall h e, C12.Model.att_h h e = true <-> C12.Model.e_svc e = [] /\ C12.Model.e_host e = h) /\
  (forall k e, C12.Model.att_s k e = true <-> C12.Model.e_svc e <> [] /\ (C12.Model.e_host e, C12.Model.e_svc e) = k).
Proof. exact (conj att_h_spec att_s_spec). Qed.

(** non-vacuity on the generated schema: two hosts delivered in the wrong order,
    one with a state beyond int8, a null alias, Icinga2's 0 for an empty list and
    a raw control byte next to a DEL; three comments delivered out of id order *)
Example C02_example :
  let fl := 128%N in
  let hc := initial_cols fl t_hosts in
  let cc := initial_cols fl t_comments in
  let sc := initial_cols fl t_status in
  let N1 (z : Z) := RAtom (ANum (z * 1000)) in
  let S1 x := RAtom (AStr (s x)) in
  let hosts := [row_of hc [(s "name", S1 "zeta"); (s "state", N1 300); (s "alias", RAtom ANull); (s "contacts", N1 0)];
                row_of hc [(s "name", S1 "Alpha"); (s "state", N1 1); (s "contacts", RList [AStr (s "a"); AStr (s "b")]);
                           (s "alias", RAtom (AStr [120; 1114113; 121]%N)); (s "address", RAtom (AStr [97; 127; 98]%N))]] in
  let comments := [row_of cc [(s "id", N1 7); (s "host_name", S1 "Alpha")];
                   row_of cc [(s "id", N1 3); (s "host_name", S1 "Alpha")];
                   row_of cc [(s "id", N1 5); (s "host_name", S1 "Alpha"); (s "service_description", S1 "ping")]] in
  let status := [row_of sc [(s "program_start", N1 1700000000)]] in
  let rs := [mkReply (s "status") status; mkReply (s "hosts") hosts; mkReply (s "comments") comments] in
  let rs' := [mkReply (s "status") status; mkReply (s "hosts") (rev hosts); mkReply (s "comments") (rev comments)] in
  match load isort schema (s "k") (s "n") fl rs with
  | Loaded bk =>
      query_table schema bk t_hosts (qcolumns t_hosts [s "name"; s "state"; s "alias"; s "address"; s "contacts"; s "comments"; s "name_lc"])
      = [[VStr (s "Alpha"); VInt 1; VStr [120; 65533; 121]%N; VStr [97; 65533; 98]%N; VStrList [s "a"; s "b"]; VIntList [3; 7]; VStr (s "alpha")];
         [VStr (s "zeta"); VInt 0; VStr []; VStr []; VStrList []; VIntList []; VStr (s "zeta")]]
      /\ query_table schema bk t_comments (qcolumns t_comments [s "id"; s "host_state"; s "service_state"])
         = [[VInt 3; VInt 1; VInt (-1)]; [VInt 5; VInt 1; VInt (-1)]; [VInt 7; VInt 1; VInt (-1)]]
      /\ load isort schema (s "k") (s "n") fl rs' = Loaded bk
  | Failed _ => False
  end.
Proof. vm_compute. repeat split. Qed.

Print Assumptions C02_schema_obligations.
Print Assumptions C02_key_order.
Print Assumptions C02_isort_is_sorter.
Print Assumptions C02_load_perm_invariant.
Print Assumptions C02_load_faithful.
Print Assumptions C02_coercions.
Print Assumptions C02_refs_resolve.
Print Assumptions C02_refs_dangling.
Print Assumptions C02_member_states.
Print Assumptions C02_idlists_exact.
Print Assumptions C02_attached.
