(** C02: executable comparison of the load model with what the harness saw:
    the queries lmd sent to the scripted backend during InitAllTables, the rows
    it was delivered (wire order), the flags it detected, and the answers to a
    full-column GET on every cached table afterwards.

    Rows are written sparsely: only the cells that differ from the default of
    their column ([raw_default] = what the scripted backend sends for a column
    its dataset does not store, [zero_value] for answers). *)
From LMD Require Export C02.Model.
From LMD Require Import Gen.Schema.
Open Scope N_scope.

Definition R (i : nat) (r : raw) : nat * raw := (i, r).
Definition C (i : nat) (v : value) : nat * value := (i, v).

Record tcase := mkT {
  tc_table : str;
  tc_req : list str;                          (* the Columns: header lmd sent for the initial fetch *)
  tc_rows : list (nat * list (nat * raw));    (* delivered rows in wire order: (number of cells, sparse cells) *)
  tc_qcols : list str;                        (* columns of the read back GET *)
  tc_obs : list (list (nat * value)) }.       (* lmd's answer rows, sparse *)

Record case := mkCase {
  k_key : str; k_name : str;
  k_flags : N;                                (* flags the flavour should produce *)
  k_oflags : N;                               (* Peer.flags after InitAllTables *)
  k_err : N;                                  (* 0: InitAllTables succeeded, else the error class *)
  k_tables : list tcase }.

Definition raw_default (t : dtype) : raw :=
  match t with
  | TStr | TStrLarge | TJSON => RAtom (AStr [])
  | TInt | TInt64 | TFloat => RAtom (ANum 0)
  | _ => RList []
  end.

Fixpoint expand {A} (i : nat) (defs : list A) (sp : list (nat * A)) : list A :=
  match defs with
  | [] => []
  | d :: ds =>
      match sp with
      | (j, v) :: sp' => if Nat.eqb i j then v :: expand (S i) ds sp' else d :: expand (S i) ds sp
      | [] => d :: expand (S i) ds []
      end
  end.

(** a delivered row with [w] cells over [n] requested columns *)
Definition dense_raw (cols : list column) (row : nat * list (nat * raw)) : list raw :=
  let full := expand 0 (map (fun c => raw_default (c_type c)) cols) (snd row) in
  let w := fst row in
  firstn w full ++ repeat (RAtom ANull) (w - length cols).

Definition qcolumns (t : tschema) (names : list str) : list column :=
  map (fun n => match find_col t n with Some c => c | None => mkCol n TStr SVirtual FNone 0 None end) names.

Definition dense_obs (qc : list column) (row : list (nat * value)) : list value :=
  expand 0 (map (fun c => zero_value (c_type c)) qc) row.

Fixpoint list_eqb {A} (eqb : A -> A -> bool) (a b : list A) : bool :=
  match a, b with
  | [], [] => true
  | x :: a', y :: b' => eqb x y && list_eqb eqb a' b'
  | _, _ => false
  end.

Definition pair_eqb (a b : str * str) : bool := str_eqb (fst a) (fst b) && str_eqb (snd a) (snd b).

Definition value_eqb (a b : value) : bool :=
  match a, b with
  | VStr x, VStr y => str_eqb x y
  | VInt x, VInt y => Z.eqb x y
  | VFloat x, VFloat y => Z.eqb x y
  | VInt x, VFloat y | VFloat y, VInt x => Z.eqb (x * 1000) y
  | VStrList x, VStrList y => list_eqb str_eqb x y
  | VIntList x, VIntList y => list_eqb Z.eqb x y
  | VPairs x, VPairs y => list_eqb pair_eqb x y
  | VRows x, VRows y => list_eqb (list_eqb str_eqb) x y
  | _, _ => false
  end.

Definition find_tcase (c : case) (t : tschema) : option tcase :=
  find (fun tc => str_eqb (tc_table tc) (t_name t)) (k_tables c).

Definition replies_of (c : case) : list reply :=
  map (fun tc =>
         match find_table schema (tc_table tc) with
         | Some t => mkReply (tc_table tc) (map (dense_raw (initial_cols (k_flags c) t)) (tc_rows tc))
         | None => mkReply (tc_table tc) []
         end) (k_tables c).

(** what the model expects lmd to answer for the read back GET of one table *)
Definition expected_rows (bk : backend) (t : tschema) (tc : tcase) : list (list value) :=
  query_table schema bk t (qcolumns t (tc_qcols tc)).

(** *** second, independent comparison: answers against the SOURCE rows
    (no sorting, no store): every delivered object is answered exactly once and
    every fetched cell that is within its column's range carries the delivered value *)
Definition kv_eqb (a b : kv) : bool := match kv_cmp a b with Eq => true | _ => false end.

Definition src_key (cols : list column) (pk : list str) (row : list raw) : list kv :=
  row_key (map c_name cols) pk (map (fun p => natural (c_type (fst p)) (snd p)) (combine cols (norm_row row))).

Definition obs_key (qnames pk : list str) (o : list value) : list kv := row_key qnames pk o.

Definition source_ok (flags : N) (t : tschema) (tc : tcase) : bool :=
  let cols := initial_cols flags t in
  let qc := qcolumns t (tc_qcols tc) in
  let qnames := map c_name qc in
  let obs := map (dense_obs qc) (tc_obs tc) in
  let src := map (dense_raw cols) (tc_rows tc) in
  Nat.eqb (length obs) (length src) &&
  match t_pk t with
  | [] => true
  | pk =>
      forallb (fun row =>
        let nrow := norm_row row in
        let k := src_key cols pk row in
        match filter (fun o => list_eqb kv_eqb (obs_key qnames pk o) k) obs with
        | [o] =>
            forallb (fun p =>
              let c := fst p in
              negb (in_range (c_type c) (snd p)) ||
              match index_of (c_name c) qnames with
              | Some i => value_eqb (nth i o (VStr [])) (natural (c_type c) (snd p))
              | None => true
              end) (combine cols nrow)
        | _ => false
        end) src
  end.

(** verdict codes: 0 agree; 1 flags; 2 requested columns; 3 outcome (error
    class); 4 answers differ from the model; 5 answers differ from the source rows *)
Definition check (c : case) : N :=
  if negb (N.eqb (k_flags c) (k_oflags c)) then 1 else
  let tabs := filter stored schema in
  if negb (forallb (fun t => match find_tcase c t with
                             | Some tc => list_eqb str_eqb (tc_req tc) (map c_name (initial_cols (k_flags c) t))
                             | None => true     (* the initial fetch of this table was never sent (earlier failure) *)
                             end) tabs) then 2 else
  match load isort schema (k_key c) (k_name c) (k_flags c) (replies_of c) with
  | Failed e => if N.eqb e (k_err c) then 0 else 3
  | Loaded bk =>
      if negb (N.eqb (k_err c) 0) then 3 else
      if negb (forallb (fun t => match find_tcase c t with
                                 | Some tc => list_eqb (list_eqb value_eqb) (expected_rows bk t tc)
                                                (map (dense_obs (qcolumns t (tc_qcols tc))) (tc_obs tc))
                                 | None => false
                                 end) tabs) then 4 else
      if negb (forallb (fun t => match find_tcase c t with
                                 | Some tc => source_ok (k_flags c) t tc
                                 | None => false
                                 end) tabs) then 5 else 0
  end.

Fixpoint mismatches_from (i : nat) (cs : list case) : list (nat * N) :=
  match cs with
  | [] => []
  | c :: rest => (match check c with 0 => [] | e => [(i, e)] end) ++ mismatches_from (S i) rest
  end.

Definition mismatches := mismatches_from 0.

(** diagnosis helpers (used when replaying a single case by hand) *)
Definition diff_table (c : case) (name : str) : list (list value * list value) :=
  match find_table schema name, load isort schema (k_key c) (k_name c) (k_flags c) (replies_of c) with
  | Some t, Loaded bk =>
      match find_tcase c t with
      | Some tc => filter (fun p => negb (list_eqb value_eqb (fst p) (snd p)))
                     (combine (expected_rows bk t tc) (map (dense_obs (qcolumns t (tc_qcols tc))) (tc_obs tc)))
      | None => []
      end
  | _, _ => []
  end.

(** a full reply row from named cells (for hand written examples) *)
Definition row_of (cols : list column) (cells : list (str * raw)) : list raw :=
  map (fun c => match find (fun p => str_eqb (fst p) (c_name c)) cells with
                | Some p => snd p
                | None => raw_default (c_type c)
                end) cols.
