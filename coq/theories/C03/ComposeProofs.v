(** C03: [composeTimestampFilter] selects exactly the given timestamps. *)
From LMD Require Import C03.Filter.
Open Scope Z_scope.

Definition gexp (p : Z * Z) : fexp :=
  if fst p =? snd p then XLeaf CLc OEq (fst p)
  else XAnd [XLeaf CLc OGe (fst p); XLeaf CLc OLe (snd p)].

Definition fl (p : Z * Z) : list line := flush (fst p) (snd p).

Definition inr (x : Z) (p : Z * Z) : bool := (fst p <=? x) && (x <=? snd p).

Lemma runl_app a b st : runl (a ++ b) st = runl b (runl a st).
Proof. revert st; induction a as [|l a IH]; intros st; [reflexivity|]. destruct l; cbn [runl app]; apply IH. Qed.

Lemma runl_fl p st : runl (fl p) st = gexp p :: st.
Proof.
  unfold fl, flush, gexp. destruct (fst p =? snd p); reflexivity.
Qed.

Lemma runl_groups gs st : runl (concat (map fl gs)) st = rev (map gexp gs) ++ st.
Proof.
  revert st; induction gs as [|g gs IH]; intros st; [reflexivity|].
  cbn [map concat]. rewrite runl_app, runl_fl, IH. cbn [rev]. rewrite <- app_assoc. reflexivity.
Qed.

Lemma xsem_gexp x p : xsem (lc_env x) (gexp p) = inr x p \/ (fst p = snd p /\ xsem (lc_env x) (gexp p) = (x =? fst p)).
Proof.
  unfold gexp, inr. destruct (Z.eqb_spec (fst p) (snd p)) as [He|Hne].
  - right. split; [assumption|reflexivity].
  - left. cbn. rewrite andb_true_r. reflexivity.
Qed.

Lemma xsem_gexp_inr x p : xsem (lc_env x) (gexp p) = inr x p.
Proof.
  destruct (xsem_gexp x p) as [H|[He H]]; [assumption|].
  rewrite H. unfold inr. rewrite <- He.
  destruct (Z.eqb_spec x (fst p)); destruct (Z.leb_spec (fst p) x); destruct (Z.leb_spec x (fst p)); cbn; try reflexivity; lia.
Qed.

Lemma xsem_or e l : xsem e (XOr l) = existsb (xsem e) l.
Proof. induction l as [|y l IH]; [reflexivity|]. cbn [existsb]. rewrite <- IH. reflexivity. Qed.

Lemma existsb_ext_eq {A} (f g : A -> bool) l : (forall x, f x = g x) -> existsb f l = existsb g l.
Proof. intros H. induction l as [|y l IH]; [reflexivity|]. cbn [existsb]. rewrite H, IH. reflexivity. Qed.

Lemma existsb_map_eq {A B} (f : B -> bool) (g : A -> B) l : existsb f (map g l) = existsb (fun x => f (g x)) l.
Proof. induction l as [|y l IH]; [reflexivity|]. cbn [map existsb]. rewrite IH. reflexivity. Qed.

Definition covered (gs : list (Z * Z)) (x : Z) : bool := existsb (inr x) gs.

(** semantics of the final filter, for at least one group *)
Lemma lsem_groups gs x :
  gs <> [] ->
  lsem (concat (let acc := map fl gs in if Nat.ltb 1 (length acc) then acc ++ [[LOr (length acc)]] else acc)) (lc_env x)
  = covered gs x.
Proof.
  intros Hne. unfold lsem. rewrite map_length.
  destruct (Nat.ltb_spec 1 (length gs)) as [Hlt|Hge].
  - rewrite concat_app, runl_app, runl_groups, app_nil_r. cbn [concat app runl].
    assert (Hlen : length (rev (map gexp gs)) = length gs) by (rewrite rev_length, map_length; reflexivity).
    rewrite <- Hlen at 1 2. rewrite firstn_all, skipn_all, rev_involutive.
    cbn [forallb]. rewrite andb_true_r, xsem_or. unfold covered.
    rewrite existsb_map_eq. apply existsb_ext_eq. intros p. apply xsem_gexp_inr.
  - destruct gs as [|g [|g' gs]]; [congruence| |cbn in Hge; lia].
    cbn [map concat]. rewrite app_nil_r, runl_fl. cbn [forallb covered existsb].
    rewrite xsem_gexp_inr, andb_true_r, orb_false_r. reflexivity.
Qed.

(** the loop on (start,end) pairs instead of rendered groups *)
Fixpoint cloop (ts : list Z) (gs : list (Z * Z)) (bs be : Z) : list (Z * Z) * (Z * Z) :=
  match ts with
  | [] => (gs, (bs, be))
  | t :: r =>
      if bs =? -1 then cloop r gs t t
      else if be =? t - 1 then cloop r gs bs t
      else cloop r (gs ++ [(bs, be)]) t t
  end.

Lemma compose_loop_cloop ts gs bs be :
  compose_loop ts (map fl gs) bs be = (map fl (fst (cloop ts gs bs be)), snd (cloop ts gs bs be)).
Proof.
  revert gs bs be; induction ts as [|t r IH]; intros gs bs be; [reflexivity|].
  cbn [compose_loop cloop]. destruct (bs =? -1); [apply IH|].
  destruct (be =? t - 1); [apply IH|].
  replace (map fl gs ++ [flush bs be]) with (map fl (gs ++ [(bs, be)])) by (rewrite map_app; reflexivity).
  apply IH.
Qed.

Definition finish (r : list (Z * Z) * (Z * Z)) : list (Z * Z) :=
  let '(gs, (bs, be)) := r in if bs =? -1 then gs else gs ++ [(bs, be)].

Lemma compose_finish ts :
  compose ts = (let acc := map fl (finish (cloop ts [] (-1) (-1))) in
                if Nat.ltb 1 (length acc) then acc ++ [[LOr (length acc)]] else acc).
Proof.
  unfold compose. change (@nil (list line)) with (map fl []). rewrite compose_loop_cloop.
  destruct (cloop ts [] (-1) (-1)) as [gs [bs be]]. cbn [fst snd finish].
  destruct (bs =? -1); [reflexivity|]. rewrite map_app. reflexivity.
Qed.

Lemma covered_app gs p x : covered (gs ++ [p]) x = covered gs x || inr x p.
Proof. unfold covered. rewrite existsb_app. cbn [existsb]. rewrite orb_false_r. reflexivity. Qed.

Lemma incr_cons x y r : incr (x :: y :: r) = true -> x < y /\ incr (y :: r) = true.
Proof. cbn [incr]. intros H. apply andb_prop in H as [H1 H2]. apply Z.ltb_lt in H1. split; assumption. Qed.

Lemma incr_tail x r : incr (x :: r) = true -> incr r = true.
Proof. destruct r as [|y r]; [reflexivity|]. intros H. apply incr_cons in H. apply H. Qed.

Lemma incr_lt x r y : incr (x :: r) = true -> In y r -> x < y.
Proof.
  revert x; induction r as [|z r IH]; intros x H Hin; [destruct Hin|].
  apply incr_cons in H as [Hlt Hr]. destruct Hin as [->|Hin]; [assumption|].
  specialize (IH z Hr Hin). lia.
Qed.

(** invariant of the loop once a block is open *)
Lemma cloop_open ts : forall gs bs be x,
  bs <> -1 -> bs <= be -> ~ In (-1) ts -> incr (be :: ts) = true ->
  covered (finish (cloop ts gs bs be)) x = true <->
  (covered gs x = true \/ (bs <= x <= be) \/ In x ts).
Proof.
  induction ts as [|t r IH]; intros gs bs be x Hbs Hle Hn1 Hinc.
  - cbn [cloop finish]. destruct (Z.eqb_spec bs (-1)); [contradiction|].
    rewrite covered_app, orb_true_iff. unfold inr. cbn [fst snd].
    rewrite andb_true_iff, !Z.leb_le. cbn [In]. tauto.
  - cbn [cloop]. destruct (Z.eqb_spec bs (-1)); [contradiction|].
    apply incr_cons in Hinc as [Hlt Hinc].
    assert (Ht : t <> -1) by (intros ->; apply Hn1; left; reflexivity).
    assert (Hn1' : ~ In (-1) r) by (intros H; apply Hn1; right; assumption).
    destruct (Z.eqb_spec be (t - 1)) as [He|Hne].
    + rewrite IH by (try assumption; lia). cbn [In]. split.
      * intros [H|[H|H]]; [tauto| |tauto].
        destruct (Z.eq_dec x t); [right; right; left; congruence|]. right; left; lia.
      * intros [H|[H|[H|H]]]; [tauto| | |tauto]; right; left; lia.
    + rewrite IH by (try assumption; lia). rewrite covered_app, orb_true_iff. unfold inr. cbn [fst snd In].
      rewrite andb_true_iff, !Z.leb_le. split.
      * intros [[H|H]|[H|H]]; [tauto|tauto| |tauto]. right; right; left; lia.
      * intros [H|[H|[H|H]]]; [tauto|tauto| |tauto]. right; left; lia.
Qed.

Lemma cloop_nonempty ts gs bs be : bs <> -1 -> ~ In (-1) ts -> finish (cloop ts gs bs be) <> [].
Proof.
  revert gs bs be; induction ts as [|t r IH]; intros gs bs be Hbs Hn1.
  - cbn [cloop finish]. destruct (Z.eqb_spec bs (-1)); [contradiction|]. destruct gs; discriminate.
  - cbn [cloop]. destruct (Z.eqb_spec bs (-1)); [contradiction|].
    assert (Ht : t <> -1) by (intros ->; apply Hn1; left; reflexivity).
    assert (Hn1' : ~ In (-1) r) by (intros H; apply Hn1; right; assumption).
    destruct (be =? t - 1); apply IH; assumption.
Qed.

(** compose_ts_exact *)
Lemma compose_exact ts x :
  ts <> [] -> incr ts = true -> ~ In (-1) ts ->
  lsem (concat (compose ts)) (lc_env x) = true <-> In x ts.
Proof.
  intros Hne Hinc Hn1. rewrite compose_finish.
  destruct ts as [|t r]; [congruence|].
  assert (Ht : t <> -1) by (intros ->; apply Hn1; left; reflexivity).
  assert (Hn1' : ~ In (-1) r) by (intros H; apply Hn1; right; assumption).
  cbn [cloop]. change (-1 =? -1) with true. cbv iota.
  rewrite lsem_groups by (apply cloop_nonempty; assumption).
  rewrite cloop_open by (try assumption; lia).
  cbn [covered existsb In]. split.
  - intros [H|[H|H]]; [discriminate| |tauto]. left; lia.
  - intros [H|H]; [right; left; lia|tauto].
Qed.

(** without the hypothesis about -1 the statement is false: the loop uses -1 as "no block open" *)
Lemma compose_sentinel_refuted :
  incr [-1; 5] = true /\ lsem (concat (compose [-1; 5])) (lc_env (-1)) = false.
Proof. vm_compute. split; reflexivity. Qed.

(** the three example tests of the suite (TestComposeTimestamp1-3) as instances *)
Example compose_test1 : compose [1; 3; 5] = [[LF CLc OEq 1]; [LF CLc OEq 3]; [LF CLc OEq 5]; [LOr 3]].
Proof. reflexivity. Qed.
Example compose_test2 : compose [1; 2; 3; 5; 7; 8; 9] =
  [[LF CLc OGe 1; LF CLc OLe 3; LAnd 2]; [LF CLc OEq 5]; [LF CLc OGe 7; LF CLc OLe 9; LAnd 2]; [LOr 3]].
Proof. reflexivity. Qed.
Example compose_test3 : compose [1; 2; 3] = [[LF CLc OGe 1; LF CLc OLe 3; LAnd 2]].
Proof. reflexivity. Qed.
