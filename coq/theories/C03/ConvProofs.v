(** C03: convergence - once the backend is quiet, one successful cycle whose
    window passes the last change and whose full scan runs makes the cache equal
    to the backend (if the timestamp filter is not cut), whatever happened before. *)
From LMD Require Import C03.Filter C03.ComposeProofs C03.Model C03.Proofs C03.WcProofs.
Open Scope Z_scope.

(** ---- shape of the composed filter on the stack ---- *)

Definition gstack (G : list (Z * Z)) : list fexp :=
  match G with [] => [] | [g] => [gexp g] | _ => [XOr (map gexp G)] end.

Lemma runl_compose_shape ts st :
  runl (concat (compose ts)) st = gstack (finish (cloop ts [] (-1) (-1))) ++ st.
Proof.
  rewrite compose_finish. set (G := finish (cloop ts [] (-1) (-1))). cbv zeta. rewrite map_length.
  destruct (Nat.ltb_spec 1 (length G)) as [Hlt|Hge].
  - rewrite concat_app, runl_app, runl_groups. cbn [concat app runl].
    assert (Hlen : length (rev (map gexp G)) = length G) by (rewrite rev_length, map_length; reflexivity).
    rewrite <- Hlen, firstn_len_app, skipn_len_app, rev_involutive.
    destruct G as [|g [|g' G]]; cbn in Hlt; try lia. reflexivity.
  - rewrite runl_groups. destruct G as [|g [|g' G]]; cbn in Hge; try lia; reflexivity.
Qed.

Lemma xsem_gexp_env e p : xsem e (gexp p) = xsem (lc_env (e_lc e)) (gexp p).
Proof. unfold gexp. destruct (fst p =? snd p); reflexivity. Qed.

Lemma gstack_env e G : forallb (xsem e) (gstack G) = forallb (xsem (lc_env (e_lc e))) (gstack G).
Proof.
  destruct G as [|g [|g' G]]; [reflexivity| |].
  - cbn [gstack forallb]. rewrite xsem_gexp_env. reflexivity.
  - unfold gstack. cbn [forallb]. rewrite !xsem_or, !existsb_map_eq.
    f_equal. apply existsb_ext_eq. intros p. apply xsem_gexp_env.
Qed.

Lemma compose_env ts e : lsem (concat (compose ts)) e = lsem (concat (compose ts)) (lc_env (e_lc e)).
Proof. unfold lsem. rewrite runl_compose_shape, app_nil_r. apply gstack_env. Qed.

Lemma gstack_single ts : ts <> [] -> ~ In (-1) ts ->
  exists y, gstack (finish (cloop ts [] (-1) (-1))) = [y].
Proof.
  intros Hne Hn1. destruct ts as [|t r]; [congruence|].
  assert (Ht : t <> -1) by (intros ->; apply Hn1; left; reflexivity).
  assert (Hn1' : ~ In (-1) r) by (intros H; apply Hn1; right; assumption).
  cbn [cloop]. change (-1 =? -1) with true. cbv iota.
  pose proof (cloop_nonempty r [] t t Ht Hn1') as Hg.
  destruct (finish (cloop r [] t t)) as [|g [|g' G]]; [congruence| |]; eexists; reflexivity.
Qed.

(** the combined filter selects what the timestamp part selects *)
Lemma combined_ts wl ts w e :
  runl wl [] = [w] -> ts <> [] -> ~ In (-1) ts ->
  lsem (concat (compose ts)) e = true -> lsem (wl ++ concat (compose ts) ++ [LOr 2]) e = true.
Proof.
  intros Hw Hne Hn1 Hs. destruct (gstack_single ts Hne Hn1) as [y Hy].
  unfold lsem in *. rewrite runl_compose_shape, Hy in Hs. cbn in Hs. rewrite andb_true_r in Hs.
  rewrite !runl_app, Hw, runl_compose_shape, Hy. cbn. rewrite Hs, orb_true_r. reflexivity.
Qed.

(** ---- sort_u ---- *)

Lemma insert_u_In x l y : In y (insert_u x l) <-> x = y \/ In y l.
Proof.
  induction l as [|z l IH]; cbn [insert_u In]; [tauto|].
  destruct (Z.ltb_spec x z); [cbn [In]; tauto|].
  destruct (Z.eqb_spec x z); [subst; cbn [In]; tauto|].
  cbn [In]. rewrite IH. tauto.
Qed.

Lemma sort_u_In l y : In y (sort_u l) <-> In y l.
Proof.
  induction l as [|x l IH]; [reflexivity|]. unfold sort_u in *. cbn [fold_right]. rewrite insert_u_In, IH.
  cbn [In]. tauto.
Qed.

Lemma incr_cons_all y l : (forall z, In z l -> y < z) -> incr l = true -> incr (y :: l) = true.
Proof.
  intros Hall Hl. destruct l as [|z l]; [reflexivity|].
  change (incr (y :: z :: l)) with ((y <? z) && incr (z :: l)). rewrite Hl, andb_true_r.
  apply Z.ltb_lt. apply Hall. left; reflexivity.
Qed.

Lemma insert_u_incr x l : incr l = true -> incr (insert_u x l) = true.
Proof.
  induction l as [|z l IH]; intros Hl; [reflexivity|]. cbn [insert_u].
  destruct (Z.ltb_spec x z).
  - change (incr (x :: z :: l)) with ((x <? z) && incr (z :: l)). rewrite Hl, andb_true_r. apply Z.ltb_lt; assumption.
  - destruct (Z.eqb_spec x z); [assumption|].
    apply incr_cons_all; [|apply IH; eapply incr_tail; eassumption].
    intros y Hy. apply insert_u_In in Hy as [<-|Hy]; [lia|]. eapply incr_lt; eassumption.
Qed.

Lemma sort_u_incr l : incr (sort_u l) = true.
Proof. induction l as [|x l IH]; [reflexivity|]. unfold sort_u in *. cbn [fold_right]. apply insert_u_incr; assumption. Qed.

(** ---- getMissingTimestamps finds every changed object below the threshold ---- *)

Lemma missing_raw_in b thr cs bs cr o :
  In (cr, o) (combine cs bs) -> r_lc (cur o) < thr -> scan_changed b cr (cur o) = true ->
  In (r_lc (cur o)) (missing_raw b thr cs bs).
Proof.
  revert bs; induction cs as [|c0 cs IH]; intros [|b0 bs] Hin Hlt Hch; cbn [combine] in Hin; try contradiction.
  cbn [missing_raw]. apply in_or_app. destruct Hin as [Heq|Hin].
  - inversion Heq; subst. left. apply Z.ltb_lt in Hlt. rewrite Hlt, Hch. left; reflexivity.
  - right. apply IH; assumption.
Qed.

Lemma missing_raw_lc b thr cs bs x :
  In x (missing_raw b thr cs bs) -> exists o, In o bs /\ x = r_lc (cur o).
Proof.
  revert bs; induction cs as [|c0 cs IH]; intros [|b0 bs] Hin; cbn [missing_raw] in Hin; try contradiction.
  apply in_app_or in Hin as [Hin|Hin].
  - destruct (_ && _); [|contradiction]. destruct Hin as [<-|[]]. exists b0. split; [left|]; reflexivity.
  - destruct (IH bs Hin) as [o [Ho Hx]]. exists o. split; [right|]; assumption.
Qed.

Lemma Forall2_in_combine {A B} (R : A -> B -> Prop) cs bs :
  Forall2 R cs bs -> Forall2 (fun a b => In (a, b) (combine cs bs) /\ R a b) cs bs.
Proof.
  intros H; induction H as [|a b cs bs Hab H IH]; constructor.
  - split; [left; reflexivity|assumption].
  - eapply Forall2_weaken; [|exact IH]. intros a' b' [Hin Hr]. split; [right|]; assumption.
Qed.

(** ---- detectability ---- *)

Lemma row_eqb_eq a b : row_eqb a b = true -> a = b.
Proof.
  unfold row_eqb. intros H. repeat (apply andb_prop in H as [H ?]).
  destruct a, b; cbn in *.
  repeat match goal with
         | H : (_ =? _) = true |- _ => apply Z.eqb_eq in H
         | H : zlist_eqb _ _ = true |- _ => apply zlist_eqb_eq in H
         end. subst. reflexivity.
Qed.

Lemma zlist_eqb_app_tail a b x y : zlist_eqb (a ++ [x]) (b ++ [y]) = true -> zlist_eqb a b = true.
Proof.
  intros H. apply zlist_eqb_eq in H. apply app_inj_tail in H as [-> _]. apply zlist_eqb_refl.
Qed.

Lemma scan_unchanged_weak b cr r : scan_changed b cr r = false -> zlist_eqb (scan_cols false cr) (scan_cols false r) = true.
Proof.
  unfold scan_changed, scan_cols. intros H. apply negb_false_iff in H. destruct b; [|exact H].
  cbn [zlist_eqb] in *. apply andb_prop in H as [H1 H2]. rewrite H1. cbn [andb].
  rewrite !app_nil_r. eapply zlist_eqb_app_tail. exact H2.
Qed.

Lemma scan_cols_norm c b r : scan_cols b (norm c r) = scan_cols b r.
Proof. unfold norm. destruct (has_lu c); reflexivity. Qed.

Lemma det_head (o : bobj) v :
  pairwise det_ok (versions o) = true -> In v (versions o) ->
  zlist_eqb (scan_cols false v) (scan_cols false (cur o)) = true -> v = cur o.
Proof.
  unfold versions. cbn [pairwise]. intros H Hin Hs. apply andb_prop in H as [Hh _].
  destruct Hin as [<-|Hin]; [reflexivity|].
  pose proof (forallb_In _ _ _ Hh Hin) as Hp. unfold det_ok in Hp.
  assert (Hs' : zlist_eqb (scan_cols false (cur o)) (scan_cols false v) = true).
  { apply zlist_eqb_eq in Hs. rewrite Hs. apply zlist_eqb_refl. }
  rewrite Hs' in Hp. cbn [implb] in Hp. apply row_eqb_eq in Hp. congruence.
Qed.

Lemma unchanged_current c b cr o :
  pairwise det_ok (versions o) = true -> whole_obj c cr o -> scan_changed b cr (cur o) = false -> cr = norm c (cur o).
Proof.
  intros Hd Hw Hs. unfold whole_obj in Hw. apply in_map_iff in Hw as [v [<- Hin]].
  apply scan_unchanged_weak in Hs. rewrite scan_cols_norm in Hs.
  rewrite (det_head o v Hd Hin Hs). reflexivity.
Qed.

(** ---- the converging cycle on one table ---- *)

Definition binv (c : cfg) (o : bobj) : Prop :=
  (has_lu c = true -> past_lt o) /\ (stampful c = true -> r_lc (cur o) <= r_st (cur o)).

Lemma miss_no_sentinel b thr t : lcs_nonneg t = true -> ~ In (-1) (missing b thr (t_c t) (t_b t)).
Proof.
  intros Hnn H1. unfold missing in H1. apply (proj1 (sort_u_In _ _)) in H1. apply missing_raw_lc in H1 as [o [Ho Hx]].
  unfold lcs_nonneg in Hnn. apply (forallb_In _ _ _ Hnn) in Ho. apply Z.leb_le in Ho. lia.
Qed.

Lemma conv_sel c from until now t cr o :
  0 <= c_off c -> lcs_nonneg t = true -> scan_due now t = true ->
  Nat.ltb 150 (length (compose (missing ((0 <? from) && negb (stampful c)) (from - c_off c) (t_c t) (t_b t)))) = false ->
  In (cr, o) (combine (t_c t) (t_b t)) -> whole_obj c cr o ->
  (stampful c = true -> r_lc (cur o) <= r_st (cur o)) ->
  pairwise det_ok (versions o) = true -> stampcol c (cur o) < until - c_off c ->
  sel_lines (fst (upd_lines c from until now t)) o = true \/ cr = norm c (cur o).
Proof.
  intros Hoff Hnn Hdue Hcut Hin Hw HL Hd Hst.
  destruct (Z_le_gt_dec from 0) as [Hle|Hgt].
  { left. apply upd_lines_superset; [assumption|right; assumption|left; assumption]. }
  set (thr := from - c_off c) in *.
  destruct (Z_lt_ge_dec (r_lc (cur o)) thr) as [Hlt|Hge].
  - set (b := (0 <? from) && negb (stampful c)) in *.
    destruct (scan_changed b cr (cur o)) eqn:Hch; [|right; eapply unchanged_current; eassumption].
    left. unfold upd_lines. rewrite Hdue. fold b. fold thr.
    set (miss := missing b thr (t_c t) (t_b t)) in *.
    assert (Hm : In (r_lc (cur o)) miss).
    { unfold miss, missing. apply (proj2 (sort_u_In _ _)). eapply missing_raw_in; eassumption. }
    assert (Hn1 : ~ In (-1) miss) by (apply miss_no_sentinel; assumption).
    assert (Hinc : incr miss = true) by apply sort_u_incr.
    destruct miss as [|x miss'] eqn:Hmiss; [destruct Hm|]. rewrite <- Hmiss in *.
    assert (Hne : miss <> []) by (rewrite Hmiss; discriminate).
    destruct (window_single c from until) as [w [Hw1 _]]; [lia|].
    pose proof (window_nonnil c from until) as Hnn'.
    destruct (window_lines c from until) as [|l wl] eqn:Hwl; [exfalso; apply Hnn'; [lia|reflexivity]|].
    cbn [fst]. unfold sel_lines, ts_lines. rewrite Hcut.
    apply combined_ts with (w := w); try assumption.
    rewrite compose_env. apply compose_exact; assumption.
  - left. apply upd_lines_superset; [assumption|right; assumption|right].
    unfold in_window. split; [|assumption]. unfold stampcol in *. destruct (stampful c); [specialize (HL eq_refl)|]; lia.
Qed.

Lemma conv_table c from until now t :
  0 <= c_off c -> tb_hyp c t -> twhole c t -> Forall (binv c) (t_b t) ->
  forallb (fun o => pairwise det_ok (versions o)) (t_b t) = true ->
  cycle_ok c from until now t = true ->
  Forall2 (fun cr o => cr = norm c (cur o)) (t_c (upd_table c from until now t)) (t_b t).
Proof.
  intros Hoff Hh Hw Hb Hd Hc. unfold cycle_ok in Hc.
  apply andb_prop in Hc as [Hc Hcut]. apply andb_prop in Hc as [Hq Hdue].
  apply negb_true_iff in Hcut.
  assert (Hnn : lcs_nonneg t = true).
  { unfold lcs_nonneg. apply forallb_forall. intros o Ho. apply (forallb_In _ _ _ Hq) in Ho.
    apply andb_prop in Ho. apply Ho. }
  pose proof (fun cr o => conv_sel c from until now t cr o Hoff Hnn Hdue Hcut) as Hsel.
  unfold upd_table. destruct (upd_lines c from until now t) as [ls sc]. cbn [fst t_c] in *.
  apply Forall2_in_combine in Hw.
  eapply fetch_apply_F2_sel with (R := fun cr o => In (cr, o) (combine (t_c t) (t_b t)) /\ whole_obj c cr o); [| |exact Hw].
  - intros cr o [Hin Hwo] _.
    assert (Ho : In o (t_b t)) by (eapply in_combine_r; eassumption).
    rewrite Forall_forall in Hb. destruct (Hb o Ho) as [HD _].
    apply merge_current; [eapply forallb_In; eassumption|assumption|assumption].
  - intros cr o [Hin Hwo] Hns.
    assert (Ho : In o (t_b t)) by (eapply in_combine_r; eassumption).
    rewrite Forall_forall in Hb. destruct (Hb o Ho) as [_ HL].
    pose proof (forallb_In _ _ _ Hq Ho) as Hqo. apply andb_prop in Hqo as [Hqo _]. apply Z.ltb_lt in Hqo.
    destruct (Hsel cr o Hin Hwo HL (forallb_In _ _ _ Hd Ho) Hqo) as [Hs|Hs]; [congruence|assumption].
Qed.

(** ---- the backend-only invariants along a history ---- *)

Lemma upd_nth_Forall_nth {B} (P : B -> Prop) (f : B -> B) k : forall bs,
  (forall b, nth_error bs k = Some b -> P b -> P (f b)) -> Forall P bs -> Forall P (upd_nth k f bs).
Proof.
  induction k as [|k IH]; intros bs Hf H; destruct H as [|b bs Hb H]; cbn [upd_nth]; try constructor; try assumption.
  - apply Hf; [reflexivity|assumption].
  - apply IH; [|assumption]. intros b' Hn. apply Hf. exact Hn.
Qed.

Lemma binv_mutate c m o :
  (if stampful c then m_stamp m else m_check m) = true ->
  (stampful c = true -> if has_lu c then r_st (cur o) < m_t m else r_st (cur o) <= m_t m) ->
  binv c o -> binv c (mutate m o).
Proof.
  intros Hs Hst [HD HL]. split.
  - intros Hlu. specialize (HD Hlu).
    assert (Hsf : stampful c = true) by (unfold stampful; rewrite Hlu; apply orb_true_r).
    specialize (Hst Hsf). rewrite Hlu in Hst. rewrite Hsf in Hs.
    unfold past_lt, mutate. cbn [past cur r_st]. rewrite Hs.
    intros v [<-|Hin]; [assumption|]. specialize (HD v Hin). lia.
  - intros Hsf. specialize (HL Hsf). specialize (Hst Hsf). rewrite Hsf in Hs.
    unfold mutate. cbn [cur r_st r_lc]. rewrite Hs.
    assert (r_st (cur o) <= m_t m) by (destruct (has_lu c); lia).
    destruct (m_check m); lia.
Qed.

Definition sbinv (c : cfg) (s : st) : Prop := Forall (binv c) (t_b (hosts s)) /\ Forall (binv c) (t_b (svcs s)).

Lemma mut_tbl_binv c k m t :
  (if stampful c then m_stamp m else m_check m) = true ->
  implb (stampful c) match nth_error (t_b t) k with
                     | Some o => if has_lu c then r_st (cur o) <? m_t m else r_st (cur o) <=? m_t m
                     | None => true end = true ->
  Forall (binv c) (t_b t) -> Forall (binv c) (t_b (mut_tbl k m t)).
Proof.
  intros Hs Hst H. unfold mut_tbl. cbn [t_b]. apply upd_nth_Forall_nth; [|assumption].
  intros o Hn Ho. apply binv_mutate; [assumption| |assumption].
  intros Hsf. rewrite Hsf, Hn in Hst. cbn [implb] in Hst.
  destruct (has_lu c); [apply Z.ltb_lt|apply Z.leb_le]; assumption.
Qed.

Lemma step_sbinv c s e : conv_ev_ok c s e = true -> sbinv c s -> sbinv c (step c s e).
Proof.
  intros Hok [H1 H2]. destruct (is_mut e) eqn:He.
  - destruct e as [svc k m| | | | | |]; try discriminate. cbn [conv_ev_ok] in Hok. unfold cmut_ok in Hok.
    apply andb_prop in Hok as [Hs Hst].
    destruct svc; cbn [step]; split; cbn; first [assumption | apply mut_tbl_binv; assumption].
  - destruct (sstep_step c s e He) as [[Hb1 _] [Hb2 _]]. unfold sbinv. rewrite Hb1, Hb2. split; assumption.
Qed.

Lemma run_sbinv c evs : forall s, hist_ok conv_ev_ok c s evs = true -> sbinv c s -> sbinv c (run c s evs).
Proof.
  induction evs as [|e evs IH]; intros s Hok H; [assumption|].
  cbn [run fold_left hist_ok] in *. apply andb_prop in Hok as [Hok1 Hok2].
  apply IH; [assumption|]. apply step_sbinv; assumption.
Qed.

Lemma init_tbl_binv c t0 objs : init_ok c objs = true -> Forall (binv c) (t_b (init_tbl c t0 objs)).
Proof.
  unfold init_ok, init_tbl. cbn [t_b]. intros H. apply Forall_forall. intros o Ho.
  apply in_map_iff in Ho as [x [<- Hx]]. apply (forallb_In _ _ _ H) in Hx.
  split; [intros _ v []|]. intros Hsf. rewrite Hsf in Hx. cbn [implb] in Hx. cbn [cur]. apply Z.leb_le. assumption.
Qed.

(** ---- the theorem ---- *)

Definition all_current (c : cfg) (t : tbl) : Prop := Forall2 (fun cr o => cr = norm c (cur o)) (t_c t) (t_b t).

Lemma det_hyp_split s : det_hyp s = true ->
  forallb (fun o => pairwise det_ok (versions o)) (t_b (hosts s)) = true /\
  forallb (fun o => pairwise det_ok (versions o)) (t_b (svcs s)) = true.
Proof. unfold det_hyp. intros H. apply andb_prop in H. exact H. Qed.

Lemma conv_update_delta c from until now la s :
  0 <= c_off c -> shyp c s -> swhole c s -> sbinv c s -> det_hyp s = true ->
  cycle_ok c from until now (hosts s) = true -> cycle_ok c from until now (svcs s) = true ->
  let s' := update_delta c from until now la AbNo s in
  all_current c (hosts s') /\ all_current c (svcs s').
Proof.
  intros Hoff [Hh1 Hh2] [Hw1 Hw2] [Hb1 Hb2] Hd Hc1 Hc2. apply det_hyp_split in Hd as [Hd1 Hd2].
  unfold update_delta, all_current. cbn.
  split.
  - pose proof (conv_table c from until now (hosts s) Hoff Hh1 Hw1 Hb1 Hd1 Hc1) as H.
    unfold upd_table in *. destruct (upd_lines c from until now (hosts s)). exact H.
  - pose proof (conv_table c from until now (svcs s) Hoff Hh2 Hw2 Hb2 Hd2 Hc2) as H.
    unfold upd_table in *. destruct (upd_lines c from until now (svcs s)). exact H.
Qed.

Lemma reach_invs c t0 hs ss tps evs :
  let s := run c (init_st c t0 hs ss tps) evs in
  init_ok c hs = true -> init_ok c ss = true ->
  hist_ok conv_ev_ok c (init_st c t0 hs ss tps) evs = true -> integrity_hyp c s = true ->
  shyp c s /\ swhole c s /\ sbinv c s.
Proof.
  intros s Hi1 Hi2 Hok Hh. split; [apply integrity_hyp_shyp; assumption|]. split.
  - apply row_integrity_thm. assumption.
  - apply run_sbinv; [assumption|]. split; apply init_tbl_binv; assumption.
Qed.

Lemma convergence_delta_thm c t0 hs ss tps evs from until :
  let s := run c (init_st c t0 hs ss tps) evs in
  let s' := step c s (EDelta from until AbNo) in
  0 <= c_off c -> init_ok c hs = true -> init_ok c ss = true ->
  hist_ok conv_ev_ok c (init_st c t0 hs ss tps) evs = true ->
  integrity_hyp c s = true -> det_hyp s = true ->
  cycle_ok c from until until (hosts s) = true -> cycle_ok c from until until (svcs s) = true ->
  all_current c (hosts s') /\ all_current c (svcs s').
Proof.
  intros s s' Hoff Hi1 Hi2 Hok Hh Hd Hc1 Hc2.
  destruct (reach_invs c t0 hs ss tps evs Hi1 Hi2 Hok Hh) as [H1 [H2 H3]].
  apply conv_update_delta; assumption.
Qed.

(** the same for a periodicUpdate step that is due *)
Lemma convergence_tick_thm c t0 hs ss tps evs now until :
  let s := run c (init_st c t0 hs ss tps) evs in
  let s' := step c s (ETick now until AbNo) in
  let from := if warn s then lu s else if force s then 0 else lu s in
  0 <= c_off c -> init_ok c hs = true -> init_ok c ss = true ->
  hist_ok conv_ev_ok c (init_st c t0 hs ss tps) evs = true ->
  integrity_hyp c s = true -> det_hyp s = true ->
  lu s + c_interval c <= now ->
  cycle_ok c from until now (hosts s) = true -> cycle_ok c from until now (svcs s) = true ->
  all_current c (hosts s') /\ all_current c (svcs s').
Proof.
  intros s s' from Hoff Hi1 Hi2 Hok Hh Hd Hdue Hc1 Hc2.
  destruct (reach_invs c t0 hs ss tps evs Hi1 Hi2 Hok Hh) as [H1 [H2 H3]].
  unfold s'. cbn [step]. unfold periodic.
  destruct (Z.ltb_spec now (lu s + c_interval c)); [lia|].
  cbn [warn set_lu]. unfold from in *. destruct (warn s).
  - apply (conv_update_delta c (lu s) until now now (set_lu now s)); assumption.
  - apply (conv_update_delta c (if force s then 0 else lu s) until now now (set_force false (set_lu now s))); assumption.
Qed.

(** ---- timeperiods ---- *)

Lemma ctp_tp_ops c ops : forall s, ctp (fold_left (fun s op => tp_fetch c op s) ops s) = ctp s.
Proof.
  induction ops as [|[svc p] ops IH]; intros s; [reflexivity|].
  cbn [fold_left]. rewrite IH. unfold tp_fetch. destruct svc; reflexivity.
Qed.

Lemma tp_refresh_ctp c s : ctp (tp_refresh c 0 s) = btp s.
Proof. unfold tp_refresh. rewrite ctp_tp_ops. reflexivity. Qed.

(** ---- the next window starts where the previous one ended ---- *)

Lemma delta_then_tick c from until now u2 s :
  let s1 := step c s (EDelta from until AbNo) in
  lu s1 = until /\ warn s1 = false /\ force s1 = force s /\
  (until + c_interval c <= now -> force s = false ->
   step c s1 (ETick now u2 AbNo) = update_delta c until u2 now now AbNo (set_force false (set_lu now s1))) /\
  step c s1 (EResume now u2) = update_delta c until u2 now now AbNo (tp_refresh c 0 s1).
Proof.
  cbn zeta. cbn [step].
  assert (H1 : lu (update_delta c from until until until AbNo s) = until) by reflexivity.
  assert (H2 : warn (update_delta c from until until until AbNo s) = false) by reflexivity.
  assert (H3 : force (update_delta c from until until until AbNo s) = force s) by reflexivity.
  split; [exact H1|]. split; [exact H2|]. split; [exact H3|]. split.
  - intros Hdue Hf. remember (update_delta c from until until until AbNo s) as s1 eqn:Hs1.
    unfold periodic. rewrite H1.
    destruct (Z.ltb_spec now (until + c_interval c)); [lia|].
    replace (warn (set_lu now s1)) with (warn s1) by reflexivity.
    replace (force (set_lu now s1)) with (force s1) by reflexivity.
    rewrite H2, H3, Hf. reflexivity.
  - remember (update_delta c from until until until AbNo s) as s1 eqn:Hs1.
    unfold resume. rewrite H1, H2. reflexivity.
Qed.
