(** C03: the header lines lmd sends to the backend during a delta update, with a
    tiny Livestatus semantics (stack machine of Filter / And / Or lines), and
    [composeTimestampFilter] (pkg/lmd/datastoreset.go:961) transcribed.

    Definitions only; proofs are in ComposeProofs.v. *)
From LMD Require Export Base.Str.
Open Scope Z_scope.

(** columns the update filters mention *)
Inductive fcol := CStamp   (* lmd_last_cache_update or last_update: time of the last change *)
                | CLc      (* last_check *)
                | CExec.   (* is_executing *)
Inductive fop := OEq | OGe | OLe | OLt.

Inductive line :=
| LF (c : fcol) (o : fop) (v : Z)   (* Filter: c o v *)
| LAnd (n : nat)                    (* And: n *)
| LOr (n : nat).                    (* Or: n *)

Inductive fexp :=
| XLeaf (c : fcol) (o : fop) (v : Z)
| XAnd (l : list fexp)
| XOr (l : list fexp).

(** the three numbers a filter can look at *)
Record fenv := mkEnv { e_stamp : Z; e_lc : Z; e_exec : Z }.

Definition col_val (e : fenv) (c : fcol) : Z :=
  match c with CStamp => e_stamp e | CLc => e_lc e | CExec => e_exec e end.

Definition op_sem (o : fop) (x v : Z) : bool :=
  match o with OEq => x =? v | OGe => v <=? x | OLe => x <=? v | OLt => x <? v end.

Fixpoint xsem (e : fenv) (x : fexp) : bool :=
  match x with
  | XLeaf c o v => op_sem o (col_val e c) v
  | XAnd l => (fix all (l : list fexp) : bool := match l with [] => true | y :: r => xsem e y && all r end) l
  | XOr l => (fix any (l : list fexp) : bool := match l with [] => false | y :: r => xsem e y || any r end) l
  end.

(** Livestatus: every Filter line pushes, And/Or: n combine the n topmost
    entries, what is left on the stack at the end is And-ed. *)
Fixpoint runl (ls : list line) (st : list fexp) : list fexp :=
  match ls with
  | [] => st
  | LF c o v :: r => runl r (XLeaf c o v :: st)
  | LAnd n :: r => runl r (XAnd (rev (firstn n st)) :: skipn n st)
  | LOr n :: r => runl r (XOr (rev (firstn n st)) :: skipn n st)
  end.

Definition lsem (ls : list line) (e : fenv) : bool := forallb (xsem e) (runl ls []).

(** composeTimestampFilter: one list element per Go string (a group of lines) *)
Definition flush (a b : Z) : list line :=
  if a =? b then [LF CLc OEq a] else [LF CLc OGe a; LF CLc OLe b; LAnd 2].

(** the loop over the timestamps; [bs]/[be] = block.start/block.end, -1 = unset *)
Fixpoint compose_loop (ts : list Z) (acc : list (list line)) (bs be : Z) : list (list line) * (Z * Z) :=
  match ts with
  | [] => (acc, (bs, be))
  | t :: r =>
      if bs =? -1 then compose_loop r acc t t
      else if be =? t - 1 then compose_loop r acc bs t
      else compose_loop r (acc ++ [flush bs be]) t t
  end.

Definition compose (ts : list Z) : list (list line) :=
  let '(acc, (bs, be)) := compose_loop ts [] (-1) (-1) in
  let acc := if bs =? -1 then acc else acc ++ [flush bs be] in
  if Nat.ltb 1 (length acc) then acc ++ [[LOr (length acc)]] else acc.

(** strictly increasing *)
Fixpoint incr (l : list Z) : bool :=
  match l with
  | [] => true
  | x :: r => match r with [] => true | y :: _ => (x <? y) && incr r end
  end.

Definition lc_env (x : Z) : fenv := mkEnv 0 x 0.
