(** C03: convergence over several cycles when the timestamp filter is cut. *)
From LMD Require Import C03.Filter C03.ComposeProofs C03.Model C03.Proofs C03.WcProofs C03.ConvProofs.
Open Scope Z_scope.

(** ---- list facts ---- *)

Lemma incr_NoDup l : incr l = true -> NoDup l.
Proof.
  induction l as [|x l IH]; intros H; constructor.
  - intros Hin. pose proof (incr_lt x l x H Hin). lia.
  - apply IH. eapply incr_tail; eassumption.
Qed.

Lemma in_firstn {A} n : forall (l : list A) x, In x (firstn n l) -> In x l.
Proof.
  induction n as [|n IH]; intros [|y l] x H; cbn [firstn] in H; try contradiction.
  destruct H as [->|H]; [left; reflexivity|right; apply IH; assumption].
Qed.

Lemma incr_firstn n : forall l, incr l = true -> incr (firstn n l) = true.
Proof.
  induction n as [|n IH]; intros [|x l] H; try reflexivity.
  cbn [firstn]. apply incr_cons_all.
  - intros z Hz. apply in_firstn in Hz. eapply incr_lt; eassumption.
  - apply IH. eapply incr_tail; eassumption.
Qed.

Lemma incr_skipn n : forall l, incr l = true -> incr (skipn n l) = true.
Proof.
  induction n as [|n IH]; intros [|x l] H; try assumption; try reflexivity.
  cbn [skipn]. apply IH. eapply incr_tail; eassumption.
Qed.

Lemma in_firstn_skipn {A} n (l : list A) x : In x l -> In x (firstn n l) \/ In x (skipn n l).
Proof. intros H. rewrite <- (firstn_skipn n l) in H. apply in_app_or in H. exact H. Qed.

Lemma Forall2_combine_in {A B} (P : A -> B -> Prop) cs bs a b :
  Forall2 P cs bs -> In (a, b) (combine cs bs) -> P a b.
Proof.
  intros H; induction H as [|x y cs bs Hxy H IH]; cbn [combine]; [intros []|].
  intros [Heq|Hin]; [inversion Heq; subst; assumption|auto].
Qed.

(** ---- length of the composed filter ---- *)

Lemma cloop_len ts : forall gs bs be,
  (length (finish (cloop ts gs bs be)) <= length gs + length ts + (if (bs =? -1)%Z then 0 else 1))%nat.
Proof.
  induction ts as [|t r IH]; intros gs bs be.
  - cbn [cloop finish]. destruct (bs =? -1); [lia|]. rewrite app_length. cbn. lia.
  - cbn [cloop]. destruct (bs =? -1) eqn:Hb.
    + specialize (IH gs t t). destruct (t =? -1); cbn [length]; lia.
    + destruct (be =? t - 1).
      * specialize (IH gs bs t). rewrite Hb in IH. cbn [length]. lia.
      * specialize (IH (gs ++ [(bs, be)]) t t). rewrite app_length in IH. cbn [length] in *.
        destruct (t =? -1); lia.
Qed.

Lemma compose_length ts : (length (compose ts) <= length ts + 1)%nat.
Proof.
  rewrite compose_finish. cbv zeta. rewrite map_length.
  pose proof (cloop_len ts [] (-1) (-1)) as H. cbn in H.
  destruct (Nat.ltb 1 _); [rewrite app_length, map_length; cbn|rewrite map_length]; lia.
Qed.

(** ---- one cycle with a possibly cut filter ---- *)

Lemma scan_changed_norm c b r : scan_changed b (norm c r) r = false.
Proof. unfold scan_changed. rewrite scan_cols_norm, zlist_eqb_refl. reflexivity. Qed.

Lemma missing_raw_pair b thr cs bs x :
  In x (missing_raw b thr cs bs) ->
  exists cr o, In (cr, o) (combine cs bs) /\ x = r_lc (cur o) /\ scan_changed b cr (cur o) = true.
Proof.
  revert bs; induction cs as [|c0 cs IH]; intros [|b0 bs] Hin; cbn [missing_raw] in Hin; try contradiction.
  apply in_app_or in Hin as [Hin|Hin].
  - destruct (r_lc (cur b0) <? thr); cbn [andb] in Hin; [|contradiction].
    destruct (scan_changed b c0 (cur b0)) eqn:Hc; [|contradiction]. destruct Hin as [<-|[]].
    exists c0, b0. split; [left; reflexivity|]. split; [reflexivity|assumption].
  - destruct (IH bs Hin) as [cr [o [Ho [Hx Hc]]]]. exists cr, o. split; [right; assumption|]. split; assumption.
Qed.


Lemma conv_sel_cut c from until now t cr o :
  0 <= c_off c -> lcs_nonneg t = true -> scan_due now t = true ->
  In (cr, o) (combine (t_c t) (t_b t)) -> whole_obj c cr o ->
  (stampful c = true -> r_lc (cur o) <= r_st (cur o)) ->
  pairwise det_ok (versions o) = true -> stampcol c (cur o) < until - c_off c ->
  sel_lines (fst (upd_lines c from until now t)) o = true \/ cr = norm c (cur o)
  \/ In (r_lc (cur o)) (skipn 149 (miss_of c from t)).
Proof.
  intros Hoff Hnn Hdue Hin Hw HL Hd Hst.
  destruct (Nat.ltb 150 (length (compose (miss_of c from t)))) eqn:Hcut.
  2:{ destruct (conv_sel c from until now t cr o Hoff Hnn Hdue Hcut Hin Hw HL Hd Hst); tauto. }
  destruct (Z_le_gt_dec from 0) as [Hle|Hgt].
  { left. apply upd_lines_superset; [assumption|right; assumption|left; assumption]. }
  unfold miss_of in *. set (thr := from - c_off c) in *.
  destruct (Z_lt_ge_dec (r_lc (cur o)) thr) as [Hlt|Hge].
  - set (b := (0 <? from) && negb (stampful c)) in *.
    destruct (scan_changed b cr (cur o)) eqn:Hch; [|right; left; eapply unchanged_current; eassumption].
    set (miss := missing b thr (t_c t) (t_b t)) in *.
    assert (Hm : In (r_lc (cur o)) miss).
    { unfold miss, missing. apply (proj2 (sort_u_In _ _)). eapply missing_raw_in; eassumption. }
    destruct (in_firstn_skipn 149 miss _ Hm) as [Hf|Hs]; [|right; right; assumption].
    left. unfold upd_lines. rewrite Hdue. fold b. fold thr. fold miss.
    assert (Hn1 : ~ In (-1) (firstn 149 miss)).
    { intros H1. apply in_firstn in H1. revert H1. apply miss_no_sentinel; assumption. }
    assert (Hinc : incr (firstn 149 miss) = true) by (apply incr_firstn; apply sort_u_incr).
    assert (Hne : firstn 149 miss <> []) by (intros He; rewrite He in Hf; destruct Hf).
    destruct miss as [|x miss'] eqn:Hmiss; [destruct Hm|]. rewrite <- Hmiss in *.
    destruct (window_single c from until) as [w [Hw1 _]]; [lia|].
    pose proof (window_nonnil c from until) as Hnn'.
    destruct (window_lines c from until) as [|l wl] eqn:Hwl; [exfalso; apply Hnn'; [lia|reflexivity]|].
    cbn [fst]. unfold sel_lines, ts_lines. rewrite Hcut.
    apply combined_ts with (w := w); try assumption.
    rewrite compose_env. apply compose_exact; assumption.
  - left. apply upd_lines_superset; [assumption|right; assumption|right].
    unfold in_window. split; [|assumption]. unfold stampcol in *. destruct (stampful c); [specialize (HL eq_refl)|]; lia.
Qed.


Lemma progress_table c from until now t :
  0 <= c_off c -> tb_hyp c t -> twhole c t -> Forall (binv c) (t_b t) ->
  forallb (fun o => pairwise det_ok (versions o)) (t_b t) = true ->
  cyc_ok c until now t = true ->
  Forall2 (fun cr o => cr = norm c (cur o) \/ In (r_lc (cur o)) (skipn 149 (miss_of c from t)))
          (t_c (upd_table c from until now t)) (t_b t).
Proof.
  intros Hoff Hh Hw Hb Hd Hc. unfold cyc_ok in Hc. apply andb_prop in Hc as [Hq Hdue].
  assert (Hnn : lcs_nonneg t = true).
  { unfold lcs_nonneg. apply forallb_forall. intros o Ho. apply (forallb_In _ _ _ Hq) in Ho.
    apply andb_prop in Ho. apply Ho. }
  pose proof (fun cr o => conv_sel_cut c from until now t cr o Hoff Hnn Hdue) as Hsel.
  unfold upd_table. destruct (upd_lines c from until now t) as [ls sc]. cbn [fst t_c] in *.
  apply Forall2_in_combine in Hw.
  eapply fetch_apply_F2_sel with (R := fun cr o => In (cr, o) (combine (t_c t) (t_b t)) /\ whole_obj c cr o); [| |exact Hw].
  - intros cr o [Hin Hwo] _. left.
    assert (Ho : In o (t_b t)) by (eapply in_combine_r; eassumption).
    rewrite Forall_forall in Hb. destruct (Hb o Ho) as [HD _].
    apply merge_current; [eapply forallb_In; eassumption|assumption|assumption].
  - intros cr o [Hin Hwo] Hns.
    assert (Ho : In o (t_b t)) by (eapply in_combine_r; eassumption).
    rewrite Forall_forall in Hb. destruct (Hb o Ho) as [_ HL].
    pose proof (forallb_In _ _ _ Hq Ho) as Hqo. apply andb_prop in Hqo as [Hqo _]. apply Z.ltb_lt in Hqo.
    destruct (Hsel cr o Hin Hwo HL (forallb_In _ _ _ Hd Ho) Hqo) as [Hs|[Hs|Hs]]; [congruence|left; assumption|right; assumption].
Qed.

Lemma progress_missing c from until now t b' thr' :
  0 <= c_off c -> tb_hyp c t -> twhole c t -> Forall (binv c) (t_b t) ->
  forallb (fun o => pairwise det_ok (versions o)) (t_b t) = true ->
  cyc_ok c until now t = true ->
  let t' := upd_table c from until now t in
  (length (missing b' thr' (t_c t') (t_b t')) <= length (miss_of c from t) - 149)%nat.
Proof.
  intros Hoff Hh Hw Hb Hd Hc t'.
  pose proof (progress_table c from until now t Hoff Hh Hw Hb Hd Hc) as HP.
  assert (Htb : t_b t' = t_b t) by (apply (tstep_upd_table c from until now t)).
  rewrite Htb. fold t' in HP.
  rewrite <- (skipn_length 149 (miss_of c from t)).
  apply NoDup_incl_length; [apply incr_NoDup; apply sort_u_incr|].
  intros x Hx. unfold missing in Hx. apply (proj1 (sort_u_In _ _)) in Hx.
  apply missing_raw_pair in Hx as [cr [o [Hin [-> Hch]]]].
  destruct (Forall2_combine_in _ _ _ _ _ HP Hin) as [Heq|Hs]; [|assumption].
  rewrite Heq, scan_changed_norm in Hch. discriminate.
Qed.

(** ---- several cycles ---- *)


Definition cinv (c : cfg) (s : st) : Prop := shyp c s /\ swhole c s /\ sbinv c s /\ det_hyp s = true.

Lemma cinv_cycle c s f u : cinv c s -> cinv c (step c s (EDelta f u AbNo)).
Proof.
  intros [Hh [Hw [Hb Hd]]].
  destruct (sstep_step c s (EDelta f u AbNo) eq_refl) as [[Hb1 Hc1] [Hb2 Hc2]].
  split; [|split; [|split]].
  - destruct Hh as [H1 H2]. unfold shyp, tb_hyp. rewrite Hb1, Hb2. split; assumption.
  - apply step_whole; assumption.
  - destruct Hb as [H1 H2]. unfold sbinv. rewrite Hb1, Hb2. split; assumption.
  - unfold det_hyp in *. rewrite Hb1, Hb2. assumption.
Qed.

Lemma cycle_ok_of_cyc c from until now t :
  cyc_ok c until now t = true -> (length (miss_of c from t) <= 149)%nat -> cycle_ok c from until now t = true.
Proof.
  intros Hc Hl. unfold cycle_ok, cyc_ok, miss_of in *. rewrite Hc. cbn [andb]. apply negb_true_iff.
  apply Nat.ltb_ge. pose proof (compose_length (missing ((0 <? from) && negb (stampful c)) (from - c_off c) (t_c t) (t_b t))). lia.
Qed.

Lemma iter_cycles c cs : forall s,
  0 <= c_off c -> cinv c s -> cycles_ok c s cs = true ->
  match cs with
  | [] => False
  | (f, _) :: _ => (length (miss_of c f (hosts s)) <= 149 * length cs)%nat /\
                   (length (miss_of c f (svcs s)) <= 149 * length cs)%nat
  end ->
  all_current c (hosts (run_cycles c s cs)) /\ all_current c (svcs (run_cycles c s cs)).
Proof.
  induction cs as [|[f u] r IH]; intros s Hoff Hinv Hok Hm; [contradiction|].
  cbn [cycles_ok] in Hok. apply andb_prop in Hok as [Hok Hokr]. apply andb_prop in Hok as [Hc1 Hc2].
  cbn [run_cycles]. destruct Hm as [Hm1 Hm2].
  destruct r as [|[f' u'] r'].
  - cbn [run_cycles]. cbn [length] in Hm1, Hm2. destruct Hinv as [Hh [Hw [Hb Hd]]].
    apply (conv_update_delta c f u u u s); try assumption; apply cycle_ok_of_cyc; try assumption; lia.
  - apply IH; [assumption|apply cinv_cycle; assumption|assumption|].
    destruct Hinv as [[Hh1 Hh2] [[Hw1 Hw2] [[Hb1 Hb2] Hd]]]. apply det_hyp_split in Hd as [Hd1 Hd2].
    cbn [length] in *.
    split.
    + change (hosts (step c s (EDelta f u AbNo))) with (upd_table c f u u (hosts s)).
      pose proof (progress_missing c f u u (hosts s) ((0 <? f') && negb (stampful c)) (f' - c_off c) Hoff Hh1 Hw1 Hb1 Hd1 Hc1) as H.
      unfold miss_of at 1. cbv zeta in H. lia.
    + change (svcs (step c s (EDelta f u AbNo))) with (upd_table c f u u (svcs s)).
      pose proof (progress_missing c f u u (svcs s) ((0 <? f') && negb (stampful c)) (f' - c_off c) Hoff Hh2 Hw2 Hb2 Hd2 Hc2) as H.
      unfold miss_of at 1. cbv zeta in H. lia.
Qed.

Lemma convergence_iter_thm c t0 hs ss tps evs cs :
  let s := run c (init_st c t0 hs ss tps) evs in
  0 <= c_off c -> init_ok c hs = true -> init_ok c ss = true ->
  hist_ok conv_ev_ok c (init_st c t0 hs ss tps) evs = true ->
  integrity_hyp c s = true -> det_hyp s = true ->
  cycles_ok c s cs = true ->
  match cs with
  | [] => False
  | (f, _) :: _ => (length (miss_of c f (hosts s)) <= 149 * length cs)%nat /\
                   (length (miss_of c f (svcs s)) <= 149 * length cs)%nat
  end ->
  all_current c (hosts (run_cycles c s cs)) /\ all_current c (svcs (run_cycles c s cs)).
Proof.
  intros s Hoff Hi1 Hi2 Hok Hh Hd Hc Hm.
  destruct (reach_invs c t0 hs ss tps evs Hi1 Hi2 Hok Hh) as [H1 [H2 H3]].
  apply iter_cycles; try assumption. split; [assumption|]. split; [assumption|]. split; assumption.
Qed.
