(** C03: delta updates of hosts and services ("Delta").

    Transcribes pkg/lmd:
      datastoreset.go UpdateDelta (254: status table, window filter
        [from-off, until-off) on the flavour's stamp column, none when from = 0,
        hosts, services, comments, downtimes, resetErrors, lastUpdate := until),
      updateDeltaHostsServices (341), insertDeltaDataResult (386),
      updateFullScan (456: due test, scan columns, combined fetch, lastFull := now
        only when something was fetched), getMissingTimestamps (543: threshold,
        positional comparison of the scanned int columns, sorted unique),
      the 149 cut (513-519), composeTimestampFilter (961, Filter.v),
      UpdateFullTable(timeperiods) / updateTimeperiodsData (824),
      datastore.go prepareDataUpdateSet (351: Full / NumbersOnly / Skip),
      datarow.go UpdateValues / UpdateValuesNumberOnly (841, 886),
      peer.go periodicUpdate (398: due test, lastUpdate := now BEFORE the attempt,
        dispatch on the status, forceFull), SendCommands' ScheduleImmediateUpdate.

    Values are [Z]. A backend row keeps the columns in groups:
      [r_lc] last_check, [r_st] time of the last change (last_update and
      lmd_last_cache_update; both are stamped by every change the core notices),
      [r_scan] scheduled_downtime_depth, acknowledged, active_checks_enabled,
      notifications_enabled, modified_attributes, [r_nc] next_check (scanned only
      when the window filter is on last_check), [r_ver] a version counter kept in
      a numeric column, [r_ints] all other numeric dynamic columns, [r_strs] all
      string / string list columns (what UpdateValuesNumberOnly skips),
      [r_exec] is_executing.
    The set of objects is fixed (additions/removals are C11's restart path). *)
From LMD Require Export C03.Filter.
Open Scope Z_scope.

Record brow := mkRow {
  r_lc : Z; r_st : Z; r_scan : list Z; r_nc : Z; r_ver : Z;
  r_ints : list Z; r_strs : list Z; r_exec : Z }.

(** a backend object: current row, earlier rows (ghost, newest first), and the
    timeperiods it refers to (check_period, notification_period; static) *)
Record bobj := mkObj { cur : brow; past : list brow; o_tps : list nat }.

Record cfg := mkCfg {
  has_cache : bool;   (* backend has hosts.lmd_last_cache_update *)
  has_lu : bool;      (* backend has hosts.last_update *)
  sync_exec : bool;   (* Config.SyncIsExecuting *)
  c_off : Z;          (* Config.UpdateOffset *)
  c_interval : Z;     (* Config.UpdateInterval *)
  c_fx : bool }.      (* false = pinned code; true = proposed repair (no numbers-only updates) *)

Definition stampful (c : cfg) : bool := has_cache c || has_lu c.
Definition stampcol (c : cfg) (r : brow) : Z := if stampful c then r_st r else r_lc r.

Definition set_st (v : Z) (r : brow) : brow :=
  mkRow (r_lc r) v (r_scan r) (r_nc r) (r_ver r) (r_ints r) (r_strs r) (r_exec r).

(** what lmd can store of a backend row: last_update only if the backend has it *)
Definition norm (c : cfg) (r : brow) : brow := if has_lu c then r else set_st 0 r.

Definition env_of (r : brow) : fenv := mkEnv (r_st r) (r_lc r) (r_exec r).

(** UpdateDelta: filterStr *)
Definition window_lines (c : cfg) (from until : Z) : list line :=
  if 0 <? from then
    if stampful c then [LF CStamp OGe (from - c_off c); LF CStamp OLt (until - c_off c); LAnd 2]
    else [LF CLc OGe (from - c_off c); LF CLc OLt (until - c_off c); LAnd 2]
         ++ (if sync_exec c then [LF CExec OEq 1; LOr 2] else [])
  else [].

(** prepareDataUpdateSet *)
Inductive dec := DFull | DNum | DSkip.

Definition decide (c : cfg) (cr b : brow) : dec :=
  if has_lu c then
    if negb (r_st b =? r_st cr) || negb (r_lc b =? r_lc cr) then DFull else DSkip
  else if negb (r_lc b =? r_lc cr) then DFull
  else if c_fx c then DFull else DNum.

(** UpdateValues / UpdateValuesNumberOnly *)
Definition merge (c : cfg) (cr b : brow) : brow :=
  match decide c cr b with
  | DFull => norm c b
  | DNum => mkRow (r_lc b) (r_st cr) (r_scan b) (r_nc b) (r_ver b) (r_ints b) (r_strs cr) (r_exec b)
  | DSkip => cr
  end.

(** one fetch + insertDeltaDataResult: the selected objects are merged *)
Fixpoint fetch_apply (c : cfg) (sel : bobj -> bool) (cs : list brow) (bs : list bobj) : list brow :=
  match cs, bs with
  | c0 :: cs', b :: bs' => (if sel b then merge c c0 (cur b) else c0) :: fetch_apply c sel cs' bs'
  | _, _ => cs
  end.

Fixpoint zlist_eqb (a b : list Z) : bool :=
  match a, b with
  | [], [] => true
  | x :: a', y :: b' => (x =? y) && zlist_eqb a' b'
  | _, _ => false
  end.

Definition row_eqb (a b : brow) : bool :=
  (r_lc a =? r_lc b) && (r_st a =? r_st b) && zlist_eqb (r_scan a) (r_scan b) && (r_nc a =? r_nc b)
  && (r_ver a =? r_ver b) && zlist_eqb (r_ints a) (r_ints b) && zlist_eqb (r_strs a) (r_strs b)
  && (r_exec a =? r_exec b).

(** updateFullScan: scanColumns *)
Definition scan_cols (with_nc : bool) (r : brow) : list Z :=
  r_lc r :: r_scan r ++ (if with_nc then [r_nc r] else []).

Definition scan_changed (with_nc : bool) (cr b : brow) : bool :=
  negb (zlist_eqb (scan_cols with_nc cr) (scan_cols with_nc b)).

(** getMissingTimestamps *)
Fixpoint missing_raw (with_nc : bool) (thr : Z) (cs : list brow) (bs : list bobj) : list Z :=
  match cs, bs with
  | c0 :: cs', b :: bs' =>
      (if (r_lc (cur b) <? thr) && scan_changed with_nc c0 (cur b) then [r_lc (cur b)] else [])
      ++ missing_raw with_nc thr cs' bs'
  | _, _ => []
  end.

Fixpoint insert_u (x : Z) (l : list Z) : list Z :=
  match l with
  | [] => [x]
  | y :: r => if x <? y then x :: l else if x =? y then l else y :: insert_u x r
  end.

Definition sort_u (l : list Z) : list Z := fold_right insert_u [] l.

Definition missing (with_nc : bool) (thr : Z) (cs : list brow) (bs : list bobj) : list Z :=
  sort_u (missing_raw with_nc thr cs bs).

Record tbl := mkTbl { t_b : list bobj; t_c : list brow; t_lf : Z }.

Definition sel_lines (ls : list line) (o : bobj) : bool := lsem ls (env_of (cur o)).

(** the timestamp part of the combined filter, with the 149 cut *)
Definition ts_lines (miss : list Z) : list line :=
  let f := compose miss in
  concat (if Nat.ltb 150 (length f) then compose (firstn 149 miss) else f).

(** updateDeltaHostsServices(tryFullScan = true) for one table *)
Definition scan_due (now : Z) (t : tbl) : bool := negb (now - 60 <=? t_lf t).

Definition upd_lines (c : cfg) (from until now : Z) (t : tbl) : list line * bool :=
  let wl := window_lines c from until in
  if scan_due now t then
    let with_nc := (0 <? from) && negb (stampful c) in
    match missing with_nc (from - c_off c) (t_c t) (t_b t) with
    | [] => (wl, false)
    | miss => (match wl with [] => ts_lines miss | _ => wl ++ ts_lines miss ++ [LOr 2] end, true)
    end
  else (wl, false).

Definition upd_table (c : cfg) (from until now : Z) (t : tbl) : tbl :=
  let '(ls, scanned) := upd_lines c from until now t in
  mkTbl (t_b t) (fetch_apply c (sel_lines ls) (t_c t) (t_b t)) (if scanned then now else t_lf t).

Record st := mkSt {
  hosts : tbl; svcs : tbl;
  btp : list Z; ctp : list Z;   (* timeperiods.in at the backend / in the cache *)
  lu : Z;                       (* Peer.lastUpdate *)
  force : bool;                 (* Peer.forceFull *)
  warn : bool }.                (* peer status Warning (a query failed) instead of Up *)

Inductive abort := AbNo | AbStatus | AbHosts | AbServices.

Definition set_warn (w : bool) (s : st) : st :=
  mkSt (hosts s) (svcs s) (btp s) (ctp s) (lu s) (force s) w.
Definition set_lu (v : Z) (s : st) : st :=
  mkSt (hosts s) (svcs s) (btp s) (ctp s) v (force s) (warn s).
Definition set_force (f : bool) (s : st) : st :=
  mkSt (hosts s) (svcs s) (btp s) (ctp s) (lu s) f (warn s).
Definition set_hosts (t : tbl) (s : st) : st :=
  mkSt t (svcs s) (btp s) (ctp s) (lu s) (force s) (warn s).
Definition set_svcs (t : tbl) (s : st) : st :=
  mkSt (hosts s) t (btp s) (ctp s) (lu s) (force s) (warn s).

(** UpdateDelta(from, until); [now] is the clock of updateFullScan, [lu_after]
    what lastUpdate is set to at the end *)
Definition update_delta (c : cfg) (from until now lu_after : Z) (ab : abort) (s : st) : st :=
  match ab with
  | AbStatus => set_warn true s
  | AbHosts => set_warn true (set_hosts (upd_table c from until now (hosts s)) s)
  | AbServices =>
      set_warn true (set_svcs (upd_table c from until now (svcs s))
                       (set_hosts (upd_table c from until now (hosts s)) s))
  | AbNo =>
      set_warn false (set_lu lu_after (set_svcs (upd_table c from until now (svcs s))
                       (set_hosts (upd_table c from until now (hosts s)) s)))
  end.

(** periodicUpdate *)
Definition periodic (c : cfg) (now until : Z) (ab : abort) (s : st) : st :=
  if now <? lu s + c_interval c then s else
  let from0 := lu s in
  let s := set_lu now s in
  if warn s then update_delta c from0 until now now ab s
  else
    let from := if force s then 0 else from0 in
    update_delta c from until now now ab (set_force false s).

(** a backend change *)
Fixpoint upd_nth {A} (n : nat) (f : A -> A) (l : list A) : list A :=
  match l, n with
  | [], _ => []
  | x :: r, O => f x :: r
  | x :: r, S n' => x :: upd_nth n' f r
  end.

Record mutation := mkMut {
  m_t : Z; m_check : bool; m_stamp : bool;
  m_scan : list Z; m_nc : Z; m_ints : list Z; m_strs : list Z; m_exec : Z }.

Definition mutate (m : mutation) (o : bobj) : bobj :=
  let r := cur o in
  mkObj (mkRow (if m_check m then m_t m else r_lc r) (if m_stamp m then m_t m else r_st r)
               (m_scan m) (m_nc m) (r_ver r + 1) (m_ints m) (m_strs m) (m_exec m))
        (r :: past o) (o_tps o).

Definition mut_tbl (k : nat) (m : mutation) (t : tbl) : tbl :=
  mkTbl (upd_nth k (mutate m) (t_b t)) (t_c t) (t_lf t).

(** UpdateFullTable(timeperiods) + updateTimeperiodsData; [ab]: 0 no error,
    n+1 = the connection fails after n answered queries *)
Fixpoint changed_tps (i : nat) (cached backend : list Z) : list nat :=
  match cached, backend with
  | x :: cr, y :: br => (if x =? y then [] else [i]) ++ changed_tps (S i) cr br
  | _, _ => []
  end.

Definition refs_tp (p : nat) (o : bobj) : bool := existsb (Nat.eqb p) (o_tps o).

Definition tp_fetch (c : cfg) (op : bool * nat) (s : st) : st :=
  let '(svc, p) := op in
  if svc then set_svcs (mkTbl (t_b (svcs s)) (fetch_apply c (refs_tp p) (t_c (svcs s)) (t_b (svcs s))) (t_lf (svcs s))) s
  else set_hosts (mkTbl (t_b (hosts s)) (fetch_apply c (refs_tp p) (t_c (hosts s)) (t_b (hosts s))) (t_lf (hosts s))) s.

Definition set_ctp (v : list Z) (s : st) : st :=
  mkSt (hosts s) (svcs s) (btp s) v (lu s) (force s) (warn s).
Definition set_btp (v : list Z) (s : st) : st :=
  mkSt (hosts s) (svcs s) v (ctp s) (lu s) (force s) (warn s).

Definition tp_refresh (c : cfg) (ab : nat) (s : st) : st :=
  match ab with
  | 1%nat => set_warn true s
  | _ =>
      let ops := flat_map (fun p => [(false, p); (true, p)]) (changed_tps 0 (ctp s) (btp s)) in
      let ops := match ab with O => ops | _ => firstn (ab - 2) ops end in
      let s1 := fold_left (fun s op => tp_fetch c op s) ops (set_ctp (btp s) s) in
      match ab with O => s1 | _ => set_warn true s1 end
  end.

Inductive event :=
| EMut (svc : bool) (k : nat) (m : mutation)
| EDelta (from until : Z) (ab : abort)       (* data.UpdateDelta(from, until) *)
| ETick (now until : Z) (ab : abort)         (* periodicUpdate at [now]; the window ends at [until] *)
| ECmd                                       (* a command was sent: ScheduleImmediateUpdate, forceFull *)
| ETpFlip (p : nat)
| ETpRefresh (ab : nat)
| EResume (now until : Z).                   (* ResumeFromIdle at [now] (first query after idling) *)

(** peer.go:2777 ResumeFromIdle: timeperiods, then UpdateDelta(lastUpdate, now) - the window again starts at
    lmd's own lastUpdate; a peer that is not up only schedules the next periodicUpdate *)
Definition resume (c : cfg) (now until : Z) (s : st) : st :=
  if warn s then set_lu (now - c_interval c) s
  else update_delta c (lu s) until now now AbNo (tp_refresh c 0 s).

Definition flip (v : Z) : Z := if v =? 0 then 1 else 0.

Definition step (c : cfg) (s : st) (e : event) : st :=
  match e with
  | EMut false k m => set_hosts (mut_tbl k m (hosts s)) s
  | EMut true k m => set_svcs (mut_tbl k m (svcs s)) s
  | EDelta from until ab => update_delta c from until until until ab s
  | ETick now until ab => periodic c now until ab s
  | ECmd =>
      mkSt (mkTbl (t_b (hosts s)) (t_c (hosts s)) 0) (mkTbl (t_b (svcs s)) (t_c (svcs s)) 0)
           (btp s) (ctp s) 0 (negb (has_lu c)) (warn s)
  | ETpFlip p => set_btp (upd_nth p flip (btp s)) s
  | ETpRefresh ab => tp_refresh c ab s
  | EResume now until => resume c now until s
  end.

(** InitAllTables at time [t0] *)
Definition init_tbl (c : cfg) (t0 : Z) (objs : list (brow * list nat)) : tbl :=
  mkTbl (map (fun o => mkObj (fst o) [] (snd o)) objs) (map (fun o => norm c (fst o)) objs) t0.

Definition init_st (c : cfg) (t0 : Z) (hs ss : list (brow * list nat)) (tps : list Z) : st :=
  mkSt (init_tbl c t0 hs) (init_tbl c t0 ss) tps tps t0 false false.

Definition run (c : cfg) (s : st) (evs : list event) : st := fold_left (step c) evs s.

Definition versions (o : bobj) : list brow := cur o :: past o.

(** ---- hypotheses of the theorems: boolean predicates on (the backend part of) a history ---- *)

Fixpoint pairwise {A} (p : A -> A -> bool) (l : list A) : bool :=
  match l with [] => true | x :: r => forallb (p x) r && pairwise p r end.

(** last_check determines the strings: two versions of an object with the same
    last_check have the same string columns *)
Definition lc_strs_ok (a b : brow) : bool :=
  implb (r_lc a =? r_lc b) (zlist_eqb (r_strs a) (r_strs b)).

Definition obj_hyp (c : cfg) (o : bobj) : bool :=
  c_fx c || has_lu c || pairwise lc_strs_ok (versions o).

(** hypothesis of row_integrity, evaluated on the state a history ends in (its
    backend objects carry all their versions): the code is repaired, or the
    backend has last_update, or last_check determines the strings *)
Definition integrity_hyp (c : cfg) (s : st) : bool :=
  forallb (obj_hyp c) (t_b (hosts s)) && forallb (obj_hyp c) (t_b (svcs s)).

(** boolean form of "every served row is one of the versions of its object" *)
Fixpoint rows_whole (c : cfg) (rows : list brow) (bs : list bobj) : bool :=
  match rows, bs with
  | [], [] => true
  | r :: rr, b :: br => existsb (fun v => row_eqb r (norm c v)) (versions b) && rows_whole c rr br
  | _, _ => false
  end.


(** ---- hypotheses of window_complete: admissible events, checked along the run ---- *)

Definition lc_nonneg (s : st) : bool :=
  forallb (fun o => 0 <=? r_lc (cur o)) (t_b (hosts s)) && forallb (fun o => 0 <=? r_lc (cur o)) (t_b (svcs s)).

(** a mutation is stamped in the column the flavour's window looks at, the backend
    clock is not behind the window lmd has already asked for, and (last_update
    flavours) the object does not change twice within one second *)
Definition mut_ok (c : cfg) (s : st) (svc : bool) (k : nat) (m : mutation) : bool :=
  (lu s - c_off c <=? m_t m)
  && (if stampful c then m_stamp m else m_check m)
  && implb (has_lu c)
       match nth_error (t_b (if svc then svcs s else hosts s)) k with
       | Some o => r_st (cur o) <? m_t m
       | None => true
       end.

Definition wc_ev_ok (c : cfg) (s : st) (e : event) : bool :=
  match e with
  | EMut svc k m => mut_ok c s svc k m
  | EDelta from until ab =>
      match ab with
      | AbNo => (from <=? lu s) && ((0 <? from) || lc_nonneg s)   (* no gap before the window *)
      | _ => true                                                  (* lastUpdate is not advanced *)
      end
  | ETick now until ab =>
      (now <? lu s + c_interval c)                                 (* not due: nothing happens *)
      || match ab with
         | AbNo => (now <=? until) && (((0 <? lu s) && negb (force s)) || lc_nonneg s)
         | _ => false                                              (* lastUpdate advanced, window lost *)
         end
  | ECmd => 0 <=? lu s
  | EResume now until =>
      if warn s then now - c_interval c <=? lu s
      else (now <=? until) && ((0 <? lu s) || lc_nonneg s)
  | _ => true
  end.

Fixpoint hist_ok (ok : cfg -> st -> event -> bool) (c : cfg) (s : st) (evs : list event) : bool :=
  match evs with
  | [] => true
  | e :: r => ok c s e && hist_ok ok c (step c s e) r
  end.

(** boolean form of the conclusion: every object whose last change is stamped
    below the window bound is served in its current state *)
Fixpoint rows_current (c : cfg) (bound : Z) (rows : list brow) (bs : list bobj) : bool :=
  match rows, bs with
  | [], [] => true
  | r :: rr, b :: br => implb (stampcol c (cur b) <? bound) (row_eqb r (norm c (cur b))) && rows_current c bound rr br
  | _, _ => false
  end.

(** ---- hypotheses of convergence ---- *)

(** detectable: two versions of an object that agree on last_check and the five
    scanned int columns are the same row (every change the backend makes is
    visible to the full scan or to the window) *)
Definition det_ok (a b : brow) : bool :=
  implb (zlist_eqb (scan_cols false a) (scan_cols false b)) (row_eqb a b).

Definition det_hyp (s : st) : bool :=
  forallb (fun o => pairwise det_ok (versions o)) (t_b (hosts s))
  && forallb (fun o => pairwise det_ok (versions o)) (t_b (svcs s)).

(** mutations are stamped in the window's column, stamps do not run backwards
    (strictly forward per object on backends with last_update); everything else -
    gaps between windows, aborted cycles, commands, timeperiod events - is free *)
Definition cmut_ok (c : cfg) (s : st) (svc : bool) (k : nat) (m : mutation) : bool :=
  (if stampful c then m_stamp m else m_check m)
  && implb (stampful c)
       match nth_error (t_b (if svc then svcs s else hosts s)) k with
       | Some o => if has_lu c then r_st (cur o) <? m_t m else r_st (cur o) <=? m_t m
       | None => true
       end.

Definition conv_ev_ok (c : cfg) (s : st) (e : event) : bool :=
  match e with EMut svc k m => cmut_ok c s svc k m | _ => true end.

Definition init_ok (c : cfg) (objs : list (brow * list nat)) : bool :=
  forallb (fun o => implb (stampful c) (r_lc (fst o) <=? r_st (fst o))) objs.

(** the converging cycle on one table: the backend is quiet below the window's
    upper bound, the full scan is due, and the timestamp filter is not cut *)
Definition cycle_ok (c : cfg) (from until now : Z) (t : tbl) : bool :=
  forallb (fun o => (stampcol c (cur o) <? until - c_off c) && (0 <=? r_lc (cur o))) (t_b t)
  && scan_due now t
  && negb (Nat.ltb 150 (length (compose (missing ((0 <? from) && negb (stampful c)) (from - c_off c) (t_c t) (t_b t))))).

Fixpoint rows_equal (c : cfg) (rows : list brow) (bs : list bobj) : bool :=
  match rows, bs with
  | [], [] => true
  | r :: rr, b :: br => row_eqb r (norm c (cur b)) && rows_equal c rr br
  | _, _ => false
  end.

(** ---- several converging cycles (the timestamp filter of a scan is cut at 149) ---- *)

(** the timestamps a full scan with window start [from] collects *)
Definition miss_of (c : cfg) (from : Z) (t : tbl) : list Z :=
  missing ((0 <? from) && negb (stampful c)) (from - c_off c) (t_c t) (t_b t).

(** a cycle on a quiet backend whose full scan is due (no condition on the size of the filter) *)
Definition cyc_ok (c : cfg) (until now : Z) (t : tbl) : bool :=
  forallb (fun o => (stampcol c (cur o) <? until - c_off c) && (0 <=? r_lc (cur o))) (t_b t) && scan_due now t.

(** [cs]: (from, until) of consecutive complete UpdateDelta calls *)
Fixpoint run_cycles (c : cfg) (s : st) (cs : list (Z * Z)) : st :=
  match cs with [] => s | (f, u) :: r => run_cycles c (step c s (EDelta f u AbNo)) r end.

Fixpoint cycles_ok (c : cfg) (s : st) (cs : list (Z * Z)) : bool :=
  match cs with
  | [] => true
  | (f, u) :: r => cyc_ok c u u (hosts s) && cyc_ok c u u (svcs s) && cycles_ok c (step c s (EDelta f u AbNo)) r
  end.
