(** C03: proofs about the delta update model (row integrity, no regress). *)
From LMD Require Import C03.Filter C03.ComposeProofs C03.Model.
Open Scope Z_scope.

(** ---- small facts ---- *)

Lemma zlist_eqb_eq a b : zlist_eqb a b = true <-> a = b.
Proof.
  revert b; induction a as [|x a IH]; intros [|y b]; cbn [zlist_eqb]; try (split; [discriminate|congruence]).
  - split; reflexivity.
  - rewrite andb_true_iff, Z.eqb_eq, IH. split; [intros [-> ->]; reflexivity|intros H; inversion H; auto].
Qed.

Lemma zlist_eqb_refl a : zlist_eqb a a = true.
Proof. apply zlist_eqb_eq; reflexivity. Qed.

Lemma norm_ver c r : r_ver (norm c r) = r_ver r.
Proof. unfold norm. destruct (has_lu c); reflexivity. Qed.

Lemma norm_lc c r : r_lc (norm c r) = r_lc r.
Proof. unfold norm. destruct (has_lu c); reflexivity. Qed.

Lemma norm_strs c r : r_strs (norm c r) = r_strs r.
Proof. unfold norm. destruct (has_lu c); reflexivity. Qed.

Lemma Forall2_refl {A} (R : A -> A -> Prop) l : (forall x, R x x) -> Forall2 R l l.
Proof. intros H; induction l; constructor; auto. Qed.

Lemma Forall2_trans {A} (R : A -> A -> Prop) l1 l2 l3 :
  (forall x y z, R x y -> R y z -> R x z) -> Forall2 R l1 l2 -> Forall2 R l2 l3 -> Forall2 R l1 l3.
Proof.
  intros Ht H12; revert l3; induction H12; intros l3 H23; inversion H23; subst; constructor; eauto.
Qed.

(** ---- one fetch ---- *)

Lemma fetch_apply_F2 c sel (R : brow -> bobj -> Prop) cs bs :
  (forall cr o, R cr o -> R (merge c cr (cur o)) o) ->
  Forall2 R cs bs -> Forall2 R (fetch_apply c sel cs bs) bs.
Proof.
  intros Hm H; induction H as [|cr o cs bs Hr H IH]; cbn [fetch_apply]; [constructor|].
  constructor; [destruct (sel o); auto|assumption].
Qed.

Lemma fetch_apply_rel c sel (R : brow -> bobj -> Prop) (Q : brow -> brow -> Prop) cs bs :
  (forall x, Q x x) ->
  (forall cr o, R cr o -> Q cr (merge c cr (cur o))) ->
  Forall2 R cs bs -> Forall2 Q cs (fetch_apply c sel cs bs).
Proof.
  intros Hq Hm H; induction H as [|cr o cs bs Hr H IH]; cbn [fetch_apply]; [constructor|].
  constructor; [destruct (sel o); auto|assumption].
Qed.

(** ---- what an lmd step does to a table: some fetches, the backend untouched ---- *)

Definition fetches (c : cfg) (bs : list bobj) (sels : list (bobj -> bool)) (cs : list brow) : list brow :=
  fold_left (fun cs sel => fetch_apply c sel cs bs) sels cs.

Definition tstep (c : cfg) (t t' : tbl) : Prop :=
  t_b t' = t_b t /\ exists sels, t_c t' = fetches c (t_b t) sels (t_c t).

Lemma tstep_refl c t : tstep c t t.
Proof. split; [reflexivity|exists []; reflexivity]. Qed.

Lemma tstep_trans c t1 t2 t3 : tstep c t1 t2 -> tstep c t2 t3 -> tstep c t1 t3.
Proof.
  intros [Hb1 [s1 Hc1]] [Hb2 [s2 Hc2]]. split; [congruence|].
  exists (s1 ++ s2). unfold fetches in *. rewrite fold_left_app, <- Hc1, Hc2, Hb1. reflexivity.
Qed.

Lemma tstep_lf c t v : tstep c t (mkTbl (t_b t) (t_c t) v).
Proof. split; [reflexivity|exists []; reflexivity]. Qed.

Lemma tstep_fetch c t sel v : tstep c t (mkTbl (t_b t) (fetch_apply c sel (t_c t) (t_b t)) v).
Proof. split; [reflexivity|exists [sel]; reflexivity]. Qed.

Lemma tstep_upd_table c from until now t : tstep c t (upd_table c from until now t).
Proof. unfold upd_table. destruct (upd_lines c from until now t) as [ls sc]. apply tstep_fetch. Qed.

Definition sstep (c : cfg) (s s' : st) : Prop :=
  tstep c (hosts s) (hosts s') /\ tstep c (svcs s) (svcs s').

Lemma sstep_refl c s : sstep c s s.
Proof. split; apply tstep_refl. Qed.

Lemma sstep_trans c s1 s2 s3 : sstep c s1 s2 -> sstep c s2 s3 -> sstep c s1 s3.
Proof. intros [H1 H2] [H3 H4]; split; eapply tstep_trans; eauto. Qed.

Lemma sstep_update_delta c from until now la ab s : sstep c s (update_delta c from until now la ab s).
Proof.
  unfold update_delta; destruct ab; cbn; split;
    first [apply tstep_refl | apply tstep_upd_table].
Qed.

Lemma sstep_same c s s' : hosts s' = hosts s -> svcs s' = svcs s -> sstep c s s'.
Proof. intros H1 H2. split; [rewrite H1|rewrite H2]; apply tstep_refl. Qed.

Lemma sstep_periodic c now until ab s : sstep c s (periodic c now until ab s).
Proof.
  unfold periodic. destruct (now <? lu s + c_interval c); [apply sstep_refl|].
  cbn [warn set_lu]. destruct (warn s).
  - eapply sstep_trans; [|apply sstep_update_delta]. apply sstep_same; reflexivity.
  - eapply sstep_trans; [|apply sstep_update_delta]. apply sstep_same; reflexivity.
Qed.

Lemma sstep_tp_fetch c op s : sstep c s (tp_fetch c op s).
Proof.
  destruct op as [svc p]. unfold tp_fetch. destruct svc; cbn; split;
    first [apply tstep_refl | apply tstep_fetch].
Qed.

Lemma sstep_tp_ops c ops : forall s, sstep c s (fold_left (fun s op => tp_fetch c op s) ops s).
Proof.
  induction ops as [|op ops IH]; intros s; [apply sstep_refl|].
  cbn [fold_left]. eapply sstep_trans; [apply sstep_tp_fetch|apply IH].
Qed.

Lemma sstep_tp_refresh c ab s : sstep c s (tp_refresh c ab s).
Proof.
  unfold tp_refresh. destruct ab as [|[|n]].
  - eapply sstep_trans; [|apply sstep_tp_ops]. apply sstep_same; reflexivity.
  - apply sstep_same; reflexivity.
  - eapply sstep_trans; [|eapply sstep_trans; [apply sstep_tp_ops|apply sstep_same; reflexivity]]. apply sstep_same; reflexivity.
Qed.

Definition is_mut (e : event) : bool := match e with EMut _ _ _ => true | _ => false end.

Lemma sstep_step c s e : is_mut e = false -> sstep c s (step c s e).
Proof.
  destruct e; cbn [is_mut step]; intros H; try discriminate.
  - apply sstep_update_delta.
  - apply sstep_periodic.
  - split; cbn; apply tstep_lf.
  - apply sstep_same; reflexivity.
  - apply sstep_tp_refresh.
  - unfold resume. destruct (warn s); [apply sstep_same; reflexivity|].
    eapply sstep_trans; [apply sstep_tp_refresh|apply sstep_update_delta].
Qed.

(** ---- invariants of a table ---- *)

Definition whole_obj (c : cfg) (cr : brow) (o : bobj) : Prop := In cr (map (norm c) (versions o)).
Definition twhole (c : cfg) (t : tbl) : Prop := Forall2 (whole_obj c) (t_c t) (t_b t).

Definition le_obj (cr : brow) (o : bobj) : Prop := r_ver cr <= r_ver (cur o).
Definition tle (t : tbl) : Prop := Forall2 le_obj (t_c t) (t_b t).

Definition ver_le (a b : brow) : Prop := r_ver a <= r_ver b.

Lemma merge_ver c cr b : r_ver (merge c cr b) = r_ver cr \/ r_ver (merge c cr b) = r_ver b.
Proof. unfold merge. destruct (decide c cr b); cbn; [right; apply norm_ver|right; reflexivity|left; reflexivity]. Qed.

Lemma merge_le c cr o : le_obj cr o -> le_obj (merge c cr (cur o)) o.
Proof. unfold le_obj. intros H. destruct (merge_ver c cr (cur o)) as [-> | ->]; lia. Qed.

Lemma merge_ver_le c cr o : le_obj cr o -> ver_le cr (merge c cr (cur o)).
Proof. unfold le_obj, ver_le. intros H. destruct (merge_ver c cr (cur o)) as [-> | ->]; lia. Qed.

Lemma forallb_In {A} (p : A -> bool) l x : forallb p l = true -> In x l -> p x = true.
Proof. intros H Hin. rewrite forallb_forall in H. auto. Qed.

(** lc_strs_ok between the current row and any version *)
Lemma pairwise_head (o : bobj) v :
  pairwise lc_strs_ok (versions o) = true -> In v (versions o) -> r_lc (cur o) = r_lc v -> r_strs (cur o) = r_strs v.
Proof.
  unfold versions. cbn [pairwise]. intros H Hin Hlc. apply andb_prop in H as [Hh _].
  destruct Hin as [<-|Hin]; [reflexivity|].
  pose proof (forallb_In _ _ _ Hh Hin) as Hp. unfold lc_strs_ok in Hp.
  rewrite Hlc, Z.eqb_refl in Hp. cbn [implb] in Hp. apply zlist_eqb_eq in Hp. assumption.
Qed.

Lemma merge_whole c cr o : obj_hyp c o = true -> whole_obj c cr o -> whole_obj c (merge c cr (cur o)) o.
Proof.
  unfold whole_obj. intros Hh Hin. unfold merge, decide.
  assert (Hcur : In (norm c (cur o)) (map (norm c) (versions o))) by (apply in_map; left; reflexivity).
  destruct (has_lu c) eqn:Hlu.
  - destruct (negb (r_st (cur o) =? r_st cr) || negb (r_lc (cur o) =? r_lc cr)); assumption.
  - destruct (Z.eqb_spec (r_lc (cur o)) (r_lc cr)) as [Hlc|Hlc]; cbn [negb]; [|assumption].
    destruct (c_fx c) eqn:Hfx; [assumption|].
    unfold obj_hyp in Hh. rewrite Hfx, Hlu in Hh. cbn [orb] in Hh.
    apply in_map_iff in Hin as [v [Hv Hin]].
    assert (Hs : r_strs (cur o) = r_strs v).
    { apply pairwise_head; [assumption|assumption|]. rewrite Hlc, <- Hv, norm_lc. reflexivity. }
    assert (Hst : r_st cr = 0) by (rewrite <- Hv; unfold norm; rewrite Hlu; reflexivity).
    assert (Hsc : r_strs cr = r_strs (cur o)) by (rewrite <- Hv, norm_strs; congruence).
    rewrite Hst, Hsc.
    replace (mkRow _ _ _ _ _ _ _ _) with (norm c (cur o)); [assumption|].
    unfold norm, set_st. rewrite Hlu. reflexivity.
Qed.

Definition tb_hyp (c : cfg) (t : tbl) : Prop := forallb (obj_hyp c) (t_b t) = true.

Lemma Forall2_hyp c cs bs :
  forallb (obj_hyp c) bs = true -> Forall2 (whole_obj c) cs bs ->
  Forall2 (fun cr o => obj_hyp c o = true /\ whole_obj c cr o) cs bs.
Proof.
  intros Hh H; induction H; constructor; cbn [forallb] in Hh; apply andb_prop in Hh as [H1 H2]; auto.
Qed.

Lemma Forall2_weaken {A B} (P Q : A -> B -> Prop) l1 l2 : (forall a b, P a b -> Q a b) -> Forall2 P l1 l2 -> Forall2 Q l1 l2.
Proof. intros H F; induction F; constructor; auto. Qed.

Lemma fetches_whole c bs sels : forall cs,
  forallb (obj_hyp c) bs = true -> Forall2 (whole_obj c) cs bs -> Forall2 (whole_obj c) (fetches c bs sels cs) bs.
Proof.
  induction sels as [|sel sels IH]; intros cs Hh H; [assumption|].
  cbn [fetches fold_left]. apply IH; [assumption|].
  apply Forall2_hyp in H; [|assumption].
  eapply Forall2_weaken; [|apply fetch_apply_F2; [|exact H]].
  - intros a b [_ Hw]; exact Hw.
  - intros cr o [Ho Hw]; split; [assumption|apply merge_whole; assumption].
Qed.

Lemma tstep_whole c t t' : tstep c t t' -> tb_hyp c t -> twhole c t -> twhole c t'.
Proof.
  intros [Hb [sels Hc]] Hh Hw. unfold twhole. rewrite Hb, Hc. apply fetches_whole; assumption.
Qed.

Lemma fetches_le c bs sels : forall cs, Forall2 le_obj cs bs -> Forall2 le_obj (fetches c bs sels cs) bs.
Proof.
  induction sels as [|sel sels IH]; intros cs H; [assumption|].
  cbn [fetches fold_left]. apply IH. apply fetch_apply_F2; [|assumption]. intros; apply merge_le; assumption.
Qed.

Lemma tstep_le c t t' : tstep c t t' -> tle t -> tle t'.
Proof. intros [Hb [sels Hc]] H. unfold tle. rewrite Hb, Hc. apply fetches_le; assumption. Qed.

Lemma fetches_mono c bs sels : forall cs, Forall2 le_obj cs bs -> Forall2 ver_le cs (fetches c bs sels cs).
Proof.
  induction sels as [|sel sels IH]; intros cs H; [apply Forall2_refl; intros; unfold ver_le; lia|].
  cbn [fetches fold_left]. eapply Forall2_trans; [intros x y z; unfold ver_le; lia| |apply IH].
  - eapply fetch_apply_rel; [intros; unfold ver_le; lia| |exact H]. intros; apply merge_ver_le; assumption.
  - apply fetch_apply_F2; [|assumption]. intros; apply merge_le; assumption.
Qed.

Lemma tstep_mono c t t' : tstep c t t' -> tle t -> Forall2 ver_le (t_c t) (t_c t').
Proof. intros [Hb [sels Hc]] H. rewrite Hc. apply fetches_mono; assumption. Qed.

(** ---- a backend mutation ---- *)

Lemma upd_nth_F2 {A B} (R : A -> B -> Prop) (f : B -> B) k : forall cs bs,
  (forall a b, R a b -> R a (f b)) -> Forall2 R cs bs -> Forall2 R cs (upd_nth k f bs).
Proof.
  induction k as [|k IH]; intros cs bs Hf H; destruct H; cbn [upd_nth]; constructor; auto.
Qed.

Lemma mutate_whole c m cr o : whole_obj c cr o -> whole_obj c cr (mutate m o).
Proof. unfold whole_obj, versions, mutate. cbn [cur past map]. intros H. right. exact H. Qed.

Lemma mutate_le m cr o : le_obj cr o -> le_obj cr (mutate m o).
Proof. unfold le_obj, mutate. cbn [cur r_ver]. lia. Qed.

Lemma mut_tbl_whole c k m t : twhole c t -> twhole c (mut_tbl k m t).
Proof. unfold twhole, mut_tbl. cbn [t_c t_b]. apply upd_nth_F2. intros; apply mutate_whole; assumption. Qed.

Lemma mut_tbl_le k m t : tle t -> tle (mut_tbl k m t).
Proof. unfold tle, mut_tbl. cbn [t_c t_b]. apply upd_nth_F2. intros; apply mutate_le; assumption. Qed.

(** the hypothesis is inherited by earlier states: versions only grow at the head *)
Lemma obj_hyp_mutate c m o : obj_hyp c (mutate m o) = true -> obj_hyp c o = true.
Proof.
  unfold obj_hyp. destruct (c_fx c); [reflexivity|]. destruct (has_lu c); [reflexivity|]. cbn [orb].
  unfold versions, mutate. cbn [cur past]. intros H.
  change (pairwise lc_strs_ok (?x :: cur o :: past o)) with
    (forallb (lc_strs_ok x) (cur o :: past o) && pairwise lc_strs_ok (cur o :: past o)) in H.
  apply andb_prop in H as [_ H]. exact H.
Qed.

Lemma forallb_upd_nth {A} (p : A -> bool) (f : A -> A) k : forall l,
  (forall x, p (f x) = true -> p x = true) -> forallb p (upd_nth k f l) = true -> forallb p l = true.
Proof.
  induction k as [|k IH]; intros [|x l] Hf H; cbn [upd_nth forallb] in *; try reflexivity;
    apply andb_prop in H as [H1 H2]; apply andb_true_intro; split; auto.
Qed.

Lemma tb_hyp_mut c k m t : tb_hyp c (mut_tbl k m t) -> tb_hyp c t.
Proof. unfold tb_hyp, mut_tbl. cbn [t_b]. apply forallb_upd_nth. apply obj_hyp_mutate. Qed.

(** ---- states ---- *)

Definition swhole (c : cfg) (s : st) : Prop := twhole c (hosts s) /\ twhole c (svcs s).
Definition sle (s : st) : Prop := tle (hosts s) /\ tle (svcs s).
Definition shyp (c : cfg) (s : st) : Prop := tb_hyp c (hosts s) /\ tb_hyp c (svcs s).

Lemma integrity_hyp_shyp c s : integrity_hyp c s = true <-> shyp c s.
Proof. unfold integrity_hyp, shyp, tb_hyp. rewrite andb_true_iff. reflexivity. Qed.

Lemma shyp_step_back c s e : shyp c (step c s e) -> shyp c s.
Proof.
  destruct (is_mut e) eqn:He.
  - destruct e as [svc k m| | | | | |]; try discriminate. destruct svc; cbn [step]; intros [H1 H2]; split; cbn in *;
      first [assumption | eapply tb_hyp_mut; eassumption].
  - intros [H1 H2]. destruct (sstep_step c s e He) as [[Hb1 _] [Hb2 _]].
    unfold tb_hyp in *. rewrite Hb1 in H1. rewrite Hb2 in H2. split; assumption.
Qed.

Lemma shyp_run_back c evs : forall s, shyp c (run c s evs) -> shyp c s.
Proof.
  induction evs as [|e evs IH]; intros s H; [assumption|].
  cbn [run fold_left] in H. apply IH in H. eapply shyp_step_back; eassumption.
Qed.

Lemma step_whole c s e : shyp c s -> swhole c s -> swhole c (step c s e).
Proof.
  intros [Hh1 Hh2] [Hw1 Hw2]. destruct (is_mut e) eqn:He.
  - destruct e as [svc k m| | | | | |]; try discriminate. destruct svc; cbn [step]; split; cbn;
      first [assumption | apply mut_tbl_whole; assumption].
  - destruct (sstep_step c s e He) as [H1 H2]. split; eapply tstep_whole; eassumption.
Qed.

Lemma step_le c s e : sle s -> sle (step c s e).
Proof.
  intros [Hw1 Hw2]. destruct (is_mut e) eqn:He.
  - destruct e as [svc k m| | | | | |]; try discriminate. destruct svc; cbn [step]; split; cbn;
      first [assumption | apply mut_tbl_le; assumption].
  - destruct (sstep_step c s e He) as [H1 H2]. split; eapply tstep_le; eassumption.
Qed.

Definition smono (s s' : st) : Prop :=
  Forall2 ver_le (t_c (hosts s)) (t_c (hosts s')) /\ Forall2 ver_le (t_c (svcs s)) (t_c (svcs s')).

Lemma ver_le_refl l : Forall2 ver_le l l.
Proof. apply Forall2_refl. intros; unfold ver_le; lia. Qed.

Lemma step_mono c s e : sle s -> smono s (step c s e).
Proof.
  intros [Hw1 Hw2]. destruct (is_mut e) eqn:He.
  - destruct e as [svc k m| | | | | |]; try discriminate. destruct svc; cbn [step]; split; cbn; apply ver_le_refl.
  - destruct (sstep_step c s e He) as [H1 H2]. split; eapply tstep_mono; eassumption.
Qed.

Lemma run_whole c evs : forall s, shyp c (run c s evs) -> swhole c s -> swhole c (run c s evs).
Proof.
  induction evs as [|e evs IH]; intros s Hh Hw; [assumption|].
  cbn [run fold_left] in *. apply IH; [assumption|].
  apply step_whole; [|assumption]. eapply shyp_step_back. eapply shyp_run_back. exact Hh.
Qed.

Lemma run_le c evs : forall s, sle s -> sle (run c s evs).
Proof.
  induction evs as [|e evs IH]; intros s H; [assumption|]. cbn [run fold_left]. apply IH. apply step_le; assumption.
Qed.

Lemma run_mono c evs : forall s, sle s -> smono s (run c s evs).
Proof.
  induction evs as [|e evs IH]; intros s H; [split; apply ver_le_refl|].
  cbn [run fold_left]. destruct (step_mono c s e H) as [M1 M2].
  destruct (IH (step c s e) (step_le c s e H)) as [N1 N2].
  split; (eapply Forall2_trans; [intros x y z; unfold ver_le; lia|eassumption|eassumption]).
Qed.

(** ---- the initial state ---- *)

Lemma init_tbl_whole c t0 objs : twhole c (init_tbl c t0 objs).
Proof.
  unfold twhole, init_tbl. cbn [t_c t_b]. induction objs as [|o objs IH]; cbn [map]; constructor; [|assumption].
  unfold whole_obj, versions. cbn. left; reflexivity.
Qed.

Lemma init_tbl_le c t0 objs : tle (init_tbl c t0 objs).
Proof.
  unfold tle, init_tbl. cbn [t_c t_b]. induction objs as [|o objs IH]; cbn [map]; constructor; [|assumption].
  unfold le_obj. cbn [cur]. rewrite norm_ver. lia.
Qed.

Lemma row_integrity_thm c t0 hs ss tps evs :
  let s := run c (init_st c t0 hs ss tps) evs in
  integrity_hyp c s = true -> swhole c s.
Proof.
  intros s Hh. apply integrity_hyp_shyp in Hh. apply run_whole; [assumption|].
  split; apply init_tbl_whole.
Qed.

Lemma row_integrity_prefix_thm c t0 hs ss tps evs1 evs2 :
  integrity_hyp c (run c (init_st c t0 hs ss tps) (evs1 ++ evs2)) = true ->
  swhole c (run c (init_st c t0 hs ss tps) evs1).
Proof.
  intros Hh. apply integrity_hyp_shyp in Hh. unfold run in Hh. rewrite fold_left_app in Hh.
  apply shyp_run_back in Hh. apply run_whole; [assumption|]. split; apply init_tbl_whole.
Qed.

Lemma no_regress_thm c t0 hs ss tps evs1 evs2 :
  smono (run c (init_st c t0 hs ss tps) evs1) (run c (init_st c t0 hs ss tps) (evs1 ++ evs2)).
Proof.
  unfold run at 2. rewrite fold_left_app. apply run_mono. apply run_le. split; apply init_tbl_le.
Qed.

(** ---- the boolean checker of the stream agrees with [twhole] ---- *)

Lemma row_eqb_refl r : row_eqb r r = true.
Proof. unfold row_eqb. rewrite !Z.eqb_refl, !zlist_eqb_refl. reflexivity. Qed.

Lemma rows_whole_complete c cs bs : Forall2 (whole_obj c) cs bs -> rows_whole c cs bs = true.
Proof.
  intros H; induction H as [|cr o cs bs Hw H IH]; [reflexivity|].
  cbn [rows_whole]. rewrite IH, andb_true_r. apply existsb_exists.
  unfold whole_obj in Hw. apply in_map_iff in Hw as [v [Hv Hin]].
  exists v. split; [assumption|]. rewrite Hv. apply row_eqb_refl.
Qed.

(** D19: the pinned code tears a row. One host, backend without last_update:
    a check result at second 1001 is fetched, a second result arrives within the
    same second, the next full scan sees changed numbers and fetches the host by
    its last_check - which is unchanged, so only the numbers are updated. *)
Definition d19_cfg : cfg := mkCfg false false false 3 7 false.
Definition d19_host : brow * list nat := (mkRow 900 0 [0;0;1;1;0] 1200 0 [0;1] [0] 0, [0%nat]).
Definition d19_events : list event :=
  [EMut false 0 (mkMut 1001 true true [0;0;1;1;0] 1301 [1;2] [1] 0);
   EDelta 1000 1010 AbNo;
   EMut false 0 (mkMut 1001 true true [0;1;1;1;0] 1301 [2;3] [2] 0);
   EDelta 1010 1080 AbNo].

Lemma row_integrity_refuted_thm :
  let s := run d19_cfg (init_st d19_cfg 1000 [d19_host] [] [1]) d19_events in
  t_c (hosts s) = [mkRow 1001 0 [0;1;1;1;0] 1301 2 [2;3] [1] 0] /\
  map cur (t_b (hosts s)) = [mkRow 1001 1001 [0;1;1;1;0] 1301 2 [2;3] [2] 0] /\
  ~ swhole d19_cfg s.
Proof.
  split; [vm_compute; reflexivity|]. split; [vm_compute; reflexivity|].
  intros [Hw _]. apply rows_whole_complete in Hw. vm_compute in Hw. discriminate.
Qed.

(** ... and a change of a string column that is no check result
    (modified_attributes_list after a command) stays invisible although the
    forced full fetch after the command returns the row *)
Definition d19b_events : list event :=
  [EMut false 0 (mkMut 1001 false true [0;0;1;1;5] 1200 [0;1] [5] 0);
   ECmd;
   ETick 1002 1002 AbNo].

Lemma row_integrity_refuted_cmd_thm :
  let s := run d19_cfg (init_st d19_cfg 1000 [d19_host] [] [1]) d19b_events in
  t_c (hosts s) = [mkRow 900 0 [0;0;1;1;5] 1200 1 [0;1] [0] 0] /\ ~ swhole d19_cfg s.
Proof.
  split; [vm_compute; reflexivity|].
  intros [Hw _]. apply rows_whole_complete in Hw. vm_compute in Hw. discriminate.
Qed.
