(** C03: delta updates converge to the backend and never tear an object.
    Only statements; proofs live in ComposeProofs.v, Proofs.v, WcProofs.v, ConvProofs.v.

    [run c (init_st c t0 hs ss tps) evs] is the peer after InitAllTables at [t0]
    (hosts [hs], services [ss], timeperiods [tps]) and the history [evs] of
      EMut      the backend changes one host/service at time t (any new content,
                check result or not, stamped or silent),
      EDelta    data.UpdateDelta(from, until), complete or aborted by a connection
                error after the status / hosts / services step,
      ETick     one periodicUpdate (due or not, complete or aborted),
      ECmd      a command was sent (ScheduleImmediateUpdate, forceFull),
      ETpFlip / ETpRefresh  a timeperiod flips / periodicTimeperiodsUpdate (with errors),
      EResume   ResumeFromIdle (timeperiods, then UpdateDelta(lastUpdate, now)),
    for a backend flavour [c] (lmd_last_cache_update / last_update / last_check only,
    SyncIsExecuting on/off, UpdateOffset, UpdateInterval; [c_fx c = false] is the pinned code).
    Whether a full scan is due follows from the times in the history.
    Hypotheses are boolean functions of the history (evaluated on the run). *)
From LMD Require Import C03.Filter C03.ComposeProofs C03.Model C03.Proofs C03.WcProofs C03.ConvProofs C03.IterProofs.
Open Scope Z_scope.

(** compose_ts_exact: the filter built by composeTimestampFilter selects exactly
    the given timestamps (sorted, duplicate free, none of them the sentinel -1 the
    loop uses for "no block open"). Replaces TestComposeTimestamp1-3, which are
    instances ([compose_test1-3] in ComposeProofs.v). *)
Theorem C03_compose_ts_exact :
  forall ts x, ts <> [] -> incr ts = true -> ~ In (-1) ts ->
    lsem (concat (compose ts)) (lc_env x) = true <-> In x ts.
Proof. exact compose_exact. Qed.

(** row_integrity: at every moment every served host/service row equals a state
    that object really had at the backend (all columns from one version),
    provided [integrity_hyp]: the backend has last_update, or two versions of an
    object with the same last_check have the same string columns (no second
    change of a string column within the second of a check result, no string
    change that is not a check result), or the code is repaired ([c_fx]). *)
Theorem C03_row_integrity :
  forall c t0 hs ss tps evs,
    let s := run c (init_st c t0 hs ss tps) evs in
    integrity_hyp c s = true ->
    Forall2 (fun cr o => In cr (map (norm c) (versions o))) (t_c (hosts s)) (t_b (hosts s)) /\
    Forall2 (fun cr o => In cr (map (norm c) (versions o))) (t_c (svcs s)) (t_b (svcs s)).
Proof. exact row_integrity_thm. Qed.

(** ... also at every earlier moment of such a history *)
Theorem C03_row_integrity_every_moment :
  forall c t0 hs ss tps evs1 evs2,
    integrity_hyp c (run c (init_st c t0 hs ss tps) (evs1 ++ evs2)) = true ->
    let s := run c (init_st c t0 hs ss tps) evs1 in
    Forall2 (fun cr o => In cr (map (norm c) (versions o))) (t_c (hosts s)) (t_b (hosts s)) /\
    Forall2 (fun cr o => In cr (map (norm c) (versions o))) (t_c (svcs s)) (t_b (svcs s)).
Proof. exact row_integrity_prefix_thm. Qed.

(** D19: without the hypothesis the statement is false for the pinned code - one
    object changes twice within one second on a backend without last_update: the
    served row has the numbers of version 2 and the strings of version 1. *)
Theorem C03_row_integrity_refuted :
  let s := run d19_cfg (init_st d19_cfg 1000 [d19_host] [] [1]) d19_events in
  t_c (hosts s) = [mkRow 1001 0 [0;1;1;1;0] 1301 2 [2;3] [1] 0] /\
  map cur (t_b (hosts s)) = [mkRow 1001 1001 [0;1;1;1;0] 1301 2 [2;3] [2] 0] /\
  ~ (Forall2 (fun cr o => In cr (map (norm d19_cfg) (versions o))) (t_c (hosts s)) (t_b (hosts s)) /\
     Forall2 (fun cr o => In cr (map (norm d19_cfg) (versions o))) (t_c (svcs s)) (t_b (svcs s))).
Proof. exact row_integrity_refuted_thm. Qed.

(** ... and a string column changed by a command (no check result) stays stale
    although the forced full fetch after the command returns the row *)
Theorem C03_row_integrity_refuted_after_command :
  let s := run d19_cfg (init_st d19_cfg 1000 [d19_host] [] [1]) d19b_events in
  t_c (hosts s) = [mkRow 900 0 [0;0;1;1;5] 1200 1 [0;1] [0] 0] /\
  ~ (Forall2 (fun cr o => In cr (map (norm d19_cfg) (versions o))) (t_c (hosts s)) (t_b (hosts s)) /\
     Forall2 (fun cr o => In cr (map (norm d19_cfg) (versions o))) (t_c (svcs s)) (t_b (svcs s))).
Proof. exact row_integrity_refuted_cmd_thm. Qed.

(** no_regress: a served row is never older than one served earlier (the version
    counter, a numeric column, never goes back) - for ALL histories, no hypothesis. *)
Theorem C03_no_regress :
  forall c t0 hs ss tps evs1 evs2,
    let s1 := run c (init_st c t0 hs ss tps) evs1 in
    let s2 := run c (init_st c t0 hs ss tps) (evs1 ++ evs2) in
    Forall2 (fun a b => r_ver a <= r_ver b) (t_c (hosts s1)) (t_c (hosts s2)) /\
    Forall2 (fun a b => r_ver a <= r_ver b) (t_c (svcs s1)) (t_c (svcs s2)).
Proof. exact no_regress_thm. Qed.

(** window_complete: if every completed window starts no later than the previous
    one ended ([from <= lastUpdate]; aborted UpdateDelta calls, commands and
    timeperiod refreshes are free, aborted periodicUpdate steps are excluded because
    lastUpdate is advanced before the attempt), mutations are stamped in the
    window's column, the backend clock is not behind the window already requested
    and (last_update flavours) an object does not change twice per second, then
    every object whose last change is stamped below [lastUpdate - UpdateOffset] is
    served in its current state. *)
Theorem C03_window_complete :
  forall c t0 hs ss tps evs,
    let s0 := init_st c t0 hs ss tps in
    let s := run c s0 evs in
    0 <= c_off c -> hist_ok wc_ev_ok c s0 evs = true -> integrity_hyp c s = true ->
    Forall2 (fun cr o => stampcol c (cur o) < lu s - c_off c -> cr = norm c (cur o)) (t_c (hosts s)) (t_b (hosts s)) /\
    Forall2 (fun cr o => stampcol c (cur o) < lu s - c_off c -> cr = norm c (cur o)) (t_c (svcs s)) (t_b (svcs s)).
Proof. exact window_complete_thm. Qed.

(** convergence (one cycle): after ANY history whose mutations are stamped in the
    window's column with stamps that do not run backwards ([conv_ev_ok]; gaps,
    aborted cycles, commands are all allowed), if changes are detectable
    ([det_hyp]: versions differ in last_check or a scanned int column), then one
    complete UpdateDelta whose window passes the last change, whose full scan is
    due and whose timestamp filter is not cut ([cycle_ok]: at most 150 filter
    entries) makes every host and service row equal to the backend. *)
Theorem C03_convergence_one_cycle :
  forall c t0 hs ss tps evs from until,
    let s := run c (init_st c t0 hs ss tps) evs in
    let s' := step c s (EDelta from until AbNo) in
    0 <= c_off c -> init_ok c hs = true -> init_ok c ss = true ->
    hist_ok conv_ev_ok c (init_st c t0 hs ss tps) evs = true ->
    integrity_hyp c s = true -> det_hyp s = true ->
    cycle_ok c from until until (hosts s) = true -> cycle_ok c from until until (svcs s) = true ->
    Forall2 (fun cr o => cr = norm c (cur o)) (t_c (hosts s')) (t_b (hosts s')) /\
    Forall2 (fun cr o => cr = norm c (cur o)) (t_c (svcs s')) (t_b (svcs s')).
Proof. exact convergence_delta_thm. Qed.

Theorem C03_convergence_one_tick :
  forall c t0 hs ss tps evs now until,
    let s := run c (init_st c t0 hs ss tps) evs in
    let s' := step c s (ETick now until AbNo) in
    let from := if warn s then lu s else if force s then 0 else lu s in
    0 <= c_off c -> init_ok c hs = true -> init_ok c ss = true ->
    hist_ok conv_ev_ok c (init_st c t0 hs ss tps) evs = true ->
    integrity_hyp c s = true -> det_hyp s = true ->
    lu s + c_interval c <= now ->
    cycle_ok c from until now (hosts s) = true -> cycle_ok c from until now (svcs s) = true ->
    Forall2 (fun cr o => cr = norm c (cur o)) (t_c (hosts s')) (t_b (hosts s')) /\
    Forall2 (fun cr o => cr = norm c (cur o)) (t_c (svcs s')) (t_b (svcs s')).
Proof. exact convergence_tick_thm. Qed.

(** convergence (full statement): let the first of [n >= 1] consecutive complete
    cycles collect [m] distinct last_check values in its full scan. If every cycle
    runs on the quiet backend with its full scan due ([cycles_ok]: window passes
    the last change; a scan that fetched something stores its time, so the next
    cycle has to be more than 60 s later) and [m <= 149 * n], i.e.
    [n >= ceil(m/149)], then afterwards every host and service row equals the
    backend - whatever happened before (aborted cycles, gaps, commands). *)
Theorem C03_convergence :
  forall c t0 hs ss tps evs cs,
    let s := run c (init_st c t0 hs ss tps) evs in
    let s' := run_cycles c s cs in
    0 <= c_off c -> init_ok c hs = true -> init_ok c ss = true ->
    hist_ok conv_ev_ok c (init_st c t0 hs ss tps) evs = true ->
    integrity_hyp c s = true -> det_hyp s = true ->
    cycles_ok c s cs = true ->
    match cs with
    | [] => False
    | (f, _) :: _ => (length (miss_of c f (hosts s)) <= 149 * length cs)%nat /\
                     (length (miss_of c f (svcs s)) <= 149 * length cs)%nat
    end ->
    Forall2 (fun cr o => cr = norm c (cur o)) (t_c (hosts s')) (t_b (hosts s')) /\
    Forall2 (fun cr o => cr = norm c (cur o)) (t_c (svcs s')) (t_b (svcs s')).
Proof. exact convergence_iter_thm. Qed.

(** each cycle removes at least 149 timestamps from what the next scan collects *)
Theorem C03_convergence_progress :
  forall c from until now t b' thr',
    0 <= c_off c -> forallb (obj_hyp c) (t_b t) = true ->
    Forall2 (fun cr o => In cr (map (norm c) (versions o))) (t_c t) (t_b t) -> Forall (binv c) (t_b t) ->
    forallb (fun o => pairwise det_ok (versions o)) (t_b t) = true ->
    cyc_ok c until now t = true ->
    let t' := upd_table c from until now t in
    (length (missing b' thr' (t_c t') (t_b t')) <= length (miss_of c from t) - 149)%nat.
Proof. exact progress_missing. Qed.

(** the next window starts where the previous one ended: a complete
    UpdateDelta(from, until) leaves lastUpdate = until, and the following
    periodicUpdate / ResumeFromIdle asks the backend for [until - off, ...) - what
    [C03_window_complete] needs ([wc_ev_ok] takes a periodicUpdate's window from the
    model's own lastUpdate). The stream compares these bounds with the Filter lines
    the scripted backend receives. *)
Theorem C03_next_window_starts_at_previous_end :
  forall c from until now u2 s,
    let s1 := step c s (EDelta from until AbNo) in
    lu s1 = until /\ warn s1 = false /\ force s1 = force s /\
    (until + c_interval c <= now -> force s = false ->
     step c s1 (ETick now u2 AbNo) = update_delta c until u2 now now AbNo (set_force false (set_lu now s1))) /\
    step c s1 (EResume now u2) = update_delta c until u2 now now AbNo (tp_refresh c 0 s1).
Proof. exact delta_then_tick. Qed.

(** timeperiods: a refresh that is answered stores the backend's values *)
Theorem C03_timeperiods_refresh :
  forall c s, ctp (tp_refresh c 0 s) = btp s.
Proof. exact tp_refresh_ctp. Qed.

(** ---- non-vacuity ---- *)

(** last_check only backend with SyncIsExecuting: a history with check results,
    an aborted and a complete UpdateDelta and a periodicUpdate satisfies the
    hypotheses of row_integrity and window_complete, and objects were updated *)
Example C03_example_window :
  let c := mkCfg false false true 3 7 false in
  let hs := [(mkRow 900 0 [0;0;1;1;0] 1200 0 [0] [0] 0, [0%nat]); (mkRow 950 0 [0;0;1;1;0] 1250 0 [0] [0] 0, [0%nat])] in
  let ss := [(mkRow 990 0 [0;0;1;1;0] 1290 0 [0] [0] 0, [0%nat])] in
  let evs := [EMut false 0 (mkMut 1001 true true [0;0;1;1;0] 1301 [1] [1] 0);
              EDelta 1000 1010 AbHosts; EDelta 1000 1010 AbNo;
              EMut true 0 (mkMut 1008 true true [0;0;1;1;0] 1308 [1] [1] 0);
              ETick 1017 1017 AbNo] in
  let s0 := init_st c 1000 hs ss [1] in
  let s := run c s0 evs in
  hist_ok wc_ev_ok c s0 evs = true /\ integrity_hyp c s = true /\
  map r_ver (t_c (hosts s)) = [1; 0] /\ map r_ver (t_c (svcs s)) = [1] /\ lu s = 1017.
Proof. vm_compute. repeat split. Qed.

(** last_update backend: an acknowledgement falls into the window lost by an
    aborted periodicUpdate, the next window misses it, the cycle with the full
    scan repairs it *)
Example C03_example_convergence :
  let c := mkCfg false true false 3 7 false in
  let hs := [(mkRow 900 900 [0;0;1;1;0] 1200 0 [0] [0] 0, [0%nat])] in
  let evs := [EMut false 0 (mkMut 1001 false true [0;1;1;1;0] 1200 [1] [0] 0);
              ETick 1007 1007 AbStatus; EDelta 1007 1012 AbNo] in
  let s0 := init_st c 1000 hs [] [1] in
  let s := run c s0 evs in
  let s' := step c s (EDelta 1012 1080 AbNo) in
  init_ok c hs = true /\ hist_ok conv_ev_ok c s0 evs = true /\ integrity_hyp c s = true /\ det_hyp s = true /\
  cycle_ok c 1012 1080 1080 (hosts s) = true /\ cycle_ok c 1012 1080 1080 (svcs s) = true /\
  rows_equal c (t_c (hosts s)) (t_b (hosts s)) = false /\
  rows_equal c (t_c (hosts s')) (t_b (hosts s')) = true.
Proof. vm_compute. repeat split. Qed.

(** 160 hosts on a last_update backend are acknowledged inside a window that an
    aborted periodicUpdate loses; the first cycle's scan collects 160 timestamps,
    cuts the filter at 149 and repairs 149 hosts, the second cycle (70 s later)
    repairs the rest *)
Example C03_example_convergence_cut :
  let c := mkCfg false true false 3 7 false in
  let hs := map (fun i => (mkRow (100 + 3 * Z.of_nat i) (100 + 3 * Z.of_nat i) [0;0;1;1;0] 1200 0 [0] [0] 0, [0%nat])) (seq 0 160) in
  let evs := map (fun i => EMut false i (mkMut 1001 false true [0;1;1;1;0] 1200 [1] [0] 0)) (seq 0 160)
             ++ [ETick 1007 1007 AbStatus] in
  let cs := [(1007, 1080); (1080, 1150)] in
  let s0 := init_st c 1000 hs [] [1] in
  let s := run c s0 evs in
  init_ok c hs = true /\ hist_ok conv_ev_ok c s0 evs = true /\ integrity_hyp c s = true /\ det_hyp s = true /\
  cycles_ok c s cs = true /\ length (miss_of c 1007 (hosts s)) = 160%nat /\
  length (filter (fun r => r_ver r =? 1) (t_c (hosts (run_cycles c s [(1007, 1080)])))) = 149%nat /\
  rows_equal c (t_c (hosts (run_cycles c s cs))) (t_b (hosts (run_cycles c s cs))) = true.
Proof. vm_compute. repeat split. Qed.

(** observation (outside the theorems: the change is not detectable, [det_hyp] fails):
    on a backend with last_update the refetch after a timeperiod change skips
    every row whose last_update and last_check are unchanged - in_check_period
    stays stale; the same history on a backend without last_update refreshes it *)
Example C03_observation_timeperiod_refetch_skipped :
  let evs := [ETpFlip 0; EMut false 0 (mkMut 1001 false false [0;0;1;1;0] 1200 [0] [0] 0); ETpRefresh 0] in
  let c := mkCfg false true false 3 7 false in
  let s := run c (init_st c 1000 [(mkRow 900 900 [0;0;1;1;0] 1200 0 [1] [0] 0, [0%nat])] [] [1]) evs in
  let c' := mkCfg false false false 3 7 false in
  let s' := run c' (init_st c' 1000 [(mkRow 900 0 [0;0;1;1;0] 1200 0 [1] [0] 0, [0%nat])] [] [1]) evs in
  ctp s = btp s /\ map r_ints (t_c (hosts s)) = [[1]] /\ map (fun o => r_ints (cur o)) (t_b (hosts s)) = [[0]] /\
  det_hyp s = false /\ map r_ints (t_c (hosts s')) = [[0]].
Proof. vm_compute. repeat split. Qed.

Print Assumptions C03_compose_ts_exact.
Print Assumptions C03_row_integrity.
Print Assumptions C03_row_integrity_every_moment.
Print Assumptions C03_row_integrity_refuted.
Print Assumptions C03_row_integrity_refuted_after_command.
Print Assumptions C03_no_regress.
Print Assumptions C03_window_complete.
Print Assumptions C03_convergence_one_cycle.
Print Assumptions C03_convergence_one_tick.
Print Assumptions C03_convergence.
Print Assumptions C03_convergence_progress.
Print Assumptions C03_timeperiods_refresh.
Print Assumptions C03_next_window_starts_at_previous_end.
