(** C03: executable comparison of the model with what `GET hosts` / `GET services`
    / `GET timeperiods` through lmd showed after every step of a history, plus
    the property itself evaluated on the served rows (every row is one of the
    object's versions, the version number never goes back). *)
From LMD Require Export C03.Model.
Open Scope Z_scope.

Record obs := mkObs { o_hosts : list brow; o_svcs : list brow; o_tps : list Z }.

Record case := mkCase {
  k_cfg : cfg; k_t0 : Z;
  k_hosts : list (brow * list nat); k_svcs : list (brow * list nat); k_tps : list Z;
  k_events : list event;
  k_obs : list obs;
  k_wins : list (list Z) }.   (* per step: window bounds of the delta fetches the backend received *)

Fixpoint list_eqb {A} (eqb : A -> A -> bool) (a b : list A) : bool :=
  match a, b with
  | [], [] => true
  | x :: a', y :: b' => eqb x y && list_eqb eqb a' b'
  | _, _ => false
  end.

Definition observe (s : st) : obs := mkObs (t_c (hosts s)) (t_c (svcs s)) (ctp s).

Definition obs_eqb (a b : obs) : bool :=
  list_eqb row_eqb (o_hosts a) (o_hosts b) && list_eqb row_eqb (o_svcs a) (o_svcs b)
  && zlist_eqb (o_tps a) (o_tps b).

Fixpoint vers_mono (prev : list Z) (rows : list brow) : bool :=
  match prev, rows with
  | [], [] => true
  | p :: pr, r :: rr => (p <=? r_ver r) && vers_mono pr rr
  | _, _ => false
  end.

Record expected := mkExp {
  x_step : nat;     (* index of the first step that fails *)
  x_kind : nat;     (* 0: served rows differ from the model; 1: a served row is no version of its object
                       (torn); 2: a served row is older than one served before; 3: the window bounds lmd
                       asked the backend for differ from the model's (next window = where the last one ended) *)
  x_model : obs }.  (* what the model serves after that step *)

Definition base : Z := 1700000000.

(** the bounds (lower, upper; relative to [base]; upper 0 = the wall clock of a
    periodicUpdate) of the hosts and of the services fetch of a complete run *)
Definition exp_windows (c : cfg) (s : st) (e : event) : list Z :=
  match e with
  | EDelta from until AbNo =>
      if 0 <? from then [from - c_off c - base; until - c_off c - base; from - c_off c - base; until - c_off c - base] else []
  | ETick now until AbNo =>
      if now <? lu s + c_interval c then [] else
      let from := if warn s then lu s else if force s then 0 else lu s in
      if 0 <? from then [from - c_off c - base; 0; from - c_off c - base; 0] else []
  | EResume now until =>
      if warn s then [] else
      if 0 <? lu s then [lu s - c_off c - base; 0; lu s - c_off c - base; 0] else []
  | _ => []
  end.

Definition windows_ok (c : cfg) (s : st) (e : event) (w : list Z) : bool :=
  match w with
  | [-1] => true           (* no complete update run in this step *)
  | _ => zlist_eqb w (exp_windows c s e)
  end.

Fixpoint walk (c : cfg) (i : nat) (s : st) (pv : list Z * list Z) (evs : list event) (os : list obs)
    (ws : list (list Z)) : option expected :=
  match evs, os, ws with
  | [], [], _ => None
  | e :: er, o :: orr, w :: wr =>
      let s' := step c s e in
      if negb (windows_ok c s e w) then Some (mkExp i 3 (observe s'))
      else if negb (obs_eqb (observe s') o) then Some (mkExp i 0 (observe s'))
      else if negb (rows_whole c (o_hosts o) (t_b (hosts s')) && rows_whole c (o_svcs o) (t_b (svcs s')))
      then Some (mkExp i 1 (observe s'))
      else if negb (vers_mono (fst pv) (o_hosts o) && vers_mono (snd pv) (o_svcs o))
      then Some (mkExp i 2 (observe s'))
      else walk c (S i) s' (map r_ver (o_hosts o), map r_ver (o_svcs o)) er orr wr
  | _, _, _ => Some (mkExp i 0 (observe s))
  end.

(** compact notation of the cases file: times are relative to [base] (0 = never),
    a row is the flat list lc st scan(5) nc ver ints(5) strs(6) exec, an
    observation equal to the previous one is [None] *)
Definition tm (v : Z) : Z := if v =? 0 then 0 else base + v.

Definition row_of (l : list Z) : brow :=
  match l with
  | [lc; st; a1; a2; a3; a4; a5; nc; ver; i1; i2; i3; i4; i5; s1; s2; s3; s4; s5; s6; ex] =>
      mkRow (tm lc) (tm st) [a1; a2; a3; a4; a5] (tm nc) ver [i1; i2; i3; i4; i5] [s1; s2; s3; s4; s5; s6] ex
  | _ => mkRow (-1) (-1) [] (-1) (-1) [] [] (-1)
  end.

Definition objs_of (l : list (list Z * list nat)) : list (brow * list nat) :=
  map (fun o => (row_of (fst o), snd o)) l.

Definition xM (svc : bool) (k : nat) (t : Z) (check stamp : bool) (rest : list Z) : event :=
  match rest with
  | [a1; a2; a3; a4; a5; nc; i1; i2; i3; i4; i5; s1; s2; s3; s4; s5; s6; ex] =>
      EMut svc k (mkMut (tm t) check stamp [a1; a2; a3; a4; a5] (tm nc) [i1; i2; i3; i4; i5] [s1; s2; s3; s4; s5; s6] ex)
  | _ => ECmd
  end.
Definition xD (from until : Z) (ab : abort) : event := EDelta (tm from) (tm until) ab.
Definition xT (now : Z) (ab : abort) : event := ETick (tm now) (tm 1000000000) ab.
Definition xR (now : Z) : event := EResume (tm now) (tm 1000000000).

Definition obs_of (o : list (list Z) * list (list Z) * list Z) : obs :=
  mkObs (map row_of (fst (fst o))) (map row_of (snd (fst o))) (snd o).

(** [None] = the same rows as after the previous step *)
Fixpoint fill (prev : obs) (l : list (option (list (list Z) * list (list Z) * list Z))) : list obs :=
  match l with
  | [] => []
  | None :: r => prev :: fill prev r
  | Some o :: r => obs_of o :: fill (obs_of o) r
  end.

Definition xCase (c : cfg) (t0 : Z) (hs ss : list (list Z * list nat)) (tps : list Z) (evs : list event)
    (os : list (option (list (list Z) * list (list Z) * list Z))) (ws : list (list Z)) : case :=
  let h := objs_of hs in
  let s := objs_of ss in
  mkCase c (tm t0) h s tps evs
         (fill (mkObs (map (fun o => norm c (fst o)) h) (map (fun o => norm c (fst o)) s) tps) os) ws.

Definition start (k : case) : st := init_st (k_cfg k) (k_t0 k) (k_hosts k) (k_svcs k) (k_tps k).

Definition result (k : case) : option expected :=
  let s := start k in
  walk (k_cfg k) 0 s (map r_ver (t_c (hosts s)), map r_ver (t_c (svcs s))) (k_events k) (k_obs k) (k_wins k).

Definition check (k : case) : bool := match result k with None => true | Some _ => false end.

Fixpoint mismatches_from (i : nat) (cs : list case) : list (nat * expected) :=
  match cs with
  | [] => []
  | k :: rest => (match result k with None => [] | Some x => [(i, x)] end) ++ mismatches_from (S i) rest
  end.

Definition mismatches := mismatches_from 0.
