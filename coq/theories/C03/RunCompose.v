(** C03: composeTimestampFilter of the implementation against [compose], on
    generated timestamp lists (also unsorted ones, duplicates, 0 and -1: the
    model transcribes the loop, not only its behaviour on sorted lists). *)
From LMD Require Export C03.Filter.
Open Scope Z_scope.

Record case := mkCase { k_ts : list Z; k_out : list (list line) }.

Definition fcol_eqb (a b : fcol) : bool :=
  match a, b with CStamp, CStamp | CLc, CLc | CExec, CExec => true | _, _ => false end.
Definition fop_eqb (a b : fop) : bool :=
  match a, b with OEq, OEq | OGe, OGe | OLe, OLe | OLt, OLt => true | _, _ => false end.
Definition line_eqb (a b : line) : bool :=
  match a, b with
  | LF c o v, LF c' o' v' => fcol_eqb c c' && fop_eqb o o' && (v =? v')
  | LAnd n, LAnd m | LOr n, LOr m => Nat.eqb n m
  | _, _ => false
  end.

Fixpoint list_eqb {A} (eqb : A -> A -> bool) (a b : list A) : bool :=
  match a, b with
  | [], [] => true
  | x :: a', y :: b' => eqb x y && list_eqb eqb a' b'
  | _, _ => false
  end.

Definition expected (k : case) : list (list line) := compose (k_ts k).
Definition check (k : case) : bool := list_eqb (list_eqb line_eqb) (expected k) (k_out k).

Fixpoint mismatches_from (i : nat) (cs : list case) : list (nat * list (list line)) :=
  match cs with
  | [] => []
  | k :: rest => (if check k then [] else [(i, expected k)]) ++ mismatches_from (S i) rest
  end.

Definition mismatches := mismatches_from 0.
