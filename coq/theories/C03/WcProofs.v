(** C03: window_complete - contiguous windows and no aborted periodic update
    => every change stamped below the window bound is in the cache. *)
From LMD Require Import C03.Filter C03.ComposeProofs C03.Model C03.Proofs.
Open Scope Z_scope.

(** ---- the composed timestamp filter leaves at most one entry on the stack ---- *)

Lemma firstn_len_app {A} (l st : list A) : firstn (length l) (l ++ st) = l.
Proof. induction l; cbn; [destruct st; reflexivity|congruence]. Qed.

Lemma skipn_len_app {A} (l st : list A) : skipn (length l) (l ++ st) = st.
Proof. induction l; cbn; [reflexivity|assumption]. Qed.

Lemma runl_compose ts st : exists S, (length S <= 1)%nat /\ runl (concat (compose ts)) st = S ++ st.
Proof.
  rewrite compose_finish. set (G := finish (cloop ts [] (-1) (-1))). cbv zeta. rewrite map_length.
  destruct (Nat.ltb_spec 1 (length G)) as [Hlt|Hge].
  - rewrite concat_app, runl_app, runl_groups. cbn [concat app runl].
    assert (Hlen : length (rev (map gexp G)) = length G) by (rewrite rev_length, map_length; reflexivity).
    rewrite <- Hlen, firstn_len_app, skipn_len_app.
    eexists [_]. split; [cbn; lia|reflexivity].
  - rewrite runl_groups. exists (rev (map gexp G)). split; [|reflexivity].
    rewrite rev_length, map_length. lia.
Qed.

(** ---- the window filter ---- *)

Definition in_window (c : cfg) (from until : Z) (r : brow) : Prop :=
  from - c_off c <= stampcol c r /\ stampcol c r < until - c_off c.

Lemma window_single c from until : 0 < from ->
  exists w, runl (window_lines c from until) [] = [w] /\
            forall r, in_window c from until r -> xsem (env_of r) w = true.
Proof.
  intros Hf. unfold window_lines, in_window, stampcol.
  destruct (Z.ltb_spec 0 from) as [_|?]; [|lia].
  destruct (stampful c).
  - eexists. split; [reflexivity|]. intros r [H1 H2]. cbn.
    apply Z.leb_le in H1. apply Z.ltb_lt in H2. rewrite H1, H2. reflexivity.
  - destruct (sync_exec c).
    + eexists. split; [reflexivity|]. intros r [H1 H2]. cbn.
      apply Z.leb_le in H1. apply Z.ltb_lt in H2. rewrite H1, H2. reflexivity.
    + eexists. split; [reflexivity|]. intros r [H1 H2]. cbn.
      apply Z.leb_le in H1. apply Z.ltb_lt in H2. rewrite H1, H2. reflexivity.
Qed.

Lemma window_nil c from until : from <= 0 -> window_lines c from until = [].
Proof. intros H. unfold window_lines. destruct (Z.ltb_spec 0 from); [lia|reflexivity]. Qed.

Lemma window_nonnil c from until : 0 < from -> window_lines c from until <> [].
Proof.
  intros H. unfold window_lines. destruct (Z.ltb_spec 0 from); [|lia].
  destruct (stampful c); [discriminate|]. destruct (sync_exec c); discriminate.
Qed.

Lemma combined_superset wl tl w e :
  runl wl [] = [w] -> (exists S, (length S <= 1)%nat /\ runl tl [w] = S ++ [w]) ->
  xsem e w = true -> lsem (wl ++ tl ++ [LOr 2]) e = true.
Proof.
  intros Hw [S [Hlen Ht]] Hx. unfold lsem. rewrite !runl_app, Hw, Ht. cbn [runl].
  destruct S as [|y [|z S]]; [| |cbn in Hlen; lia]; cbn; rewrite Hx; reflexivity.
Qed.

(** ---- sort_u ---- *)

Lemma sort_u_nil l : l = [] -> sort_u l = [].
Proof. intros ->; reflexivity. Qed.

Lemma missing_raw_nil with_nc thr cs bs :
  thr <= 0 -> forallb (fun o => 0 <=? r_lc (cur o)) bs = true -> missing_raw with_nc thr cs bs = [].
Proof.
  intros Ht. revert cs; induction bs as [|o bs IH]; intros [|cr cs] H; try reflexivity.
  cbn [forallb] in H. apply andb_prop in H as [H1 H2]. apply Z.leb_le in H1.
  cbn [missing_raw]. rewrite IH by assumption.
  destruct (Z.ltb_spec (r_lc (cur o)) thr); [lia|reflexivity].
Qed.

(** ---- the fetch of upd_table selects at least the window ---- *)

Definition lcs_nonneg (t : tbl) : bool := forallb (fun o => 0 <=? r_lc (cur o)) (t_b t).

Lemma upd_lines_superset c from until now t o :
  0 <= c_off c ->
  (0 < from \/ lcs_nonneg t = true) ->
  (from <= 0 \/ in_window c from until (cur o)) ->
  sel_lines (fst (upd_lines c from until now t)) o = true.
Proof.
  intros Hoff Hf Hin. unfold upd_lines, sel_lines.
  destruct (Z.ltb_spec 0 from) as [Hpos|Hneg].
  - destruct Hin as [?|Hin]; [lia|].
    destruct (window_single c from until Hpos) as [w [Hw Hx]].
    assert (Hplain : lsem (window_lines c from until) (env_of (cur o)) = true).
    { unfold lsem. rewrite Hw. cbn. rewrite (Hx _ Hin). reflexivity. }
    destruct (scan_due now t); [|exact Hplain].
    destruct (missing _ _ _ _) as [|x miss] eqn:Hm; [exact Hplain|].
    cbn [fst]. pose proof (window_nonnil c from until Hpos) as Hnn.
    destruct (window_lines c from until) as [|l wl] eqn:Hwl; [congruence|].
    eapply combined_superset; [exact Hw| |apply Hx; exact Hin].
    unfold ts_lines. destruct (Nat.ltb 150 _); apply runl_compose.
  - destruct Hf as [?|Hnn]; [lia|].
    rewrite (window_nil c from until Hneg).
    assert (Hmiss : forall b, missing b (from - c_off c) (t_c t) (t_b t) = []).
    { intros b. unfold missing. apply sort_u_nil. apply missing_raw_nil; [lia|exact Hnn]. }
    destruct (scan_due now t); [rewrite Hmiss|]; reflexivity.
Qed.

(** ---- per object ---- *)

Definition past_lt (o : bobj) : Prop := forall v, In v (past o) -> r_st v < r_st (cur o).

Lemma merge_current c cr o :
  obj_hyp c o = true -> whole_obj c cr o -> (has_lu c = true -> past_lt o) ->
  merge c cr (cur o) = norm c (cur o).
Proof.
  intros Hh Hw Hd. unfold merge, decide. destruct (has_lu c) eqn:Hlu.
  - destruct (Z.eqb_spec (r_st (cur o)) (r_st cr)) as [Hst|Hst]; cbn [negb orb]; [|reflexivity].
    destruct (Z.eqb_spec (r_lc (cur o)) (r_lc cr)) as [Hlc|Hlc]; cbn [negb]; [|reflexivity].
    unfold whole_obj in Hw. apply in_map_iff in Hw as [v [Hv Hin]].
    unfold norm in *. rewrite Hlu in *. subst v.
    destruct Hin as [<-|Hin]; [reflexivity|]. specialize (Hd eq_refl cr Hin). lia.
  - destruct (Z.eqb_spec (r_lc (cur o)) (r_lc cr)) as [Hlc|Hlc]; cbn [negb]; [|reflexivity].
    destruct (c_fx c) eqn:Hfx; [reflexivity|].
    unfold obj_hyp in Hh. rewrite Hfx, Hlu in Hh. cbn [orb] in Hh.
    unfold whole_obj in Hw. apply in_map_iff in Hw as [v [Hv Hin]].
    assert (Hs : r_strs (cur o) = r_strs v).
    { apply pairwise_head; [assumption|assumption|]. rewrite Hlc, <- Hv, norm_lc. reflexivity. }
    assert (Hst : r_st cr = 0) by (rewrite <- Hv; unfold norm; rewrite Hlu; reflexivity).
    assert (Hsc : r_strs cr = r_strs (cur o)) by (rewrite <- Hv, norm_strs; congruence).
    rewrite Hst, Hsc. unfold norm, set_st. rewrite Hlu. reflexivity.
Qed.

Definition oinv (c : cfg) (U : Z) (cr : brow) (o : bobj) : Prop :=
  whole_obj c cr o /\ (has_lu c = true -> past_lt o) /\ (stampcol c (cur o) < U -> cr = norm c (cur o)).

Definition TI (c : cfg) (U : Z) (t : tbl) : Prop := Forall2 (oinv c U) (t_c t) (t_b t).

Lemma norm_whole c o : whole_obj c (norm c (cur o)) o.
Proof. unfold whole_obj. apply in_map. left; reflexivity. Qed.

Lemma Forall2_and_forallb {A B} (P : A -> B -> Prop) (q : B -> bool) cs bs :
  forallb q bs = true -> Forall2 P cs bs -> Forall2 (fun a b => q b = true /\ P a b) cs bs.
Proof.
  intros Hh H; induction H; constructor; cbn [forallb] in Hh; apply andb_prop in Hh as [H1 H2]; auto.
Qed.

Lemma fetch_apply_F2_sel c sel (R R' : brow -> bobj -> Prop) cs bs :
  (forall cr o, R cr o -> sel o = true -> R' (merge c cr (cur o)) o) ->
  (forall cr o, R cr o -> sel o = false -> R' cr o) ->
  Forall2 R cs bs -> Forall2 R' (fetch_apply c sel cs bs) bs.
Proof.
  intros H1 H2 H; induction H as [|cr o cs bs Hr H IH]; cbn [fetch_apply]; [constructor|].
  constructor; [destruct (sel o) eqn:Hs; auto|assumption].
Qed.

Lemma oinv_merged c U cr o :
  obj_hyp c o = true -> oinv c U cr o -> oinv c U (merge c cr (cur o)) o.
Proof.
  intros Hh [Hw [Hd Hi]]. rewrite (merge_current c cr o Hh Hw Hd).
  split; [apply norm_whole|]. split; [assumption|]. intros _; reflexivity.
Qed.

Lemma fetches_TI c U bs sels : forall cs,
  forallb (obj_hyp c) bs = true -> Forall2 (oinv c U) cs bs -> Forall2 (oinv c U) (fetches c bs sels cs) bs.
Proof.
  induction sels as [|sel sels IH]; intros cs Hh H; [assumption|].
  cbn [fetches fold_left]. apply IH; [assumption|].
  apply (Forall2_and_forallb _ _ _ _ Hh) in H.
  eapply fetch_apply_F2_sel; [| |exact H].
  - intros cr o [Ho Hi] _. apply oinv_merged; assumption.
  - intros cr o [Ho Hi] _. exact Hi.
Qed.

Lemma tstep_TI c U t t' : tstep c t t' -> tb_hyp c t -> TI c U t -> TI c U t'.
Proof. intros [Hb [sels Hc]] Hh H. unfold TI. rewrite Hb, Hc. apply fetches_TI; assumption. Qed.

Lemma TI_weaken c U U' t : U' <= U -> TI c U t -> TI c U' t.
Proof.
  intros Hle H. unfold TI in *. eapply Forall2_weaken; [|exact H].
  intros cr o [Hw [Hd Hi]]. split; [assumption|]. split; [assumption|]. intros Hs. apply Hi. lia.
Qed.

Lemma TI_upd_table c U from until now t :
  0 <= c_off c -> tb_hyp c t -> TI c U t ->
  (from <= 0 \/ from - c_off c <= U) -> (0 < from \/ lcs_nonneg t = true) ->
  TI c (until - c_off c) (upd_table c from until now t).
Proof.
  intros Hoff Hh H Hfu Hf. unfold TI, upd_table.
  pose proof (fun o => upd_lines_superset c from until now t o Hoff Hf) as Hsup.
  destruct (upd_lines c from until now t) as [ls sc]. cbn [fst t_c t_b] in *.
  apply (Forall2_and_forallb _ _ _ _ Hh) in H.
  eapply fetch_apply_F2_sel; [| |exact H].
  - intros cr o [Ho [Hw [Hd Hi]]] _. rewrite (merge_current c cr o Ho Hw Hd).
    split; [apply norm_whole|]. split; [assumption|]. intros _; reflexivity.
  - intros cr o [Ho [Hw [Hd Hi]]] Hsel. split; [assumption|]. split; [assumption|].
    intros Hs. apply Hi.
    destruct (Z_le_gt_dec from 0) as [Hle|Hgt].
    + rewrite Hsup in Hsel by (left; assumption). discriminate.
    + destruct (Z_lt_ge_dec (stampcol c (cur o)) (from - c_off c)) as [Hlt|Hge]; [destruct Hfu; lia|].
      rewrite Hsup in Hsel by (right; split; lia). discriminate.
Qed.

(** ---- a mutation ---- *)

Lemma upd_nth_F2_nth {A B} (R R' : A -> B -> Prop) (f : B -> B) k : forall cs bs,
  (forall a b, R a b -> R' a b) ->
  (forall a b, nth_error bs k = Some b -> R a b -> R' a (f b)) ->
  Forall2 R cs bs -> Forall2 R' cs (upd_nth k f bs).
Proof.
  induction k as [|k IH]; intros cs bs Hw Hf H; destruct H as [|a b cs bs Hab H]; cbn [upd_nth]; try constructor.
  - apply Hf; [reflexivity|assumption].
  - eapply Forall2_weaken; eassumption.
  - apply Hw; assumption.
  - apply IH; [assumption| |assumption]. intros a' b' Hn. apply Hf. exact Hn.
Qed.

Lemma TI_mut c U k m t :
  U <= m_t m -> (if stampful c then m_stamp m else m_check m) = true ->
  (has_lu c = true -> match nth_error (t_b t) k with Some o => r_st (cur o) < m_t m | None => True end) ->
  TI c U t -> TI c U (mut_tbl k m t).
Proof.
  intros Hu Hs Hstrict H. unfold TI, mut_tbl. cbn [t_c t_b].
  eapply upd_nth_F2_nth; [| |exact H].
  - intros a b Hab; exact Hab.
  - intros cr o Hn [Hw [Hd Hi]]. split; [apply mutate_whole; assumption|]. split.
    + intros Hlu. specialize (Hd Hlu). specialize (Hstrict Hlu). rewrite Hn in Hstrict.
      unfold stampful in Hs. rewrite Hlu, orb_true_r in Hs.
      unfold past_lt, mutate. cbn [past cur r_st]. rewrite Hs.
      intros v [<-|Hin]; [assumption|]. specialize (Hd v Hin). lia.
    + unfold stampcol, mutate. cbn [cur r_st r_lc]. destruct (stampful c); rewrite Hs; intros; lia.
Qed.

(** ---- states ---- *)

Definition SI (c : cfg) (s : st) : Prop :=
  TI c (lu s - c_off c) (hosts s) /\ TI c (lu s - c_off c) (svcs s).

Lemma lu_update_delta_ab c from until now la ab s : ab <> AbNo -> lu (update_delta c from until now la ab s) = lu s.
Proof. destruct ab; [congruence| | |]; reflexivity. Qed.

Lemma lu_tp_ops c ops : forall s, lu (fold_left (fun s op => tp_fetch c op s) ops s) = lu s.
Proof.
  induction ops as [|[svc p] ops IH]; intros s; [reflexivity|].
  cbn [fold_left]. rewrite IH. unfold tp_fetch. destruct svc; reflexivity.
Qed.

Lemma lu_tp_refresh c ab s : lu (tp_refresh c ab s) = lu s.
Proof.
  unfold tp_refresh. destruct ab as [|[|n]]; [|reflexivity|]; cbn [set_warn lu]; rewrite ?lu_tp_ops; reflexivity.
Qed.

Lemma lc_nonneg_split s : lc_nonneg s = true -> lcs_nonneg (hosts s) = true /\ lcs_nonneg (svcs s) = true.
Proof. unfold lc_nonneg, lcs_nonneg. intros H. apply andb_prop in H. exact H. Qed.

Lemma SI_sstep c s s' : sstep c s s' -> lu s' = lu s -> shyp c s -> SI c s -> SI c s'.
Proof.
  intros [H1 H2] Hlu [Hh1 Hh2] [I1 I2]. unfold SI. rewrite Hlu.
  split; eapply tstep_TI; eassumption.
Qed.

Lemma SI_delta c from until now la s :
  0 <= c_off c -> shyp c s -> SI c s ->
  (from <= 0 \/ from <= lu s) -> (0 < from \/ lc_nonneg s = true) -> la <= until ->
  SI c (update_delta c from until now la AbNo s).
Proof.
  intros Hoff [Hh1 Hh2] [I1 I2] Hfu Hf Hla. unfold SI, update_delta. cbn.
  assert (Hfu' : from <= 0 \/ from - c_off c <= lu s - c_off c) by (destruct Hfu; [left|right]; lia).
  split; (apply TI_weaken with (U := until - c_off c); [lia|]);
    (apply TI_upd_table with (U := lu s - c_off c); [assumption|assumption|assumption|assumption|]);
    (destruct Hf as [Hf|Hf]; [left; assumption|right; apply lc_nonneg_split in Hf; apply Hf]).
Qed.

Lemma step_SI c s e :
  0 <= c_off c -> shyp c (step c s e) -> wc_ev_ok c s e = true -> SI c s -> SI c (step c s e).
Proof.
  intros Hoff Hh' Hok HI. pose proof (shyp_step_back c s e Hh') as Hh.
  destruct e as [svc k m|from until ab|now until ab| |p|ab|rnow runtil]; cbn [wc_ev_ok] in Hok.
  - unfold mut_ok in Hok. apply andb_prop in Hok as [Hok Hst]. apply andb_prop in Hok as [Hfresh Hstamp].
    apply Z.leb_le in Hfresh. destruct HI as [I1 I2].
    destruct svc; cbn [step]; unfold SI; cbn; (split; [|]); try assumption;
      (apply TI_mut; [assumption|assumption| |assumption]);
      intros Hlu; rewrite Hlu in Hst; cbn [implb] in Hst;
      (match goal with |- match ?x with _ => _ end => destruct x end); [apply Z.ltb_lt; assumption|exact I| apply Z.ltb_lt; assumption|exact I].
  - cbn [step]. destruct ab.
    + apply andb_prop in Hok as [H1 H2]. apply Z.leb_le in H1.
      apply SI_delta; try assumption; [right; assumption| |lia].
      apply orb_prop in H2 as [H2|H2]; [left; apply Z.ltb_lt; assumption|right; assumption].
    + apply SI_sstep with (s := s); [apply sstep_update_delta|apply lu_update_delta_ab; discriminate|assumption|assumption].
    + apply SI_sstep with (s := s); [apply sstep_update_delta|apply lu_update_delta_ab; discriminate|assumption|assumption].
    + apply SI_sstep with (s := s); [apply sstep_update_delta|apply lu_update_delta_ab; discriminate|assumption|assumption].
  - cbn [step]. unfold periodic. destruct (now <? lu s + c_interval c) eqn:Hdue; [assumption|].
    cbn [orb] in Hok. destruct ab; try discriminate.
    apply andb_prop in Hok as [Hnu Hok]. apply Z.leb_le in Hnu.
    assert (Hsame : forall s', hosts s' = hosts s -> svcs s' = svcs s -> SI c s -> forall U, 
              TI c U (hosts s) -> TI c U (hosts s')) by (intros s' -> _ _ U H; exact H).
    cbn [warn set_lu]. destruct (warn s).
    + assert (HI' : TI c (lu s - c_off c) (hosts (set_lu now s)) /\ TI c (lu s - c_off c) (svcs (set_lu now s))) by exact HI.
      unfold update_delta. cbn.
      destruct HI as [I1 I2]. destruct Hh as [Hh1 Hh2].
      assert (Hf : 0 < lu s \/ lc_nonneg s = true).
      { apply orb_prop in Hok as [Hok|Hok]; [left|right; assumption]. apply andb_prop in Hok as [Hok _]. apply Z.ltb_lt; assumption. }
      unfold SI. cbn.
      split; (apply TI_weaken with (U := until - c_off c); [lia|]);
        (apply TI_upd_table with (U := lu s - c_off c); [assumption|assumption|assumption|right; lia|]);
        (destruct Hf as [Hf|Hf]; [left; assumption|right; apply lc_nonneg_split in Hf; apply Hf]).
    + destruct HI as [I1 I2]. destruct Hh as [Hh1 Hh2].
      unfold update_delta, SI. cbn.
      assert (Hf : (0 < lu s /\ force s = false) \/ lc_nonneg s = true).
      { apply orb_prop in Hok as [Hok|Hok]; [left|right; assumption]. apply andb_prop in Hok as [Hok Hfo].
        split; [apply Z.ltb_lt; assumption|]. destruct (force s); [discriminate|reflexivity]. }
      split; (apply TI_weaken with (U := until - c_off c); [lia|]);
        (apply TI_upd_table with (U := lu s - c_off c); [assumption|assumption|assumption| |]).
      * destruct (force s); [left; lia|right; lia].
      * destruct Hf as [[Hf Hfo]|Hf]; [rewrite Hfo; left; assumption|right; apply lc_nonneg_split in Hf; apply Hf].
      * destruct (force s); [left; lia|right; lia].
      * destruct Hf as [[Hf Hfo]|Hf]; [rewrite Hfo; left; assumption|right; apply lc_nonneg_split in Hf; apply Hf].
  - apply Z.leb_le in Hok. destruct HI as [I1 I2]. cbn [step]. unfold SI. cbn.
    split; (apply TI_weaken with (U := lu s - c_off c); [lia|assumption]).
  - exact HI.
  - cbn [step]. apply SI_sstep with (s := s); [apply sstep_tp_refresh|apply lu_tp_refresh|assumption|assumption].
  - cbn [step]. unfold resume. destruct (warn s).
    + apply Z.leb_le in Hok. destruct HI as [I1 I2]. unfold SI. cbn.
      split; (apply TI_weaken with (U := lu s - c_off c); [lia|assumption]).
    + apply andb_prop in Hok as [Hnu Hok]. apply Z.leb_le in Hnu.
      set (s1 := tp_refresh c 0 s).
      assert (Hlu1 : lu s1 = lu s) by apply lu_tp_refresh.
      destruct (sstep_tp_refresh c 0 s) as [[Hb1 Hc1] [Hb2 Hc2]]. fold s1 in Hb1, Hb2, Hc1, Hc2.
      assert (Hh1 : shyp c s1).
      { destruct Hh as [H1 H2]. unfold shyp, tb_hyp. rewrite Hb1, Hb2. split; assumption. }
      assert (HI1 : SI c s1).
      { apply SI_sstep with (s := s); [apply sstep_tp_refresh|assumption|assumption|assumption]. }
      assert (Hnn1 : lc_nonneg s1 = lc_nonneg s) by (unfold lc_nonneg; rewrite Hb1, Hb2; reflexivity).
      rewrite <- Hlu1. apply SI_delta; try assumption; [right; lia|].
      rewrite Hlu1, Hnn1. apply orb_prop in Hok as [Hok|Hok]; [left; apply Z.ltb_lt; assumption|right; assumption].
Qed.

Lemma run_SI c evs : forall s,
  0 <= c_off c -> shyp c (run c s evs) -> hist_ok wc_ev_ok c s evs = true -> SI c s -> SI c (run c s evs).
Proof.
  induction evs as [|e evs IH]; intros s Hoff Hh Hok HI; [assumption|].
  cbn [run fold_left hist_ok] in *. apply andb_prop in Hok as [Hok1 Hok2].
  apply IH; [assumption|assumption|assumption|].
  apply step_SI; [assumption| |assumption|assumption]. eapply shyp_run_back. exact Hh.
Qed.

Lemma init_tbl_TI c U t0 objs : TI c U (init_tbl c t0 objs).
Proof.
  unfold TI, init_tbl. cbn [t_c t_b]. induction objs as [|o objs IH]; cbn [map]; constructor; [|assumption].
  split; [apply (norm_whole c (mkObj (fst o) [] (snd o)))|]. split; [intros _ v []|intros _; reflexivity].
Qed.

Definition current_below (c : cfg) (U : Z) (t : tbl) : Prop :=
  Forall2 (fun cr o => stampcol c (cur o) < U -> cr = norm c (cur o)) (t_c t) (t_b t).

Lemma window_complete_thm c t0 hs ss tps evs :
  let s0 := init_st c t0 hs ss tps in
  let s := run c s0 evs in
  0 <= c_off c -> hist_ok wc_ev_ok c s0 evs = true -> integrity_hyp c s = true ->
  current_below c (lu s - c_off c) (hosts s) /\ current_below c (lu s - c_off c) (svcs s).
Proof.
  intros s0 s Hoff Hok Hh. apply integrity_hyp_shyp in Hh.
  assert (HI : SI c s).
  { apply run_SI; [assumption|assumption|assumption|]. split; apply init_tbl_TI. }
  destruct HI as [I1 I2]. unfold current_below.
  split; (eapply Forall2_weaken; [|eassumption]); intros cr o [_ [_ Hi]]; exact Hi.
Qed.
