(** C04: a result is the union of exactly the selected, available backends. *)
From LMD Require Import QE.Engine C01.Proofs.

Lemma selected_backends_spec ds rq b :
  In b (selected_backends ds rq) <->
  In b ds /\ (rq_backends rq = [] \/ In (b_key b) (rq_backends rq)).
Proof.
  unfold selected_backends. destruct (rq_backends rq) as [|id ids] eqn:Hb.
  - split; [intros H; split; [exact H|left; reflexivity]|intros [H _]; exact H].
  - rewrite filter_In, mem_str_In. split.
    + intros [H1 H2]; split; [exact H1|right; exact H2].
    + intros [H1 [H2|H2]]; [discriminate|split; assumption].
Qed.

Lemma NoDup_filter' {A} (f : A -> bool) (l : list A) : NoDup l -> NoDup (filter f l).
Proof. apply NoDup_filter. Qed.

(** every configured backend is used at most once, whatever the header repeats *)
Lemma selected_backends_nodup ds rq : NoDup ds -> NoDup (selected_backends ds rq).
Proof.
  intros H. unfold selected_backends. destruct (rq_backends rq); [exact H|apply NoDup_filter; exact H].
Qed.

Lemma contributing_spec ds rq b :
  In b (filter (contributes rq) (selected_backends ds rq)) <->
  In b ds /\ (rq_backends rq = [] \/ In (b_key b) (rq_backends rq)) /\
  (is_sites_table (rq_table rq) = true \/ b_avail b = true).
Proof.
  rewrite filter_In, selected_backends_spec. unfold contributes. rewrite orb_true_iff. tauto.
Qed.

(** the virtual peer_key / peer_name columns carry the backend a row was fetched from *)
Lemma peer_key_tag schema bk t td r c :
  c_store c = SVirtual -> c_opt c = 0%N -> c_name c = s "peer_key" ->
  get_out schema bk t td r c = VStr (b_key bk).
Proof.
  intros Hs Ho Hn. unfold get_out, has_flag. rewrite Ho. cbn [N.eqb orb negb]. rewrite Hs.
  unfold get_own. rewrite Hs. unfold get_virtual. rewrite Hn. reflexivity.
Qed.

Lemma peer_name_tag schema bk t td r c :
  c_store c = SVirtual -> c_opt c = 0%N -> c_name c = s "peer_name" ->
  get_out schema bk t td r c = VStr (b_name bk).
Proof.
  intros Hs Ho Hn. unfold get_out, has_flag. rewrite Ho. cbn [N.eqb orb negb]. rewrite Hs.
  unfold get_own. rewrite Hs. unfold get_virtual. rewrite Hn. reflexivity.
Qed.

Lemma known_spec ds id : known ds id = true <-> exists b, In b ds /\ b_key b = id.
Proof.
  unfold known. rewrite existsb_exists. split; intros [b [Hb He]]; exists b; split; auto.
  - apply str_eqb_eq; exact He.
  - apply str_eqb_eq; exact He.
Qed.

(** the failed map names the unknown ids of the header and the selected
    backends without data (none for the sites table), nothing else *)
Lemma failed_keys_spec ds rq id :
  In id (failed_keys ds rq) <->
  (In id (rq_backends rq) /\ ~ (exists b, In b ds /\ b_key b = id)) \/
  (is_sites_table (rq_table rq) = false /\
   exists b, In b (selected_backends ds rq) /\ b_avail b = false /\ b_key b = id).
Proof.
  unfold failed_keys. rewrite in_app_iff, filter_In, negb_true_iff.
  split.
  - intros [[Hin Hk]|Hin].
    + left; split; [exact Hin|]. intros Hex. apply known_spec in Hex. congruence.
    + right. destruct (is_sites_table (rq_table rq)); [contradiction|]. split; [reflexivity|].
      apply in_map_iff in Hin as [b [Hb Hf]]. apply filter_In in Hf as [Hf Ha].
      apply negb_true_iff in Ha. exists b; repeat split; assumption.
  - intros [[Hin Hk]|[Hs [b [Hb [Ha Hid]]]]].
    + left; split; [exact Hin|]. destruct (known ds id) eqn:Hkn; [|reflexivity].
      apply known_spec in Hkn. contradiction.
    + right. rewrite Hs. apply in_map_iff. exists b; split; [exact Hid|].
      apply filter_In; split; [exact Hb|]. rewrite Ha; reflexivity.
Qed.
