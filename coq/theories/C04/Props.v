(** C04 — a result is the union of exactly the selected, available backends.
    Statements only; proofs in C04/Proofs.v and C01/Proofs.v. *)
From LMD Require Import QE.Engine C01.Proofs C04.Proofs Gen.Schema.

(** Which backends contribute: all configured ones without Backends header, the
    listed ones with it; only those that hold data (the sites table is always
    served); each at most once even if the header repeats an id. *)
Theorem C04_contributing_backends :
  forall ds rq b,
    In b (filter (contributes rq) (selected_backends ds rq)) <->
    In b ds /\ (rq_backends rq = [] \/ In (b_key b) (rq_backends rq)) /\
    (is_sites_table (rq_table rq) = true \/ b_avail b = true).
Proof. exact contributing_spec. Qed.

Theorem C04_each_backend_once :
  forall ds rq, NoDup ds -> NoDup (filter (contributes rq) (selected_backends ds rq)).
Proof. intros ds rq H. apply NoDup_filter, selected_backends_nodup, H. Qed.

(** The rows of a response (no Sort/Limit/Offset) are the concatenation, in
    configuration order, of the matching rows of exactly those backends:
    nothing lost, nothing duplicated, nothing mixed. *)
Theorem C04_union :
  forall schema cfg ds rq,
    rq_sort rq = [] -> rq_limit rq = None -> rq_offset rq = 0%Z ->
    map h_out (fst (data_result schema cfg ds rq)) =
    flat_map (fun bk => match table_data bk (rq_table rq) with
                        | Some td => map (out_row schema rq bk td)
                                         (filter (row_selected_spec schema cfg rq bk td) (td_rows td))
                        | None => []
                        end)
             (filter (contributes rq) (selected_backends ds rq)).
Proof. intros schema cfg ds rq Hs Hl Ho. exact (proj1 (data_result_plain schema cfg ds rq Hs Hl Ho)). Qed.

(** every row carries the peer_key / peer_name of the backend it was fetched from *)
Theorem C04_peer_key_tag :
  forall schema bk t td r c,
    c_store c = SVirtual -> c_opt c = 0%N -> c_name c = s "peer_key" ->
    get_out schema bk t td r c = VStr (b_key bk).
Proof. exact peer_key_tag. Qed.

Theorem C04_peer_name_tag :
  forall schema bk t td r c,
    c_store c = SVirtual -> c_opt c = 0%N -> c_name c = s "peer_name" ->
    get_out schema bk t td r c = VStr (b_name bk).
Proof. exact peer_name_tag. Qed.

(** the failed map: unknown ids of the header and selected backends without data *)
Theorem C04_failed_map :
  forall ds rq id,
    In id (failed_keys ds rq) <->
    (In id (rq_backends rq) /\ ~ (exists b, In b ds /\ b_key b = id)) \/
    (is_sites_table (rq_table rq) = false /\
     exists b, In b (selected_backends ds rq) /\ b_avail b = false /\ b_key b = id).
Proof. exact failed_keys_spec. Qed.

Theorem C04_default_all :
  forall ds rq, rq_backends rq = [] -> selected_backends ds rq = ds.
Proof. intros ds rq H. unfold selected_backends. rewrite H. reflexivity. Qed.

(** non-vacuity: three backends, one down, header with a duplicate and an unknown id *)
Example C04_example :
  let h n := [VStr n] in
  let bk k avail rows := mkBackend k k 0 avail (s "refused") [mkData (s "commands") [s "name"] rows] in
  let ds := [bk (s "a") true [h (s "x")]; bk (s "b") false [h (s "y")]; bk (s "c") true [h (s "x")]] in
  match parse_request schema true
          [s "GET commands"; s "Columns: name peer_key"; s "Backends: c b c zz"; s "OutputFormat: wrapped_json"] with
  | Ok rq => respond_req schema (mkCfg false true) ds rq
             = RData [[VStr (s "x"); VStr (s "c")]] [[]] 1 [s "zz"; s "b"]
  | Err _ => False
  end.
Proof. vm_compute. reflexivity. Qed.

Print Assumptions C04_contributing_backends.
Print Assumptions C04_each_backend_once.
Print Assumptions C04_union.
Print Assumptions C04_peer_key_tag.
Print Assumptions C04_peer_name_tag.
Print Assumptions C04_failed_map.
Print Assumptions C04_default_all.
