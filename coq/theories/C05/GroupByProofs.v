(** C05, general case: Stats with group-by Columns.

    [stats_backend] folds the selected rows of one backend into an association
    list keyed by [stats_key]; [merge_keyed] merges the lists of the backends;
    [stats_result] finalises.  Here: for ALL datasets and requests the result
    has exactly one line per distinct key of the selected rows (in order of
    first occurrence) and the numbers of line [k] are the aggregates over
    exactly the selected rows with key [k]. *)
From LMD Require Import QE.Engine QE.FilterProofs C05.Proofs.

Definition key := list str.

Lemma key_eqb_spec (a b : key) : reflect (a = b) (key_eqb a b).
Proof.
  unfold key_eqb. destruct (list_eq_dec (list_eq_dec N.eq_dec) a b) as [He|Hne]; constructor; assumption.
Qed.

Lemma key_eqb_refl (a : key) : key_eqb a a = true.
Proof. destruct (key_eqb_spec a a) as [_|Hne]; [reflexivity|congruence]. Qed.

Lemma key_eqb_sym (a b : key) : key_eqb a b = key_eqb b a.
Proof. destruct (key_eqb_spec a b) as [He|Hne], (key_eqb_spec b a) as [He'|Hne']; congruence. Qed.

(** *** keys in order of first occurrence *)
Definition memk (k : key) (ks : list key) : bool := existsb (key_eqb k) ks.

Definition add_key (ks : list key) (k : key) : list key := if memk k ks then ks else ks ++ [k].

Definition first_keys (l : list key) : list key := fold_left add_key l [].

Lemma memk_cons k x ks : memk k (x :: ks) = key_eqb k x || memk k ks.
Proof. reflexivity. Qed.

Lemma memk_In k ks : memk k ks = true <-> In k ks.
Proof.
  unfold memk. rewrite existsb_exists. split.
  - intros [k' [Hin He]]. destruct (key_eqb_spec k k') as [->|Hne]; [exact Hin|discriminate].
  - intros Hin. exists k. split; [exact Hin|apply key_eqb_refl].
Qed.

Lemma memk_false k ks : memk k ks = false <-> ~ In k ks.
Proof.
  rewrite <- memk_In. destruct (memk k ks); split; intros H; congruence.
Qed.

Lemma memk_app k a b : memk k (a ++ b) = memk k a || memk k b.
Proof. unfold memk. apply existsb_app. Qed.

Lemma memk_add_key k ks k' : memk k (add_key ks k') = memk k ks || key_eqb k k'.
Proof.
  unfold add_key. destruct (memk k' ks) eqn:Hm.
  - destruct (key_eqb_spec k k') as [->|Hne]; [rewrite Hm; reflexivity|rewrite orb_false_r; reflexivity].
  - rewrite memk_app. cbn [memk existsb]. rewrite orb_false_r. reflexivity.
Qed.

Lemma memk_fold k l : forall ks, memk k (fold_left add_key l ks) = memk k ks || memk k l.
Proof.
  induction l as [|k' l IH]; intros ks; cbn [fold_left].
  - cbn [memk existsb]. rewrite orb_false_r. reflexivity.
  - rewrite IH, memk_add_key. cbn [memk existsb]. rewrite orb_assoc. reflexivity.
Qed.

Lemma NoDup_snoc (ks : list key) k : NoDup ks -> ~ In k ks -> NoDup (ks ++ [k]).
Proof.
  induction ks as [|k0 ks IH]; intros Hnd Hni; cbn [app].
  - constructor; [intros []|constructor].
  - inversion Hnd as [|? ? Hni0 Hnd']; subst. constructor.
    + rewrite in_app_iff. cbn [In]. intros [H|[H|[]]]; [exact (Hni0 H)|].
      apply Hni. left; symmetry; exact H.
    + apply IH; [exact Hnd'|]. intros H. apply Hni. right; exact H.
Qed.

Lemma NoDup_add_key ks k : NoDup ks -> NoDup (add_key ks k).
Proof.
  intros Hnd. unfold add_key. destruct (memk k ks) eqn:Hm; [exact Hnd|].
  apply memk_false in Hm.
  apply NoDup_snoc; assumption.
Qed.

Lemma NoDup_fold l : forall ks, NoDup ks -> NoDup (fold_left add_key l ks).
Proof.
  induction l as [|k l IH]; intros ks Hnd; cbn [fold_left]; [exact Hnd|].
  apply IH, NoDup_add_key, Hnd.
Qed.

Lemma first_keys_NoDup l : NoDup (first_keys l).
Proof. apply NoDup_fold. constructor. Qed.

Lemma first_keys_memk k l : memk k (first_keys l) = memk k l.
Proof. unfold first_keys. rewrite memk_fold. reflexivity. Qed.

Lemma first_keys_In k l : In k (first_keys l) <-> In k l.
Proof. rewrite <- !memk_In, first_keys_memk. reflexivity. Qed.

Lemma first_keys_snoc l k : first_keys (l ++ [k]) = add_key (first_keys l) k.
Proof. unfold first_keys. rewrite fold_left_app. reflexivity. Qed.

Lemma fold_add_key_step acc k : forall ks,
  fold_left add_key (add_key acc k) ks = add_key (fold_left add_key acc ks) k.
Proof.
  intros ks. unfold add_key at 2. destruct (memk k acc) eqn:Hm.
  - unfold add_key at 2. rewrite memk_fold, Hm, orb_true_r. reflexivity.
  - rewrite fold_left_app. reflexivity.
Qed.

Lemma fold_add_key_fold l : forall acc ks,
  fold_left add_key (fold_left add_key l acc) ks = fold_left add_key l (fold_left add_key acc ks).
Proof.
  induction l as [|k l IH]; intros acc ks; cbn [fold_left]; [reflexivity|].
  rewrite IH, fold_add_key_step. reflexivity.
Qed.

(** adding the distinct keys of [l] = adding all of [l] *)
Lemma fold_add_first_keys l ks : fold_left add_key (first_keys l) ks = fold_left add_key l ks.
Proof. unfold first_keys. rewrite fold_add_key_fold. reflexivity. Qed.

Lemma first_keys_app a b : first_keys (a ++ b) = fold_left add_key (first_keys b) (first_keys a).
Proof. rewrite fold_add_first_keys. unfold first_keys. apply fold_left_app. Qed.

(** [first_keys] is the usual recursive "keep the first occurrence" function *)
Fixpoint first_occ (l : list key) : list key :=
  match l with
  | [] => []
  | k :: rest => k :: filter (fun k' => negb (key_eqb k k')) (first_occ rest)
  end.

Lemma memk_filter_other k k' ks :
  key_eqb k k' = false -> memk k' (filter (fun x => negb (key_eqb k x)) ks) = memk k' ks.
Proof.
  intros Hne. induction ks as [|x ks IH]; [reflexivity|]. cbn [filter].
  destruct (key_eqb_spec k x) as [<-|Hkx]; cbn [negb]; rewrite !memk_cons.
  - rewrite (key_eqb_sym k' k), Hne. exact IH.
  - rewrite IH. reflexivity.
Qed.

Lemma filter_add_key k ks k' :
  filter (fun x => negb (key_eqb k x)) (add_key ks k') =
  if key_eqb k k' then filter (fun x => negb (key_eqb k x)) ks
  else add_key (filter (fun x => negb (key_eqb k x)) ks) k'.
Proof.
  destruct (key_eqb k k') eqn:Hk.
  - unfold add_key. destruct (memk k' ks) eqn:Hm; [reflexivity|].
    rewrite filter_app. cbn [filter]. rewrite Hk. cbn [negb]. apply app_nil_r.
  - unfold add_key. rewrite (memk_filter_other k k' ks Hk).
    destruct (memk k' ks) eqn:Hm; [reflexivity|].
    rewrite filter_app. cbn [filter]. rewrite Hk. reflexivity.
Qed.

Lemma filter_fold_add_key k l : forall ks,
  filter (fun x => negb (key_eqb k x)) (fold_left add_key l ks) =
  fold_left add_key (filter (fun x => negb (key_eqb k x)) l) (filter (fun x => negb (key_eqb k x)) ks).
Proof.
  induction l as [|k' l IH]; intros ks; cbn [fold_left filter]; [reflexivity|].
  rewrite IH, filter_add_key. destruct (key_eqb k k'); cbn [negb fold_left]; reflexivity.
Qed.

Lemma add_key_cons k ks k' :
  add_key (k :: ks) k' = if key_eqb k k' then k :: ks else k :: add_key ks k'.
Proof.
  unfold add_key. cbn [memk existsb]. rewrite (key_eqb_sym k' k).
  destruct (key_eqb k k'); cbn [orb]; [reflexivity|].
  fold (memk k' ks). destruct (memk k' ks); reflexivity.
Qed.

Lemma fold_add_key_head k l : forall ks, ~ In k ks ->
  fold_left add_key l (k :: ks) = k :: fold_left add_key (filter (fun x => negb (key_eqb k x)) l) ks.
Proof.
  induction l as [|k' l IH]; intros ks Hni; cbn [fold_left filter]; [reflexivity|].
  rewrite add_key_cons.
  destruct (key_eqb_spec k k') as [<-|Hne]; cbn [negb].
  - apply IH, Hni.
  - cbn [fold_left]. apply IH.
    intros H. apply memk_In in H. rewrite memk_add_key in H. apply orb_true_iff in H.
    destruct H as [H|H].
    + apply memk_In in H. exact (Hni H).
    + destruct (key_eqb_spec k k') as [He|_]; [exact (Hne He)|discriminate].
Qed.

Theorem first_keys_first_occ l : first_keys l = first_occ l.
Proof.
  induction l as [|k l IH]; [reflexivity|].
  cbn [first_occ]. rewrite <- IH. unfold first_keys. cbn [fold_left].
  change (add_key [] k) with [k].
  rewrite (fold_add_key_head k l [] (fun H => H)).
  rewrite (filter_fold_add_key k l []). reflexivity.
Qed.

(** *** tables: a key list with a value for every key *)
Definition tab {A} (ks : list key) (g : key -> A) : keyed A := map (fun k => (k, g k)) ks.

Lemma tab_keys {A} ks (g : key -> A) : map fst (tab ks g) = ks.
Proof. unfold tab. rewrite map_map. cbn [fst]. apply map_id. Qed.

Lemma tab_ext {A} ks (g h : key -> A) : (forall k, In k ks -> g k = h k) -> tab ks g = tab ks h.
Proof. intros H. unfold tab. apply map_ext_in. intros k Hin. rewrite (H k Hin). reflexivity. Qed.

Lemma tab_snoc {A} ks k (g : key -> A) : tab (ks ++ [k]) g = tab ks g ++ [(k, g k)].
Proof. unfold tab. rewrite map_app. reflexivity. Qed.

Lemma tab_In {A} ks (g : key -> A) k v : In (k, v) (tab ks g) -> In k ks /\ v = g k.
Proof.
  unfold tab. rewrite in_map_iff. intros [k' [He Hin]]. inversion He; subst. split; [exact Hin|reflexivity].
Qed.

Lemma upsert_tab_in {A} k init (f : A -> A) ks (g : key -> A) :
  NoDup ks -> In k ks ->
  upsert k init f (tab ks g) = tab ks (fun k' => if key_eqb k k' then f (g k') else g k').
Proof.
  induction ks as [|k0 ks IH]; intros Hnd Hin; [destruct Hin|].
  inversion Hnd as [|? ? Hni Hnd']; subst.
  cbn [tab map upsert]. destruct (key_eqb_spec k k0) as [->|Hne].
  - f_equal. apply map_ext_in. intros k' Hk'.
    destruct (key_eqb_spec k0 k') as [<-|_]; [contradiction|reflexivity].
  - f_equal. destruct Hin as [He|Hin]; [congruence|]. apply IH; assumption.
Qed.

Lemma upsert_tab_notin {A} k init (f : A -> A) ks (g : key -> A) :
  ~ In k ks -> upsert k init f (tab ks g) = tab ks g ++ [(k, f init)].
Proof.
  induction ks as [|k0 ks IH]; intros Hni; [reflexivity|].
  cbn [tab map upsert app]. destruct (key_eqb_spec k k0) as [->|Hne].
  - exfalso. apply Hni. left; reflexivity.
  - f_equal. apply IH. intros H. apply Hni. right; exact H.
Qed.

Lemma find_tab_in {A} k ks (g : key -> A) :
  In k ks -> exists v, find (fun kv' => key_eqb (fst kv') k) (tab ks g) = Some v.
Proof.
  induction ks as [|k0 ks IH]; intros Hin; [destruct Hin|].
  cbn [tab map find fst]. destruct (key_eqb_spec k0 k) as [He|Hne]; [eexists; reflexivity|].
  destruct Hin as [He|Hin]; [congruence|]. apply IH, Hin.
Qed.

Lemma find_tab_notin {A} k ks (g : key -> A) :
  ~ In k ks -> find (fun kv' => key_eqb (fst kv') k) (tab ks g) = None.
Proof.
  induction ks as [|k0 ks IH]; intros Hni; [reflexivity|].
  cbn [tab map find fst]. destruct (key_eqb_spec k0 k) as [He|Hne].
  - exfalso. apply Hni. left; exact He.
  - apply IH. intros H. apply Hni. right; exact H.
Qed.

(** *** grouping a list of row contexts by key *)

(** the group key read from the row context alone *)
Definition ctx_key (rq : request) (x : rowctx) : key :=
  stats_key (x_schema x) rq (x_bk x) (x_data x) (x_row x).

(** [stats_key] depends only on the row context built by [mkctx] *)
Lemma ctx_key_mkctx schema rq bk td r :
  ctx_key rq (mkctx schema bk (rq_table rq) td r) = stats_key schema rq bk td r.
Proof. reflexivity. Qed.

Definition with_key (rq : request) (k : key) (xs : list rowctx) : list rowctx :=
  filter (fun x => key_eqb (ctx_key rq x) k) xs.

Definition group_accs (rq : request) (xs : list rowctx) (k : key) : list acc :=
  map (fun st => acc_rows st (with_key rq k xs)) (rq_stats rq).

Definition grouped (rq : request) (xs : list rowctx) : keyed (list acc) :=
  tab (first_keys (map (ctx_key rq) xs)) (group_accs rq xs).

Lemma with_key_app rq k xs ys : with_key rq k (xs ++ ys) = with_key rq k xs ++ with_key rq k ys.
Proof. apply filter_app. Qed.

Lemma with_key_In rq k xs x : In x (with_key rq k xs) <-> In x xs /\ ctx_key rq x = k.
Proof.
  unfold with_key. rewrite filter_In.
  destruct (key_eqb_spec (ctx_key rq x) k) as [He|Hne]; split; intros [H1 H2]; split; congruence.
Qed.

Lemma with_key_absent rq k xs : ~ In k (map (ctx_key rq) xs) -> with_key rq k xs = [].
Proof.
  induction xs as [|x xs IH]; intros Hni; [reflexivity|].
  cbn [with_key filter]. destruct (key_eqb_spec (ctx_key rq x) k) as [He|Hne].
  - exfalso. apply Hni. left; exact He.
  - apply IH. intros H. apply Hni. right; exact H.
Qed.

Lemma acc_rows_snoc st xs x : acc_rows st (xs ++ [x]) = count_row x st (acc_rows st xs).
Proof. unfold acc_rows. rewrite fold_left_app. reflexivity. Qed.

Lemma group_accs_snoc rq xs x k :
  group_accs rq (xs ++ [x]) k =
  if key_eqb (ctx_key rq x) k then map2 (count_row x) (rq_stats rq) (group_accs rq xs k)
  else group_accs rq xs k.
Proof.
  unfold group_accs. rewrite with_key_app. cbn [with_key filter].
  destruct (key_eqb (ctx_key rq x) k).
  - rewrite map2_map. apply map_ext. intros st. apply acc_rows_snoc.
  - rewrite app_nil_r. reflexivity.
Qed.

(** one more row: exactly the [upsert] step of [stats_backend] *)
Lemma grouped_snoc rq xs x :
  upsert (ctx_key rq x) (map (fun _ => acc0) (rq_stats rq))
         (fun accs => map2 (count_row x) (rq_stats rq) accs) (grouped rq xs) =
  grouped rq (xs ++ [x]).
Proof.
  unfold grouped. rewrite map_app. cbn [map]. rewrite first_keys_snoc.
  set (ks := first_keys (map (ctx_key rq) xs)).
  assert (Hnd : NoDup ks) by apply first_keys_NoDup.
  rewrite (tab_ext _ _ _ (fun k _ => group_accs_snoc rq xs x k)).
  unfold add_key. destruct (memk (ctx_key rq x) ks) eqn:Hm.
  - apply memk_In in Hm. rewrite upsert_tab_in by assumption. reflexivity.
  - apply memk_false in Hm. rewrite upsert_tab_notin by assumption.
    rewrite tab_snoc, key_eqb_refl. f_equal.
    + apply tab_ext. intros k Hk.
      destruct (key_eqb_spec (ctx_key rq x) k) as [He|_]; [subst k; contradiction|reflexivity].
    + f_equal. f_equal. f_equal. unfold group_accs.
      rewrite with_key_absent; [reflexivity|].
      intros H. apply Hm. apply first_keys_In. exact H.
Qed.

Lemma grouped_nil rq : grouped rq [] = [].
Proof. reflexivity. Qed.

(** what a grouped table says *)
Lemma grouped_props rq xs :
  NoDup (map fst (grouped rq xs)) /\
  map fst (grouped rq xs) = first_keys (map (ctx_key rq) xs) /\
  (forall k, In k (map fst (grouped rq xs)) <-> exists x, In x xs /\ ctx_key rq x = k) /\
  (forall k accs, In (k, accs) (grouped rq xs) ->
     accs = map (fun st => acc_rows st (with_key rq k xs)) (rq_stats rq)).
Proof.
  unfold grouped. rewrite tab_keys. repeat split.
  - apply first_keys_NoDup.
  - rewrite first_keys_In, in_map_iff. intros [x [He Hin]]. exists x. split; assumption.
  - rewrite first_keys_In, in_map_iff. intros [x [Hin He]]. exists x. split; assumption.
  - intros k accs Hin. apply tab_In in Hin. destruct Hin as [_ ->]. reflexivity.
Qed.

(** *** one backend *)
Lemma stats_backend_grouped schema cfg rq bk :
  stats_backend schema cfg rq bk = grouped rq (ctxs_of schema cfg rq bk).
Proof.
  unfold stats_backend, ctxs_of.
  destruct (table_data bk (rq_table rq)) as [td|]; [|reflexivity].
  set (rows := filter (row_selected schema cfg rq bk td) (td_rows td)).
  set (cx := mkctx schema bk (rq_table rq) td).
  change (@nil (list str * list acc)) with (grouped rq (map cx [])).
  change rows with ([] ++ rows) at 2.
  generalize (@nil (list value)) as pre.
  induction rows as [|r rows IH]; intros pre; cbn [fold_left].
  - rewrite app_nil_r. reflexivity.
  - rewrite <- (ctx_key_mkctx schema rq bk td r). fold (cx r).
    rewrite grouped_snoc.
    change [cx r] with (map cx [r]). rewrite <- map_app. rewrite IH, <- app_assoc. reflexivity.
Qed.

(** for one backend: an association list with distinct keys, the keys are the
    [stats_key] values of the selected rows in order of first occurrence, and
    under key [k] are the accumulators over the rows with key [k], in row order *)
Theorem stats_backend_keyed schema cfg rq bk :
  let xs := ctxs_of schema cfg rq bk in
  let res := stats_backend schema cfg rq bk in
  NoDup (map fst res) /\
  map fst res = first_keys (map (ctx_key rq) xs) /\
  (forall k, In k (map fst res) <-> exists x, In x xs /\ ctx_key rq x = k) /\
  (forall k accs, In (k, accs) res ->
     accs = map (fun st => acc_rows st (with_key rq k xs)) (rq_stats rq)).
Proof. cbn zeta. rewrite stats_backend_grouped. apply grouped_props. Qed.

(** the contexts of a backend are its selected rows *)
Lemma ctxs_of_In schema cfg rq bk x :
  In x (ctxs_of schema cfg rq bk) <->
  exists td r, table_data bk (rq_table rq) = Some td /\ In r (td_rows td) /\
               row_selected schema cfg rq bk td r = true /\ x = mkctx schema bk (rq_table rq) td r.
Proof.
  unfold ctxs_of. destruct (table_data bk (rq_table rq)) as [td|].
  - rewrite in_map_iff. split.
    + intros [r [He Hin]]. apply filter_In in Hin. destruct Hin as [Hin Hsel].
      exists td, r. repeat split; [exact Hin|exact Hsel|symmetry; exact He].
    + intros [td' [r [Htd [Hin [Hsel He]]]]]. inversion Htd; subst td'.
      exists r. split; [symmetry; exact He|]. apply filter_In. split; assumption.
  - split; [intros []|]. intros [td [r [Htd _]]]. discriminate.
Qed.

(** *** merging two tables *)
Definition merge_step (rq : request) (m : keyed (list acc)) (kv : list str * list acc) : keyed (list acc) :=
  let '(k, accs) := kv in
  match find (fun kv' => key_eqb (fst kv') k) m with
  | Some _ => upsert k accs (fun old => merge_accs rq old accs) m
  | None => m ++ [(k, accs)]
  end.

Lemma merge_keyed_fold rq m1 m2 : merge_keyed rq m1 m2 = fold_left (merge_step rq) m2 m1.
Proof. reflexivity. Qed.

Lemma merge_step_tab rq ks (g : key -> list acc) k a :
  NoDup ks ->
  merge_step rq (tab ks g) (k, a) =
  tab (add_key ks k) (fun k' => if key_eqb k k' then (if memk k ks then merge_accs rq (g k') a else a) else g k').
Proof.
  intros Hnd. unfold merge_step, add_key. destruct (memk k ks) eqn:Hm.
  - apply memk_In in Hm. destruct (find_tab_in k ks g Hm) as [v ->].
    rewrite upsert_tab_in by assumption. reflexivity.
  - apply memk_false in Hm. rewrite (find_tab_notin k ks g Hm).
    rewrite tab_snoc, key_eqb_refl. f_equal.
    apply tab_ext. intros k' Hk'.
    destruct (key_eqb_spec k k') as [He|_]; [subst k'; contradiction|reflexivity].
Qed.

Lemma merge_tab rq ks2 (g2 : key -> list acc) : NoDup ks2 -> forall ks g, NoDup ks ->
  merge_keyed rq (tab ks g) (tab ks2 g2) =
  tab (fold_left add_key ks2 ks)
      (fun k' => if memk k' ks2 then (if memk k' ks then merge_accs rq (g k') (g2 k') else g2 k') else g k').
Proof.
  intros Hnd2 ks g Hnd. rewrite merge_keyed_fold. revert Hnd2 ks g Hnd.
  induction ks2 as [|k ks2 IH]; intros Hnd2 ks g Hnd; cbn [tab map fold_left].
  - reflexivity.
  - inversion Hnd2 as [|? ? Hni Hnd2']; subst.
    rewrite merge_step_tab by assumption.
    fold (tab ks2 g2). rewrite (IH Hnd2' _ _ (NoDup_add_key ks k Hnd)).
    apply tab_ext. intros k' _.
    cbn [memk existsb]. fold (memk k' ks2). rewrite memk_add_key.
    rewrite (key_eqb_sym k' k).
    destruct (key_eqb_spec k k') as [<-|Hne]; cbn [orb].
    + apply memk_false in Hni. rewrite Hni. reflexivity.
    + rewrite orb_false_r. reflexivity.
Qed.

(** merging the tables of two row lists is the table of the concatenation *)
Lemma merge_grouped rq xs ys :
  merge_keyed rq (grouped rq xs) (grouped rq ys) = grouped rq (xs ++ ys).
Proof.
  unfold grouped.
  rewrite merge_tab by apply first_keys_NoDup.
  rewrite map_app, first_keys_app.
  apply tab_ext. intros k _.
  rewrite !first_keys_memk.
  replace (group_accs rq (xs ++ ys) k) with
    (map (fun st => acc_rows st (with_key rq k xs ++ with_key rq k ys)) (rq_stats rq))
    by (unfold group_accs; rewrite with_key_app; reflexivity).
  destruct (memk k (map (ctx_key rq) ys)) eqn:Hy.
  - destruct (memk k (map (ctx_key rq) xs)) eqn:Hx.
    + unfold group_accs. rewrite merge_accs_maps. apply map_ext. intros st. apply split_invariant.
    + apply memk_false in Hx. rewrite (with_key_absent rq k xs Hx). reflexivity.
  - apply memk_false in Hy. rewrite (with_key_absent rq k ys Hy), app_nil_r. reflexivity.
Qed.

(** merging two per-backend style tables: distinct keys, the union of the key
    sets in order of first occurrence, accumulators merged pointwise - which by
    [split_invariant] are the accumulators over the concatenated row lists *)
Theorem merge_keyed_spec rq xs ys :
  let res := merge_keyed rq (grouped rq xs) (grouped rq ys) in
  NoDup (map fst res) /\
  map fst res = fold_left add_key (map fst (grouped rq ys)) (map fst (grouped rq xs)) /\
  (forall k, In k (map fst res) <-> In k (map fst (grouped rq xs)) \/ In k (map fst (grouped rq ys))) /\
  (forall k accs, In (k, accs) res ->
     accs = map (fun st => merge_acc (stat_kind st) (acc_rows st (with_key rq k xs)) (acc_rows st (with_key rq k ys)))
                (rq_stats rq)
     /\ accs = map (fun st => acc_rows st (with_key rq k (xs ++ ys))) (rq_stats rq)).
Proof.
  cbn zeta. rewrite merge_grouped.
  destruct (grouped_props rq (xs ++ ys)) as [Hnd [Hkeys [Hin Hval]]].
  destruct (grouped_props rq xs) as [_ [Hkx [Hinx _]]].
  destruct (grouped_props rq ys) as [_ [Hky [Hiny _]]].
  repeat split.
  - exact Hnd.
  - rewrite Hkeys, Hkx, Hky, map_app. apply first_keys_app.
  - rewrite Hin. intros [x [Hx He]]. apply in_app_iff in Hx. destruct Hx as [Hx|Hx].
    + left. apply Hinx. exists x. split; assumption.
    + right. apply Hiny. exists x. split; assumption.
  - rewrite Hin. intros [H|H].
    + apply Hinx in H. destruct H as [x [Hx He]]. exists x. split; [apply in_app_iff; left; exact Hx|exact He].
    + apply Hiny in H. destruct H as [x [Hx He]]. exists x. split; [apply in_app_iff; right; exact Hx|exact He].
  - rewrite (Hval k accs H). apply map_ext. intros st.
    rewrite with_key_app. symmetry. apply split_invariant.
  - exact (Hval k accs H).
Qed.

Lemma merge_all_grouped rq (xss : list (list rowctx)) : forall xs0,
  fold_left (merge_keyed rq) (map (grouped rq) xss) (grouped rq xs0) = grouped rq (xs0 ++ concat xss).
Proof.
  induction xss as [|xs xss IH]; intros xs0; cbn [map fold_left concat].
  - rewrite app_nil_r. reflexivity.
  - rewrite merge_grouped, IH, app_assoc. reflexivity.
Qed.

Lemma merge_all_grouped_nil rq (xss : list (list rowctx)) :
  fold_left (merge_keyed rq) (map (grouped rq) xss) [] = grouped rq (concat xss).
Proof. exact (merge_all_grouped rq xss []). Qed.

(** *** the response *)
Definition final_line (rq : request) (xs : list rowctx) (k : key) : list statval :=
  map (fun st => final_stat (stat_kind st) (acc_rows st (with_key rq k xs))) (rq_stats rq).

(** closed form of a grouped Stats response *)
Theorem stats_result_grouped schema cfg ds rq :
  rq_columns rq <> [] ->
  stats_result schema cfg ds rq =
  tab (first_keys (map (ctx_key rq) (all_ctxs schema cfg ds rq))) (final_line rq (all_ctxs schema cfg ds rq)).
Proof.
  intros Hc. unfold stats_result, all_ctxs. cbv zeta.
  set (bks := filter (contributes rq) (selected_backends ds rq)).
  assert (Hm : map (stats_backend schema cfg rq) bks = map (grouped rq) (map (ctxs_of schema cfg rq) bks)).
  { rewrite map_map. apply map_ext. intros bk. apply stats_backend_grouped. }
  rewrite Hm, merge_all_grouped_nil.
  set (all := concat (map (ctxs_of schema cfg rq) bks)).
  assert (Hsel : match grouped rq all, rq_columns rq with
                 | [], [] => [([], map (fun _ => acc0) (rq_stats rq))]
                 | _, _ => grouped rq all
                 end = grouped rq all).
  { destruct (grouped rq all); [|reflexivity]. destruct (rq_columns rq); [congruence|reflexivity]. }
  rewrite Hsel. unfold grouped, tab. rewrite map_map. cbn [fst snd].
  apply map_ext. intros k. f_equal. unfold group_accs, final_line. apply map2_map.
Qed.

(** the selected rows behind [all_ctxs] *)
Lemma all_ctxs_In schema cfg ds rq x :
  In x (all_ctxs schema cfg ds rq) <->
  exists bk td r, In bk (selected_backends ds rq) /\ contributes rq bk = true /\
                  table_data bk (rq_table rq) = Some td /\ In r (td_rows td) /\
                  row_selected schema cfg rq bk td r = true /\
                  x = mkctx schema bk (rq_table rq) td r.
Proof.
  unfold all_ctxs. rewrite in_concat. split.
  - intros [l [Hl Hx]]. apply in_map_iff in Hl. destruct Hl as [bk [<- Hbk]].
    apply filter_In in Hbk. destruct Hbk as [Hbk Hc].
    apply ctxs_of_In in Hx. destruct Hx as [td [r [Htd [Hr [Hsel He]]]]].
    exists bk, td, r. repeat split; assumption.
  - intros [bk [td [r [Hbk [Hc [Htd [Hr [Hsel He]]]]]]]].
    exists (ctxs_of schema cfg rq bk). split.
    + apply in_map. apply filter_In. split; assumption.
    + apply ctxs_of_In. exists td, r. repeat split; assumption.
Qed.

(** a Stats response with group-by Columns has exactly one line per distinct
    key of the selected rows of all contributing backends, and the values of
    line [k] are the final aggregates over all selected rows with key [k] *)
Theorem C05_group_by schema cfg ds rq :
  rq_columns rq <> [] ->
  let res := stats_result schema cfg ds rq in
  let all := all_ctxs schema cfg ds rq in
  NoDup (map fst res) /\
  map fst res = first_keys (map (ctx_key rq) all) /\
  (forall k, In k (map fst res) <->
     exists bk td r, In bk (selected_backends ds rq) /\ contributes rq bk = true /\
                     table_data bk (rq_table rq) = Some td /\ In r (td_rows td) /\
                     row_selected schema cfg rq bk td r = true /\
                     stats_key schema rq bk td r = k) /\
  (forall k vals, In (k, vals) res ->
     vals = map (fun st => final_stat (stat_kind st) (acc_rows st (with_key rq k all))) (rq_stats rq)).
Proof.
  intros Hc. cbn zeta. rewrite (stats_result_grouped schema cfg ds rq Hc). rewrite tab_keys.
  repeat split.
  - apply first_keys_NoDup.
  - rewrite first_keys_In, in_map_iff. intros [x [He Hx]].
    apply all_ctxs_In in Hx. destruct Hx as [bk [td [r [Hbk [Hcb [Htd [Hr [Hsel Hxe]]]]]]]].
    exists bk, td, r. subst x. rewrite ctx_key_mkctx in He. repeat split; assumption.
  - rewrite first_keys_In, in_map_iff. intros [bk [td [r [Hbk [Hcb [Htd [Hr [Hsel He]]]]]]]].
    exists (mkctx schema bk (rq_table rq) td r). split; [rewrite ctx_key_mkctx; exact He|].
    apply all_ctxs_In. exists bk, td, r. repeat split; assumption.
  - intros k vals Hin. apply tab_In in Hin. destruct Hin as [_ ->]. reflexivity.
Qed.

Print Assumptions stats_backend_keyed.
Print Assumptions merge_keyed_spec.
Print Assumptions stats_result_grouped.
Print Assumptions C05_group_by.
Print Assumptions first_keys_first_occ.
