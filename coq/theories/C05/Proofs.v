(** C05: stats equal the aggregates over exactly the filtered rows. *)
From LMD Require Import QE.Engine QE.FilterProofs C01.Proofs.
Open Scope Z_scope.

(** accumulate one statistics column over a list of row contexts *)
Definition acc_rows (st : stat) (xs : list rowctx) : acc :=
  fold_left (fun a x => count_row x st a) xs acc0.

Definition agg_value (x : rowctx) (c : column) : Z :=
  float_of (get_chk (x_schema x) (x_bk x) (x_table x) (x_data x) (x_row x) c).

(** *** what one accumulator computes *)
Lemma fold_counter f xs a :
  fold_left (fun a x => count_row x (SCounter f) a) xs a =
  let n := Z.of_nat (length (filter (fun x => sem x f) xs)) in
  mkAcc (a_val a + n * 1000) (a_cnt a + n).
Proof.
  revert a; induction xs as [|x xs IH]; intros a; cbn [fold_left filter length].
  - cbn. destruct a; cbn; f_equal; lia.
  - rewrite IH. cbn [count_row]. rewrite match_filter_top.
    destruct (sem x f); cbn [apply_value a_val a_cnt length]; cbn zeta; f_equal; lia.
Qed.

Theorem acc_counter f xs :
  acc_rows (SCounter f) xs =
  let n := Z.of_nat (length (filter (fun x => sem x f) xs)) in mkAcc (n * 1000) n.
Proof. unfold acc_rows. rewrite fold_counter. reflexivity. Qed.

Lemma fold_sum k c xs a :
  (k = AgSum \/ k = AgAvg) ->
  fold_left (fun a x => count_row x (SAgg k c) a) xs a =
  mkAcc (a_val a + fold_right Z.add 0 (map (fun x => agg_value x c) xs)) (a_cnt a + Z.of_nat (length xs)).
Proof.
  intros Hk. revert a; induction xs as [|x xs IH]; intros a; cbn [fold_left map fold_right length].
  - destruct a; cbn; f_equal; lia.
  - rewrite IH. cbn [count_row]. fold (agg_value x c).
    destruct Hk as [-> | ->]; cbn [apply_value a_val a_cnt]; f_equal; lia.
Qed.

Theorem acc_sum k c xs :
  (k = AgSum \/ k = AgAvg) ->
  acc_rows (SAgg k c) xs =
  mkAcc (fold_right Z.add 0 (map (fun x => agg_value x c) xs)) (Z.of_nat (length xs)).
Proof. intros Hk. unfold acc_rows. rewrite (fold_sum k c xs acc0 Hk). reflexivity. Qed.

Lemma fold_min c xs : forall a, 0 < a_cnt a ->
  fold_left (fun a x => count_row x (SAgg AgMin c) a) xs a =
  mkAcc (fold_right Z.min (a_val a) (map (fun x => agg_value x c) xs)) (a_cnt a + Z.of_nat (length xs)).
Proof.
  induction xs as [|x xs IH]; intros a Hpos; cbn [fold_left map fold_right length].
  - destruct a; cbn; f_equal; lia.
  - rewrite IH.
    + cbn [count_row]. fold (agg_value x c). cbn [apply_value a_val a_cnt].
      destruct (Z.eqb_spec (a_cnt a) 0) as [H0|_]; [lia|].
      f_equal; [|lia].
      generalize (map (fun x0 => agg_value x0 c) xs) as vs. intros vs.
      induction vs as [|v vs IHv]; cbn [fold_right]; [lia|]. rewrite IHv. lia.
    + cbn [count_row apply_value a_cnt]. lia.
Qed.

Lemma fold_max c xs : forall a, 0 < a_cnt a ->
  fold_left (fun a x => count_row x (SAgg AgMax c) a) xs a =
  mkAcc (fold_right Z.max (a_val a) (map (fun x => agg_value x c) xs)) (a_cnt a + Z.of_nat (length xs)).
Proof.
  induction xs as [|x xs IH]; intros a Hpos; cbn [fold_left map fold_right length].
  - destruct a; cbn; f_equal; lia.
  - rewrite IH.
    + cbn [count_row]. fold (agg_value x c). cbn [apply_value a_val a_cnt].
      destruct (Z.eqb_spec (a_cnt a) 0) as [H0|_]; [lia|].
      f_equal; [|lia].
      generalize (map (fun x0 => agg_value x0 c) xs) as vs. intros vs.
      induction vs as [|v vs IHv]; cbn [fold_right]; [lia|]. rewrite IHv. lia.
    + cbn [count_row apply_value a_cnt]. lia.
Qed.

Lemma fold_right_min_comm v vs : fold_right Z.min v vs = Z.min v (fold_right Z.min v vs).
Proof. induction vs as [|w vs IH]; cbn [fold_right]; lia. Qed.

(** min / max of a non-empty row list are the true extrema (also for negative values) *)
Theorem acc_min c x xs :
  acc_rows (SAgg AgMin c) (x :: xs) =
  mkAcc (fold_right Z.min (agg_value x c) (map (fun x => agg_value x c) xs)) (Z.of_nat (length (x :: xs))).
Proof.
  unfold acc_rows. cbn [fold_left]. rewrite fold_min.
  - cbn [count_row apply_value acc0 a_val a_cnt Z.eqb]. fold (agg_value x c).
    f_equal. cbn [length]. lia.
  - cbn [count_row apply_value acc0 a_cnt]. lia.
Qed.

Theorem acc_max c x xs :
  acc_rows (SAgg AgMax c) (x :: xs) =
  mkAcc (fold_right Z.max (agg_value x c) (map (fun x => agg_value x c) xs)) (Z.of_nat (length (x :: xs))).
Proof.
  unfold acc_rows. cbn [fold_left]. rewrite fold_max.
  - cbn [count_row apply_value acc0 a_val a_cnt Z.eqb]. fold (agg_value x c).
    f_equal. cbn [length]. lia.
  - cbn [count_row apply_value acc0 a_cnt]. lia.
Qed.

Lemma acc_rows_nil st : acc_rows st [] = acc0.
Proof. reflexivity. Qed.

(** *** the numbers do not depend on how the rows are split over backends:
    merging the accumulators of two row lists is the accumulator of their
    concatenation (Response.MergeStats) *)
Lemma fold_right_min_app v vs w ws :
  Z.min (fold_right Z.min v vs) (fold_right Z.min w ws) = fold_right Z.min v (vs ++ w :: ws).
Proof. induction vs as [|u vs IH]; cbn [fold_right app]; [|rewrite <- IH; lia].
       rewrite (fold_right_min_comm w ws).
       assert (H : forall a l, fold_right Z.min a l = Z.min a (fold_right Z.min a l)) by (intros; apply fold_right_min_comm).
       clear. induction ws as [|z ws IH]; cbn [fold_right]; lia. Qed.

Lemma fold_right_max_comm v vs : fold_right Z.max v vs = Z.max v (fold_right Z.max v vs).
Proof. induction vs as [|w vs IH]; cbn [fold_right]; lia. Qed.

Lemma fold_right_max_app v vs w ws :
  Z.max (fold_right Z.max v vs) (fold_right Z.max w ws) = fold_right Z.max v (vs ++ w :: ws).
Proof. induction vs as [|u vs IH]; cbn [fold_right app]; [|rewrite <- IH; lia].
       clear. induction ws as [|z ws IH]; cbn [fold_right]; lia. Qed.

Theorem split_invariant st xs ys :
  merge_acc (stat_kind st) (acc_rows st xs) (acc_rows st ys) = acc_rows st (xs ++ ys).
Proof.
  destruct st as [f|k c]; cbn [stat_kind].
  - rewrite !acc_counter. cbn zeta. cbn [merge_acc a_val a_cnt].
    rewrite filter_app, app_length. f_equal; lia.
  - destruct k.
    + rewrite !acc_sum by auto. cbn [merge_acc a_val a_cnt].
      rewrite map_app, app_length. f_equal; [|lia].
      induction (map (fun x => agg_value x c) xs) as [|v vs IH]; cbn [fold_right app]; lia.
    + rewrite !acc_sum by auto. cbn [merge_acc a_val a_cnt].
      rewrite map_app, app_length. f_equal; [|lia].
      induction (map (fun x => agg_value x c) xs) as [|v vs IH]; cbn [fold_right app]; lia.
    + destruct xs as [|x xs]; [reflexivity|]. destruct ys as [|y ys].
      * rewrite app_nil_r. rewrite acc_min. cbn [merge_acc acc_rows fold_left acc0 a_cnt a_val].
        destruct (Z.eqb_spec (Z.of_nat (length (x :: xs))) 0) as [H0|_]; [cbn [length] in H0; lia|reflexivity].
      * cbn [app]. rewrite !acc_min. cbn [merge_acc a_val a_cnt].
        destruct (Z.eqb_spec (Z.of_nat (length (x :: xs))) 0) as [H0|_]; [cbn [length] in H0; lia|].
        destruct (Z.eqb_spec (Z.of_nat (length (y :: ys))) 0) as [H0|_]; [cbn [length] in H0; lia|].
        rewrite map_app. cbn [map]. rewrite fold_right_min_app.
        f_equal. cbn [length]. rewrite app_length. cbn [length]. lia.
    + destruct xs as [|x xs]; [reflexivity|]. destruct ys as [|y ys].
      * rewrite app_nil_r. rewrite acc_max. cbn [merge_acc acc_rows fold_left acc0 a_cnt a_val].
        destruct (Z.eqb_spec (Z.of_nat (length (x :: xs))) 0) as [H0|_]; [cbn [length] in H0; lia|reflexivity].
      * cbn [app]. rewrite !acc_max. cbn [merge_acc a_val a_cnt].
        destruct (Z.eqb_spec (Z.of_nat (length (x :: xs))) 0) as [H0|_]; [cbn [length] in H0; lia|].
        destruct (Z.eqb_spec (Z.of_nat (length (y :: ys))) 0) as [H0|_]; [cbn [length] in H0; lia|].
        rewrite map_app. cbn [map]. rewrite fold_right_max_app.
        f_equal. cbn [length]. rewrite app_length. cbn [length]. lia.
Qed.

(** *** from the accumulators to the response (no group-by Columns) *)
Definition ctxs_of (schema : list tschema) (cfg : config) (rq : request) (bk : backend) : list rowctx :=
  match table_data bk (rq_table rq) with
  | Some td => map (mkctx schema bk (rq_table rq) td) (filter (row_selected schema cfg rq bk td) (td_rows td))
  | None => []
  end.

Definition all_ctxs (schema : list tschema) (cfg : config) (ds : dataset) (rq : request) : list rowctx :=
  concat (map (ctxs_of schema cfg rq) (filter (contributes rq) (selected_backends ds rq))).

Lemma map2_map {A B C} (f : A -> B -> C) (g : A -> B) (l : list A) :
  map2 f l (map g l) = map (fun a => f a (g a)) l.
Proof. induction l as [|a l IH]; cbn [map2 map]; [reflexivity|]. rewrite IH; reflexivity. Qed.

Lemma fold_accs (stats : list stat) (xs : list rowctx) : forall (g : stat -> acc),
  fold_left (fun accs x => map2 (count_row x) stats accs) xs (map g stats) =
  map (fun st => fold_left (fun a x => count_row x st a) xs (g st)) stats.
Proof.
  induction xs as [|x xs IH]; intros g; cbn [fold_left]; [reflexivity|].
  rewrite map2_map. rewrite (IH (fun st => count_row x st (g st))). reflexivity.
Qed.

Lemma request_columns_nokey rq : rq_columns rq = [] -> rq_stats rq <> [] -> request_columns rq = [].
Proof.
  intros Hc Hs. unfold request_columns. rewrite Hc. destruct (rq_stats rq); [congruence|reflexivity].
Qed.

Definition single (stats : list stat) (xs : list rowctx) : keyed (list acc) :=
  match xs with [] => [] | _ => [([], map (fun st => acc_rows st xs) stats)] end.

Lemma stats_backend_nokey schema cfg rq bk :
  request_columns rq = [] ->
  stats_backend schema cfg rq bk = single (rq_stats rq) (ctxs_of schema cfg rq bk).
Proof.
  intros Hk. unfold stats_backend, ctxs_of, stats_key. rewrite Hk.
  destruct (table_data bk (rq_table rq)) as [td|]; [|reflexivity].
  cbn [map].
  set (rows := filter (row_selected schema cfg rq bk td) (td_rows td)).
  set (stats := rq_stats rq).
  set (cx := mkctx schema bk (rq_table rq) td).
  assert (Hne : forall rows accs,
    fold_left (fun m r => upsert [] (map (fun _ => acc0) stats) (fun accs0 => map2 (count_row (cx r)) stats accs0) m)
              rows [([], accs)] =
    [([], fold_left (fun accs0 x => map2 (count_row x) stats accs0) (map cx rows) accs)]).
  { induction rows0 as [|r rows0 IH]; intros accs; cbn [fold_left map]; [reflexivity|].
    cbn [upsert]. unfold key_eqb at 1. destruct (list_eq_dec _ [] []) as [_|Hx]; [|congruence].
    apply IH. }
  destruct rows as [|r rows0]; [reflexivity|].
  cbn [fold_left upsert map single]. rewrite Hne.
  f_equal. f_equal.
  change (map2 (count_row (cx r)) stats (map (fun _ => acc0) stats)) with
    (fold_left (fun accs0 x => map2 (count_row x) stats accs0) [cx r] (map (fun _ => acc0) stats)).
  rewrite <- fold_left_app. cbn [app].
  rewrite (fold_accs stats (cx r :: map cx rows0) (fun _ => acc0)). reflexivity.
Qed.

Lemma merge_accs_maps rq (f g : stat -> acc) :
  merge_accs rq (map f (rq_stats rq)) (map g (rq_stats rq)) =
  map (fun st => merge_acc (stat_kind st) (f st) (g st)) (rq_stats rq).
Proof.
  unfold merge_accs. induction (rq_stats rq) as [|st l IH]; cbn [map combine map2]; [reflexivity|].
  cbn [fst snd]. rewrite IH. reflexivity.
Qed.

Lemma merge_single rq xs ys :
  merge_keyed rq (single (rq_stats rq) xs) (single (rq_stats rq) ys) = single (rq_stats rq) (xs ++ ys).
Proof.
  unfold merge_keyed. destruct ys as [|y ys]; [rewrite app_nil_r; reflexivity|].
  destruct xs as [|x xs].
  - cbn [single fold_left find app]. reflexivity.
  - cbn [single fold_left find fst]. unfold key_eqb at 1.
    destruct (list_eq_dec _ [] []) as [_|Hx]; [|congruence].
    cbn [upsert]. unfold key_eqb at 1. destruct (list_eq_dec _ [] []) as [_|Hx]; [|congruence].
    rewrite (merge_accs_maps rq (fun st => acc_rows st (x :: xs)) (fun st => acc_rows st (y :: ys))).
    cbn [app single]. f_equal. f_equal. apply map_ext. intros st. apply split_invariant.
Qed.

Lemma merge_all rq (xss : list (list rowctx)) : forall acc0s,
  fold_left (merge_keyed rq) (map (single (rq_stats rq)) xss) (single (rq_stats rq) acc0s) =
  single (rq_stats rq) (acc0s ++ concat xss).
Proof.
  induction xss as [|xs xss IH]; intros a; cbn [map fold_left concat].
  - rewrite app_nil_r; reflexivity.
  - rewrite merge_single, IH, app_assoc. reflexivity.
Qed.

(** without group-by Columns a Stats response is one line whose columns are
    the aggregates over ALL selected rows of all contributing backends *)
Theorem stats_result_nokey schema cfg ds rq :
  rq_columns rq = [] -> rq_stats rq <> [] ->
  stats_result schema cfg ds rq =
  [([], map (fun st => final_stat (stat_kind st) (acc_rows st (all_ctxs schema cfg ds rq))) (rq_stats rq))].
Proof.
  intros Hc Hs. pose proof (request_columns_nokey rq Hc Hs) as Hk.
  unfold stats_result, all_ctxs.
  set (bks := filter (contributes rq) (selected_backends ds rq)).
  assert (Hm : map (stats_backend schema cfg rq) bks = map (single (rq_stats rq)) (map (ctxs_of schema cfg rq) bks)).
  { rewrite map_map. apply map_ext. intros bk. apply stats_backend_nokey; exact Hk. }
  rewrite Hm. change (@nil (list str * list acc)) with (single (rq_stats rq) []).
  rewrite merge_all. cbn [app].
  rewrite Hc.
  destruct (concat (map (ctxs_of schema cfg rq) bks)) as [|x xs] eqn:Hall.
  - cbn [single map fst snd]. f_equal. f_equal.
    rewrite map2_map. reflexivity.
  - cbn [single map fst snd]. f_equal. f_equal.
    rewrite map2_map. reflexivity.
Qed.
