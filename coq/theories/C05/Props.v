(** C05 — stats equal the aggregates over exactly the filtered rows.
    Statements only; proofs in C05/Proofs.v. *)
From LMD Require Import QE.Engine C05.Proofs C05.GroupByProofs QE.StatsOpt QE.StatsOptProofs Gen.Schema.
Open Scope Z_scope.

(** A counter equals the number of selected rows that satisfy its Stats
    expression under the literal semantics (StatsAnd/StatsOr/StatsNegate at any
    nesting), for every list of rows. *)
Theorem C05_counter :
  forall (f : filt) (xs : list rowctx),
    acc_rows (SCounter f) xs =
    let n := Z.of_nat (length (filter (fun x => sem x f) xs)) in mkAcc (n * 1000) n.
Proof. exact acc_counter. Qed.

(** sum / avg accumulate the arithmetic sum and the number of rows *)
Theorem C05_sum :
  forall k c (xs : list rowctx), (k = AgSum \/ k = AgAvg) ->
    acc_rows (SAgg k c) xs =
    mkAcc (fold_right Z.add 0 (map (fun x => agg_value x c) xs)) (Z.of_nat (length xs)).
Proof. exact acc_sum. Qed.

(** min / max are the true extrema of a non-empty row list (negative values included) *)
Theorem C05_min :
  forall c x (xs : list rowctx),
    acc_rows (SAgg AgMin c) (x :: xs) =
    mkAcc (fold_right Z.min (agg_value x c) (map (fun x => agg_value x c) xs)) (Z.of_nat (length (x :: xs))).
Proof. exact acc_min. Qed.

Theorem C05_max :
  forall c x (xs : list rowctx),
    acc_rows (SAgg AgMax c) (x :: xs) =
    mkAcc (fold_right Z.max (agg_value x c) (map (fun x => agg_value x c) xs)) (Z.of_nat (length (x :: xs))).
Proof. exact acc_max. Qed.

(** The numbers do not depend on how the rows are distributed over backends:
    merging the accumulators of two row lists (MergeStats) gives the accumulator
    of their concatenation, for every statistics column. *)
Theorem C05_split_invariant :
  forall st (xs ys : list rowctx),
    merge_acc (stat_kind st) (acc_rows st xs) (acc_rows st ys) = acc_rows st (xs ++ ys).
Proof. exact split_invariant. Qed.

(** The response of a Stats request without group-by Columns is one line: the
    aggregates over ALL selected (filter matching, authorised) rows of all
    contributing backends, for every dataset and every split. *)
Theorem C05_stats_response :
  forall schema cfg ds rq,
    rq_columns rq = [] -> rq_stats rq <> [] ->
    stats_result schema cfg ds rq =
    [([], map (fun st => final_stat (stat_kind st) (acc_rows st (all_ctxs schema cfg ds rq))) (rq_stats rq))].
Proof. exact stats_result_nokey. Qed.

(** With group-by Columns there is exactly one result line per distinct
    combination of column values among the selected rows of all contributing
    backends (no duplicates, first-occurrence order), and the numbers of line k
    are the aggregates over exactly the selected rows whose key is k. *)
Theorem C05_group_by_lines :
  forall schema cfg ds rq,
    rq_columns rq <> [] ->
    let res := stats_result schema cfg ds rq in
    let all := all_ctxs schema cfg ds rq in
    NoDup (map fst res) /\
    map fst res = first_keys (map (ctx_key rq) all) /\
    (forall k, In k (map fst res) <->
       exists bk td r, In bk (selected_backends ds rq) /\ contributes rq bk = true /\
                       table_data bk (rq_table rq) = Some td /\ In r (td_rows td) /\
                       row_selected schema cfg rq bk td r = true /\
                       stats_key schema rq bk td r = k) /\
    (forall k vals, In (k, vals) res ->
       vals = map (fun st => final_stat (stat_kind st) (acc_rows st (with_key rq k all))) (rq_stats rq)).
Proof. exact C05_group_by. Qed.

(** the optimised Stats program (req.StatsGrouped, shared leading terms factored out and
    counted by DataRow.CountStats) gives the same accumulators as the plain program,
    for every parsed request and every list of rows *)
Theorem C05_grouped_program :
  forall schema opt lines rq g xs,
    parse_request schema opt lines = Ok rq ->
    optimize (rq_stats rq) = Some g ->
    fold_left (fun accs x => count_grouped x g accs) xs (map (fun _ => acc0) (rq_stats rq)) =
    map (fun st => acc_rows st xs) (rq_stats rq).
Proof. exact grouping_sound_rows_parsed. Qed.

(** non-vacuity: two backends, nested negated counter, negative minimum *)
Example C05_example :
  let h n st lat := [VStr n; VInt st; VFloat lat] in
  let bk k rows := mkBackend k k 0 true [] [mkData (s "hosts") [s "name"; s "state"; s "latency"] rows] in
  let ds := [bk (s "a") [h (s "x") 0 (-2500); h (s "y") 2 1000]; bk (s "b") [h (s "z") 1 500]] in
  match parse_request schema true
          [s "GET hosts"; s "Stats: state = 0"; s "Stats: name = z"; s "StatsOr: 2"; s "StatsNegate:";
           s "Stats: min latency"; s "Stats: avg latency"] with
  | Ok rq => stats_result schema (mkCfg false true) ds rq = [([], [SVal 1000; SVal (-2500); SAvg (-1000) 3])]
  | Err _ => False
  end.
Proof. vm_compute. reflexivity. Qed.

Print Assumptions C05_counter.
Print Assumptions C05_sum.
Print Assumptions C05_min.
Print Assumptions C05_max.
Print Assumptions C05_split_invariant.
Print Assumptions C05_stats_response.
Print Assumptions C05_group_by_lines.
Print Assumptions C05_grouped_program.
