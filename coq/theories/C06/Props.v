(** C06 — Sort, Limit, Offset and total_count describe one consistent window.
    Statements only; proofs in QE/WindowProofs.v.

    [data_result] is the implementation model (per backend early cut-off at
    Limit+Offset when the request asks for the table's default order, merge,
    sort, window); [data_result_spec] is the window [Offset, Offset+Limit) of
    the sorted union of ALL matching rows of the selected backends. *)
From LMD Require Import QE.Engine QE.WindowProofs QE.Index QE.IndexProofs Gen.Schema.
From Coq Require Import Sorting.Sorted.

(** No early cut-off (any Sort that is not the default order, or no Limit): the
    rows of the response are exactly the specified window. *)
Theorem C06_window_general :
  forall schema cfg ds rq,
    backend_limit rq = None ->
    fst (data_result schema cfg ds rq) = fst (data_result_spec schema cfg ds rq).
Proof. exact C06_window_no_cut. Qed.

(** Early cut-off (default order + Limit): if every backend's store is in the
    table's default order (what InitAllTables / the exporter produce), cutting
    each backend at Limit+Offset does not change the window: same sort keys at
    every position (ties may pick different rows) and the same number of rows. *)
Theorem C06_window_default_order_cutoff :
  forall schema cfg ds rq k,
    backend_limit rq = Some k -> (0 <= rq_offset rq)%Z ->
    backends_sorted schema cfg ds rq ->
    map h_keys (fst (data_result schema cfg ds rq)) = map h_keys (fst (data_result_spec schema cfg ds rq)) /\
    length (fst (data_result schema cfg ds rq)) = length (fst (data_result_spec schema cfg ds rq)).
Proof. exact C06_window_default_order. Qed.

(** Without Sort header, Limit/Offset return that window of the matching rows in
    backend order: exactly as many distinct matching rows as requested. *)
Theorem C06_window_unsorted :
  forall schema cfg ds rq k,
    backend_limit rq = Some k -> (0 <= rq_offset rq)%Z -> rq_sort rq = [] ->
    fst (data_result schema cfg ds rq) = fst (data_result_spec schema cfg ds rq).
Proof. exact C06_window_unsorted_exact. Qed.

(** The response is sorted by the Sort keys (per-key direction, numeric vs
    string vs custom variable comparison) ... *)
Theorem C06_sorted :
  forall schema cfg ds rq,
    rq_sort rq <> [] ->
    StronglySorted (lebP (hleb rq)) (fst (data_result schema cfg ds rq)).
Proof. exact C06_result_sorted. Qed.

(** ... and consists of matching rows of the selected backends only. *)
Theorem C06_rows_are_matching :
  forall schema cfg ds rq x,
    In x (fst (data_result schema cfg ds rq)) -> In x (spec_hits schema cfg ds rq).
Proof. exact C06_result_sublist. Qed.

(** total_count (wrapped_json) is the number of matching rows before Limit and Offset. *)
Theorem C06_total_count :
  forall schema cfg ds rq,
    backend_limit rq = None \/ rq_format rq = FmtWrapped ->
    snd (data_result schema cfg ds rq) = snd (data_result_spec schema cfg ds rq).
Proof. exact C06_total. Qed.

(** the window itself: rows [Offset, Offset+Limit) *)
Theorem C06_window_is_a_segment :
  forall {A} (rq : request) (l : list A),
    exists pre post, l = pre ++ window rq l ++ post /\
                     length pre = Nat.min (Z.to_nat (rq_offset rq)) (length l).
Proof. intros A rq l. exact (window_segment rq l). Qed.

(** non-vacuity: two backends with interleaving names, default order, Limit 2 Offset 1 *)
Example C06_example :
  let h n := [VStr n] in
  let bk k rows := mkBackend k k 0 true [] [mkData (s "hosts") [s "name"] rows] in
  let ds := [bk (s "a") [h (s "a1"); h (s "c1"); h (s "e1")]; bk (s "b") [h (s "b1"); h (s "d1")]] in
  match parse_request schema true
          [s "GET hosts"; s "Columns: name"; s "Sort: name asc"; s "Limit: 2"; s "Offset: 1"; s "OutputFormat: wrapped_json"] with
  | Ok rq => backend_limit rq = Some 3%nat /\
             map h_out (fst (data_result schema (mkCfg false true) ds rq)) = [h (s "b1"); h (s "c1")] /\
             snd (data_result schema (mkCfg false true) ds rq) = 5%nat
  | Err _ => False
  end.
Proof. vm_compute. repeat split. Qed.

(** the precondition of the per-backend cut-off also holds for index pre-selected rows:
    on a store in primary key order the candidates are a sub-sequence of the store, so they
    are themselves in primary key order (tryFilterIndexData re-sorts the hits) *)
Theorem C06_index_hits_in_store_order :
  forall schema bk t td fs rows,
    schema_ok schema = true -> In t schema -> consistent schema bk ->
    table_data bk t = Some td -> store_sorted t td ->
    prefilter bk t fs = Some rows -> sublist rows (td_rows td).
Proof. exact prefilter_order. Qed.

Theorem C06_index_hits_distinct :
  forall bk t fs rows, prefilter bk t fs = Some rows -> NoDup rows.
Proof. exact prefilter_NoDup. Qed.

Print Assumptions C06_window_general.
Print Assumptions C06_window_default_order_cutoff.
Print Assumptions C06_window_unsorted.
Print Assumptions C06_sorted.
Print Assumptions C06_rows_are_matching.
Print Assumptions C06_total_count.
Print Assumptions C06_window_is_a_segment.
Print Assumptions C06_index_hits_in_store_order.
Print Assumptions C06_index_hits_distinct.
