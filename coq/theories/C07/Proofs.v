(** C07: query optimisations never change the answer. *)
From LMD Require Import QE.Engine QE.FilterProofs QE.RegexProofs C01.Proofs.
Open Scope N_scope.

(** optimizeFilterIndentation: unwrapping a single non-negated top level And
    group does not change which rows are selected *)
Lemma flatten_step x (f : filt) (inner : list filt) :
  forallb (fun g => sem x g) [FGroup GAnd (f :: inner) false] = forallb (fun g => sem x g) (f :: inner).
Proof. cbn [forallb sem xorb]. rewrite andb_true_r. destruct (sem x f && forallb (sem x) inner); reflexivity. Qed.

Lemma flatten_sound x : forall fuel fs,
  forallb (fun g => sem x g) (flatten_filter fuel fs) = forallb (fun g => sem x g) fs.
Proof.
  induction fuel as [|fuel IH]; intros fs; [reflexivity|].
  destruct fs as [|f0 rest0]; [reflexivity|].
  destruct rest0 as [|f1 rest]; [|destruct f0 as [l n|g inner n]; [reflexivity|];
                                   destruct g, inner, n; reflexivity].
  destruct f0 as [l n|g inner n]; [reflexivity|].
  destruct g; [|destruct inner, n; reflexivity].
  destruct inner as [|f inner]; [destruct n; reflexivity|].
  destruct n; [reflexivity|].
  cbn [flatten_filter]. rewrite IH. symmetry. apply flatten_step.
Qed.

(** a leaf with the given operator / text / compiled pattern on any column *)
Definition leaf_with (c : column) (o : op) (v : str) (p : option pattern) : leaf :=
  mkLeaf c o v [] (match v with [] => true | _ => false end) 0%Z p.

(** regex without meta characters == substring test (all four operator forms) *)
Lemma literal_rewrite c v x p :
  (forall ch, In ch v -> is_meta ch = false) -> re_compile false v = CPat p ->
  match_string (leaf_with c ORe v (Some p)) x = match_string (leaf_with c OCont v None) x /\
  match_string (leaf_with c ONRe v (Some p)) x = match_string (leaf_with c ONCont v None) x.
Proof.
  intros Hv Hc. unfold match_string, leaf_with; cbn [lf_op lf_re lf_str].
  rewrite (plain_regex_is_contains v x p Hv Hc). split; reflexivity.
Qed.

Lemma literal_rewrite_nocase c v x p :
  (forall ch, In ch v -> is_meta ch = false) -> re_compile true v = CPat p ->
  match_string (leaf_with c OReI v (Some p)) x = match_string (leaf_with c OContI (lower v) None) x /\
  match_string (leaf_with c ONReI v (Some p)) x = match_string (leaf_with c ONContI (lower v) None) x.
Proof.
  intros Hv Hc. rewrite (parse_literal true v Hv) in Hc. injection Hc as <-.
  unfold match_string, leaf_with; cbn [lf_op lf_re lf_str].
  rewrite nocase_literal_is_lower_contains_strong. split; reflexivity.
Qed.

(** ^literal$ == equality *)
Lemma anchored_rewrite c v x :
  match_string (leaf_with c ORe v (Some (mkPat false true true (lit_re v)))) x =
  match_string (leaf_with c OEq v None) x.
Proof.
  unfold match_string, leaf_with; cbn [lf_op lf_re lf_str]. apply anchored_literal_is_eq.
Qed.

(** lower-case shadow column: a case-insensitive substring test on the column
    is the case-sensitive test of the lower-cased text on the lower-cased value *)
Lemma shadow_column_rewrite c c_lc v x :
  match_string (leaf_with c OContI (lower v) None) x = match_string (leaf_with c_lc OCont (lower v) None) (lower x).
Proof. reflexivity. Qed.

Lemma shadow_column_regex c c_lc v x :
  match_string (leaf_with c OReI v (Some (mkPat true false false (lit_re v)))) x =
  match_string (leaf_with c_lc ORe (lower v) (Some (mkPat false false false (lit_re (lower v))))) (lower x).
Proof.
  unfold match_string, leaf_with; cbn [lf_op lf_re lf_str]. symmetry. apply lc_column_literal.
Qed.
