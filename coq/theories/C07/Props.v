(** C07 — query optimisations never change the answer.
    Statements only; proofs in QE/RegexProofs.v, QE/WindowProofs.v, C07/Proofs.v.
    (Index pre-selection and Stats grouping are not modelled: the implementation
    runs them, the model never does, so their soundness is what the two-mode
    correspondence stream checks; see DESIGN.md 6/C07.) *)
From LMD Require Import QE.Engine QE.RegexProofs C07.Proofs C05.Proofs QE.Index QE.IndexProofs QE.StatsOpt QE.StatsOptProofs Gen.Schema.
Open Scope N_scope.

(** the matcher used by the model computes the denotational semantics of the
    regular expression, for every expression and every string *)
Theorem C07_matcher_correct :
  forall ci r x, matches ci r x = true <-> denote ci r x.
Proof. exact matches_correct. Qed.

(** regex-to-substring rewriting: a text without regex meta characters compiles
    to its literal, and searching it is the substring test - for ALL subjects *)
Theorem C07_literal_regex_is_substring :
  forall c v x p,
    (forall ch, In ch v -> is_meta ch = false) -> re_compile false v = CPat p ->
    match_string (leaf_with c ORe v (Some p)) x = match_string (leaf_with c OCont v None) x /\
    match_string (leaf_with c ONRe v (Some p)) x = match_string (leaf_with c ONCont v None) x.
Proof. exact literal_rewrite. Qed.

Theorem C07_literal_regex_is_substring_nocase :
  forall c v x p,
    (forall ch, In ch v -> is_meta ch = false) -> re_compile true v = CPat p ->
    match_string (leaf_with c OReI v (Some p)) x = match_string (leaf_with c OContI (lower v) None) x /\
    match_string (leaf_with c ONReI v (Some p)) x = match_string (leaf_with c ONContI (lower v) None) x.
Proof. exact literal_rewrite_nocase. Qed.

(** regex-to-equality rewriting: ^literal$ *)
Theorem C07_anchored_literal_is_equality :
  forall c v x,
    match_string (leaf_with c ORe v (Some (mkPat false true true (lit_re v)))) x =
    match_string (leaf_with c OEq v None) x.
Proof. exact anchored_rewrite. Qed.

(** trimming a leading / trailing .* of an unanchored search *)
Theorem C07_trim_dotstar_prefix :
  forall ci r x en, search (mkPat ci false en (RCat (RStar RAny) r)) x = search (mkPat ci false en r) x.
Proof. exact trim_dotstar_prefix. Qed.

Theorem C07_trim_dotstar_suffix :
  forall ci r x st, search (mkPat ci st false (RCat r (RStar RAny))) x = search (mkPat ci st false r) x.
Proof. exact trim_dotstar_suffix. Qed.

(** lower-case shadow columns *)
Theorem C07_shadow_column :
  forall c c_lc v x,
    match_string (leaf_with c OReI v (Some (mkPat true false false (lit_re v)))) x =
    match_string (leaf_with c_lc ORe (lower v) (Some (mkPat false false false (lit_re (lower v))))) (lower x).
Proof. exact shadow_column_regex. Qed.

(** filter flattening *)
Theorem C07_flatten :
  forall x fuel fs,
    forallb (fun g => sem x g) (flatten_filter fuel fs) = forallb (fun g => sem x g) fs.
Proof. exact flatten_sound. Qed.

(** the documented deviation is real and is exactly the host-name heuristic:
    "a.bc" is not recognised as a regular expression although its dot matches any character *)
Theorem C07_dot_heuristic_witness :
  Parse.has_regex_chars (s "a.bc") = false /\
  (exists p, re_compile false (s "a.bc") = CPat p /\ search p (s "axbc") = true) /\
  contains (s "axbc") (s "a.bc") = false.
Proof. vm_compute. repeat split. eexists; split; reflexivity. Qed.

(** *** index pre-selection (DataStore.GetPreFilteredData, model QE/Index.v [prefilter];
    the stream compares the row ids the implementation pre-selects with [prefilter_ids] on every case) *)

(** the pre-selection never drops a row the request selects *)
Theorem C07_index_never_drops :
  forall schema cfg rq bk td rows,
    schema_ok schema = true -> In (rq_table rq) schema -> consistent schema bk ->
    Forall (filt_wf (rq_table rq)) (rq_filter rq) ->
    table_data bk (rq_table rq) = Some td ->
    prefilter bk (rq_table rq) (rq_filter rq) = Some rows ->
    forall r, In r (td_rows td) -> row_selected schema cfg rq bk td r = true -> In r rows.
Proof. exact C07_index_sound. Qed.

(** with and without the index the same rows are selected, in the same order (store in primary key order) *)
Theorem C07_index_same_rows_same_order :
  forall schema cfg rq bk td,
    schema_ok schema = true -> In (rq_table rq) schema -> consistent schema bk ->
    Forall (filt_wf (rq_table rq)) (rq_filter rq) ->
    table_data bk (rq_table rq) = Some td -> store_sorted (rq_table rq) td ->
    gather_indexed schema cfg rq bk = selected_rows schema cfg rq bk.
Proof. exact gather_indexed_eq. Qed.

(** lmd's real schema (regenerated from Objects.Tables on every run) satisfies the schema hypothesis *)
Theorem C07_index_schema_ok : schema_ok Gen.Schema.schema = true.
Proof. exact real_schema_ok. Qed.

(** closed form on lmd's real schema: for every request the parser accepts (either mode) only two
    boolean facts about the data are left - unique keys / closed group membership, and the store
    in primary key order; the stream evaluates both on every generated dataset *)
Theorem C07_index_parsed :
  forall cfg opt lines rq bk,
    parse_request Gen.Schema.schema opt lines = Ok rq ->
    consistentb Gen.Schema.schema bk = true -> store_sortedb_at bk (rq_table rq) = true ->
    gather_indexed Gen.Schema.schema cfg rq bk = selected_rows Gen.Schema.schema cfg rq bk.
Proof. exact gather_indexed_eq_parsed_b. Qed.

(** *** stats grouping (Request.optimizeStatsGroups / DataRow.CountStats, model QE/StatsOpt.v;
    the stream compares the shape of req.StatsGrouped with [shapes (optimize ..)] on every optimised case) *)

(** for every request the parser accepts, in either mode, counting over the grouped
    program gives exactly the counters of the plain program - one row *)
Theorem C07_grouping_sound :
  forall schema opt lines rq x g accs,
    parse_request schema opt lines = Ok rq ->
    length accs = length (rq_stats rq) ->
    optimize (rq_stats rq) = Some g ->
    count_grouped x g accs = map2 (count_row x) (rq_stats rq) accs.
Proof. exact grouping_sound_parsed. Qed.

(** ... and over any list of rows *)
Theorem C07_grouping_sound_rows :
  forall schema opt lines rq g xs,
    parse_request schema opt lines = Ok rq ->
    optimize (rq_stats rq) = Some g ->
    fold_left (fun accs x => count_grouped x g accs) xs (map (fun _ => acc0) (rq_stats rq)) =
    map (fun st => acc_rows st xs) (rq_stats rq).
Proof. exact grouping_sound_rows_parsed. Qed.


Print Assumptions C07_matcher_correct.
Print Assumptions C07_literal_regex_is_substring.
Print Assumptions C07_literal_regex_is_substring_nocase.
Print Assumptions C07_anchored_literal_is_equality.
Print Assumptions C07_trim_dotstar_prefix.
Print Assumptions C07_trim_dotstar_suffix.
Print Assumptions C07_shadow_column.
Print Assumptions C07_flatten.
Print Assumptions C07_dot_heuristic_witness.
Print Assumptions C07_index_never_drops.
Print Assumptions C07_index_same_rows_same_order.
Print Assumptions C07_index_schema_ok.
Print Assumptions C07_grouping_sound.
Print Assumptions C07_grouping_sound_rows.
Print Assumptions C07_index_parsed.
