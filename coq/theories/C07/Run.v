(** C07 stream: every case is compared with the model in its own parse mode
    (as in QE/Run.v) AND the model is evaluated in the other mode: the two model
    answers must coincide unless the documented host-name dot heuristic applies. *)
From LMD Require Export QE.Run QE.Index QE.StatsOpt.
From LMD Require Import Gen.Schema.
Open Scope N_scope.

Definition kv_eqb (a b : keyval) : bool :=
  match a, b with
  | KNum x, KNum y => Z.eqb x y
  | KStr x, KStr y | KCv x, KCv y => str_eqb x y
  | _, _ => false
  end.

Definition statval_eqb (a b : statval) : bool :=
  match a, b with
  | SVal x, SVal y => Z.eqb x y
  | SAvg x c, SAvg y d => Z.eqb x y && Z.eqb c d
  | _, _ => false
  end.

Definition response_eqb (a b : response) : bool :=
  match a, b with
  | RError x, RError y => N.eqb x y
  | RData r1 k1 t1 f1, RData r2 k2 t2 f2 =>
      list_eqb (list_eqb value_eqb) r1 r2 && list_eqb (list_eqb kv_eqb) k1 k2 && Nat.eqb t1 t2 && list_eqb str_eqb f1 f2
  | RStats r1 f1, RStats r2 f2 =>
      list_eqb (fun x y => key_eqb (fst x) (fst y) && list_eqb statval_eqb (snd x) (snd y)) r1 r2 && list_eqb str_eqb f1 f2
  | _, _ => false
  end.

(** the permitted deviation: a regex operator whose text (after trimming dot-star)
    contains a dot but is not recognised as a regular expression *)
Definition dot_text (v : str) : bool :=
  let val := trim_suffix (s ".*") (trim_prefix (s ".*") v) in
  (existsb (N.eqb 46) val && negb (has_regex_chars val))
  || (* the same heuristic decides whether ^text$ becomes an equality test: it looks at the text between the anchors *)
     (has_prefix (s "^") val && has_suffix (s "$") val &&
      let val2 := trim_suffix (s "$") (trim_prefix (s "^") val) in
      existsb (N.eqb 46) val2 && negb (has_regex_chars val2)).

Definition is_regex_op (o : op) : bool :=
  match o with ORe | ONRe | OReI | ONReI => true | _ => false end.

Fixpoint filt_dot (f : filt) : bool :=
  match f with
  | FLeaf l _ => is_regex_op (lf_op l) && dot_text (lf_str l)
  | FGroup _ fs _ => existsb filt_dot fs
  end.

Definition request_dot (rq : request) : bool :=
  existsb filt_dot (rq_filter rq)
  || existsb (fun st => match st with SCounter f => filt_dot f | SAgg _ _ => false end) (rq_stats rq).

(** texts only one mode accepts (an unbalanced ')' is a substring in optimize
    mode and a syntax error for the regexp compiler) are outside the comparison *)
Definition modes_agree (c : qcase) : bool :=
  match parse_request schema false (q_lines c), parse_request schema true (q_lines c) with
  | Ok rd, Ok ro =>
      if request_dot rd then true
      else response_eqb (respond_req schema (q_cfg c) (q_ds c) rd) (respond_req schema (q_cfg c) (q_ds c) ro)
  | _, _ => true
  end.

(** *** internal observables (harness/inpkg/qe_intern.go)
    what DataStore.GetPreFilteredData selected per backend (row ids in emission order,
    None = the whole table) and the shape of req.StatsGrouped (ParseOptimize only) *)
Record intern := mkInt { i_cand : list (option (list str)); i_shape : option (option (list gshape)) }.
Record xcase := mkX { x_case : qcase; x_int : option intern }.

Definition option_eqb {A} (eqb : A -> A -> bool) (a b : option A) : bool :=
  match a, b with
  | Some x, Some y => eqb x y
  | None, None => true
  | _, _ => false
  end.

Fixpoint gshape_eqb (a b : gshape) : bool :=
  match a, b with
  | ShPlain p m, ShPlain q n => Nat.eqb p q && Nat.eqb m n
  | ShGroup x, ShGroup y =>
      (fix go (l1 l2 : list gshape) : bool :=
         match l1, l2 with
         | [], [] => true
         | u :: l1', v :: l2' => gshape_eqb u v && go l1' l2'
         | _, _ => false
         end) x y
  | _, _ => false
  end.

(** 0 = agree, 3 = the index pre-selection differs from QE/Index.v, 4 = the grouping differs from QE/StatsOpt.v *)
Definition internals (c : xcase) : nat :=
  match x_int c with
  | None => 0
  | Some it =>
      let qc := x_case c in
      match parse_request schema (q_opt qc) (q_lines qc) with
      | Ok rq =>
          (* an empty table: "the whole table" and "nothing pre-selected" cannot be told apart in the dump *)
          let cands := map (fun bk => match table_data bk (rq_table rq) with
                                      | Some td => match td_rows td with
                                                   | [] => None
                                                   | _ => prefilter_ids schema bk (rq_table rq) (rq_filter rq)
                                                   end
                                      | None => None
                                      end) (q_ds qc) in
          if negb (list_eqb (option_eqb (list_eqb str_eqb)) cands (i_cand it)) then 3
          else match i_shape it with
               | Some sh => if option_eqb (list_eqb gshape_eqb) (shapes (optimize (rq_stats rq))) sh then 0 else 4
               | None => 0
               end
      | Err _ => 0
      end
  end%nat.

Fixpoint mismatches7_from (i : nat) (cs : list xcase) : list (nat * nat) :=
  match cs with
  | [] => []
  | x :: rest =>
      let c := x_case x in
      (match compare schema c with
       | Differ => [(i, 1%nat)]
       | _ => if modes_agree c then
                    match internals x with O => [] | w => [(i, w)] end
                  else [(i, 2%nat)]
       end) ++ mismatches7_from (S i) rest
  end.

Definition mismatches (cs : list xcase) := mismatches7_from 0 cs.

(** cases on which the data hypotheses of C07_index_parsed hold for every backend (reported, not required:
    where they fail the comparison of the pre-selection above still applies) *)
Definition hyp_ok (x : xcase) : bool :=
  let c := x_case x in
  match parse_request schema (q_opt c) (q_lines c) with
  | Ok rq => forallb (fun bk => consistentb schema bk && store_sortedb_at bk (rq_table rq)) (q_ds c)
  | Err _ => true
  end.
Definition hyp_failed (cs : list xcase) : nat := length (filter (fun x => negb (hyp_ok x)) cs).
Definition skipped (cs : list xcase) := QE.Run.skipped (map x_case cs).
