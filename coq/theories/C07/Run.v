(** C07 stream: every case is compared with the model in its own parse mode
    (as in QE/Run.v) AND the model is evaluated in the other mode: the two model
    answers must coincide unless the documented host-name dot heuristic applies. *)
From LMD Require Export QE.Run.
From LMD Require Import Gen.Schema.
Open Scope N_scope.

Definition kv_eqb (a b : keyval) : bool :=
  match a, b with
  | KNum x, KNum y => Z.eqb x y
  | KStr x, KStr y | KCv x, KCv y => str_eqb x y
  | _, _ => false
  end.

Definition statval_eqb (a b : statval) : bool :=
  match a, b with
  | SVal x, SVal y => Z.eqb x y
  | SAvg x c, SAvg y d => Z.eqb x y && Z.eqb c d
  | _, _ => false
  end.

Definition response_eqb (a b : response) : bool :=
  match a, b with
  | RError x, RError y => N.eqb x y
  | RData r1 k1 t1 f1, RData r2 k2 t2 f2 =>
      list_eqb (list_eqb value_eqb) r1 r2 && list_eqb (list_eqb kv_eqb) k1 k2 && Nat.eqb t1 t2 && list_eqb str_eqb f1 f2
  | RStats r1 f1, RStats r2 f2 =>
      list_eqb (fun x y => key_eqb (fst x) (fst y) && list_eqb statval_eqb (snd x) (snd y)) r1 r2 && list_eqb str_eqb f1 f2
  | _, _ => false
  end.

(** the permitted deviation: a regex operator whose text (after trimming dot-star)
    contains a dot but is not recognised as a regular expression *)
Definition dot_text (v : str) : bool :=
  let val := trim_suffix (s ".*") (trim_prefix (s ".*") v) in
  existsb (N.eqb 46) val && negb (has_regex_chars val).

Definition is_regex_op (o : op) : bool :=
  match o with ORe | ONRe | OReI | ONReI => true | _ => false end.

Fixpoint filt_dot (f : filt) : bool :=
  match f with
  | FLeaf l _ => is_regex_op (lf_op l) && dot_text (lf_str l)
  | FGroup _ fs _ => existsb filt_dot fs
  end.

Definition request_dot (rq : request) : bool :=
  existsb filt_dot (rq_filter rq)
  || existsb (fun st => match st with SCounter f => filt_dot f | SAgg _ _ => false end) (rq_stats rq).

(** texts only one mode accepts (an unbalanced ')' is a substring in optimize
    mode and a syntax error for the regexp compiler) are outside the comparison *)
Definition modes_agree (c : qcase) : bool :=
  match parse_request schema false (q_lines c), parse_request schema true (q_lines c) with
  | Ok rd, Ok ro =>
      if request_dot rd then true
      else response_eqb (respond_req schema (q_cfg c) (q_ds c) rd) (respond_req schema (q_cfg c) (q_ds c) ro)
  | _, _ => true
  end.

Fixpoint mismatches7_from (i : nat) (cs : list qcase) : list (nat * nat) :=
  match cs with
  | [] => []
  | c :: rest =>
      (match compare schema c with
       | Differ => [(i, 1%nat)]
       | _ => if modes_agree c then [] else [(i, 2%nat)]
       end) ++ mismatches7_from (S i) rest
  end.

Definition mismatches (cs : list qcase) := mismatches7_from 0 cs.
Definition skipped (cs : list qcase) := QE.Run.skipped cs.
