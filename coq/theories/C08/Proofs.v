(** C08: AuthUser never reveals objects the user is not a contact of. *)
From LMD Require Import QE.Engine QE.FilterProofs C01.Proofs.

(** *** the contact relation, declaratively *)
Definition host_contact (bk : backend) (user host : str) : Prop :=
  exists td r, host_row bk host = Some (td, r) /\ In user (as_strlist (cell_or td r (s "contacts") (VStrList []))).

Definition service_contact (bk : backend) (user host svc : str) : Prop :=
  exists td r, service_row bk host svc = Some (td, r) /\ In user (as_strlist (cell_or td r (s "contacts") (VStrList []))).

(** hosts: the user is a contact of the host.  services: a contact of the
    service, or - with loose ServiceAuthorization - of its host; the host must
    exist in the cache. *)
Definition may_see (cfg : config) (bk : backend) (user host svc : str) : Prop :=
  match svc with
  | [] => host_contact bk user host
  | _ => if cfg_svc_strict cfg
         then service_contact bk user host svc
         else host_contact bk user host \/ (host_row bk host <> None /\ service_contact bk user host svc)
  end.

Lemma contacts_of_In x user :
  (exists cs, contacts_of x = Some cs /\ mem_str user cs = true) <->
  exists td r, x = Some (td, r) /\ In user (as_strlist (cell_or td r (s "contacts") (VStrList []))).
Proof.
  split.
  - intros [cs [Hc Hm]]. destruct x as [[td r]|]; [|discriminate].
    cbn in Hc; injection Hc as <-. exists td, r; split; [reflexivity|apply mem_str_In; exact Hm].
  - intros [td [r [-> Hin]]]. eexists; split; [reflexivity|apply mem_str_In; exact Hin].
Qed.

Theorem authorized_for_spec cfg bk user host svc :
  authorized_for cfg bk user host svc = true <-> may_see cfg bk user host svc.
Proof.
  unfold authorized_for, may_see, host_contact, service_contact.
  destruct svc as [|c svc].
  - (* host *)
    cbn [negb orb andb].
    destruct (host_row bk host) as [[td r]|] eqn:Hh; cbn [contacts_of].
    + destruct (mem_str user _) eqn:Hm.
      * split; [intros _|reflexivity]. exists td, r; split; [reflexivity|apply mem_str_In; exact Hm].
      * split; [discriminate|]. intros [td' [r' [Heq Hin]]]. injection Heq as <- <-.
        apply mem_str_In in Hin; congruence.
    + split; [discriminate|]. intros [td' [r' [Heq _]]]; discriminate.
  - (* service *)
    cbn [negb orb andb].
    destruct (cfg_svc_strict cfg); cbn [negb andb orb].
    + (* strict: service contacts only *)
      destruct (service_row bk host (c :: svc)) as [[td r]|] eqn:Hs; cbn [contacts_of].
      * destruct (mem_str user _) eqn:Hm.
        -- split; [intros _|reflexivity]. exists td, r; split; [reflexivity|apply mem_str_In; exact Hm].
        -- split; [discriminate|]. intros [td' [r' [Heq Hin]]]. injection Heq as <- <-.
           apply mem_str_In in Hin; congruence.
      * split; [discriminate|]. intros [td' [r' [Heq _]]]; discriminate.
    + (* loose *)
      destruct (host_row bk host) as [[htd hr]|] eqn:Hh; cbn [contacts_of].
      * destruct (mem_str user (as_strlist (cell_or htd hr (s "contacts") (VStrList [])))) eqn:Hm.
        -- split; [intros _|reflexivity]. left. exists htd, hr; split; [reflexivity|apply mem_str_In; exact Hm].
        -- destruct (service_row bk host (c :: svc)) as [[td r]|] eqn:Hs; cbn [contacts_of].
           ++ destruct (mem_str user (as_strlist (cell_or td r (s "contacts") (VStrList [])))) eqn:Hm2.
              ** split; [intros _|reflexivity]. right. split; [discriminate|].
                 exists td, r; split; [reflexivity|apply mem_str_In; exact Hm2].
              ** split; [discriminate|]. intros [[td' [r' [Heq Hin]]]|[_ [td' [r' [Heq Hin]]]]].
                 --- injection Heq as <- <-. apply mem_str_In in Hin; congruence.
                 --- injection Heq as <- <-. apply mem_str_In in Hin; congruence.
           ++ split; [discriminate|]. intros [[td' [r' [Heq Hin]]]|[_ [td' [r' [Heq _]]]]].
              ** injection Heq as <- <-. apply mem_str_In in Hin; congruence.
              ** discriminate.
      * split; [discriminate|]. intros [[td' [r' [Heq _]]]|[Hne _]]; [discriminate|congruence].
Qed.

(** group rule: loose = some member visible, strict = every member of a non-empty group *)
Lemma group_rule_spec strict (ms : list bool) :
  group_rule strict ms = true <->
  if strict then ms <> [] /\ Forall (fun b => b = true) ms else Exists (fun b => b = true) ms.
Proof.
  unfold group_rule. destruct strict.
  - destruct ms as [|m ms]; [split; [discriminate|intros [H _]; congruence]|].
    rewrite forallb_forall, Forall_forall. split.
    + intros H; split; [discriminate|exact H].
    + intros [_ H]; exact H.
  - rewrite existsb_exists, Exists_exists. split; intros [b [Hin Hb]]; exists b; auto.
Qed.

(** tables without contacts are unaffected by AuthUser *)
Definition auth_tables : list str :=
  [s "hosts"; s "services"; s "hostgroups"; s "servicegroups"; s "hostsbygroup"; s "servicesbygroup";
   s "servicesbyhostgroup"; s "comments"; s "downtimes"].

Lemma check_auth_other_tables cfg bk t td r user :
  mem_str (t_name t) auth_tables = false -> check_auth cfg bk t td r user = true.
Proof.
  intros Hn. unfold check_auth. destruct user as [|c user]; [reflexivity|].
  unfold auth_tables, mem_str in Hn. cbn [existsb] in Hn.
  repeat (apply orb_false_iff in Hn; destruct Hn as [? Hn]).
  repeat match goal with H : str_eqb (t_name t) ?x = false |- _ => rewrite H; clear H end.
  reflexivity.
Qed.

Lemma check_auth_no_user cfg bk t td r : check_auth cfg bk t td r [] = true.
Proof. reflexivity. Qed.

(** soundness and completeness of the row selection w.r.t. check_auth *)
Lemma selected_iff schema cfg rq bk td r :
  row_selected schema cfg rq bk td r = true <->
  forallb (fun f => sem (mkctx schema bk (rq_table rq) td r) f) (rq_filter rq) = true /\
  check_auth cfg bk (rq_table rq) td r (rq_authuser rq) = true.
Proof. rewrite row_selected_is_spec. unfold row_selected_spec. apply andb_true_iff. Qed.

Lemma reference_rows_In schema cfg ds rq row :
  In row (reference_rows schema cfg ds rq) <->
  exists bk td r, In bk (filter (contributes rq) (selected_backends ds rq)) /\
                  table_data bk (rq_table rq) = Some td /\ In r (td_rows td) /\
                  row_selected_spec schema cfg rq bk td r = true /\ row = out_row schema rq bk td r.
Proof.
  unfold reference_rows. rewrite in_flat_map. split.
  - intros [bk [Hbk Hin]]. destruct (table_data bk (rq_table rq)) as [td|] eqn:Htd; [|contradiction].
    apply in_map_iff in Hin as [r [<- Hr]]. apply filter_In in Hr as [Hr Hsel].
    exists bk, td, r; repeat split; assumption.
  - intros [bk [td [r [Hbk [Htd [Hr [Hsel ->]]]]]]]. exists bk; split; [assumption|].
    rewrite Htd. apply in_map, filter_In; split; assumption.
Qed.
