(** C08 — AuthUser never reveals objects the user is not a contact of.
    Statements only; proofs in C08/Proofs.v (and C01/Proofs.v). *)
From LMD Require Import QE.Engine C01.Proofs C08.Proofs.

(** The contact rule the implementation evaluates is the declarative relation
    [may_see] (hosts: contact of the host; services: contact of the service, or
    with loose ServiceAuthorization of its host), for every dataset. *)
Theorem C08_contact_rule :
  forall cfg bk user host svc, authorized_for cfg bk user host svc = true <-> may_see cfg bk user host svc.
Proof. exact authorized_for_spec. Qed.

Theorem C08_group_rule :
  forall strict (ms : list bool),
    group_rule strict ms = true <->
    if strict then ms <> [] /\ Forall (fun b => b = true) ms else Exists (fun b => b = true) ms.
Proof. exact group_rule_spec. Qed.

(** Soundness and completeness: a row is in the response of a request without
    Sort/Limit/Offset exactly if it is a row of a selected, available backend
    that satisfies the filters and that the AuthUser may see. *)
Theorem C08_sound_and_complete :
  forall schema cfg ds rq row,
    rq_sort rq = [] -> rq_limit rq = None -> rq_offset rq = 0%Z ->
    (In row (map h_out (fst (data_result schema cfg ds rq))) <->
     exists bk td r, In bk (filter (contributes rq) (selected_backends ds rq)) /\
                     table_data bk (rq_table rq) = Some td /\ In r (td_rows td) /\
                     forallb (fun f => sem (mkctx schema bk (rq_table rq) td r) f) (rq_filter rq) = true /\
                     check_auth cfg bk (rq_table rq) td r (rq_authuser rq) = true /\
                     row = out_row schema rq bk td r).
Proof.
  intros schema cfg ds rq row Hs Hl Ho.
  destruct (data_result_plain schema cfg ds rq Hs Hl Ho) as [Hrows _]. rewrite Hrows.
  rewrite reference_rows_In. split.
  - intros [bk [td [r [H1 [H2 [H3 [H4 H5]]]]]]]. unfold row_selected_spec in H4.
    apply andb_true_iff in H4 as [H4a H4b]. exists bk, td, r. repeat split; assumption.
  - intros [bk [td [r [H1 [H2 [H3 [H4 [H5 H6]]]]]]]]. exists bk, td, r. repeat split; try assumption.
    unfold row_selected_spec. apply andb_true_iff; split; assumption.
Qed.

(** Stats count exactly the selected rows: the rows the accumulators of a
    backend see are the rows [row_selected] accepts (same predicate as for data). *)
Theorem C08_stats_same_selection :
  forall schema cfg rq bk td r,
    row_selected schema cfg rq bk td r = true <->
    forallb (fun f => sem (mkctx schema bk (rq_table rq) td r) f) (rq_filter rq) = true /\
    check_auth cfg bk (rq_table rq) td r (rq_authuser rq) = true.
Proof. exact selected_iff. Qed.

(** Tables that carry no contacts are unaffected; no AuthUser = no restriction. *)
Theorem C08_other_tables_unaffected :
  forall cfg bk t td r user, mem_str (t_name t) auth_tables = false -> check_auth cfg bk t td r user = true.
Proof. exact check_auth_other_tables. Qed.

Theorem C08_no_authuser :
  forall cfg bk t td r, check_auth cfg bk t td r [] = true.
Proof. exact check_auth_no_user. Qed.

(** non-vacuity: strict service authorisation hides a service whose host contact is the user *)
Example C08_example :
  let hosts := mkData (s "hosts") [s "name"; s "contacts"] [[VStr (s "h"); VStrList [s "alice"]]] in
  let svcs := mkData (s "services") [s "host_name"; s "description"; s "contacts"]
                [[VStr (s "h"); VStr (s "ping"); VStrList [s "bob"]]] in
  let bk := mkBackend (s "a") (s "a") 0 true [] [hosts; svcs] in
  authorized_for (mkCfg false true) bk (s "alice") (s "h") (s "ping") = true /\
  authorized_for (mkCfg true true) bk (s "alice") (s "h") (s "ping") = false /\
  authorized_for (mkCfg true true) bk (s "bob") (s "h") (s "ping") = true.
Proof. vm_compute. repeat split. Qed.

Print Assumptions C08_contact_rule.
Print Assumptions C08_group_rule.
Print Assumptions C08_sound_and_complete.
Print Assumptions C08_stats_same_selection.
Print Assumptions C08_other_tables_unaffected.
Print Assumptions C08_no_authuser.
