(** C09: obligations about the GENERATED tables (Gen/Dispatch.v, Gen/Schema.v),
    closed by computation over the finite domain and re-checked whenever
    `lmdverif gen` prints a different table. *)
From LMD Require Import Base.Str QE.SchemaTypes Gen.Schema Gen.Dispatch C09.Types C09.Model C09.Proofs.
Open Scope N_scope.

(** readable rendering of the entries an obligation fails on *)
Definition show (x : str) : String.string :=
  String.string_of_list_ascii (map (fun c => Ascii.ascii_of_N (if c <? 128 then c else 63)) x).

Inductive shown := Entry (table column : String.string) (u : usage) (what : String.string).

Definition show_entry (e : dentry) : shown :=
  Entry (show (d_table e)) (show (d_col e))
        (match d_usage e with UShape n => UShape [] | u => u end)
        (match d_out e, d_usage e with
         | OPanic site, UShape n => String.append (show n) (String.append ": panic " (show site))
         | OPanic site, _ => String.append "panic " (show site)
         | OHang, _ => "no answer"
         | _, _ => "" end).

(** the panic / no-answer entries of the matrix, one per distinct site; [] when the obligations below hold *)
Definition site_of (e : dentry) : str := match d_out e with OPanic site => site | _ => [] end.

Fixpoint distinct_sites (seen : list str) (l : list dentry) : list dentry :=
  match l with
  | [] => []
  | e :: r => if mem_str (site_of e) seen then distinct_sites seen r else e :: distinct_sites (site_of e :: seen) r
  end.

Eval vm_compute in (length (bad_entries matrix), map show_entry (firstn 40 (distinct_sites [] (bad_entries matrix)))).

Lemma matrix_ok : forallb entry_ok (flatten matrix) = true.
Proof. vm_compute. reflexivity. Qed.

Lemma matrix_no_bad_entries : bad_entries matrix = [].
Proof. vm_compute. reflexivity. Qed.

(** the matrix covers the schema: every table that is answered from the cache
    (everything but the pass-through table log) x every column (an entry of its
    own, not the fallback) x every usage kind, plus the fallback entry *)
Definition usages_covered (cols : list centry) (c : str) : bool :=
  match find_assoc c cols with
  | None => false
  | Some us => forallb (fun u => is_some (find_usage u us)) column_usages
  end.

Definition covered (t : tschema) : bool :=
  t_passthrough t ||
  match find_assoc (t_name t) matrix with
  | None => false
  | Some cols => forallb (fun c => usages_covered cols (c_name c)) (t_cols t) && usages_covered cols unknown_col
  end.

Eval vm_compute in (map (fun t => show (t_name t)) (filter (fun t => negb (covered t)) schema)).

Lemma matrix_covers_schema : forallb covered schema = true.
Proof. vm_compute. reflexivity. Qed.

(** [covered] in terms of [lookup]: every such triple is in the measured domain *)
Lemma covered_lookup (t : tschema) (c : column) (u : usage) :
  covered t = true -> t_passthrough t = false -> In c (t_cols t) -> In u column_usages ->
  lookup matrix (t_name t) (c_name c) u <> None.
Proof.
  unfold covered, lookup. intros Hc Hp Hin Hu. rewrite Hp in Hc. cbn [orb] in Hc.
  destruct (find_assoc (t_name t) matrix) as [cols|]; [|discriminate].
  apply andb_true_iff in Hc as [Hc _]. rewrite forallb_forall in Hc. specialize (Hc c Hin).
  unfold usages_covered in Hc. destruct (find_assoc (c_name c) cols) as [us|]; [|discriminate].
  rewrite forallb_forall in Hc. specialize (Hc u Hu).
  destruct (find_usage u us); [discriminate|discriminate].
Qed.
