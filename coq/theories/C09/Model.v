(** C09: no request and no backend reply can take the daemon down.

    Two total functions:

    - [handle]: the request path as a dispatch over the GENERATED matrix
      (Gen/Dispatch.v: table x column x usage kind -> what the real code did).
      A request is a table and a list of (usage, column) pairs - the header
      lines it consists of.  It panics iff one of its pairs is a panic entry
      of the matrix (every getter / sorter / writer panic of lmd is selected
      by the column's type and the header kind, pkg/lmd/datarow.go,
      filter.go, rawresultset.go, response.go).  Entries outside the
      measured domain count as panics (unknown = may panic).

    - [ingest]: the reply path of a backend query (pkg/lmd/peer.go
      parseResponseFixedSize / parseResponseHeader / validateResponseHeader,
      request.go parseResult, then the consumers that index the rows:
      resultset.go SortByPrimaryKey, datastore.go prepareDataUpdateSet,
      datastoreset.go getMissingTimestamps / updateDeltaCommentsOrDowntimes /
      maxIDOrSizeChanged, datarow.go checkChangedIntValues).  Row indexing is
      partial ([cell_at]): an index beyond the row is a panic.  [ingest]
      checks the row width before any row is indexed and does not allocate
      what the header announces but what arrives; [ingest_pinned] is the
      pinned tree (no width check on the update path, [make([]byte, 0, n)]
      for the announced [n]).

    Definitions only; proofs in Proofs.v. *)
From LMD Require Export Base.Str C09.Types.
Open Scope N_scope.

Inductive Outcome := Resp (code : N) | BackendFailed | Closed | Panic (site : str).

(** * Request path *)

Definition find_assoc {A} (k : str) (l : list (str * A)) : option A :=
  match find (fun e => str_eqb (fst e) k) l with
  | Some e => Some (snd e)
  | None => None
  end.

Definition find_usage (u : usage) (l : list (usage * outcome)) : option outcome :=
  match find (fun e => usage_eqb (fst e) u) l with
  | Some e => Some (snd e)
  | None => None
  end.

(** the entry that stands for every column name a table does not know
    (Table.GetColumnWithFallback -> GetEmptyColumn) *)
Definition unknown_col : str := s "verif_no_such_column".

Definition lookup (m : list tentry) (t c : str) (u : usage) : option outcome :=
  match find_assoc t m with
  | None => None
  | Some cols =>
      match find_assoc c cols with
      | Some us => find_usage u us
      | None =>
          match find_assoc unknown_col cols with
          | Some us => find_usage u us
          | None => None
          end
      end
  end.

Record request := mkReq { r_table : str; r_items : list (usage * str) }.

(** what one header line does *)
Definition item_outcome (m : list tentry) (t : str) (it : usage * str) : Outcome :=
  match lookup m t (snd it) (fst it) with
  | Some OOk => Resp 200
  | Some OBad => Resp 400
  | Some (OPanic site) => Panic site
  | Some OHang => Panic (s "no answer")
  | None => Panic (s "outside the measured domain")
  end.

Definition is_panic (o : Outcome) : bool := match o with Panic _ => true | _ => false end.
Definition is_bad (o : Outcome) : bool := match o with Resp 200 => false | _ => true end.

(** the request as a whole: the first panicking line ends the daemon, else
    the first rejected line makes it a bad request *)
Definition combine (outs : list Outcome) : Outcome :=
  match find is_panic outs with
  | Some p => p
  | None => if existsb is_bad outs then Resp 400 else Resp 200
  end.

Definition handle (m : list tentry) (r : request) : Outcome :=
  match find_assoc (r_table r) m with
  | None => Resp 400                       (* NewTableName: table does not exist *)
  | Some _ => combine (map (item_outcome m (r_table r)) (r_items r))
  end.

(** "built from the matrix's domain" *)
Definition in_domain (m : list tentry) (r : request) : Prop :=
  Forall (fun it => lookup m (r_table r) (snd it) (fst it) <> None) (r_items r).

Definition entry_ok (e : dentry) : bool :=
  match d_out e with OOk | OBad => true | _ => false end.

(** the entries a proof obligation fails on (printed by Props.v) *)
Definition bad_entries (m : list tentry) : list dentry := filter (fun e => negb (entry_ok e)) (flatten m).

(** the usage kinds every column is measured with *)
Definition all_fops : list fop := [OpEq; OpRe; OpReI; OpLt; OpGe; OpNotGe; OpEqI].
Definition column_usages : list usage :=
  [UColJson; UColWrapped]
  ++ flat_map (fun o => [UFilter o true; UFilter o false]) all_fops
  ++ [UStatsAgg ASum; UStatsAgg AAvg; UStatsAgg AMin; UStatsAgg AMax;
      UStatsCounter; UGroupKey; USort false; USort true; UWaitCond].

Definition is_some {A} (o : option A) : bool := match o with Some _ => true | None => false end.

(** * Reply path *)

Definition is_digit (b : N) : bool := (48 <=? b) && (b <=? 57).
(** Go regexp [\s]: \t \n \f \r and space *)
Definition is_space (b : N) : bool :=
  (b =? 9) || (b =? 10) || (b =? 12) || (b =? 13) || (b =? 32).

Fixpoint span (p : N -> bool) (l : list N) : list N * list N :=
  match l with
  | [] => ([], [])
  | x :: r => if p x then let (a, b) := span p r in (x :: a, b) else ([], l)
  end.

Definition digits_val (ds : list N) : N := fold_left (fun acc d => acc * 10 + (d - 48)) ds 0.

Definition max_int64 : N := 9223372036854775807.

(** peer.go parseResponseHeader: [^(\d+)\s+(\d+)$] on the first 15 of 16
    header bytes, both numbers must fit an int64 *)
Definition parse_header (h : list N) : option (N * N) :=
  if (length h <? 16)%nat then None else
  let (d1, r1) := span is_digit (firstn 15 h) in
  let (sp, r2) := span is_space r1 in
  let (d2, r3) := span is_digit r2 in
  match d1, sp, d2, r3 with
  | _ :: _, _ :: _, _ :: _, [] =>
      let code := digits_val d1 in
      let size := digits_val d2 in
      if (code <=? max_int64) && (size <=? max_int64) then Some (code, size) else None
  | _, _, _, _ => None
  end.

(** partial row indexing: Go's [row[i]] *)
Definition cell := N.
Definition cell_at (r : list cell) (i : nat) : option cell := nth_error r i.

(** a consumer of the decoded rows reads the cells [idxs] of every row *)
Fixpoint use_row (r : list cell) (idxs : list nat) : option str :=
  match idxs with
  | [] => None
  | i :: rest =>
      match cell_at r i with
      | None => Some (s "index out of range")
      | Some _ => use_row r rest
      end
  end.

Fixpoint use_rows (rows : list (list cell)) (idxs : list nat) : option str :=
  match rows with
  | [] => None
  | r :: rest =>
      match use_row r idxs with
      | Some site => Some site
      | None => use_rows rest idxs
      end
  end.

Section Ingest.
  (** the third-party JSON decoders (jsonparser, djson): any function *)
  Variable decode : list N -> option (list (list cell)).
  (** number of requested columns / stats and the cells the consumer reads *)
  Variable width : nat.
  Variable idxs : list nat.
  (** bytes the process may allocate for one reply *)
  Variable mem_limit : N.

  (** [checked]: the repaired reply path; [false]: the pinned one *)
  Definition ingest_gen (checked : bool) (reply : list N) : Outcome :=
    match parse_header (firstn 16 reply) with
    | None => BackendFailed                                   (* incomplete / incorrect response header *)
    | Some (code, size) =>
        let rest := skipn 16 reply in
        let body := firstn (N.to_nat (N.min size (N.of_nat (length rest)))) rest in   (* io.CopyN until EOF *)
        let alloc := if checked then N.of_nat (length body) else size in
        if mem_limit <? alloc then Panic (s "out of memory")
        else if negb (code =? 200) then BackendFailed          (* bad response code *)
        else if negb (N.of_nat (length body) =? size) then BackendFailed   (* bad response size *)
        else
          match decode body with
          | None => BackendFailed                              (* json parse error *)
          | Some rows =>
              if checked && negb (forallb (fun r => Nat.eqb (length r) width) rows) then BackendFailed
              else
                match use_rows rows idxs with
                | Some site => Panic site
                | None => Resp 200
                end
          end
    end.

  Definition ingest := ingest_gen true.
  Definition ingest_pinned := ingest_gen false.
End Ingest.
