(** C09: proofs about the dispatch model and the reply path model. *)
From LMD Require Import Base.Str C09.Types C09.Model.
Open Scope N_scope.

(** * lookups land on entries of the flattened matrix *)

Lemma find_assoc_In {A} (k : str) (l : list (str * A)) (v : A) :
  find_assoc k l = Some v -> exists k', In (k', v) l.
Proof.
  unfold find_assoc. destruct (find _ l) as [e|] eqn:Hf; [|discriminate].
  intros H; injection H as <-. apply find_some in Hf as [Hin _].
  exists (fst e). destruct e; exact Hin.
Qed.

Lemma find_usage_In (u : usage) (l : list (usage * outcome)) (o : outcome) :
  find_usage u l = Some o -> exists u', In (u', o) l.
Proof.
  unfold find_usage. destruct (find _ l) as [e|] eqn:Hf; [|discriminate].
  intros H; injection H as <-. apply find_some in Hf as [Hin _].
  exists (fst e). destruct e; exact Hin.
Qed.

Lemma flatten_In (m : list tentry) t cols c us u o :
  In (t, cols) m -> In (c, us) cols -> In (u, o) us -> In (mkD t c u o) (flatten m).
Proof.
  intros Ht Hc Hu. unfold flatten. apply in_flat_map. exists (t, cols). split; [exact Ht|].
  apply in_flat_map. exists (c, us). split; [exact Hc|].
  apply in_map_iff. exists (u, o). split; [reflexivity|exact Hu].
Qed.

Lemma lookup_entry (m : list tentry) t c u o :
  lookup m t c u = Some o -> exists e, In e (flatten m) /\ d_out e = o.
Proof.
  unfold lookup. destruct (find_assoc t m) as [cols|] eqn:Ht; [|discriminate].
  apply find_assoc_In in Ht as [t' Ht].
  destruct (find_assoc c cols) as [us|] eqn:Hc.
  - apply find_assoc_In in Hc as [c' Hc]. intros Hu. apply find_usage_In in Hu as [u' Hu].
    exists (mkD t' c' u' o). split; [eapply flatten_In; eassumption|reflexivity].
  - destruct (find_assoc unknown_col cols) as [us|] eqn:Hc'; [|discriminate].
    apply find_assoc_In in Hc' as [c' Hc']. intros Hu. apply find_usage_In in Hu as [u' Hu].
    exists (mkD t' c' u' o). split; [eapply flatten_In; eassumption|reflexivity].
Qed.

Lemma lookup_ok (m : list tentry) :
  forallb entry_ok (flatten m) = true ->
  forall t c u o, lookup m t c u = Some o -> o = OOk \/ o = OBad.
Proof.
  intros Hall t c u o Hl. apply lookup_entry in Hl as [e [Hin <-]].
  rewrite forallb_forall in Hall. specialize (Hall e Hin).
  unfold entry_ok in Hall. destruct (d_out e); try discriminate; auto.
Qed.

(** * the request path *)

Lemma item_outcome_ok (m : list tentry) t it :
  forallb entry_ok (flatten m) = true ->
  lookup m t (snd it) (fst it) <> None ->
  is_panic (item_outcome m t it) = false.
Proof.
  intros Hall Hdom. unfold item_outcome.
  destruct (lookup m t (snd it) (fst it)) as [o|] eqn:Hl; [|congruence].
  destruct (lookup_ok m Hall _ _ _ _ Hl) as [-> | ->]; reflexivity.
Qed.

Lemma combine_panic (outs : list Outcome) site :
  combine outs = Panic site -> In (Panic site) outs.
Proof.
  unfold combine. destruct (find is_panic outs) as [p|] eqn:Hf.
  - intros ->. apply find_some in Hf as [Hin _]. exact Hin.
  - destruct (existsb is_bad outs); discriminate.
Qed.

Lemma combine_panic_iff (outs : list Outcome) :
  (exists site, combine outs = Panic site) <-> existsb is_panic outs = true.
Proof.
  split.
  - intros [site H]. apply combine_panic in H. apply existsb_exists.
    exists (Panic site). split; [exact H|reflexivity].
  - intros H. apply existsb_exists in H as [p [Hin Hp]]. unfold combine.
    destruct (find is_panic outs) as [q|] eqn:Hf.
    + apply find_some in Hf as [_ Hq]. destruct q; try discriminate. eexists; reflexivity.
    + pose proof (find_none _ _ Hf _ Hin) as Hn. congruence.
Qed.

Lemma handle_no_panic (m : list tentry) :
  forallb entry_ok (flatten m) = true ->
  forall r, in_domain m r -> forall site, handle m r <> Panic site.
Proof.
  intros Hall r Hdom site. unfold handle.
  destruct (find_assoc (r_table r) m) as [cols|]; [|discriminate].
  intros H. apply combine_panic in H. apply in_map_iff in H as [it [Hit Hin]].
  unfold in_domain in Hdom. rewrite Forall_forall in Hdom.
  pose proof (item_outcome_ok m (r_table r) it Hall (Hdom it Hin)) as Hok.
  rewrite Hit in Hok. discriminate.
Qed.

(** a request panics iff one of its lines is a panic entry (or unmeasured) *)
Lemma handle_panic_iff (m : list tentry) (r : request) :
  (exists site, handle m r = Panic site) <->
  find_assoc (r_table r) m <> None /\
  exists it, In it (r_items r) /\ is_panic (item_outcome m (r_table r) it) = true.
Proof.
  unfold handle. destruct (find_assoc (r_table r) m) as [cols|].
  - rewrite combine_panic_iff, existsb_exists. split.
    + intros [o [Hin Ho]]. split; [discriminate|].
      apply in_map_iff in Hin as [it [<- Hin]]. exists it. split; assumption.
    + intros [_ [it [Hin Ho]]]. exists (item_outcome m (r_table r) it). split; [|exact Ho].
      apply in_map_iff. exists it. split; [reflexivity|exact Hin].
  - split; [intros [site H]; discriminate|intros [H _]; congruence].
Qed.

(** a request without panic is answered: 200 or 400 *)
Lemma handle_answered (m : list tentry) (r : request) :
  (forall site, handle m r <> Panic site) -> handle m r = Resp 200 \/ handle m r = Resp 400.
Proof.
  unfold handle. destruct (find_assoc (r_table r) m) as [cols|]; [|auto].
  unfold combine. destruct (find is_panic _) as [p|] eqn:Hf.
  - apply find_some in Hf as [_ Hp]. destruct p; try discriminate. intros H. exfalso. eapply H; reflexivity.
  - intros _. destruct (existsb is_bad _); auto.
Qed.

(** * the reply path *)

Lemma use_row_None (r : list cell) (idxs : list nat) :
  Forall (fun i => (i < length r)%nat) idxs -> use_row r idxs = None.
Proof.
  induction idxs as [|i rest IH]; intros Hall; cbn [use_row]; [reflexivity|].
  inversion Hall as [|? ? Hi Hrest]; subst.
  unfold cell_at. destruct (nth_error r i) eqn:Hn.
  - apply IH; exact Hrest.
  - apply nth_error_None in Hn. lia.
Qed.

Lemma use_rows_None (rows : list (list cell)) (idxs : list nat) (width : nat) :
  forallb (fun r => Nat.eqb (length r) width) rows = true ->
  Forall (fun i => (i < width)%nat) idxs ->
  use_rows rows idxs = None.
Proof.
  intros Hw Hidx. induction rows as [|r rest IH]; cbn [use_rows]; [reflexivity|].
  cbn [forallb] in Hw. apply andb_true_iff in Hw as [Hr Hrest].
  apply Nat.eqb_eq in Hr. rewrite use_row_None; [apply IH; exact Hrest|].
  rewrite Hr. exact Hidx.
Qed.

Lemma body_length_le (size : N) (rest : list N) :
  N.of_nat (length (firstn (N.to_nat (N.min size (N.of_nat (length rest)))) rest)) <= N.of_nat (length rest).
Proof. rewrite firstn_length. lia. Qed.

Lemma ingest_no_panic (decode : list N -> option (list (list cell))) (width : nat) (idxs : list nat)
      (mem_limit : N) (reply : list N) :
  Forall (fun i => (i < width)%nat) idxs ->
  N.of_nat (length reply) <= mem_limit ->
  forall site, ingest decode width idxs mem_limit reply <> Panic site.
Proof.
  intros Hidx Hmem site. unfold ingest, ingest_gen.
  destruct (parse_header (firstn 16 reply)) as [[code size]|]; [|discriminate].
  set (rest := skipn 16 reply).
  set (body := firstn (N.to_nat (N.min size (N.of_nat (length rest)))) rest).
  assert (Hb : N.of_nat (length body) <= mem_limit).
  { pose proof (body_length_le size rest) as H1. fold body in H1.
    assert (H2 : (length rest <= length reply)%nat) by (unfold rest; rewrite skipn_length; lia).
    lia. }
  destruct (mem_limit <? N.of_nat (length body)) eqn:Hlt; [apply N.ltb_lt in Hlt; lia|].
  destruct (negb (code =? 200)); [discriminate|].
  destruct (negb (N.of_nat (length body) =? size)); [discriminate|].
  destruct (decode body) as [rows|]; [|discriminate].
  cbn [andb]. destruct (forallb (fun r => Nat.eqb (length r) width) rows) eqn:Hw; cbn [negb]; [|discriminate].
  rewrite (use_rows_None rows idxs width Hw Hidx). discriminate.
Qed.

(** what [ingest] answers: failed backend or accepted *)
Lemma ingest_outcome (decode : list N -> option (list (list cell))) (width : nat) (idxs : list nat)
      (mem_limit : N) (reply : list N) :
  Forall (fun i => (i < width)%nat) idxs ->
  N.of_nat (length reply) <= mem_limit ->
  ingest decode width idxs mem_limit reply = BackendFailed \/
  ingest decode width idxs mem_limit reply = Resp 200.
Proof.
  intros Hidx Hmem. pose proof (ingest_no_panic decode width idxs mem_limit reply Hidx Hmem) as Hnp.
  revert Hnp. unfold ingest, ingest_gen.
  destruct (parse_header (firstn 16 reply)) as [[code size]|]; [|auto].
  destruct (mem_limit <? _); [intros H; exfalso; eapply H; reflexivity|].
  destruct (negb (code =? 200)); [auto|].
  destruct (negb (_ =? size)); [auto|].
  destruct (decode _) as [rows|]; [|auto].
  destruct (true && negb _); [auto|].
  destruct (use_rows rows idxs); [intros H; exfalso; eapply H; reflexivity|auto].
Qed.

(** the header parser accepts exactly [digits spaces digits] in 15 bytes *)
Lemma span_app (p : N -> bool) (l : list N) : fst (span p l) ++ snd (span p l) = l.
Proof.
  induction l as [|x r IH]; cbn [span]; [reflexivity|].
  destruct (p x); [|reflexivity]. destruct (span p r) as [a b]. cbn [fst snd app] in *. rewrite IH. reflexivity.
Qed.

Lemma span_all (p : N -> bool) (l : list N) : forallb p (fst (span p l)) = true.
Proof.
  induction l as [|x r IH]; cbn [span]; [reflexivity|].
  destruct (p x) eqn:Hp; [|reflexivity]. destruct (span p r) as [a b]. cbn [fst forallb] in *. rewrite Hp, IH. reflexivity.
Qed.

Lemma parse_header_shape (h : list N) (code size : N) :
  parse_header h = Some (code, size) ->
  exists d1 sp d2, firstn 15 h = d1 ++ sp ++ d2 /\ d1 <> [] /\ sp <> [] /\ d2 <> [] /\
    forallb is_digit d1 = true /\ forallb is_space sp = true /\ forallb is_digit d2 = true /\
    code = digits_val d1 /\ size = digits_val d2 /\ code <= max_int64 /\ size <= max_int64.
Proof.
  unfold parse_header. destruct (length h <? 16)%nat; [discriminate|].
  pose proof (span_app is_digit (firstn 15 h)) as A1. pose proof (span_all is_digit (firstn 15 h)) as B1.
  destruct (span is_digit (firstn 15 h)) as [d1 r1]. cbn [fst snd] in A1, B1.
  pose proof (span_app is_space r1) as A2. pose proof (span_all is_space r1) as B2.
  destruct (span is_space r1) as [sp r2]. cbn [fst snd] in A2, B2.
  pose proof (span_app is_digit r2) as A3. pose proof (span_all is_digit r2) as B3.
  destruct (span is_digit r2) as [d2 r3]. cbn [fst snd] in A3, B3.
  destruct d1 as [|x1 d1]; [discriminate|]. destruct sp as [|x2 sp]; [discriminate|].
  destruct d2 as [|x3 d2]; [discriminate|]. destruct r3; [|discriminate].
  destruct ((digits_val (x1 :: d1) <=? max_int64) && (digits_val (x3 :: d2) <=? max_int64)) eqn:Hr; [|discriminate].
  intros H; injection H as <- <-. apply andb_true_iff in Hr as [H1 H2].
  apply N.leb_le in H1. apply N.leb_le in H2.
  exists (x1 :: d1), (x2 :: sp), (x3 :: d2).
  rewrite app_nil_r in A3. subst r2. subst r1.
  repeat split; try assumption; try discriminate. symmetry; exact A1.
Qed.

(** the pinned reply path panics: a row shorter than the requested columns; an
    announced size beyond memory although only 20 bytes arrive *)
Lemma pinned_refuted :
  (exists decode reply, ingest_pinned decode 2 [0; 1]%nat 1000000 reply = Panic (s "index out of range")) /\
  (exists decode reply, N.of_nat (length reply) <= 1000000 /\
                        ingest_pinned decode 2 [0; 1]%nat 1000000 reply = Panic (s "out of memory")).
Proof.
  split.
  - exists (fun _ => Some [[1]]), (s "200           5" ++ [10] ++ s "[[1]]"). vm_compute. reflexivity.
  - exists (fun _ => None), (s "200 99999999999" ++ [10] ++ s "[[]]"). split; [vm_compute; discriminate|vm_compute; reflexivity].
Qed.
