(** C09: no request and no backend reply can take the daemon down.
    Only statements, each closed by [exact]; proofs live in Proofs.v (models)
    and GenProofs.v (obligations about the generated tables). *)
From LMD Require Import Base.Str QE.SchemaTypes Gen.Schema Gen.Dispatch C09.Types C09.Model C09.Proofs C09.GenProofs.
Open Scope N_scope.

(** The generated dispatch matrix (every table x every column x every usage
    kind + the request level shapes, measured on the real request path)
    contains no panic and no unanswered entry. *)
Theorem C09_matrix_no_panic_entry : bad_entries matrix = [].
Proof. exact matrix_no_bad_entries. Qed.

(** The matrix is complete for the schema the code declares now (Gen/Schema.v):
    every table but the pass-through table log, every column, every usage kind
    is in the measured domain. A new table, column or column type without
    measured entry breaks this. *)
Theorem C09_matrix_covers_schema :
  forall (t : tschema) (c : column) (u : usage),
    In t schema -> t_passthrough t = false -> In c (t_cols t) -> In u column_usages ->
    lookup matrix (t_name t) (c_name c) u <> None.
Proof.
  exact (fun t c u Ht => covered_lookup t c u (proj1 (forallb_forall covered schema) matrix_covers_schema t Ht)).
Qed.

(** No request built from the matrix's domain - any table, any list of header
    lines (usage kind, column name; unknown column names included) - ends in a
    panic, i.e. in logPanicExit*/os.Exit. *)
Theorem C09_no_panic_request :
  forall r : request, in_domain matrix r -> forall site, handle matrix r <> Panic site.
Proof. exact (handle_no_panic matrix matrix_ok). Qed.

(** ... it is answered, with 200 or as a bad request. *)
Theorem C09_request_answered :
  forall r : request, in_domain matrix r -> handle matrix r = Resp 200 \/ handle matrix r = Resp 400.
Proof. exact (fun r Hd => handle_answered matrix r (handle_no_panic matrix matrix_ok r Hd)). Qed.

(** A request panics exactly when one of its lines is a panic entry. *)
Theorem C09_panic_iff_panic_entry :
  forall (m : list tentry) (r : request),
    (exists site, handle m r = Panic site) <->
    find_assoc (r_table r) m <> None /\
    exists it, In it (r_items r) /\ is_panic (item_outcome m (r_table r) it) = true.
Proof. exact handle_panic_iff. Qed.

(** No byte string a backend returns makes the reply path panic: whatever the
    JSON decoders make of the body ([decode] is arbitrary), whatever width the
    rows have, whatever size the header announces - as long as the cells the
    consumer reads are among the requested columns and the bytes that really
    arrived fit into memory. *)
Theorem C09_no_panic_reply :
  forall (decode : list N -> option (list (list cell))) (width : nat) (idxs : list nat) (mem_limit : N)
         (reply : list N),
    Forall (fun i => (i < width)%nat) idxs ->
    N.of_nat (length reply) <= mem_limit ->
    forall site, ingest decode width idxs mem_limit reply <> Panic site.
Proof. exact ingest_no_panic. Qed.

Theorem C09_reply_failed_or_accepted :
  forall (decode : list N -> option (list (list cell))) (width : nat) (idxs : list nat) (mem_limit : N)
         (reply : list N),
    Forall (fun i => (i < width)%nat) idxs ->
    N.of_nat (length reply) <= mem_limit ->
    ingest decode width idxs mem_limit reply = BackendFailed \/
    ingest decode width idxs mem_limit reply = Resp 200.
Proof. exact ingest_outcome. Qed.

(** The pinned reply path (no width check before rows are indexed on the update
    path, [make([]byte, 0, n)] for the announced size [n]) does panic. *)
Theorem C09_no_panic_reply_pinned_refuted :
  (exists decode reply, ingest_pinned decode 2 [0; 1]%nat 1000000 reply = Panic (s "index out of range")) /\
  (exists decode reply, N.of_nat (length reply) <= 1000000 /\
                        ingest_pinned decode 2 [0; 1]%nat 1000000 reply = Panic (s "out of memory")).
Proof. exact pinned_refuted. Qed.

(** non-vacuity: the model answers, rejects and (on a matrix with a panic entry) panics;
    the header parser accepts a Livestatus header and rejects garbage *)
Example C09_example :
  let m := [(s "hosts", [(s "name", [(UColJson, OOk); (UStatsAgg ASum, OPanic (s "unsupported type"))]);
                         (unknown_col, [(UColJson, OOk); (UFilter OpRe false, OBad)])])] in
  handle m (mkReq (s "hosts") [(UColJson, s "name")]) = Resp 200 /\
  handle m (mkReq (s "hosts") [(UColJson, s "name"); (UFilter OpRe false, s "nosuch")]) = Resp 400 /\
  handle m (mkReq (s "hosts") [(UColJson, s "name"); (UStatsAgg ASum, s "name")]) = Panic (s "unsupported type") /\
  handle m (mkReq (s "nosuchtable") [(UColJson, s "name")]) = Resp 400 /\
  parse_header (s "200          12" ++ [10]) = Some (200, 12) /\
  parse_header (s "200 99999999999" ++ [10]) = Some (200, 99999999999) /\
  parse_header (s "vbackend: this i") = None /\
  parse_header (s "200 99999999999") = None /\
  ingest (fun _ => Some [[1; 2]; [3]]) 2 [0; 1]%nat 1000 (s "200           3" ++ [10] ++ s "[x]") = BackendFailed /\
  ingest (fun _ => Some [[1; 2]; [3; 4]]) 2 [0; 1]%nat 1000 (s "200           3" ++ [10] ++ s "[x]") = Resp 200.
Proof. vm_compute. repeat split. Qed.

Print Assumptions C09_matrix_no_panic_entry.
Print Assumptions C09_matrix_covers_schema.
Print Assumptions C09_no_panic_request.
Print Assumptions C09_request_answered.
Print Assumptions C09_panic_iff_panic_entry.
Print Assumptions C09_no_panic_reply.
Print Assumptions C09_reply_failed_or_accepted.
Print Assumptions C09_no_panic_reply_pinned_refuted.
