(** C09: executable comparison of the models with observations of an lmd worker
    process (written by harness/inpkg/c09_robust.go into a cases file). *)
From LMD Require Export Base.Str C09.Types C09.Model.
From LMD Require Import Gen.Dispatch.
Open Scope N_scope.

Inductive ckind :=
| KStruct (table : str) (items : list (usage * str))    (* request built from the matrix's domain *)
| KRaw                                                  (* any other byte sequence of a client *)
| KBackend (strict : bool) (header : list N) (body_len : N) (dec : option (list nat)) (width : nat)
           (* one faulty reply during an update step: the (up to) 16 header bytes as sent, the number of
              bytes behind them, what lmd's decoders make of the body it reads (row widths), the
              number of requested columns. [strict = false]: only liveness is compared *)
| KBackendUnused.                                       (* the step did not send the query to be answered wrongly *)

Inductive obs :=
| ObsResp (code : N)          (* answered; code of the fixed16 header, 0 = no header requested *)
| ObsClosed                   (* connection closed without answer *)
| ObsUpdate (failed : bool)   (* an update step returned (with or without error) *)
| ObsHang                     (* watchdog deadline exceeded *)
| ObsDead.                    (* the worker process is gone *)

Record case := mkCase { c_kind : ckind; c_obs : obs; c_alive : bool; c_canary : bool }.

(** address space of the worker (ulimit -v, bytes) *)
Definition mem_limit : N := 2147483648.

Definition expected (c : case) : Outcome :=
  match c_kind c with
  | KStruct t items => handle matrix (mkReq t items)
  | KRaw => Closed
  | KBackend _ header body_len dec width =>
      ingest (fun _ => option_map (map (fun w => repeat 0 w)) dec) width (seq 0 width) mem_limit
             (header ++ repeat 0 (N.to_nat body_len))
  | KBackendUnused => Resp 200
  end.

Definition check (c : case) : bool :=
  c_alive c && c_canary c &&
  match c_kind c, c_obs c with
  | KStruct _ _, ObsResp code =>
      match expected c with
      | Resp 200 => code =? 200
      | Resp _ => negb (code =? 200)
      | _ => false
      end
  | KRaw, (ObsResp _ | ObsClosed) => true
  | KBackend strict _ _ _ _, ObsUpdate failed =>
      negb strict ||
      match expected c with
      | BackendFailed => failed
      | Resp _ => negb failed
      | _ => false
      end
  | KBackendUnused, ObsUpdate _ => true
  | _, _ => false
  end.

Fixpoint mismatches_from (i : nat) (cs : list case) : list (nat * Outcome) :=
  match cs with
  | [] => []
  | c :: rest => (if check c then [] else [(i, expected c)]) ++ mismatches_from (S i) rest
  end.

Definition mismatches := mismatches_from 0.
