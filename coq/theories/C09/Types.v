(** C09: types of the generated dispatch matrix (Gen/Dispatch.v is printed by
    harness/inpkg/c09_gen.go from measurements on a real Daemon). *)
From LMD Require Export Base.Str.

(** one representative of each filter operator class: = ~ ~~ < >= !>= =~ *)
Inductive fop := OpEq | OpRe | OpReI | OpLt | OpGe | OpNotGe | OpEqI.
Inductive agg := ASum | AAvg | AMin | AMax.

(** how a request uses a column ([UShape]: request level shapes, column [""]) *)
Inductive usage :=
| UColJson | UColWrapped               (* Columns: c, OutputFormat json / wrapped_json *)
| UFilter (o : fop) (empty : bool)     (* Filter: c op [arg] *)
| UStatsAgg (a : agg)                  (* Stats: sum|avg|min|max c *)
| UStatsCounter                        (* Stats: c = arg *)
| UGroupKey                            (* Columns: c + Stats *)
| USort (desc : bool)                  (* Sort: c asc|desc *)
| UWaitCond                            (* WaitCondition: c = arg *)
| UShape (name : str).

(** what the request path did: answered (200), bad request (error response),
    panic at [site] (= daemon exit: every request goroutine ends in
    logPanicExit*/os.Exit), no answer within the probe deadline *)
Inductive outcome := OOk | OBad | OPanic (site : str) | OHang.

Definition centry := (str * list (usage * outcome))%type.   (* column, its usages *)
Definition tentry := (str * list centry)%type.              (* table, its columns *)

(** the flat view: one record per (table, column, usage) *)
Record dentry := mkD { d_table : str; d_col : str; d_usage : usage; d_out : outcome }.

Definition flatten (m : list tentry) : list dentry :=
  flat_map (fun t => flat_map (fun c => map (fun uo => mkD (fst t) (fst c) (fst uo) (snd uo)) (snd c)) (snd t)) m.

Definition fop_eqb (a b : fop) : bool :=
  match a, b with
  | OpEq, OpEq | OpRe, OpRe | OpReI, OpReI | OpLt, OpLt | OpGe, OpGe | OpNotGe, OpNotGe | OpEqI, OpEqI => true
  | _, _ => false
  end.

Definition agg_eqb (a b : agg) : bool :=
  match a, b with
  | ASum, ASum | AAvg, AAvg | AMin, AMin | AMax, AMax => true
  | _, _ => false
  end.

Definition usage_eqb (a b : usage) : bool :=
  match a, b with
  | UColJson, UColJson | UColWrapped, UColWrapped | UStatsCounter, UStatsCounter
  | UGroupKey, UGroupKey | UWaitCond, UWaitCond => true
  | UFilter o1 e1, UFilter o2 e2 => fop_eqb o1 o2 && Bool.eqb e1 e2
  | UStatsAgg a1, UStatsAgg a2 => agg_eqb a1 a2
  | USort d1, USort d2 => Bool.eqb d1 d2
  | UShape n1, UShape n2 => str_eqb n1 n2
  | _, _ => false
  end.
