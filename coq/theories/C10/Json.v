(** C10: JSON values, the byte-level printer and a fuelled recursive-descent
    parser (definitions only; proofs are in JsonProofs.v).

    Byte strings are [list N] (one element per byte).  Go strings are byte
    strings and [jsoniter.Stream.WriteString] - the call lmd's
    [DataRow.WriteJSON*], [WriteColumnsResponse] and the failed map use - works
    on bytes: it escapes only the double quote, the backslash and the bytes below
    0x20 and copies everything else, including 0x7f, '<', '>', '&' and bytes
    >= 0x80 (valid UTF-8 or not) verbatim.  [esc] transcribes exactly that
    function (json-iterator/go v1.1.12 stream_str.go, WriteString /
    writeStringSlowPath).  The HTML-escaping variant, which jsoniter uses only
    for values that go through [WriteVal] (stats group keys), is [esc_html]
    in Model.v. *)
From Coq Require Import List NArith ZArith Bool Lia Decimal.
From Coq Require String Ascii.
Import ListNotations.
Export String.StringSyntax.
Open Scope N_scope.
Open Scope list_scope.

Definition bytes := list N.

(** ASCII literal: [lit "null"] *)
Definition lit (x : String.string) : bytes := map Ascii.N_of_ascii (String.list_ascii_of_string x).
Delimit Scope string_scope with string.
Bind Scope string_scope with String.string.
Arguments lit x%string.

Inductive json :=
| JNull
| JBool (b : bool)
| JNum (m e : Z)                       (* m * 10^e, normal form: e <= 0, e < 0 -> 10 does not divide m *)
| JStr (s : bytes)
| JArr (l : list json)
| JObj (l : list (bytes * json)).      (* association LIST: duplicate keys are kept *)

(* ------------------------------------------------------------------ *)
(** * Printer *)

Fixpoint uint_bytes (u : uint) : bytes :=
  match u with
  | Nil => []
  | D0 u => 48 :: uint_bytes u | D1 u => 49 :: uint_bytes u | D2 u => 50 :: uint_bytes u
  | D3 u => 51 :: uint_bytes u | D4 u => 52 :: uint_bytes u | D5 u => 53 :: uint_bytes u
  | D6 u => 54 :: uint_bytes u | D7 u => 55 :: uint_bytes u | D8 u => 56 :: uint_bytes u
  | D9 u => 57 :: uint_bytes u
  end.

Definition dec_N (n : N) : bytes := uint_bytes (N.to_uint n).

Definition dec_Z (z : Z) : bytes :=
  match z with
  | Z0 => [48]
  | Zpos p => dec_N (Npos p)
  | Zneg p => 45 :: dec_N (Npos p)
  end.

Definition hexd (n : N) : N := if n <? 10 then 48 + n else 87 + n.

(** jsoniter [Stream.WriteString], one input byte *)
Definition esc_byte (b : N) : bytes :=
  if b =? 34 then [92; 34]
  else if b =? 92 then [92; 92]
  else if b =? 10 then [92; 110]
  else if b =? 13 then [92; 114]
  else if b =? 9 then [92; 116]
  else if b <? 32 then [92; 117; 48; 48; hexd (b / 16); hexd (b mod 16)]
  else [b].

Definition esc (s : bytes) : bytes := flat_map esc_byte s.

Definition print_str (s : bytes) : bytes := 34 :: esc s ++ [34].

Fixpoint join (sep : bytes) (l : list bytes) : bytes :=
  match l with
  | [] => []
  | x :: r => match r with [] => x | _ :: _ => x ++ sep ++ join sep r end
  end.

Definition print_num (m e : Z) : bytes :=
  if (e =? 0)%Z then dec_Z m else dec_Z m ++ 101 :: dec_Z e.

(** compact rendering: the fragments jsoniter's WriteArrayStart / WriteMore /
    WriteArrayEnd / WriteObjectStart / WriteObjectField / WriteObjectEnd emit
    with indention 0 *)
Fixpoint print (v : json) : bytes :=
  match v with
  | JNull => lit "null"
  | JBool true => lit "true"
  | JBool false => lit "false"
  | JNum m e => print_num m e
  | JStr s => print_str s
  | JArr l => 91 :: join [44] (map print l) ++ [93]
  | JObj l => 123 :: join [44] (map (fun kv => let '(k, x) := kv in print_str k ++ 58 :: print x) l) ++ [125]
  end.

(* ------------------------------------------------------------------ *)
(** * Parser *)

Definition is_ws (b : N) : bool := (b =? 32) || (b =? 10) || (b =? 13) || (b =? 9).

Fixpoint skip_ws (i : bytes) : bytes :=
  match i with
  | b :: r => if is_ws b then skip_ws r else i
  | [] => []
  end.

Definition is_digit (b : N) : bool := (48 <=? b) && (b <=? 57).

Definition cons_digit (b : N) (u : uint) : uint :=
  match b - 48 with
  | 0 => D0 u | 1 => D1 u | 2 => D2 u | 3 => D3 u | 4 => D4 u
  | 5 => D5 u | 6 => D6 u | 7 => D7 u | 8 => D8 u | _ => D9 u
  end.

Fixpoint take_digits (i : bytes) : uint * bytes :=
  match i with
  | b :: r => if is_digit b then let '(u, r') := take_digits r in (cons_digit b u, r') else (Nil, i)
  | [] => (Nil, [])
  end.

(** integer part of a JSON number: one digit, or several not starting with 0 *)
Definition int_ok (u : uint) : bool :=
  match u with
  | Nil => false
  | D0 Nil => true
  | D0 _ => false
  | _ => true
  end.

Fixpoint strip (n : nat) (m e : Z) : Z * Z :=
  match n with
  | O => (m, e)
  | S n' => if ((e <? 0) && (m mod 10 =? 0))%Z then strip n' (m / 10)%Z (e + 1)%Z else (m, e)
  end.

(** value of sign, integer digits, fraction digits, exponent in normal form *)
Definition mk_num (neg : bool) (ds : uint) (fs : option uint) (ex : option (bool * uint)) : json :=
  let k := match fs with Some u => Nat.add (nb_digits u) 0 | None => O end in
  let fv := match fs with Some u => N.of_uint u | None => 0 end in
  let x := match ex with
           | Some (true, u) => (- Z.of_N (N.of_uint u))%Z
           | Some (false, u) => Z.of_N (N.of_uint u)
           | None => 0%Z
           end in
  let m0 := N.of_uint ds * 10 ^ N.of_nat k + fv in
  let e0 := (x - Z.of_nat k)%Z in
  let sg := fun z : Z => if neg then (- z)%Z else z in
  if m0 =? 0 then JNum 0 0
  else if (0 <=? e0)%Z then JNum (sg (Z.of_N m0 * 10 ^ e0)%Z) 0
  else let '(m1, e1) := strip (Nat.add (nb_digits ds) k) (Z.of_N m0) e0 in JNum (sg m1) e1.

Definition parse_sign (i : bytes) : bool * bytes :=
  match i with
  | b :: r => if b =? 45 then (true, r) else (false, i)
  | [] => (false, i)
  end.

Definition parse_frac (i : bytes) : option uint * bytes :=
  match i with
  | b :: r => if b =? 46 then let '(u, r') := take_digits r in (Some u, r') else (None, i)
  | [] => (None, i)
  end.

Definition parse_exp (i : bytes) : option (bool * uint) * bytes :=
  match i with
  | b :: r =>
    if (b =? 101) || (b =? 69) then
      let '(sg, r1) := match r with
                       | c :: r' => if c =? 45 then (true, r') else if c =? 43 then (false, r') else (false, r)
                       | [] => (false, r)
                       end in
      let '(u, r2) := take_digits r1 in (Some (sg, u), r2)
    else (None, i)
  | [] => (None, i)
  end.

(** -? int frac? exp?  (RFC 8259 section 6) *)
Definition parse_num (i : bytes) : option (json * bytes) :=
  let '(neg, i1) := parse_sign i in
  let '(ds, i2) := take_digits i1 in
  if negb (int_ok ds) then None else
  let '(fs, i3) := parse_frac i2 in
  match fs with
  | Some Nil => None
  | _ =>
    let '(ex, i4) := parse_exp i3 in
    match ex with
    | Some (_, Nil) => None
    | _ => Some (mk_num neg ds fs ex, i4)
    end
  end.

Definition hexv (b : N) : option N :=
  if (48 <=? b) && (b <=? 57) then Some (b - 48)
  else if (97 <=? b) && (b <=? 102) then Some (b - 87)
  else if (65 <=? b) && (b <=? 70) then Some (b - 55)
  else None.

Definition hex4 (a b c d : N) : option N :=
  match hexv a, hexv b, hexv c, hexv d with
  | Some x, Some y, Some z, Some w => Some (((x * 16 + y) * 16 + z) * 16 + w)
  | _, _, _, _ => None
  end.

Definition utf8_enc (c : N) : bytes :=
  if c <? 128 then [c]
  else if c <? 2048 then [192 + c / 64; 128 + c mod 64]
  else if c <? 65536 then [224 + c / 4096; 128 + (c / 64) mod 64; 128 + c mod 64]
  else [240 + c / 262144; 128 + (c / 4096) mod 64; 128 + (c / 64) mod 64; 128 + c mod 64].

Definition repl : bytes := [239; 191; 189].          (* U+FFFD *)
Definition is_high (c : N) : bool := (55296 <=? c) && (c <? 56320).
Definition is_low (c : N) : bool := (56320 <=? c) && (c <? 57344).

Definition unescape (c : N) : option N :=
  if c =? 34 then Some 34 else if c =? 92 then Some 92 else if c =? 47 then Some 47
  else if c =? 98 then Some 8 else if c =? 102 then Some 12 else if c =? 110 then Some 10
  else if c =? 114 then Some 13 else if c =? 116 then Some 9 else None.

Definition prepend (p : bytes) (r : option (bytes * bytes)) : option (bytes * bytes) :=
  match r with Some (s, r') => Some (p ++ s, r') | None => None end.

(** characters of a string after the opening quote, up to and including the
    closing quote.  Bytes >= 0x80 are copied (no UTF-8 validation, like Go's
    encoding/json scanner); \uXXXX is decoded to UTF-8, surrogate pairs are
    combined, a lone surrogate becomes U+FFFD. *)
Fixpoint parse_chars (i : bytes) : option (bytes * bytes) :=
  match i with
  | [] => None
  | b :: r =>
    if b =? 34 then Some ([], r)
    else if b =? 92 then
      match r with
      | [] => None
      | c :: r1 =>
        if c =? 117 then
          match r1 with
          | h1 :: h2 :: h3 :: h4 :: r5 =>
            match hex4 h1 h2 h3 h4 with
            | None => None
            | Some cp =>
              if is_high cp then
                match r5 with
                | b1 :: b2 :: l1 :: l2 :: l3 :: l4 :: r11 =>
                  match (if (b1 =? 92) && (b2 =? 117) then hex4 l1 l2 l3 l4 else None) with
                  | Some lo =>
                    if is_low lo then prepend (utf8_enc (65536 + (cp - 55296) * 1024 + (lo - 56320))) (parse_chars r11)
                    else prepend repl (parse_chars r5)
                  | None => prepend repl (parse_chars r5)
                  end
                | _ => prepend repl (parse_chars r5)
                end
              else if is_low cp then prepend repl (parse_chars r5)
              else prepend (utf8_enc cp) (parse_chars r5)
            end
          | _ => None
          end
        else match unescape c with
             | Some x => prepend [x] (parse_chars r1)
             | None => None
             end
      end
    else if b <? 32 then None
    else prepend [b] (parse_chars r)
  end.

Fixpoint strip_prefix (p i : bytes) : option bytes :=
  match p with
  | [] => Some i
  | x :: p' => match i with
               | y :: i' => if x =? y then strip_prefix p' i' else None
               | [] => None
               end
  end.

Definition parse_lit (p : bytes) (v : json) (i : bytes) : option (json * bytes) :=
  match strip_prefix p i with Some r => Some (v, r) | None => None end.

(** One step of each of the three mutually recursive parsers, with the
    recursive calls as parameters (so that the proofs can reason about one
    step at a time). *)
Definition val_step (pe : list json -> bytes -> option (json * bytes))
                    (pm : list (bytes * json) -> bytes -> option (json * bytes))
                    (i : bytes) : option (json * bytes) :=
  match skip_ws i with
  | [] => None
  | b :: r =>
    if b =? 34 then
      match parse_chars r with Some (s, r') => Some (JStr s, r') | None => None end
    else if b =? 91 then
      match skip_ws r with
      | [] => None
      | c :: r' => if c =? 93 then Some (JArr [], r') else pe [] r
      end
    else if b =? 123 then
      match skip_ws r with
      | [] => None
      | c :: r' => if c =? 125 then Some (JObj [], r') else pm [] r
      end
    else if b =? 116 then parse_lit (lit "true") (JBool true) (b :: r)
    else if b =? 102 then parse_lit (lit "false") (JBool false) (b :: r)
    else if b =? 110 then parse_lit (lit "null") JNull (b :: r)
    else if (b =? 45) || is_digit b then parse_num (b :: r)
    else None
  end.

Definition elems_step (pv : bytes -> option (json * bytes))
                      (pe : list json -> bytes -> option (json * bytes))
                      (acc : list json) (i : bytes) : option (json * bytes) :=
  match pv i with
  | None => None
  | Some (v, r) =>
    match skip_ws r with
    | [] => None
    | c :: r' =>
      if c =? 44 then pe (v :: acc) r'
      else if c =? 93 then Some (JArr (List.rev (v :: acc)), r')
      else None
    end
  end.

Definition members_step (pv : bytes -> option (json * bytes))
                        (pm : list (bytes * json) -> bytes -> option (json * bytes))
                        (acc : list (bytes * json)) (i : bytes) : option (json * bytes) :=
  match skip_ws i with
  | [] => None
  | q :: r =>
    if q =? 34 then
      match parse_chars r with
      | None => None
      | Some (k, r1) =>
        match skip_ws r1 with
        | [] => None
        | c :: r2 =>
          if c =? 58 then
            match pv r2 with
            | None => None
            | Some (v, r3) =>
              match skip_ws r3 with
              | [] => None
              | d :: r4 =>
                if d =? 44 then pm ((k, v) :: acc) r4
                else if d =? 125 then Some (JObj (List.rev ((k, v) :: acc)), r4)
                else None
              end
            end
          else None
        end
      end
    else None
  end.

(** value / array elements / object members; every call passes a strictly
    smaller fuel, [parse] starts with the input length + 1 *)
Fixpoint parse_val (f : nat) (i : bytes) {struct f} : option (json * bytes) :=
  match f with
  | O => None
  | S f' => val_step (parse_elems f') (parse_members f') i
  end
with parse_elems (f : nat) (acc : list json) (i : bytes) {struct f} : option (json * bytes) :=
  match f with
  | O => None
  | S f' => elems_step (parse_val f') (parse_elems f') acc i
  end
with parse_members (f : nat) (acc : list (bytes * json)) (i : bytes) {struct f} : option (json * bytes) :=
  match f with
  | O => None
  | S f' => members_step (parse_val f') (parse_members f') acc i
  end.

(** a complete JSON text: one value, optionally surrounded by whitespace *)
Definition parse (i : bytes) : option json :=
  match parse_val (S (length i)) i with
  | Some (v, r) => match skip_ws r with [] => Some v | _ :: _ => None end
  | None => None
  end.

(** normal form of numbers (what [parse] produces) *)
Definition wf_num (m e : Z) : Prop :=
  (e <= 0)%Z /\ ((e < 0)%Z -> (Z.abs m mod 10 <> 0)%Z).

Fixpoint wf_json (v : json) : Prop :=
  match v with
  | JNum m e => wf_num m e
  | JArr l => (fix all (l : list json) : Prop := match l with [] => True | x :: r => wf_json x /\ all r end) l
  | JObj l => (fix all (l : list (bytes * json)) : Prop :=
                 match l with [] => True | kv :: r => wf_json (snd kv) /\ all r end) l
  | _ => True
  end.
