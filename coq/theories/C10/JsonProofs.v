(** C10: the printer / parser round trip of Json.v. *)
From Coq Require Import List NArith ZArith Bool Lia Decimal DecimalFacts DecimalN DecimalPos.
Import ListNotations.
From LMD Require Import C10.Json.
Open Scope N_scope.
Open Scope list_scope.

(* ------------------------------------------------------------------ *)
(** * Digits *)

Definition nodigit_head (r : bytes) : Prop :=
  match r with [] => True | b :: _ => is_digit b = false end.

Lemma take_digits_uint u r :
  nodigit_head r -> take_digits (uint_bytes u ++ r) = (u, r).
Proof.
  intros Hr; induction u as [|u IH|u IH|u IH|u IH|u IH|u IH|u IH|u IH|u IH|u IH];
    try (cbn [uint_bytes List.app take_digits]; rewrite IH; reflexivity).
  destruct r as [|b r]; cbn [uint_bytes List.app]; [reflexivity|].
  cbn [take_digits]. cbn [nodigit_head] in Hr. rewrite Hr. reflexivity.
Qed.

Lemma uint_bytes_head u :
  u <> Nil -> exists d t, uint_bytes u = d :: t /\ is_digit d = true.
Proof.
  destruct u; intros H; try congruence; cbn [uint_bytes]; eexists _, _; split; reflexivity.
Qed.

Lemma to_uint_norm n : unorm (N.to_uint n) = N.to_uint n.
Proof. rewrite <- (DecimalN.Unsigned.to_of (N.to_uint n)), DecimalN.Unsigned.of_to; reflexivity. Qed.

Lemma unorm_nonnil u : unorm u <> Nil.
Proof.
  unfold unorm. destruct (nzhead u) eqn:E; try discriminate.
Qed.

Lemma to_uint_nonnil n : N.to_uint n <> Nil.
Proof. rewrite <- to_uint_norm. apply unorm_nonnil. Qed.

Lemma int_ok_norm u : unorm u = u -> int_ok u = true.
Proof.
  intros H. destruct u as [|u|u|u|u|u|u|u|u|u|u]; try reflexivity.
  - exfalso; revert H; apply unorm_nonnil.
  - destruct u as [|u|u|u|u|u|u|u|u|u|u]; try reflexivity; exfalso.
    all: rewrite unorm_D0 in H.
    all: match type of H with unorm ?x = _ =>
           assert (Hn : x <> Nil) by discriminate;
           pose proof (nb_digits_unorm x Hn) as Hl; rewrite H in Hl;
           cbn [nb_digits] in Hl; lia
         end.
Qed.

Lemma int_ok_to_uint n : int_ok (N.to_uint n) = true.
Proof. apply int_ok_norm, to_uint_norm. Qed.

(* ------------------------------------------------------------------ *)
(** * Numbers *)

Definition numchar (b : N) : bool :=
  is_digit b || (b =? 46) || (b =? 101) || (b =? 69) || (b =? 43) || (b =? 45).

(** what may follow a printed value: the end of the text or a byte that cannot
    continue a number *)
Definition ok_rest (r : bytes) : Prop :=
  match r with [] => True | b :: _ => numchar b = false end.

Lemma ok_rest_nodigit r : ok_rest r -> nodigit_head r.
Proof.
  destruct r as [|b r]; cbn; [trivial|]. unfold numchar. intros H.
  destruct (is_digit b); [discriminate|reflexivity].
Qed.

Lemma numchar_false b :
  numchar b = false ->
  is_digit b = false /\ (b =? 46) = false /\ (b =? 101) = false /\ (b =? 69) = false
  /\ (b =? 43) = false /\ (b =? 45) = false.
Proof.
  unfold numchar. intros H.
  repeat (apply orb_false_iff in H; destruct H as [H ?]). repeat split; assumption.
Qed.

Lemma parse_frac_none r : ok_rest r -> parse_frac r = (None, r).
Proof.
  destruct r as [|b r]; cbn [ok_rest parse_frac]; [reflexivity|].
  intros H. apply numchar_false in H. destruct H as (_ & H & _). rewrite H. reflexivity.
Qed.

Lemma parse_exp_none r : ok_rest r -> parse_exp r = (None, r).
Proof.
  destruct r as [|b r]; cbn [ok_rest parse_exp]; [reflexivity|].
  intros H. apply numchar_false in H. destruct H as (_ & _ & H1 & H2 & _). rewrite H1, H2. reflexivity.
Qed.

Lemma digit_not_sign d : is_digit d = true -> (d =? 45) = false /\ (d =? 43) = false
  /\ (d =? 46) = false /\ (d =? 101) = false /\ (d =? 69) = false.
Proof.
  unfold is_digit. intros H. apply andb_true_iff in H. destruct H as [H1 H2].
  apply N.leb_le in H1, H2. repeat split; apply N.eqb_neq; lia.
Qed.

Lemma parse_sign_digits u r :
  u <> Nil -> parse_sign (uint_bytes u ++ r) = (false, uint_bytes u ++ r).
Proof.
  intros H. destruct (uint_bytes_head u H) as (d & t & -> & Hd).
  cbn [List.app parse_sign]. destruct (digit_not_sign d Hd) as (-> & _). reflexivity.
Qed.

Lemma strip_stop n m e : (m mod 10 <> 0)%Z -> strip n m e = (m, e).
Proof.
  intros H. destruct n; [reflexivity|]. cbn [strip].
  replace (m mod 10 =? 0)%Z with false by (symmetry; apply Z.eqb_neq; exact H).
  rewrite andb_false_r. reflexivity.
Qed.

Lemma mk_num_int neg ds n :
  N.of_uint ds = n ->
  mk_num neg ds None None =
  if n =? 0 then JNum 0 0 else JNum (if neg then - Z.of_N n else Z.of_N n)%Z 0.
Proof.
  intros H. unfold mk_num. rewrite H. cbn [N.of_nat Z.of_nat].
  rewrite N.pow_0_r, N.mul_1_r, N.add_0_r. destruct (n =? 0); [reflexivity|].
  cbn [Z.sub Z.opp Z.add Z.leb Z.compare]. rewrite Z.pow_0_r, Z.mul_1_r. reflexivity.
Qed.

Lemma mk_num_exp neg ds xs n x :
  N.of_uint ds = n -> N.of_uint xs = x -> n <> 0 -> x <> 0 ->
  (Z.of_N n mod 10 <> 0)%Z ->
  mk_num neg ds None (Some (true, xs)) =
  JNum (if neg then - Z.of_N n else Z.of_N n)%Z (- Z.of_N x)%Z.
Proof.
  intros Hn Hx Hn0 Hx0 Hmod. unfold mk_num. rewrite Hn, Hx. cbn [N.of_nat Z.of_nat].
  rewrite N.pow_0_r, N.mul_1_r, N.add_0_r, Z.sub_0_r.
  replace (n =? 0) with false by (symmetry; apply N.eqb_neq; exact Hn0).
  replace (0 <=? - Z.of_N x)%Z with false by (symmetry; apply Z.leb_gt; lia).
  rewrite strip_stop by exact Hmod. reflexivity.
Qed.

Lemma parse_num_pos (neg : bool) (n : N) rest :
  ok_rest rest ->
  parse_num ((if neg then [45] else []) ++ dec_N n ++ rest) =
  Some ((if n =? 0 then JNum 0 0 else JNum (if neg then - Z.of_N n else Z.of_N n)%Z 0), rest).
Proof.
  intros Hr. unfold parse_num, dec_N.
  assert (Hs : parse_sign ((if neg then [45] else []) ++ uint_bytes (N.to_uint n) ++ rest)
               = (neg, uint_bytes (N.to_uint n) ++ rest)).
  { destruct neg; [reflexivity|]. cbn [List.app]. apply parse_sign_digits, to_uint_nonnil. }
  rewrite Hs, take_digits_uint by (apply ok_rest_nodigit; exact Hr).
  rewrite int_ok_to_uint. cbn [negb]. rewrite parse_frac_none, parse_exp_none by exact Hr.
  rewrite (mk_num_int neg _ n) by apply DecimalN.Unsigned.of_to. reflexivity.
Qed.

Lemma parse_num_int m rest :
  ok_rest rest -> parse_num (dec_Z m ++ rest) = Some (JNum m 0, rest).
Proof.
  intros Hr. destruct m as [|p|p]; cbn [dec_Z].
  - exact (parse_num_pos false 0 rest Hr).
  - exact (parse_num_pos false (Npos p) rest Hr).
  - exact (parse_num_pos true (Npos p) rest Hr).
Qed.

Lemma parse_exp_neg (x : positive) rest :
  ok_rest rest ->
  parse_exp (101 :: dec_Z (Zneg x) ++ rest) = (Some (true, N.to_uint (Npos x)), rest).
Proof.
  intros Hr. cbn [parse_exp dec_Z List.app N.eqb Pos.eqb orb]. unfold dec_N.
  rewrite take_digits_uint by (apply ok_rest_nodigit; exact Hr). reflexivity.
Qed.

Lemma ok_rest_e r : ok_rest (101 :: r) -> False.
Proof. cbn. discriminate. Qed.

Lemma parse_num_exp (neg : bool) (n : N) (x : positive) rest :
  ok_rest rest -> n <> 0 -> (Z.of_N n mod 10 <> 0)%Z ->
  parse_num ((if neg then [45] else []) ++ dec_N n ++ 101 :: dec_Z (Zneg x) ++ rest) =
  Some (JNum (if neg then - Z.of_N n else Z.of_N n)%Z (Zneg x), rest).
Proof.
  intros Hr Hn Hmod. unfold parse_num, dec_N.
  assert (Hs : forall t, parse_sign ((if neg then [45] else []) ++ uint_bytes (N.to_uint n) ++ t)
               = (neg, uint_bytes (N.to_uint n) ++ t)).
  { intros t. destruct neg; [reflexivity|]. cbn [List.app]. apply parse_sign_digits, to_uint_nonnil. }
  rewrite Hs, take_digits_uint by (cbn; reflexivity).
  rewrite int_ok_to_uint. cbn [negb].
  cbn [parse_frac N.eqb Pos.eqb]. rewrite parse_exp_neg by exact Hr.
  pose proof (to_uint_nonnil (Npos x)) as Hx.
  destruct (N.to_uint (N.pos x)) eqn:Ex; try congruence;
    rewrite <- Ex;
    rewrite (mk_num_exp neg _ _ n (Npos x)); try reflexivity;
      try apply DecimalN.Unsigned.of_to; try assumption; try discriminate.
Qed.

Lemma abs_mod10 m : (Z.abs m mod 10 <> 0)%Z -> m <> 0%Z.
Proof. intros H ->. apply H. reflexivity. Qed.

Lemma parse_num_print m e rest :
  wf_num m e -> ok_rest rest ->
  parse_num (print_num m e ++ rest) = Some (JNum m e, rest).
Proof.
  intros [He Hm] Hr. unfold print_num. destruct (e =? 0)%Z eqn:E0.
  - apply Z.eqb_eq in E0. subst e. apply parse_num_int. exact Hr.
  - apply Z.eqb_neq in E0. destruct e as [|x|x]; try lia.
    specialize (Hm ltac:(lia)). pose proof (abs_mod10 m Hm) as Hm0.
    rewrite <- app_assoc. cbn [List.app].
    destruct m as [|p|p]; try congruence; cbn [dec_Z].
    + exact (parse_num_exp false (Npos p) x rest Hr ltac:(discriminate) Hm).
    + exact (parse_num_exp true (Npos p) x rest Hr ltac:(discriminate) Hm).
Qed.

(* ------------------------------------------------------------------ *)
(** * Strings: one byte, then the whole string *)

Lemma small_cases (P : N -> Prop) (k : nat) :
  (forall j, (j < k)%nat -> P (N.of_nat j)) -> forall b, b < N.of_nat k -> P b.
Proof.
  intros H b Hb. rewrite <- (N2Nat.id b). apply H. lia.
Qed.

Lemma esc_byte_ctrl b tail :
  b < 32 -> parse_chars (esc_byte b ++ tail) = prepend [b] (parse_chars tail).
Proof.
  revert b. apply (small_cases _ 32). intros j Hj.
  do 32 (destruct j as [|j]; [reflexivity|]). lia.
Qed.

Lemma esc_byte_plain b :
  32 <= b -> b <> 34 -> b <> 92 -> esc_byte b = [b].
Proof.
  intros H1 H2 H3. unfold esc_byte.
  replace (b =? 34) with false by (symmetry; apply N.eqb_neq; lia).
  replace (b =? 92) with false by (symmetry; apply N.eqb_neq; lia).
  replace (b =? 10) with false by (symmetry; apply N.eqb_neq; lia).
  replace (b =? 13) with false by (symmetry; apply N.eqb_neq; lia).
  replace (b =? 9) with false by (symmetry; apply N.eqb_neq; lia).
  replace (b <? 32) with false by (symmetry; apply N.ltb_ge; lia).
  reflexivity.
Qed.

Lemma esc_byte_parse b tail :
  parse_chars (esc_byte b ++ tail) = prepend [b] (parse_chars tail).
Proof.
  destruct (N.lt_ge_cases b 32) as [Hlt|Hge]; [apply esc_byte_ctrl; exact Hlt|].
  destruct (N.eq_dec b 34) as [->|H34]; [reflexivity|].
  destruct (N.eq_dec b 92) as [->|H92]; [reflexivity|].
  rewrite esc_byte_plain by assumption. cbn [List.app parse_chars].
  replace (b =? 34) with false by (symmetry; apply N.eqb_neq; lia).
  replace (b =? 92) with false by (symmetry; apply N.eqb_neq; lia).
  replace (b <? 32) with false by (symmetry; apply N.ltb_ge; lia).
  reflexivity.
Qed.

Lemma parse_chars_esc s rest :
  parse_chars (esc s ++ 34 :: rest) = Some (s, rest).
Proof.
  induction s as [|b s IH]; [reflexivity|].
  unfold esc in *. cbn [flat_map]. rewrite <- app_assoc, esc_byte_parse, IH. reflexivity.
Qed.

(* ------------------------------------------------------------------ *)
(** * Whitespace *)

Definition all_ws (w : bytes) : Prop := forallb is_ws w = true.

Lemma skip_ws_app w x : all_ws w -> skip_ws (w ++ x) = skip_ws x.
Proof.
  unfold all_ws. induction w as [|b w IH]; intros H; [reflexivity|].
  cbn [forallb] in H. apply andb_true_iff in H. destruct H as [Hb Hw].
  cbn [List.app skip_ws]. rewrite Hb. apply IH, Hw.
Qed.

Lemma skip_ws_head b r : is_ws b = false -> skip_ws (b :: r) = b :: r.
Proof. intros H. cbn [skip_ws]. rewrite H. reflexivity. Qed.

Lemma all_ws_app a b : all_ws a -> all_ws b -> all_ws (a ++ b).
Proof. unfold all_ws. intros Ha Hb. rewrite forallb_app, Ha, Hb. reflexivity. Qed.

Lemma all_ws_nil : all_ws [].
Proof. reflexivity. Qed.

Lemma ws_not_numchar b : is_ws b = true -> numchar b = false.
Proof.
  unfold is_ws. intros H.
  repeat (apply orb_true_iff in H; destruct H as [H|H]); apply N.eqb_eq in H; subst b; reflexivity.
Qed.

(** anything may follow a value if whitespace or a separator comes first *)
Lemma ok_rest_ws w c x : all_ws w -> numchar c = false -> ok_rest (w ++ c :: x).
Proof.
  intros Hw Hc. destruct w as [|b w]; cbn [List.app ok_rest]; [exact Hc|].
  unfold all_ws in Hw. cbn [forallb] in Hw. apply andb_true_iff in Hw. apply ws_not_numchar, Hw.
Qed.

(* ------------------------------------------------------------------ *)
(** * One step of the value parser *)

Section Steps.
  Variable pe : list json -> bytes -> option (json * bytes).
  Variable pm : list (bytes * json) -> bytes -> option (json * bytes).

  Lemma val_step_ws w x : all_ws w -> val_step pe pm (w ++ x) = val_step pe pm x.
  Proof. intros H. unfold val_step. rewrite skip_ws_app by exact H. reflexivity. Qed.

  Lemma val_step_str r :
    val_step pe pm (34 :: r) =
    match parse_chars r with Some (s, r') => Some (JStr s, r') | None => None end.
  Proof. reflexivity. Qed.

  Lemma val_step_arr r :
    val_step pe pm (91 :: r) =
    match skip_ws r with
    | [] => None
    | c :: r' => if c =? 93 then Some (JArr [], r') else pe [] r
    end.
  Proof. reflexivity. Qed.

  Lemma val_step_obj r :
    val_step pe pm (123 :: r) =
    match skip_ws r with
    | [] => None
    | c :: r' => if c =? 125 then Some (JObj [], r') else pm [] r
    end.
  Proof. reflexivity. Qed.

  Lemma val_step_num b r :
    (b =? 45) || is_digit b = true -> val_step pe pm (b :: r) = parse_num (b :: r).
  Proof.
    intros H.
    assert (Hb : b = 45 \/ (48 <= b /\ b <= 57)).
    { apply orb_true_iff in H. destruct H as [H|H]; [left; apply N.eqb_eq, H|right].
      unfold is_digit in H. apply andb_true_iff in H. destruct H as [H1 H2].
      apply N.leb_le in H1, H2. lia. }
    unfold val_step. rewrite skip_ws_head.
    2:{ unfold is_ws. repeat (apply orb_false_iff; split); apply N.eqb_neq; lia. }
    replace (b =? 34) with false by (symmetry; apply N.eqb_neq; lia).
    replace (b =? 91) with false by (symmetry; apply N.eqb_neq; lia).
    replace (b =? 123) with false by (symmetry; apply N.eqb_neq; lia).
    replace (b =? 116) with false by (symmetry; apply N.eqb_neq; lia).
    replace (b =? 102) with false by (symmetry; apply N.eqb_neq; lia).
    replace (b =? 110) with false by (symmetry; apply N.eqb_neq; lia).
    rewrite H. reflexivity.
  Qed.

  (** a value never starts with a closing bracket or brace *)
  Lemma val_step_close c r x :
    skip_ws x = c :: r -> (c = 93 \/ c = 125) -> val_step pe pm x = None.
  Proof.
    intros Hx Hc. unfold val_step. rewrite Hx. destruct Hc as [-> | ->]; reflexivity.
  Qed.
End Steps.

Lemma parse_val_S f i : parse_val (S f) i = val_step (parse_elems f) (parse_members f) i.
Proof. reflexivity. Qed.
Lemma parse_elems_S f acc i : parse_elems (S f) acc i = elems_step (parse_val f) (parse_elems f) acc i.
Proof. reflexivity. Qed.
Lemma parse_members_S f acc i :
  parse_members (S f) acc i = members_step (parse_val f) (parse_members f) acc i.
Proof. reflexivity. Qed.

Lemma parse_val_ws f w x : all_ws w -> parse_val f (w ++ x) = parse_val f x.
Proof. intros H. destruct f; [reflexivity|]. rewrite !parse_val_S. apply val_step_ws, H. Qed.

(* ------------------------------------------------------------------ *)
(** * Fragments that parse to a value *)

(** [p] is a rendering of [v]: followed by anything that cannot continue a
    number, the value parser reads exactly [p] and returns [v], with any fuel
    of at least the length of [p]. *)
Definition parses_to (p : bytes) (v : json) : Prop :=
  forall f rest, (length p <= f)%nat -> ok_rest rest -> parse_val f (p ++ rest) = Some (v, rest).

Lemma pt_ws w p v : all_ws w -> parses_to p v -> parses_to (w ++ p) v.
Proof.
  intros Hw Hp f rest Hf Hr. rewrite <- app_assoc, parse_val_ws by exact Hw.
  apply Hp; [rewrite app_length in Hf; lia|exact Hr].
Qed.

Lemma pt_nonempty p v : parses_to p v -> p <> [].
Proof.
  intros H ->. specialize (H O [] (le_n _) I). discriminate.
Qed.

Lemma pt_lit p v :
  (p = lit "null" /\ v = JNull) \/ (p = lit "true" /\ v = JBool true) \/ (p = lit "false" /\ v = JBool false) ->
  parses_to p v.
Proof.
  intros H f rest Hf _.
  destruct H as [[-> ->]|[[-> ->]|[-> ->]]]; (destruct f; [cbn in Hf; lia|]); reflexivity.
Qed.

Lemma pt_str s : parses_to (print_str s) (JStr s).
Proof.
  intros f rest Hf _. destruct f; [cbn in Hf; lia|].
  unfold print_str. cbn [List.app]. rewrite <- app_assoc. cbn [List.app].
  rewrite parse_val_S, val_step_str, parse_chars_esc. reflexivity.
Qed.

Lemma dec_N_head n : exists d t, dec_N n = d :: t /\ is_digit d = true.
Proof. apply uint_bytes_head, to_uint_nonnil. Qed.

Lemma print_num_head m e :
  exists b t, print_num m e = b :: t /\ (b =? 45) || is_digit b = true.
Proof.
  assert (H : exists b t, dec_Z m = b :: t /\ (b =? 45) || is_digit b = true).
  { destruct m as [|p|p]; cbn [dec_Z].
    - eexists _, _; split; reflexivity.
    - destruct (dec_N_head (Npos p)) as (d & t & -> & Hd). exists d, t. rewrite Hd, orb_true_r. auto.
    - eexists _, _; split; reflexivity. }
  destruct H as (b & t & Hd & Hb). unfold print_num. destruct (e =? 0)%Z.
  - exists b, t; auto.
  - rewrite Hd. cbn [List.app]. eexists _, _; split; [reflexivity|exact Hb].
Qed.

Lemma pt_num m e : wf_num m e -> parses_to (print_num m e) (JNum m e).
Proof.
  intros Hwf f rest Hf Hr.
  destruct (print_num_head m e) as (b & t & Hp & Hb).
  destruct f; [rewrite Hp in Hf; cbn in Hf; lia|].
  rewrite parse_val_S. pose proof (parse_num_print m e rest Hwf Hr) as Hn.
  rewrite Hp in *. cbn [List.app] in *. rewrite val_step_num by exact Hb. exact Hn.
Qed.

(** a rendering followed by whitespace *)
Definition parses_to_ws (p : bytes) (v : json) : Prop :=
  exists q post, p = q ++ post /\ all_ws post /\ parses_to q v.

Lemma pt_to_ws p v : parses_to p v -> parses_to_ws p v.
Proof. intros H. exists p, []. rewrite List.app_nil_r. auto using all_ws_nil. Qed.

Lemma ptw_nonempty p v : parses_to_ws p v -> p <> [].
Proof.
  intros (q & post & -> & _ & Hq) H. apply app_eq_nil in H. destruct H as [H _].
  revert H. eapply pt_nonempty, Hq.
Qed.

Lemma ptw_length p v : parses_to_ws p v -> (1 <= length p)%nat.
Proof. intros H. apply ptw_nonempty in H. destruct p; [congruence|cbn; lia]. Qed.

(** first byte after leading whitespace of a rendering is not a closing bracket *)
Lemma ptw_not_close p v x c r :
  parses_to_ws p v -> skip_ws (p ++ 44 :: x) = c :: r -> c <> 93 /\ c <> 125.
Proof.
  intros (q & post & -> & Hpost & Hq) Hs.
  assert (Hok : ok_rest (post ++ 44 :: x)) by (apply ok_rest_ws; [exact Hpost|reflexivity]).
  specialize (Hq (S (length q)) (post ++ 44 :: x) ltac:(lia) Hok).
  rewrite parse_val_S in Hq. rewrite <- app_assoc in Hs.
  split; intros ->.
  - rewrite (val_step_close _ _ 93 r) in Hq; [discriminate|exact Hs|auto].
  - rewrite (val_step_close _ _ 125 r) in Hq; [discriminate|exact Hs|auto].
Qed.

(* ------------------------------------------------------------------ *)
(** * Arrays *)

Lemma join_single sep p : join sep [p] = p.
Proof. reflexivity. Qed.

Lemma join_cons sep p p2 ps : join sep (p :: p2 :: ps) = p ++ sep ++ join sep (p2 :: ps).
Proof. reflexivity. Qed.

Lemma ptw_first p v y0 y :
  parses_to_ws p v -> numchar y0 = false ->
  exists c r, skip_ws (p ++ y0 :: y) = c :: r /\ c <> 93 /\ c <> 125.
Proof.
  intros (q & post & -> & Hpost & Hq) Hy.
  assert (Hok : ok_rest (post ++ y0 :: y)) by (apply ok_rest_ws; assumption).
  specialize (Hq (S (length q)) (post ++ y0 :: y) ltac:(lia) Hok).
  rewrite parse_val_S in Hq. rewrite <- List.app_assoc.
  destruct (skip_ws (q ++ post ++ y0 :: y)) as [|c r] eqn:Hs.
  - unfold val_step in Hq. rewrite Hs in Hq. discriminate.
  - exists c, r. split; [reflexivity|]. split; intros ->.
    + rewrite (val_step_close _ _ 93 r) in Hq; [discriminate|exact Hs|auto].
    + rewrite (val_step_close _ _ 125 r) in Hq; [discriminate|exact Hs|auto].
Qed.

Lemma elems_ok ps vs :
  Forall2 parses_to_ws ps vs -> ps <> [] ->
  forall f acc rest, (length (join [44%N] ps) + 1 <= f)%nat ->
  parse_elems f acc (join [44] ps ++ 93 :: rest) = Some (JArr (List.rev acc ++ vs), rest).
Proof.
  induction 1 as [|p v ps' vs' Hp Hrest IH]; [congruence|].
  intros _ f acc rest Hf. destruct f as [|f]; [lia|].
  rewrite parse_elems_S. unfold elems_step.
  destruct Hp as (q & post & -> & Hpost & Hq).
  destruct ps' as [|p2 ps''].
  - inversion Hrest; subst. rewrite join_single in *. rewrite <- List.app_assoc.
    rewrite Hq; [|rewrite List.app_length in Hf; lia|apply ok_rest_ws; [exact Hpost|reflexivity]].
    rewrite skip_ws_app by exact Hpost. rewrite skip_ws_head by reflexivity.
    cbn [N.eqb Pos.eqb List.rev]. reflexivity.
  - rewrite join_cons in *. rewrite !List.app_length in Hf. cbn [length] in Hf.
    rewrite <- !List.app_assoc. cbn [List.app].
    rewrite Hq; [|lia|apply ok_rest_ws; [exact Hpost|reflexivity]].
    rewrite skip_ws_app by exact Hpost. rewrite skip_ws_head by reflexivity.
    cbn [N.eqb Pos.eqb].
    rewrite IH; [|discriminate|lia]. cbn [List.rev]. rewrite <- List.app_assoc. reflexivity.
Qed.

Lemma pt_arr ps vs :
  Forall2 parses_to_ws ps vs -> parses_to (91 :: join [44] ps ++ [93]) (JArr vs).
Proof.
  intros H f rest Hf _. destruct f as [|f]; [cbn in Hf; lia|].
  cbn [List.app]. rewrite <- List.app_assoc. cbn [List.app].
  rewrite parse_val_S, val_step_arr.
  destruct ps as [|p ps'].
  - inversion H; subst. reflexivity.
  - assert (Hfirst : exists c r, skip_ws (join [44] (p :: ps') ++ 93 :: rest) = c :: r /\ c <> 93 /\ c <> 125).
    { inversion H as [|? v ? vs' Hp Hrest]; subst. destruct ps' as [|p2 ps''].
      - rewrite join_single. apply (ptw_first p v); [exact Hp|reflexivity].
      - rewrite join_cons, <- !List.app_assoc. cbn [List.app].
        apply (ptw_first p v); [exact Hp|reflexivity]. }
    destruct Hfirst as (c & r & -> & Hc & _).
    replace (c =? 93) with false by (symmetry; apply N.eqb_neq; exact Hc).
    cbn [length] in Hf. rewrite List.app_length in Hf. cbn [length] in Hf.
    rewrite (elems_ok _ _ H); [reflexivity|discriminate|lia].
Qed.

(* ------------------------------------------------------------------ *)
(** * Objects *)

(** one member: optional whitespace, the key, optional whitespace, a colon, a
    rendering of the value (which may start with whitespace), whitespace *)
Definition member_ok (m : bytes) (kv : bytes * json) : Prop :=
  exists pre ws1 q post,
    m = pre ++ print_str (fst kv) ++ ws1 ++ 58 :: q ++ post /\
    all_ws pre /\ all_ws ws1 /\ all_ws post /\ parses_to q (snd kv).

Lemma member_length m kv : member_ok m kv -> (2 <= length m)%nat.
Proof.
  intros (pre & ws1 & q & post & -> & _). unfold print_str.
  rewrite !List.app_length. cbn [length]. rewrite !List.app_length. cbn [length]. lia.
Qed.

Lemma members_ok ms kvs :
  Forall2 member_ok ms kvs -> ms <> [] ->
  forall f acc rest, (length (join [44%N] ms) + 1 <= f)%nat ->
  parse_members f acc (join [44] ms ++ 125 :: rest) = Some (JObj (List.rev acc ++ kvs), rest).
Proof.
  induction 1 as [|m kv ms' kvs' Hm Hrest IH]; [congruence|].
  intros _ f acc rest Hf. destruct f as [|f]; [lia|].
  rewrite parse_members_S. unfold members_step.
  destruct Hm as (pre & ws1 & q & post & -> & Hpre & Hws1 & Hpost & Hq).
  destruct kv as [k v]. cbn [fst snd] in *. unfold print_str in *.
  assert (Hlen : (length q <= length (pre ++ (34%N :: esc k ++ [34%N]) ++ ws1 ++ 58%N :: q ++ post))%nat).
  { rewrite !List.app_length. cbn [length]. rewrite !List.app_length. lia. }
  destruct ms' as [|m2 ms''].
  - inversion Hrest; subst. rewrite join_single in *.
    repeat (rewrite <- !List.app_assoc; cbn [List.app]).
    rewrite skip_ws_app by exact Hpre. rewrite skip_ws_head by reflexivity.
    cbn [N.eqb Pos.eqb]. rewrite parse_chars_esc.
    rewrite skip_ws_app by exact Hws1. rewrite skip_ws_head by reflexivity.
    cbn [N.eqb Pos.eqb].
    rewrite Hq; [|lia|apply ok_rest_ws; [exact Hpost|reflexivity]].
    rewrite skip_ws_app by exact Hpost. rewrite skip_ws_head by reflexivity.
    cbn [N.eqb Pos.eqb List.rev]. reflexivity.
  - rewrite join_cons in *. rewrite (List.app_length _ ([44] ++ _)) in Hf.
    rewrite (List.app_length [44]) in Hf. cbn [length] in Hf.
    repeat (rewrite <- !List.app_assoc; cbn [List.app]).
    rewrite skip_ws_app by exact Hpre. rewrite skip_ws_head by reflexivity.
    cbn [N.eqb Pos.eqb]. rewrite parse_chars_esc.
    rewrite skip_ws_app by exact Hws1. rewrite skip_ws_head by reflexivity.
    cbn [N.eqb Pos.eqb].
    rewrite Hq; [|lia|apply ok_rest_ws; [exact Hpost|reflexivity]].
    rewrite skip_ws_app by exact Hpost. rewrite skip_ws_head by reflexivity.
    cbn [N.eqb Pos.eqb].
    rewrite IH; [|discriminate|lia]. cbn [List.rev]. rewrite <- List.app_assoc. reflexivity.
Qed.

Lemma pt_obj ms kvs :
  Forall2 member_ok ms kvs -> parses_to (123 :: join [44] ms ++ [125]) (JObj kvs).
Proof.
  intros H f rest Hf _. destruct f as [|f]; [cbn in Hf; lia|].
  cbn [List.app]. rewrite <- List.app_assoc. cbn [List.app].
  rewrite parse_val_S, val_step_obj.
  destruct ms as [|m ms'].
  - inversion H; subst. reflexivity.
  - assert (Hfirst : exists r, skip_ws (join [44] (m :: ms') ++ 125 :: rest) = 34 :: r).
    { inversion H as [|? kv ? kvs' Hm Hrest]; subst.
      destruct Hm as (pre & ws1 & q & post & -> & Hpre & _). unfold print_str.
      destruct ms' as [|m2 ms'']; [rewrite join_single|rewrite join_cons];
        repeat (rewrite <- !List.app_assoc; cbn [List.app]);
        rewrite skip_ws_app by exact Hpre; rewrite skip_ws_head by reflexivity;
        eexists; reflexivity. }
    destruct Hfirst as (r & ->). cbn [N.eqb Pos.eqb].
    cbn [length] in Hf. rewrite List.app_length in Hf. cbn [length] in Hf.
    rewrite (members_ok _ _ H); [reflexivity|discriminate|lia].
Qed.

(* ------------------------------------------------------------------ *)
(** * print / parse round trip *)

Section JsonInd.
  Variable P : json -> Prop.
  Hypothesis Hnull : P JNull.
  Hypothesis Hbool : forall b, P (JBool b).
  Hypothesis Hnum : forall m e, P (JNum m e).
  Hypothesis Hstr : forall s, P (JStr s).
  Hypothesis Harr : forall l, Forall P l -> P (JArr l).
  Hypothesis Hobj : forall l, Forall (fun kv => P (snd kv)) l -> P (JObj l).

  Fixpoint json_ind' (v : json) : P v :=
    match v with
    | JNull => Hnull
    | JBool b => Hbool b
    | JNum m e => Hnum m e
    | JStr s => Hstr s
    | JArr l =>
      Harr l ((fix go (l : list json) : Forall P l :=
                 match l with
                 | [] => Forall_nil _
                 | x :: r => Forall_cons _ (json_ind' x) (go r)
                 end) l)
    | JObj l =>
      Hobj l ((fix go (l : list (bytes * json)) : Forall (fun kv => P (snd kv)) l :=
                 match l with
                 | [] => Forall_nil _
                 | kv :: r =>
                   Forall_cons (P := fun kv => P (snd kv)) kv
                     (match kv as kv0 return P (snd kv0) with (k, x) => json_ind' x end) (go r)
                 end) l)
    end.
End JsonInd.

Lemma wf_arr l : wf_json (JArr l) <-> Forall wf_json l.
Proof.
  induction l as [|x r IH]; cbn; [split; auto|].
  split.
  - intros [Hx Hr]. constructor; [exact Hx|apply IH, Hr].
  - intros H. inversion H; subst. split; [assumption|apply IH; assumption].
Qed.

Lemma wf_obj l : wf_json (JObj l) <-> Forall (fun kv => wf_json (snd kv)) l.
Proof.
  induction l as [|x r IH]; cbn; [split; auto|].
  split.
  - intros [Hx Hr]. constructor; [exact Hx|apply IH, Hr].
  - intros H. inversion H; subst. split; [assumption|apply IH; assumption].
Qed.

Lemma print_parses_to v : wf_json v -> parses_to (print v) v.
Proof.
  induction v as [|b|m e|s|l IH|l IH] using json_ind'; intros Hwf.
  - apply pt_lit; auto.
  - destruct b; apply pt_lit; auto.
  - apply pt_num, Hwf.
  - apply pt_str.
  - cbn [print]. apply pt_arr. apply wf_arr in Hwf.
    induction l as [|x r IHr]; cbn [map]; constructor.
    + apply pt_to_ws. inversion IH; inversion Hwf; subst. auto.
    + inversion IH; inversion Hwf; subst. auto.
  - cbn [print]. apply pt_obj. apply wf_obj in Hwf.
    induction l as [|[k x] r IHr]; cbn [map]; constructor.
    + inversion IH; inversion Hwf; subst. cbn [snd] in *.
      exists [], [], (print x), []. cbn [List.app fst snd]. rewrite List.app_nil_r.
      repeat split; auto using all_ws_nil.
    + inversion IH; inversion Hwf; subst. auto.
Qed.

(** top level: the whole text, optionally followed by whitespace *)
Lemma parse_of_parses_to p v w : parses_to p v -> all_ws w -> parse (p ++ w) = Some v.
Proof.
  intros Hp Hw. unfold parse.
  assert (Hok : ok_rest w).
  { destruct w as [|b w]; cbn; [trivial|]. unfold all_ws in Hw. cbn [forallb] in Hw.
    apply andb_true_iff in Hw. apply ws_not_numchar, Hw. }
  rewrite Hp; [|rewrite List.app_length; lia|exact Hok].
  rewrite <- (List.app_nil_r w), skip_ws_app by exact Hw. reflexivity.
Qed.

Lemma print_parse v : wf_json v -> parse (print v) = Some v.
Proof.
  intros H. rewrite <- (List.app_nil_r (print v)).
  apply parse_of_parses_to; [apply print_parses_to, H|apply all_ws_nil].
Qed.
