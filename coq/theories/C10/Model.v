(** C10: what lmd writes for a response (definitions only).

    - cells and rows: [DataRow.WriteJSON*] (datarow.go) and the [WriteVal] loop of
      [Response.WriteDataResponse] for stats rows;
    - [body_json] / [body_wrapped]: [Response.JSON] / [Response.WrappedJSON] with
      their literal [WriteRaw] fragments (response.go);
    - [frame]: [Response.send] (fixed16 header, trailing newline);
    - [serve]: the loop of [ClientConnection.answer] / [processRequests]
      (client_con.go) as a function from the requests a client sends one after
      the other (the next one only after the previous answer was read, see
      DESIGN appendix B) to the answers and whether the daemon closes. *)
From Coq Require Import List NArith ZArith Bool Lia.
Import ListNotations.
From LMD Require Export C10.Json.
Open Scope N_scope.
Open Scope list_scope.

(* ------------------------------------------------------------------ *)
(** * jsoniter's HTML-escaping string encoder ([WriteVal] of a string with
      ConfigCompatibleWithStandardLibrary = WriteStringWithHTMLEscaped) *)

Definition cont (b : N) : bool := (128 <=? b) && (b <? 192).

(** Go's utf8.DecodeRune on a first byte >= 0x80: number of bytes of the valid
    encoding at the head of [s], 0 if there is none (RuneError, size 1) *)
Definition rune_size (s : bytes) : nat :=
  match s with
  | [] => O
  | b0 :: r =>
    if (194 <=? b0) && (b0 <=? 223) then
      match r with b1 :: _ => if cont b1 then 2%nat else O | _ => O end
    else if b0 =? 224 then
      match r with b1 :: b2 :: _ => if (160 <=? b1) && (b1 <? 192) && cont b2 then 3%nat else O | _ => O end
    else if ((225 <=? b0) && (b0 <=? 236)) || (b0 =? 238) || (b0 =? 239) then
      match r with b1 :: b2 :: _ => if cont b1 && cont b2 then 3%nat else O | _ => O end
    else if b0 =? 237 then
      match r with b1 :: b2 :: _ => if (128 <=? b1) && (b1 <? 160) && cont b2 then 3%nat else O | _ => O end
    else if b0 =? 240 then
      match r with b1 :: b2 :: b3 :: _ => if (144 <=? b1) && (b1 <? 192) && cont b2 && cont b3 then 4%nat else O | _ => O end
    else if (241 <=? b0) && (b0 <=? 243) then
      match r with b1 :: b2 :: b3 :: _ => if cont b1 && cont b2 && cont b3 then 4%nat else O | _ => O end
    else if b0 =? 244 then
      match r with b1 :: b2 :: b3 :: _ => if (128 <=? b1) && (b1 <? 144) && cont b2 && cont b3 then 4%nat else O | _ => O end
    else O
  end.

(** htmlSafeSet: printable ASCII except the double quote, backslash, <, >, & (0x7f is "safe") *)
Definition html_safe (b : N) : bool :=
  (32 <=? b) && (b <? 128) && negb ((b =? 34) || (b =? 92) || (b =? 60) || (b =? 62) || (b =? 38)).

Definition esc_html_ascii (b : N) : bytes :=
  if html_safe b then [b]
  else if b =? 34 then [92; 34]
  else if b =? 92 then [92; 92]
  else if b =? 10 then [92; 110]
  else if b =? 13 then [92; 114]
  else if b =? 9 then [92; 116]
  else [92; 117; 48; 48; hexd (b / 16); hexd (b mod 16)].

(** line / paragraph separator U+2028 / U+2029 = E2 80 A8 / E2 80 A9 *)
Definition is_lsep (s : bytes) : option N :=
  match s with
  | 226 :: 128 :: 168 :: _ => Some 56
  | 226 :: 128 :: 169 :: _ => Some 57
  | _ => None
  end.

(** [skip] bytes of an already decoded rune remain: copied ([copy]) or dropped *)
Fixpoint esc_html_go (copy : bool) (skip : nat) (s : bytes) : bytes :=
  match s with
  | [] => []
  | b :: r =>
    match skip with
    | S k => (if copy then [b] else []) ++ esc_html_go copy k r
    | O =>
      if b <? 128 then esc_html_ascii b ++ esc_html_go true O r
      else match rune_size s with
           | O => [92; 117; 102; 102; 102; 100] ++ esc_html_go true O r
           | S k =>
             match is_lsep s with
             | Some d => [92; 117; 50; 48; 50; d] ++ esc_html_go false k r
             | None => b :: esc_html_go true k r
             end
           end
    end
  end.

Definition esc_html (s : bytes) : bytes := esc_html_go true O s.

(** what a JSON reader gets back: invalid bytes became U+FFFD *)
Fixpoint sanitize_go (skip : nat) (s : bytes) : bytes :=
  match s with
  | [] => []
  | b :: r =>
    match skip with
    | S k => b :: sanitize_go k r
    | O =>
      if b <? 128 then b :: sanitize_go O r
      else match rune_size s with
           | O => repl ++ sanitize_go O r
           | S k => b :: sanitize_go k r
           end
    end
  end.

Definition sanitize (s : bytes) : bytes := sanitize_go O s.

Definition print_html (s : bytes) : bytes := 34 :: esc_html s ++ [34].

(** Go's strings.ToValidUTF8 s "\uFFFD": every maximal RUN of bytes that are
    not part of a valid encoding becomes one U+FFFD ([inv]: the previous byte
    was invalid).  Every string lmd hands to [WriteString] / [WriteObjectField]
    goes through it first (helper writeJSONString, see notes/C10.md F1: the
    pinned code does not do this and copies invalid UTF-8 into the body). *)
Fixpoint to_valid_go (inv : bool) (skip : nat) (s : bytes) : bytes :=
  match s with
  | [] => []
  | b :: r =>
    match skip with
    | S k => b :: to_valid_go false k r
    | O =>
      if b <? 128 then b :: to_valid_go false O r
      else match rune_size s with
           | O => (if inv then [] else repl) ++ to_valid_go true O r
           | S k => b :: to_valid_go false k r
           end
    end
  end.

Definition to_valid (s : bytes) : bytes := to_valid_go false O s.

(** a well-formed UTF-8 byte string *)
Fixpoint utf8_valid_go (skip : nat) (s : bytes) : bool :=
  match s with
  | [] => Nat.eqb skip 0
  | b :: r =>
    match skip with
    | S k => utf8_valid_go k r
    | O =>
      if b <? 128 then utf8_valid_go O r
      else match rune_size s with
           | O => false
           | S k => utf8_valid_go k r
           end
    end
  end.

Definition utf8_valid (s : bytes) : bool := utf8_valid_go O s.

(** a string as [writeJSONString] renders it *)
Definition jstr (s : bytes) : json := JStr (to_valid s).

(* ------------------------------------------------------------------ *)
(** * Cells *)

Inductive cell :=
| CStr (s : bytes)                      (* WriteString: string columns, also "" of an empty column *)
| CInt (z : Z)                          (* WriteInt8 / WriteInt64 / WriteInt(-1) *)
| CStrList (l : list bytes)             (* string list columns *)
| CIntList (l : list Z)                 (* id list columns *)
| CPairs (l : list (bytes * bytes))     (* service member lists [[host,service],...] *)
| CCustVar (names values : list bytes)  (* custom_variables object *)
| CEmptyObj                             (* WriteEmptyObject *)
| CHtml (s : bytes)                     (* WriteVal of a string (stats group key) *)
| CExt (tok : bytes) (v : json).        (* token written by an external formatter: float64
                                           (strconv), raw JSON column, WriteVal(interface{}) *)

(** names are paired with values by position; a missing value is null,
    surplus values are dropped, duplicate names stay *)
Fixpoint custvar_members (names values : list bytes) : list (bytes * json) :=
  match names with
  | [] => []
  | n :: ns =>
    match values with
    | v :: vs => (to_valid n, jstr v) :: custvar_members ns vs
    | [] => (to_valid n, JNull) :: custvar_members ns []
    end
  end.

Definition cell_json (c : cell) : json :=
  match c with
  | CStr s => jstr s
  | CInt z => JNum z 0
  | CStrList l => JArr (map jstr l)
  | CIntList l => JArr (map (fun z => JNum z 0) l)
  | CPairs l => JArr (map (fun hs => JArr [jstr (fst hs); jstr (snd hs)]) l)
  | CCustVar names values => JObj (custvar_members names values)
  | CEmptyObj => JObj []
  | CHtml s => JStr (sanitize s)
  | CExt _ v => v
  end.

(** the bytes: jsoniter with indention 0 writes these values compactly, i.e.
    exactly [print] of the value; the two other kinds carry their own bytes *)
Definition cell_bytes (c : cell) : bytes :=
  match c with
  | CHtml s => print_html s
  | CExt tok _ => tok
  | _ => print (cell_json c)
  end.

(* ------------------------------------------------------------------ *)
(** * Bodies *)

Definition row_bytes (r : list cell) : bytes := 91 :: join [44] (map cell_bytes r) ++ [93].
Definition row_json (r : list cell) : json := JArr (map cell_json r).

(** WriteDataResponse: rows separated by ",\n" *)
Definition rows_bytes (rows : list (list cell)) : bytes := join [44; 10] (map row_bytes rows).

(** WriteColumnsResponse: the names, then "\n" *)
Definition cols_json (cols : list bytes) : json := JArr (map jstr cols).
Definition cols_bytes (cols : list bytes) : bytes := print (cols_json cols) ++ [10].

(** Response.JSON *)
Definition body_json (hdr : option (list bytes)) (rows : list (list cell)) : bytes :=
  91 :: match hdr with
        | Some cols => cols_bytes cols ++ match rows with [] => [] | _ :: _ => [44] end
        | None => []
        end
     ++ rows_bytes rows ++ [93].

Definition shape_json (hdr : option (list bytes)) (rows : list (list cell)) : json :=
  JArr (match hdr with Some cols => [cols_json cols] | None => [] end ++ map row_json rows).

Definition failed_json (failed : list (bytes * bytes)) : json :=
  JObj (map (fun kv => (to_valid (fst kv), jstr (snd kv))) failed).

Definition failed_bytes (failed : list (bytes * bytes)) : bytes :=
  join [44] (map (fun kv => print_str (to_valid (fst kv)) ++ 58 :: print_str (to_valid (snd kv))) failed).

(** Response.WrappedJSON *)
Definition body_wrapped (hdr : option (list bytes)) (rows : list (list cell))
           (failed : list (bytes * bytes)) (scanned total : Z) : bytes :=
  lit "{""data"":" ++ [10; 91] ++ rows_bytes rows ++ [93; 10]
  ++ lit ",""failed"": {" ++ failed_bytes failed ++ [125]
  ++ match hdr with
     | Some cols => 10 :: lit ",""columns"":" ++ cols_bytes cols
     | None => []
     end
  ++ 10 :: lit ",""rows_scanned"":" ++ dec_Z scanned
  ++ 10 :: lit ",""total_count"":" ++ dec_Z total ++ [125].

Definition shape_wrapped (hdr : option (list bytes)) (rows : list (list cell))
           (failed : list (bytes * bytes)) (scanned total : Z) : json :=
  JObj ([(lit "data", JArr (map row_json rows)); (lit "failed", failed_json failed)]
        ++ match hdr with Some cols => [(lit "columns", cols_json cols)] | None => [] end
        ++ [(lit "rows_scanned", JNum scanned 0); (lit "total_count", JNum total 0)]).

(* ------------------------------------------------------------------ *)
(** * Framing: Response.send *)

Definition digit_at (n : N) (i : nat) : N := 48 + (n / 10 ^ N.of_nat i) mod 10.

(** the [w] low decimal digits of [n], most significant first *)
Fixpoint digits_fixed (w : nat) (n : N) : bytes :=
  match w with
  | O => []
  | S w' => digit_at n w' :: digits_fixed w' n
  end.

(** leading zeros become blanks, the last digit stays *)
Fixpoint blank_zeros (l : bytes) : bytes :=
  match l with
  | [] => []
  | d :: r => match r with
              | [] => [d]
              | _ :: _ => if d =? 48 then 32 :: blank_zeros r else l
              end
  end.

(** fmt's "%<w>d": right aligned in [w] columns; wider numbers are not cut *)
Definition fmt_width (w : nat) (n : N) : bytes :=
  if n <? 10 ^ N.of_nat w then blank_zeros (digits_fixed w n) else dec_N n.

(** "%d" of a status code *)
Definition fmt_code (code : N) : bytes :=
  if (100 <=? code) && (code <? 1000) then digits_fixed 3 code else dec_N code.

(** fmt.Sprintf("%d %11d", code, size+1) and the newline *)
Definition header16 (code len : N) : bytes := fmt_code code ++ 32 :: fmt_width 11 len ++ [10].

Definition frame (fixed16 : bool) (code : N) (body : bytes) : bytes :=
  (if fixed16 then header16 code (N.of_nat (length body) + 1) else []) ++ body ++ [10].

(** a client's reading of a header *)
Definition of_digits (l : bytes) : N := fold_left (fun a d => a * 10 + (d - 48)) l 0.

Fixpoint skip_blanks (l : bytes) : bytes :=
  match l with
  | b :: r => if b =? 32 then skip_blanks r else l
  | [] => []
  end.

Definition all_digits (l : bytes) : bool := forallb is_digit l && negb (Nat.eqb (length l) 0).

(** [Some (code, length, rest)] if the stream starts with a fixed16 header *)
Definition read_header (i : bytes) : option (N * N * bytes) :=
  let c := firstn 3 i in
  let l := skip_blanks (firstn 11 (skipn 4 i)) in
  if all_digits c && all_digits l
     && (nth 3 i 0 =? 32) && (nth 15 i 0 =? 10) && Nat.leb 16 (length i)
  then Some (of_digits c, of_digits l, skipn 16 i) else None.

(** read one framed answer: header, then exactly the announced number of bytes *)
Definition read_frame (i : bytes) : option (N * bytes * bytes) :=
  match read_header i with
  | Some (code, len, r) =>
    if Nat.leb (N.to_nat len) (length r) then Some (code, firstn (N.to_nat len) r, skipn (N.to_nat len) r)
    else None
  | None => None
  end.

(* ------------------------------------------------------------------ *)
(** * The connection loop *)

Inductive request :=
| RBad (err : bytes)          (* ParseRequests fails with this error text *)
| REmpty                      (* an empty line *)
| RGet (keepalive fixed16 : bool) (code : N) (body : bytes).
                              (* a request that parsed; it is answered with this status code
                                 and body (result or error text) *)

Definition empty_request_text : bytes := lit "bad request: empty request".

(** [first]: no request was processed on this connection yet (cl.keepAlive is
    false); later requests are only read while the previous one asked for
    KeepAlive.  Result: the answers in order and whether the daemon closes. *)
Fixpoint serve (first : bool) (rs : list request) : list bytes * bool :=
  match rs with
  | [] => ([], false)
  | RBad err :: _ => ([frame false 400 err], true)
  | REmpty :: rest =>
    if first then ([frame false 400 empty_request_text], true) else serve false rest
  | RGet ka fx code body :: rest =>
    if ka then let '(out, closed) := serve false rest in (frame fx code body :: out, closed)
    else ([frame fx code body], true)
  end.

Definition answer_of (r : request) : list bytes :=
  match r with
  | RBad err => [frame false 400 err]
  | REmpty => []
  | RGet _ fx code body => [frame fx code body]
  end.

Definition keeps_alive (r : request) : bool :=
  match r with RGet true _ _ _ => true | _ => false end.
