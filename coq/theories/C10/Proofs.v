(** C10: proofs about the response model (shape, custom variables, framing,
    connection loop). *)
From Coq Require Import List NArith ZArith Bool Lia Ring.
Import ListNotations.
From LMD Require Import C10.Json C10.JsonProofs C10.Model.
Open Scope N_scope.
Open Scope list_scope.

(* ------------------------------------------------------------------ *)
(** * Cells *)

(** hypotheses about the tokens the model does not produce itself *)
Definition cell_ok (c : cell) : Prop :=
  match c with
  | CExt tok v => parses_to tok v
  | _ => True
  end.

Lemma wf_int z : wf_json (JNum z 0).
Proof. cbn. split; lia. Qed.

Lemma wf_custvar names values : wf_json (JObj (custvar_members names values)).
Proof.
  apply wf_obj. revert values. induction names as [|n ns IH]; intros values; cbn [custvar_members].
  - constructor.
  - destruct values as [|v vs]; constructor; cbn; auto.
Qed.

Lemma wf_cell c :
  match c with CHtml _ | CExt _ _ => True | _ => wf_json (cell_json c) end.
Proof.
  destruct c as [s|z|l|l|l|names values| |s|tok v]; cbn [cell_json].
  - exact I.
  - apply wf_int.
  - apply wf_arr. induction l; constructor; auto. exact I.
  - apply wf_arr. induction l; constructor; auto. apply wf_int.
  - apply wf_arr. induction l; constructor; auto. cbn. auto.
  - apply wf_custvar.
  - exact I.
  - exact I.
  - exact I.
Qed.

(* ---- the HTML escaping encoder ---- *)

Lemma cont_ge b : cont b = true -> 128 <= b /\ b < 192.
Proof.
  unfold cont. intros H. apply andb_true_iff in H. destruct H as [H1 H2].
  apply N.leb_le in H1. apply N.ltb_lt in H2. lia.
Qed.

Lemma parse_chars_high b tail :
  128 <= b -> parse_chars (b :: tail) = prepend [b] (parse_chars tail).
Proof.
  intros H. cbn [parse_chars].
  replace (b =? 34) with false by (symmetry; apply N.eqb_neq; lia).
  replace (b =? 92) with false by (symmetry; apply N.eqb_neq; lia).
  replace (b <? 32) with false by (symmetry; apply N.ltb_ge; lia).
  reflexivity.
Qed.

Lemma esc_html_ascii_parse b tail :
  b < 128 -> parse_chars (esc_html_ascii b ++ tail) = prepend [b] (parse_chars tail).
Proof.
  revert b. apply (small_cases _ 128). intros j Hj.
  do 128 (destruct j as [|j]; [reflexivity|]). lia.
Qed.

Lemma prepend_app a b r : prepend a (prepend b r) = prepend (a ++ b) r.
Proof. destruct r as [[s r']|]; cbn [prepend]; [rewrite List.app_assoc|]; reflexivity. Qed.

(** shape of the input when a multi-byte rune is valid *)
Lemma rune_size_shape s k :
  rune_size s = S k ->
  exists b0 t, s = b0 :: t /\ 128 <= b0 /\ (k <= 3)%nat /\ (k <= length t)%nat /\
               Forall (fun b => 128 <= b) (firstn k t).
Proof.
  destruct s as [|b0 t]; [discriminate|]. intros H. exists b0, t. split; [reflexivity|].
  unfold rune_size in H.
  repeat match type of H with
         | (if ?c then _ else _) = _ => let E := fresh "E" in destruct c eqn:E
         | (match ?l with [] => _ | _ :: _ => _ end) = _ => destruct l
         end; try discriminate; injection H as <-.
  all: repeat match goal with
              | E : (_ && _) = true |- _ => apply andb_true_iff in E; destruct E
              | E : (_ || _) = true |- _ => apply orb_true_iff in E; destruct E
              | E : cont _ = true |- _ => apply cont_ge in E
              | E : (_ <=? _) = true |- _ => apply N.leb_le in E
              | E : (_ <? _) = true |- _ => apply N.ltb_lt in E
              | E : (_ =? _) = true |- _ => apply N.eqb_eq in E
              end.
  all: cbn [length firstn]; repeat split; try lia; repeat constructor; lia.
Qed.

Lemma is_lsep_shape s d :
  is_lsep s = Some d ->
  exists t, (s = 226 :: 128 :: 168 :: t /\ d = 56) \/ (s = 226 :: 128 :: 169 :: t /\ d = 57).
Proof.
  unfold is_lsep. intros H.
  repeat match type of H with
         | match ?x with _ => _ end = _ => destruct x; try discriminate
         end; injection H as <-; eexists; auto.
Qed.

Lemma copy_skip k t tail :
  (k <= length t)%nat -> Forall (fun b => 128 <= b) (firstn k t) ->
  forall rest,
    (forall rest', parse_chars (esc_html_go true O (skipn k t) ++ 34 :: rest') = Some (sanitize_go O (skipn k t), rest')) ->
    tail = 34 :: rest ->
    parse_chars (esc_html_go true k t ++ tail) = Some (sanitize_go k t, rest).
Proof.
  revert t. induction k as [|k IH]; intros t Hlen Hall rest Hrec ->.
  - cbn [skipn] in Hrec. apply Hrec.
  - destruct t as [|b t]; [cbn in Hlen; lia|].
    cbn [firstn] in Hall. inversion Hall as [|? ? Hb Hall']; subst.
    cbn [esc_html_go sanitize_go List.app]. rewrite parse_chars_high by exact Hb.
    rewrite (IH t) with (rest := rest); [reflexivity|cbn in Hlen; lia|exact Hall'|exact Hrec|reflexivity].
Qed.

Lemma esc_html_go_O c s : esc_html_go c O s = esc_html_go true O s.
Proof. destruct s; reflexivity. Qed.

Lemma skipn_length_le {A} k (t : list A) : (length (skipn k t) <= length t)%nat.
Proof. rewrite skipn_length. lia. Qed.

Lemma esc_html_parse_n n : forall s rest,
  (length s <= n)%nat ->
  parse_chars (esc_html_go true O s ++ 34 :: rest) = Some (sanitize_go O s, rest).
Proof.
  induction n as [|n IH]; intros s rest Hn.
  - destruct s; [reflexivity|cbn in Hn; lia].
  - destruct s as [|b r]; [reflexivity|]. cbn [length] in Hn.
    cbn [esc_html_go sanitize_go]. destruct (b <? 128) eqn:Eb.
    + apply N.ltb_lt in Eb. rewrite <- List.app_assoc, esc_html_ascii_parse by exact Eb.
      rewrite IH by lia. reflexivity.
    + destruct (rune_size (b :: r)) as [|k] eqn:Er.
      * rewrite <- List.app_assoc. cbn [List.app].
        change (parse_chars (92 :: 117 :: 102 :: 102 :: 102 :: 100 :: esc_html_go true 0 r ++ 34 :: rest))
          with (prepend repl (parse_chars (esc_html_go true 0 r ++ 34 :: rest))).
        rewrite IH by lia. reflexivity.
      * destruct (rune_size_shape _ _ Er) as (b0 & t & Hs & Hb0 & Hk3 & Hkl & Hall).
        injection Hs as <- <-.
        assert (Hrec : forall rest', parse_chars (esc_html_go true O (skipn k r) ++ 34 :: rest')
                                     = Some (sanitize_go O (skipn k r), rest')).
        { intros rest'. apply IH. pose proof (skipn_length_le k r). lia. }
        destruct (is_lsep (b :: r)) as [d|] eqn:El.
        -- destruct (is_lsep_shape _ _ El) as (t' & [[Hs ->]|[Hs ->]]); injection Hs as -> ->;
             cbn in Er; injection Er as <-;
             cbn [esc_html_go sanitize_go List.app skipn] in *;
             rewrite (esc_html_go_O false).
           ++ change (parse_chars (92 :: 117 :: 50 :: 48 :: 50 :: 56 :: esc_html_go true 0 t' ++ 34 :: rest))
                with (prepend [226; 128; 168] (parse_chars (esc_html_go true 0 t' ++ 34 :: rest))).
              rewrite Hrec. reflexivity.
           ++ change (parse_chars (92 :: 117 :: 50 :: 48 :: 50 :: 57 :: esc_html_go true 0 t' ++ 34 :: rest))
                with (prepend [226; 128; 169] (parse_chars (esc_html_go true 0 t' ++ 34 :: rest))).
              rewrite Hrec. reflexivity.
        -- cbn [List.app]. rewrite parse_chars_high by exact Hb0.
           rewrite (copy_skip k r _ Hkl Hall rest Hrec eq_refl). reflexivity.
Qed.

Lemma parse_chars_esc_html s rest :
  parse_chars (esc_html s ++ 34 :: rest) = Some (sanitize s, rest).
Proof. apply (esc_html_parse_n (length s)). lia. Qed.

Lemma pt_html s : parses_to (print_html s) (JStr (sanitize s)).
Proof.
  intros f rest Hf _. destruct f; [cbn in Hf; lia|].
  unfold print_html. cbn [List.app]. rewrite <- List.app_assoc. cbn [List.app].
  rewrite parse_val_S, val_step_str, parse_chars_esc_html. reflexivity.
Qed.

Lemma cell_parses c : cell_ok c -> parses_to (cell_bytes c) (cell_json c).
Proof.
  intros H. pose proof (wf_cell c) as Hwf.
  destruct c; try (apply print_parses_to; exact Hwf).
  - apply pt_html.
  - exact H.
Qed.

(* ------------------------------------------------------------------ *)
(** * Rows and bodies *)

Lemma row_parses r : Forall cell_ok r -> parses_to (row_bytes r) (row_json r).
Proof.
  intros H. apply pt_arr. induction H as [|c r Hc Hr IH]; cbn [map]; constructor; [|exact IH].
  apply pt_to_ws, cell_parses, Hc.
Qed.

Lemma cols_parses cols : parses_to_ws (cols_bytes cols) (cols_json cols).
Proof.
  exists (print (cols_json cols)), [10]. repeat split.
  apply print_parses_to, wf_arr. induction cols; constructor; auto. exact I.
Qed.

(** rows separated by ",\n" = comma separated items, all but the first one
    preceded by a newline *)
Definition row_items (rows : list (list cell)) : list bytes :=
  match rows with
  | [] => []
  | r :: rs => row_bytes r :: map (fun r => 10 :: row_bytes r) rs
  end.

Lemma join_head sep b x l : join sep ((b :: x) :: l) = b :: join sep (x :: l).
Proof. destruct l; reflexivity. Qed.

Lemma rows_bytes_items rows : rows_bytes rows = join [44] (row_items rows).
Proof.
  unfold rows_bytes. destruct rows as [|r rs]; [reflexivity|]. cbn [row_items map].
  revert r. induction rs as [|r2 rs IH]; intros r; [reflexivity|].
  cbn [map]. rewrite !join_cons. rewrite (IH r2). cbn [map].
  rewrite join_head. reflexivity.
Qed.

Lemma row_items_parse rows :
  Forall (Forall cell_ok) rows -> Forall2 parses_to_ws (row_items rows) (map row_json rows).
Proof.
  intros H. destruct H as [|r rs Hr Hrs]; cbn [row_items map]; constructor.
  - apply pt_to_ws, row_parses, Hr.
  - induction Hrs as [|r2 rs Hr2 Hrs IH]; cbn [map]; constructor; [|exact IH].
    apply pt_to_ws. apply (pt_ws [10]); [reflexivity|apply row_parses, Hr2].
Qed.

Lemma body_json_items hdr rows :
  body_json hdr rows =
  91 :: join [44] (match hdr with Some cols => [cols_bytes cols] | None => [] end ++ row_items rows) ++ [93].
Proof.
  unfold body_json. rewrite rows_bytes_items. destruct hdr as [cols|]; [|reflexivity].
  destruct rows as [|r rs].
  - cbn [row_items List.app join]. rewrite !List.app_nil_r. reflexivity.
  - cbn [row_items List.app]. rewrite join_cons. rewrite <- !List.app_assoc. reflexivity.
Qed.

Lemma body_json_parses hdr rows :
  Forall (Forall cell_ok) rows -> parses_to (body_json hdr rows) (shape_json hdr rows).
Proof.
  intros H. rewrite body_json_items. unfold shape_json. apply pt_arr.
  apply Forall2_app; [|apply row_items_parse, H].
  destruct hdr; constructor; [apply cols_parses|constructor].
Qed.

Lemma failed_members failed :
  Forall2 member_ok (map (fun kv => print_str (to_valid (fst kv)) ++ 58 :: print_str (to_valid (snd kv))) failed)
          (map (fun kv => (to_valid (fst kv), jstr (snd kv))) failed).
Proof.
  induction failed as [|[k v] r IH]; cbn [map]; constructor; [|exact IH].
  exists [], [], (print_str (to_valid v)), []. cbn [fst snd List.app]. rewrite List.app_nil_r.
  repeat split; auto using all_ws_nil. apply pt_str.
Qed.

Lemma rows_array_parses rows :
  Forall (Forall cell_ok) rows ->
  parses_to (91 :: rows_bytes rows ++ [93]) (JArr (map row_json rows)).
Proof. intros H. rewrite rows_bytes_items. apply pt_arr, row_items_parse, H. Qed.

Lemma member_intro (k : bytes) q post v :
  esc k = k -> all_ws post -> parses_to q v ->
  member_ok (34 :: k ++ 34 :: 58 :: q ++ post) (k, v).
Proof.
  intros Hk Hpost Hq. exists [], [], q, post. cbn [fst snd List.app]. unfold print_str.
  rewrite Hk. cbn [List.app]. rewrite <- List.app_assoc. cbn [List.app]. repeat split; auto using all_ws_nil.
Qed.

Lemma body_wrapped_members hdr rows failed scanned total :
  body_wrapped hdr rows failed scanned total =
  123 :: join [44]
    ([34 :: lit "data" ++ 34 :: 58 :: (10 :: 91 :: rows_bytes rows ++ [93]) ++ [10];
      34 :: lit "failed" ++ 34 :: 58 :: (32 :: 123 :: failed_bytes failed ++ [125]) ++ [10]]
     ++ match hdr with
        | Some cols => [34 :: lit "columns" ++ 34 :: 58 :: print (cols_json cols) ++ [10; 10]]
        | None => []
        end
     ++ [34 :: lit "rows_scanned" ++ 34 :: 58 :: dec_Z scanned ++ [10];
         34 :: lit "total_count" ++ 34 :: 58 :: dec_Z total ++ []]) ++ [125].
Proof.
  unfold body_wrapped, cols_bytes. destruct hdr as [cols|];
    cbn [List.app join lit map String.list_ascii_of_string Ascii.N_of_ascii];
    repeat (rewrite <- !List.app_assoc; cbn [List.app]); reflexivity.
Qed.

Lemma body_wrapped_parses hdr rows failed scanned total :
  Forall (Forall cell_ok) rows ->
  parses_to (body_wrapped hdr rows failed scanned total) (shape_wrapped hdr rows failed scanned total).
Proof.
  intros H. rewrite body_wrapped_members. unfold shape_wrapped. apply pt_obj.
  repeat apply Forall2_app.
  - constructor; [|constructor; [|constructor]].
    + apply member_intro; [reflexivity|reflexivity|].
      apply (pt_ws [10]); [reflexivity|apply rows_array_parses, H].
    + apply member_intro; [reflexivity|reflexivity|].
      apply (pt_ws [32]); [reflexivity|]. unfold failed_bytes, failed_json. apply pt_obj, failed_members.
  - destruct hdr as [cols|]; constructor; [|constructor].
    apply member_intro; [reflexivity|reflexivity|].
    apply print_parses_to, wf_arr. induction cols; constructor; auto. exact I.
  - constructor; [|constructor; [|constructor]].
    + apply member_intro; [reflexivity|reflexivity|]. apply (pt_num scanned 0). cbn. split; lia.
    + apply member_intro; [reflexivity|apply all_ws_nil|]. apply (pt_num total 0). cbn. split; lia.
Qed.

(* ------------------------------------------------------------------ *)
(** * Custom variables *)

Lemma custvar_length names values : length (custvar_members names values) = length names.
Proof.
  revert values. induction names as [|n ns IH]; intros values; [reflexivity|].
  destruct values; cbn [custvar_members length]; rewrite IH; reflexivity.
Qed.

Lemma custvar_nth names values i d :
  (i < length names)%nat ->
  nth i (custvar_members names values) d =
  (to_valid (nth i names []), match nth_error values i with Some v => jstr v | None => JNull end).
Proof.
  revert values i. induction names as [|n ns IH]; intros values i Hi; [cbn in Hi; lia|].
  destruct i as [|i].
  - destruct values; reflexivity.
  - cbn [length] in Hi. destruct values as [|v vs]; cbn [custvar_members nth nth_error].
    + rewrite IH by lia. destruct i; reflexivity.
    + apply IH. lia.
Qed.

(* ------------------------------------------------------------------ *)
(** * The fixed16 header *)

Lemma digits_fixed_length w n : length (digits_fixed w n) = w.
Proof. induction w as [|w IH]; cbn [digits_fixed length]; [reflexivity|rewrite IH; reflexivity]. Qed.

Lemma blank_zeros_length l : length (blank_zeros l) = length l.
Proof.
  induction l as [|d r IH]; [reflexivity|]. cbn [blank_zeros].
  destruct r as [|d2 r']; [reflexivity|]. destruct (d =? 48); [|reflexivity].
  cbn [length] in *. rewrite IH. reflexivity.
Qed.

Lemma digit_at_digit n i : is_digit (digit_at n i) = true.
Proof.
  unfold digit_at, is_digit. assert (H10 : 10 <> 0) by discriminate.
  pose proof (N.mod_lt (n / 10 ^ N.of_nat i) 10 H10) as Hx.
  set (x := (n / 10 ^ N.of_nat i) mod 10) in *. clearbody x.
  apply andb_true_iff. split; apply N.leb_le; lia.
Qed.

Lemma digits_fixed_digits w n : forallb is_digit (digits_fixed w n) = true.
Proof.
  induction w as [|w IH]; [reflexivity|]. cbn [digits_fixed forallb]. rewrite digit_at_digit, IH. reflexivity.
Qed.

Definition of_digits_from (a : N) (l : bytes) : N := fold_left (fun a d => a * 10 + (d - 48)) l a.

Lemma of_digits_fixed w : forall n a,
  of_digits_from a (digits_fixed w n) = a * 10 ^ N.of_nat w + n mod 10 ^ N.of_nat w.
Proof.
  induction w as [|w IH]; intros n a.
  - cbn [digits_fixed of_digits_from fold_left N.of_nat]. rewrite N.pow_0_r, N.mod_1_r. lia.
  - cbn [digits_fixed of_digits_from fold_left]. fold (of_digits_from (a * 10 + (digit_at n w - 48)) (digits_fixed w n)).
    rewrite IH. unfold digit_at.
    rewrite Nat2N.inj_succ, N.pow_succ_r'.
    set (p := 10 ^ N.of_nat w). assert (Hp : p <> 0) by (apply N.pow_nonzero; discriminate).
    rewrite (N.mul_comm 10 p). rewrite (N.mod_mul_r n p 10) by (try exact Hp; discriminate).
    set (q := (n / p) mod 10). set (r := n mod p). clearbody q r p.
    replace (48 + q - 48) with q by lia. ring.
Qed.

(** blanking leading zeros does not change the number read after skipping blanks *)
Lemma read_blank_zeros l :
  forallb is_digit l = true ->
  of_digits_from 0 (skip_blanks (blank_zeros l)) = of_digits_from 0 l.
Proof.
  induction l as [|d r IH]; intros H; [reflexivity|].
  cbn [forallb] in H. apply andb_true_iff in H. destruct H as [Hd Hr].
  assert (Hd32 : (d =? 32) = false).
  { unfold is_digit in Hd. apply andb_true_iff in Hd. destruct Hd as [H1 _]. apply N.leb_le in H1.
    apply N.eqb_neq. lia. }
  cbn [blank_zeros]. destruct r as [|d2 r'].
  - cbn [skip_blanks]. rewrite Hd32. reflexivity.
  - destruct (d =? 48) eqn:E48.
    + apply N.eqb_eq in E48. subst d. cbn [skip_blanks N.eqb Pos.eqb].
      rewrite IH by exact Hr. reflexivity.
    + cbn [skip_blanks]. rewrite Hd32. reflexivity.
Qed.

Lemma blank_zeros_digits_or_blank l :
  forallb is_digit l = true -> l <> [] ->
  all_digits (skip_blanks (blank_zeros l)) = true.
Proof.
  induction l as [|d r IH]; intros H Hne; [congruence|].
  cbn [forallb] in H. apply andb_true_iff in H. destruct H as [Hd Hr].
  assert (Hd32 : (d =? 32) = false).
  { unfold is_digit in Hd. apply andb_true_iff in Hd. destruct Hd as [H1 _]. apply N.leb_le in H1.
    apply N.eqb_neq. lia. }
  cbn [blank_zeros]. destruct r as [|d2 r'].
  - cbn [skip_blanks]. rewrite Hd32. unfold all_digits. cbn [forallb length]. rewrite Hd. reflexivity.
  - destruct (d =? 48) eqn:E48.
    + cbn [skip_blanks N.eqb Pos.eqb]. apply IH; [exact Hr|discriminate].
    + cbn [skip_blanks]. rewrite Hd32. unfold all_digits. cbn [forallb length]. rewrite Hd.
      cbn [forallb] in Hr. rewrite Hr. reflexivity.
Qed.

Lemma header16_read code len rest :
  100 <= code < 1000 -> len < 10 ^ 11 ->
  length (header16 code len) = 16%nat /\
  read_header (header16 code len ++ rest) = Some (code, len, rest).
Proof.
  intros Hc Hl. unfold header16, fmt_code, fmt_width.
  replace ((100 <=? code) && (code <? 1000)) with true
    by (symmetry; apply andb_true_iff; split; [apply N.leb_le|apply N.ltb_lt]; lia).
  replace (len <? 10 ^ N.of_nat 11) with true by (symmetry; apply N.ltb_lt; exact Hl).
  set (c := digits_fixed 3 code). set (l := blank_zeros (digits_fixed 11 len)).
  assert (Hcl : length c = 3%nat) by apply digits_fixed_length.
  assert (Hll : length l = 11%nat) by (unfold l; rewrite blank_zeros_length; apply digits_fixed_length).
  split.
  - rewrite List.app_length. cbn [length]. rewrite List.app_length. cbn [length]. lia.
  - unfold read_header.
    destruct c as [|c0 [|c1 [|c2 [|? ?]]]] eqn:Ec; try (cbn in Hcl; lia).
    destruct l as [|l0 [|l1 [|l2 [|l3 [|l4 [|l5 [|l6 [|l7 [|l8 [|l9 [|l10 [|? ?]]]]]]]]]]]] eqn:El;
      try (cbn in Hll; lia).
    cbn [List.app firstn skipn nth length Nat.leb].
    rewrite <- Ec, <- El.
    assert (Hdc : all_digits c = true).
    { unfold all_digits, c. rewrite digits_fixed_digits. reflexivity. }
    assert (Hdl : all_digits (skip_blanks l) = true).
    { unfold l. apply blank_zeros_digits_or_blank; [apply digits_fixed_digits|discriminate]. }
    subst c. rewrite Hdc. subst l. rewrite Hdl. cbn [andb N.eqb Pos.eqb].
    unfold of_digits. fold (of_digits_from 0 (digits_fixed 3 code)).
    fold (of_digits_from 0 (skip_blanks (blank_zeros (digits_fixed 11 len)))).
    rewrite read_blank_zeros by apply digits_fixed_digits.
    rewrite !of_digits_fixed. rewrite !N.mod_small; [reflexivity|exact Hl|cbn; lia].
Qed.

Lemma firstn_exact {A} (l r : list A) : firstn (length l) (l ++ r) = l.
Proof. induction l as [|x l IH]; [reflexivity|]. cbn [length firstn List.app]. rewrite IH. reflexivity. Qed.

Lemma skipn_exact {A} (l r : list A) : skipn (length l) (l ++ r) = r.
Proof. induction l as [|x l IH]; [reflexivity|]. cbn [length skipn List.app]. exact IH. Qed.

Lemma frame_read code body rest :
  100 <= code < 1000 -> N.of_nat (length body) + 1 < 10 ^ 11 ->
  read_frame (frame true code body ++ rest) = Some (code, body ++ [10], rest).
Proof.
  intros Hc Hl. unfold frame, read_frame. rewrite <- List.app_assoc.
  destruct (header16_read code (N.of_nat (length body) + 1) ((body ++ [10]) ++ rest) Hc Hl) as [_ ->].
  assert (Hn : N.to_nat (N.of_nat (length body) + 1) = length (body ++ [10])).
  { rewrite List.app_length. cbn [length]. lia. }
  rewrite Hn. set (L := body ++ [10]).
  replace (Nat.leb (length L) (length (L ++ rest))) with true
    by (symmetry; apply Nat.leb_le; rewrite List.app_length; lia).
  rewrite firstn_exact, skipn_exact. reflexivity.
Qed.

(* ------------------------------------------------------------------ *)
(** * The connection loop *)

Lemma serve_keepalive_prefix pre : forall first rest,
  Forall (fun r => keeps_alive r = true) pre ->
  serve first (pre ++ rest) =
  (concat (map answer_of pre) ++ fst (serve (first && match pre with [] => true | _ => false end) rest),
   snd (serve (first && match pre with [] => true | _ => false end) rest)).
Proof.
  induction pre as [|r pre IH]; intros first rest H.
  - cbn [List.app map concat]. rewrite andb_true_r. destruct (serve first rest); reflexivity.
  - inversion H as [|? ? Hr Hpre]; subst.
    destruct r as [e| |ka fx code body]; try discriminate. destruct ka; try discriminate.
    cbn [List.app serve map concat answer_of]. rewrite (IH false rest Hpre). cbn [andb fst snd].
    rewrite andb_false_r. reflexivity.
Qed.

Lemma serve_keepalive_seq first pre :
  Forall (fun r => keeps_alive r = true) pre ->
  serve first pre = (concat (map answer_of pre), false) /\
  (forall e rest, serve first (pre ++ RBad e :: rest) = (concat (map answer_of pre) ++ [e ++ [10]], true)) /\
  (forall fx code body rest,
      serve first (pre ++ RGet false fx code body :: rest) =
      (concat (map answer_of pre) ++ [frame fx code body], true)) /\
  Forall (fun r => exists a, answer_of r = [a]) pre.
Proof.
  intros H. repeat split.
  - rewrite <- (List.app_nil_r pre) at 1. rewrite serve_keepalive_prefix by exact H.
    cbn [serve fst snd]. rewrite List.app_nil_r. reflexivity.
  - intros e rest. rewrite serve_keepalive_prefix by exact H. reflexivity.
  - intros fx code body rest. rewrite serve_keepalive_prefix by exact H. reflexivity.
  - induction H as [|r pre Hr Hpre IH]; constructor; [|exact IH].
    destruct r as [e| |ka fx code body]; try discriminate. eexists; reflexivity.
Qed.

(* ------------------------------------------------------------------ *)
(** * The statements of Props.v *)

Section Shape.
  Variables R C : Type.
  Variable cols : list (bytes * C).        (* requested columns in request order: name, column *)
  Variable get : R -> C -> cell.           (* the cell of a row in a column *)
  Variable rows : list R.
  Hypothesis Hext : forall r c, cell_ok (get r c).

  Definition table : list (list cell) := map (fun r => map (fun nc => get r (snd nc)) cols) rows.
  Definition hdr_of (header : bool) : option (list bytes) := if header then Some (map fst cols) else None.
  Definition rows_shape : list json :=
    map (fun r => JArr (map (fun nc => cell_json (get r (snd nc))) cols)) rows.

  Lemma table_ok : Forall (Forall cell_ok) table.
  Proof.
    unfold table. apply Forall_forall. intros row Hin. apply in_map_iff in Hin.
    destruct Hin as (r & <- & _). apply Forall_forall. intros c Hc. apply in_map_iff in Hc.
    destruct Hc as (nc & <- & _). apply Hext.
  Qed.

  Lemma table_shape : map row_json table = rows_shape.
  Proof.
    unfold table, rows_shape, row_json. rewrite map_map. apply map_ext. intros r.
    rewrite map_map. reflexivity.
  Qed.

  Lemma shape_json_stmt header w :
    all_ws w ->
    parse (body_json (hdr_of header) table ++ w) =
    Some (JArr ((if header then [JArr (map jstr (map fst cols))] else []) ++ rows_shape)).
  Proof.
    intros Hw. rewrite (parse_of_parses_to _ _ w (body_json_parses _ _ table_ok) Hw).
    unfold shape_json. rewrite table_shape. destruct header; reflexivity.
  Qed.

  Lemma shape_wrapped_stmt header failed scanned total w :
    all_ws w ->
    parse (body_wrapped (hdr_of header) table failed scanned total ++ w) =
    Some (JObj ([(lit "data", JArr rows_shape);
                 (lit "failed", JObj (map (fun kv => (to_valid (fst kv), jstr (snd kv))) failed))]
                ++ (if header then [(lit "columns", JArr (map jstr (map fst cols)))] else [])
                ++ [(lit "rows_scanned", JNum scanned 0); (lit "total_count", JNum total 0)])).
  Proof.
    intros Hw. rewrite (parse_of_parses_to _ _ w (body_wrapped_parses _ _ failed scanned total table_ok) Hw).
    unfold shape_wrapped. rewrite table_shape. destruct header; reflexivity.
  Qed.

  Lemma rows_shape_width : Forall (fun v => exists l, v = JArr l /\ length l = length cols) rows_shape.
  Proof.
    unfold rows_shape. apply Forall_forall. intros v Hin. apply in_map_iff in Hin.
    destruct Hin as (r & <- & _). eexists; split; [reflexivity|]. apply map_length.
  Qed.
End Shape.

Lemma custvar_stmt names values :
  parse (cell_bytes (CCustVar names values)) = Some (JObj (custvar_members names values)) /\
  length (custvar_members names values) = length names /\
  forall i, (i < length names)%nat ->
    nth i (custvar_members names values) ([], JNull) =
    (to_valid (nth i names []), match nth_error values i with Some v => jstr v | None => JNull end).
Proof.
  split; [|split].
  - cbn [cell_bytes cell_json]. apply print_parse, wf_custvar.
  - apply custvar_length.
  - intros i Hi. apply custvar_nth, Hi.
Qed.

Lemma fixed16_stmt code body :
  100 <= code < 1000 -> N.of_nat (length body) + 1 < 10 ^ 11 ->
  let h := header16 code (N.of_nat (length body) + 1) in
  frame true code body = h ++ body ++ [10] /\
  length h = 16%nat /\
  (forall rest, read_header (h ++ rest) = Some (code, N.of_nat (length (body ++ [10])), rest)) /\
  (forall rest, read_frame (frame true code body ++ rest) = Some (code, body ++ [10], rest)).
Proof.
  intros Hc Hl h. split; [reflexivity|].
  split; [apply (header16_read code _ [] Hc Hl)|]. split.
  - intros rest. unfold h. destruct (header16_read code _ rest Hc Hl) as [_ ->].
    rewrite List.app_length. cbn [length]. repeat f_equal. lia.
  - intros rest. apply frame_read; assumption.
Qed.

Lemma html_stmt s : parse (print_html s) = Some (JStr (sanitize s)).
Proof.
  rewrite <- (List.app_nil_r (print_html s)). apply parse_of_parses_to; [apply pt_html|apply all_ws_nil].
Qed.
