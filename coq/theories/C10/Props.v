(** C10: every response is well-framed, valid JSON of the documented shape.
    Only statements, each closed by [exact]; proofs live in JsonProofs.v / Proofs.v.

    Reading guide.  Byte strings are [list N].  [print] / [parse] are the JSON
    printer and the recursive-descent parser of Json.v; [body_json] /
    [body_wrapped] / [frame] / [serve] are the transcription of
    Response.JSON / WrappedJSON / send and of the answer/processRequests loop
    (Model.v).  Cells written with jsoniter's [WriteString] / [WriteInt*]
    calls are modelled completely - for the REPAIRED writer, which replaces
    invalid UTF-8 ([to_valid] = strings.ToValidUTF8) before WriteString; the
    pinned writer does not (notes/C10.md F1, [C10_utf8_pinned_refuted]), the
    two agree on every string that is valid UTF-8.  A token produced by an external formatter
    (float64 through strconv, a raw JSON column of a peer, WriteVal of an
    interface{} value) is a [CExt tok v] cell with the hypothesis [cell_ok]:
    "tok is a rendering of v" ([parses_to]). *)
From Coq Require Import List NArith ZArith Bool.
Import ListNotations.
From LMD Require Import C10.Json C10.JsonProofs C10.Model C10.Proofs C10.Utf8Proofs.
Open Scope N_scope.
Open Scope list_scope.

(** The printer and the parser are inverse on every value in normal form
    (numbers m*10^e with e <= 0 and no trailing zero of m when e < 0): all
    byte strings, including control characters, quotes, backslashes, bytes
    >= 0x80, as strings and as object keys; arrays and objects of any depth,
    duplicate keys kept. *)
Theorem print_parse : forall v : json, wf_json v -> parse (print v) = Some v.
Proof. exact JsonProofs.print_parse. Qed.

(** The string encoder used for values that go through WriteVal (stats group
    keys): the reader gets the string back with invalid UTF-8 bytes replaced by
    U+FFFD, for every byte string. *)
Theorem html_string_ok : forall s : bytes, parse (print_html s) = Some (JStr (sanitize s)).
Proof. exact html_stmt. Qed.

(** Response.JSON: for every list of requested columns [cols] (name, column),
    every list of rows and every cell function, the body - followed by optional
    whitespace such as the newline [send] appends - is JSON text whose value is
    the list of rows, preceded by the row of column names iff the header is
    sent; row i is the array of the cells of row i in the requested columns,
    one per column, in request order. *)
Theorem C10_shape_json :
  forall (R C : Type) (cols : list (bytes * C)) (get : R -> C -> cell) (rows : list R),
    (forall r c, cell_ok (get r c)) ->
    forall (header : bool) (w : bytes), all_ws w ->
      parse (body_json (hdr_of C cols header) (table R C cols get rows) ++ w) =
      Some (JArr ((if header then [JArr (map jstr (map fst cols))] else [])
                  ++ map (fun r => JArr (map (fun nc => cell_json (get r (snd nc))) cols)) rows)).
Proof. exact shape_json_stmt. Qed.

(** Response.WrappedJSON: an object with exactly the members data, failed,
    columns (iff the header is sent), rows_scanned, total_count in this order;
    data as above, failed maps each failed backend to its (string) message. *)
Theorem C10_shape_wrapped :
  forall (R C : Type) (cols : list (bytes * C)) (get : R -> C -> cell) (rows : list R),
    (forall r c, cell_ok (get r c)) ->
    forall (header : bool) (failed : list (bytes * bytes)) (scanned total : Z) (w : bytes), all_ws w ->
      parse (body_wrapped (hdr_of C cols header) (table R C cols get rows) failed scanned total ++ w) =
      Some (JObj ([(lit "data", JArr (map (fun r => JArr (map (fun nc => cell_json (get r (snd nc))) cols)) rows));
                   (lit "failed", JObj (map (fun kv => (to_valid (fst kv), jstr (snd kv))) failed))]
                  ++ (if header then [(lit "columns", JArr (map jstr (map fst cols)))] else [])
                  ++ [(lit "rows_scanned", JNum scanned 0); (lit "total_count", JNum total 0)])).
Proof. exact shape_wrapped_stmt. Qed.

(** ... and the body is well-formed UTF-8 (RFC 8259, 8.1), whatever bytes the
    cached strings, column names, backend ids and error texts contain, provided
    the externally formatted tokens are ([cell_utf8_ok]).  This is a theorem about
    the REPAIRED writer: the model passes every string through [to_valid]
    (strings.ToValidUTF8) before jsoniter's WriteString, see notes/C10.md F1. *)
Theorem C10_utf8 :
  forall (R C : Type) (cols : list (bytes * C)) (get : R -> C -> cell) (rows : list R),
    (forall r c, cell_utf8_ok (get r c)) ->
    forall (header : bool) (failed : list (bytes * bytes)) (scanned total : Z),
      utf8_valid (body_json (hdr_of C cols header) (table R C cols get rows)) = true /\
      utf8_valid (body_wrapped (hdr_of C cols header) (table R C cols get rows) failed scanned total) = true.
Proof. exact utf8_stmt. Qed.

(** the pinned writer (WriteString on the cached bytes as they are) does not have
    this property: a string cell holding the byte 0xff is written as "\xff" *)
Theorem C10_utf8_pinned_refuted : exists s : bytes, utf8_valid (print_str s) = false.
Proof. exact pinned_writer_not_utf8. Qed.

(** every row has exactly one value per requested column *)
Theorem C10_row_width :
  forall (R C : Type) (cols : list (bytes * C)) (get : R -> C -> cell) (rows : list R),
    Forall (fun v => exists l, v = JArr l /\ length l = length cols) (rows_shape R C cols get rows).
Proof. exact rows_shape_width. Qed.

(** custom_variables: an object with one member per NAME in order; duplicate
    names stay (association list), a name without value gets null, surplus
    values are dropped; valid JSON whatever bytes names and values contain. *)
Theorem custvar_object_ok :
  forall names values : list bytes,
    parse (cell_bytes (CCustVar names values)) = Some (JObj (custvar_members names values)) /\
    length (custvar_members names values) = length names /\
    forall i, (i < length names)%nat ->
      nth i (custvar_members names values) ([], JNull) =
      (to_valid (nth i names []), match nth_error values i with Some v => jstr v | None => JNull end).
Proof. exact custvar_stmt. Qed.

(** ResponseHeader: fixed16.  For a three digit status code and a body of fewer
    than 10^11 - 1 bytes the answer is a 16 byte header, the body and a
    newline; the header is "<code> <length right aligned in 11 columns>\n", a
    client reads back the code and a length that is exactly the number of bytes
    that follow (body and newline), and reading header + announced bytes
    consumes exactly this answer, leaving whatever comes next on the
    connection untouched. *)
Theorem fixed16_len :
  forall (code : N) (body : bytes),
    100 <= code < 1000 -> N.of_nat (length body) + 1 < 10 ^ 11 ->
    let h := header16 code (N.of_nat (length body) + 1) in
    frame true code body = h ++ body ++ [10] /\
    length h = 16%nat /\
    (forall rest, read_header (h ++ rest) = Some (code, N.of_nat (length (body ++ [10])), rest)) /\
    (forall rest, read_frame (frame true code body ++ rest) = Some (code, body ++ [10], rest)).
Proof. exact fixed16_stmt. Qed.

(** KeepAlive.  While every request so far parsed and asked for KeepAlive, the
    daemon has sent exactly one answer per request, in order, and keeps the
    connection open; a following request that does not parse is answered with
    its error text and a newline (no header) and the connection is closed; a
    following request without KeepAlive is answered and the connection is
    closed; in both cases the earlier answers are the same bytes as without
    the last request, and nothing after the closing request is answered. *)
Theorem keepalive_seq :
  forall (first : bool) (pre : list request),
    Forall (fun r => keeps_alive r = true) pre ->
    serve first pre = (concat (map answer_of pre), false) /\
    (forall e rest, serve first (pre ++ RBad e :: rest) = (concat (map answer_of pre) ++ [e ++ [10]], true)) /\
    (forall fx code body rest,
        serve first (pre ++ RGet false fx code body :: rest) =
        (concat (map answer_of pre) ++ [frame fx code body], true)) /\
    Forall (fun r => exists a, answer_of r = [a]) pre.
Proof. exact serve_keepalive_seq. Qed.

(** non-vacuity: a wrapped_json body with a header, adversarial bytes (one
    of them not UTF-8) in a string cell and a custom variable object with a duplicate name and a
    missing value; a fixed16 frame; a connection with a bad third request *)
Example C10_example :
  let cols := [(lit "name", 0%nat); (lit "cv", 1%nat)] in
  let get := fun (r : bytes) (c : nat) =>
               match c with
               | O => CStr r
               | _ => CCustVar [lit "A"; lit "A"; lit "B"] [r; []]
               end in
  let body := body_wrapped (hdr_of nat cols true) (table bytes nat cols get [[34; 92; 0; 10; 200; 127; 60]])
                           [(lit "id1", lit "down")] 5 1 in
  parse body =
  Some (JObj [(lit "data", JArr [JArr [JStr [34; 92; 0; 10; 239; 191; 189; 127; 60];
                                       JObj [(lit "A", JStr [34; 92; 0; 10; 239; 191; 189; 127; 60]);
                                             (lit "A", JStr []); (lit "B", JNull)]]]);
              (lit "failed", JObj [(lit "id1", JStr (lit "down"))]);
              (lit "columns", JArr [JStr (lit "name"); JStr (lit "cv")]);
              (lit "rows_scanned", JNum 5 0); (lit "total_count", JNum 1 0)]) /\
  frame true 200 (lit "[]") = lit "200           3" ++ [10] ++ lit "[]" ++ [10] /\
  serve true [RGet true true 200 (lit "[]"); RGet true false 200 (lit "[1]"); RBad (lit "bad request"); RGet true true 200 []]
  = ([lit "200           3" ++ [10] ++ lit "[]" ++ [10]; lit "[1]" ++ [10]; lit "bad request" ++ [10]], true).
Proof. vm_compute. repeat split. Qed.

Print Assumptions print_parse.
Print Assumptions html_string_ok.
Print Assumptions C10_shape_json.
Print Assumptions C10_shape_wrapped.
Print Assumptions C10_utf8.
Print Assumptions C10_utf8_pinned_refuted.
Print Assumptions C10_row_width.
Print Assumptions custvar_object_ok.
Print Assumptions fixed16_len.
Print Assumptions keepalive_seq.
