(** C10: executable comparison of the model with what the implementation wrote
    (cases file written by harness/inpkg/c10_frame.go).

    Data is shipped as primitive 63 bit integers (parsing ordinary N / Z literals
    costs about 10 microseconds per bit in coqc): a byte string is a list of
    words, each holding up to 7 bytes (bits 0-55, first byte highest) and the
    number of bytes in bits 56-58. *)
From Coq Require Import List NArith ZArith Bool Uint63.
Import ListNotations.
From LMD Require Export C10.Json C10.Model.
Open Scope list_scope.

(* ------------------------------------------------------------------ *)
(** * decoding the shipped data *)

Definition word_byte (w : int) (i : int) : N :=
  Z.to_N (Uint63.to_Z (((w >> (i * 8)) land 255)%uint63)).

Definition word_bytes (w : int) (acc : bytes) : bytes :=
  let n := Z.to_N (Uint63.to_Z ((w >> 56) land 7)%uint63) in
  let b0 := word_byte w 0%uint63 in let b1 := word_byte w 1%uint63 in
  let b2 := word_byte w 2%uint63 in let b3 := word_byte w 3%uint63 in
  let b4 := word_byte w 4%uint63 in let b5 := word_byte w 5%uint63 in
  let b6 := word_byte w 6%uint63 in
  match n with
  | 1%N => b0 :: acc
  | 2%N => b1 :: b0 :: acc
  | 3%N => b2 :: b1 :: b0 :: acc
  | 4%N => b3 :: b2 :: b1 :: b0 :: acc
  | 5%N => b4 :: b3 :: b2 :: b1 :: b0 :: acc
  | 6%N => b5 :: b4 :: b3 :: b2 :: b1 :: b0 :: acc
  | 7%N => b6 :: b5 :: b4 :: b3 :: b2 :: b1 :: b0 :: acc
  | _ => acc
  end.

(** a byte string *)
Definition B (ws : list int) : bytes := fold_right word_bytes [] ws.
(** a long byte string in chunks *)
Definition BB (chunks : list (list int)) : bytes := fold_right (fun ch acc => fold_right word_bytes acc ch) [] chunks.
(** [unit] repeated [n] times *)
Definition BR (unit : list int) (n : int) : bytes :=
  let u := B unit in
  N.iter (Z.to_N (Uint63.to_Z n)) (fun acc => u ++ acc) [].

Definition zi (i : int) : Z := Uint63.to_Z i.            (* non-negative integer *)
Definition zn (i : int) : Z := (- Uint63.to_Z i)%Z.       (* negative integer *)
Definition ni (i : int) : N := Z.to_N (Uint63.to_Z i).

(* ------------------------------------------------------------------ *)
(** * cases *)

(** expected cell *)
Inductive xcell :=
| XC (c : cell)        (* modelled completely: value and bytes *)
| XNum (m e : Z)       (* a float64: the value m*10^e in normal form *)
| XJson (v : json)     (* WriteVal of an interface{} value / raw JSON column: the value *)
| XAny.                (* volatile (clock dependent) number *)

Inductive expect :=
| EErr                                           (* an error text: framing only *)
| EJson (hdr : option (list bytes)) (rows : list (list xcell))
| EWrapped (hdr : option (list bytes)) (rows : list (list xcell))
           (failed : list (bytes * bytes)) (scanned total : Z).

(** one request of a connection and what [Response.send] wrote for it *)
Inductive robs :=
| OBad (sent : bytes)                            (* did not parse: the error answer *)
| OEmpty                                         (* an empty line *)
| OGet (ka fx : bool) (code : N) (exp : expect) (sent : bytes).

Record case := mkCase {
  c_goside : bool;                               (* the Go side checks (encoding/json accepts, header regexp) passed *)
  c_reqs : list robs;
  c_sock : option (bytes * bool)                 (* bytes read from the unix socket for this sequence, closed by the daemon? *)
}.

(* ------------------------------------------------------------------ *)
(** * comparison *)

Fixpoint bytes_eqb (a b : bytes) : bool :=
  match a, b with
  | [], [] => true
  | x :: a', y :: b' => N.eqb x y && bytes_eqb a' b'
  | _, _ => false
  end.

Definition list_eqb {A B} (eqb : A -> B -> bool) :=
  fix go (a : list A) (b : list B) : bool :=
    match a, b with
    | [], [] => true
    | x :: a', y :: b' => eqb x y && go a' b'
    | _, _ => false
    end.

Fixpoint json_eqb (a b : json) {struct a} : bool :=
  match a, b with
  | JNull, JNull => true
  | JBool x, JBool y => Bool.eqb x y
  | JNum m e, JNum m' e' => Z.eqb m m' && Z.eqb e e'
  | JStr s, JStr t => bytes_eqb s t
  | JArr l, JArr l' =>
    (fix go (a b : list json) : bool :=
       match a, b with
       | [], [] => true
       | x :: a', y :: b' => json_eqb x y && go a' b'
       | _, _ => false
       end) l l'
  | JObj l, JObj l' =>
    (fix go (a b : list (bytes * json)) : bool :=
       match a, b with
       | [], [] => true
       | (k, x) :: a', (k', y) :: b' => bytes_eqb k k' && json_eqb x y && go a' b'
       | _, _ => false
       end) l l'
  | _, _ => false
  end.

Definition xcell_match (x : xcell) (v : json) : bool :=
  match x with
  | XC c => json_eqb (cell_json c) v
  | XNum m e => json_eqb (JNum m e) v
  | XJson j => json_eqb j v
  | XAny => match v with JNum _ _ => true | _ => false end
  end.

Definition row_match (r : list xcell) (v : json) : bool :=
  match v with
  | JArr l => list_eqb xcell_match r l
  | _ => false
  end.

Definition rows_match (rows : list (list xcell)) (vs : list json) : bool := list_eqb row_match rows vs.

(** the failed map is a Go map: any order *)
Definition failed_match (failed : list (bytes * bytes)) (v : json) : bool :=
  match v with
  | JObj l =>
    Nat.eqb (length l) (length failed)
    && forallb (fun kv => existsb (fun m => bytes_eqb (to_valid (fst kv)) (fst m) && json_eqb (jstr (snd kv)) (snd m)) l) failed
    && forallb (fun m => existsb (fun kv => bytes_eqb (to_valid (fst kv)) (fst m) && json_eqb (jstr (snd kv)) (snd m)) failed) l
  | _ => false
  end.

Definition hdr_match (hdr : option (list bytes)) (vs : list json) : option (list json) :=
  match hdr with
  | None => Some vs
  | Some cols => match vs with
                 | v :: rest => if json_eqb (cols_json cols) v then Some rest else None
                 | [] => None
                 end
  end.

Definition exact_cells (rows : list (list xcell)) : option (list (list cell)) :=
  let conv := fix conv (r : list xcell) : option (list cell) :=
                match r with
                | [] => Some []
                | XC c :: r' => match conv r' with Some l => Some (c :: l) | None => None end
                | _ :: _ => None
                end in
  (fix go (rows : list (list xcell)) : option (list (list cell)) :=
     match rows with
     | [] => Some []
     | r :: rs => match conv r, go rs with Some x, Some y => Some (x :: y) | _, _ => None end
     end) rows.

Inductive reason :=
| MGoSide            (* encoding/json rejected a body, or the header regexp failed, on the Go side *)
| MFrame (i : nat)   (* answer i is not frame fixed16 code body *)
| MParse (i : nat)   (* body i is not JSON *)
| MShape (i : nat)   (* body i parses to something else than the expected shape *)
| MBytes (i : nat)   (* body i has the right value but not the bytes of the model printer *)
| MUtf8 (i : nat)    (* body i is not well-formed UTF-8 *)
| MSocket.           (* the bytes on the socket / the closing behaviour differ from serve *)

(** the body of an answer, if the answer is well framed *)
Definition unframe (fx : bool) (code : N) (sent : bytes) : option bytes :=
  let body := if fx then removelast (skipn 16 sent) else removelast sent in
  if bytes_eqb (frame fx code body) sent then Some body else None.

Definition check_body (exp : expect) (body : bytes) (i : nat) : list reason :=
  match exp with
  | EErr => []
  | EJson hdr rows =>
    match parse body with
    | Some (JArr vs) =>
      match hdr_match hdr vs with
      | Some rest =>
        if rows_match rows rest then
          match exact_cells rows with
          | Some cells => if bytes_eqb (body_json hdr cells) body then [] else [MBytes i]
          | None => []
          end
        else [MShape i]
      | None => [MShape i]
      end
    | Some _ => [MShape i]
    | None => [MParse i]
    end
  | EWrapped hdr rows failed scanned total =>
    match parse body with
    | Some (JObj members) =>
      let ok :=
          match members, hdr with
          | [(k1, JArr vs); (k2, f); (k3, sc); (k4, tc)], None =>
            bytes_eqb k1 (lit "data") && bytes_eqb k2 (lit "failed")
            && bytes_eqb k3 (lit "rows_scanned") && bytes_eqb k4 (lit "total_count")
            && rows_match rows vs && failed_match failed f
            && json_eqb sc (JNum scanned 0) && json_eqb tc (JNum total 0)
          | [(k1, JArr vs); (k2, f); (k5, cv); (k3, sc); (k4, tc)], Some cols =>
            bytes_eqb k1 (lit "data") && bytes_eqb k2 (lit "failed") && bytes_eqb k5 (lit "columns")
            && bytes_eqb k3 (lit "rows_scanned") && bytes_eqb k4 (lit "total_count")
            && rows_match rows vs && failed_match failed f && json_eqb cv (cols_json cols)
            && json_eqb sc (JNum scanned 0) && json_eqb tc (JNum total 0)
          | _, _ => false
          end in
      if ok then
        match exact_cells rows, failed with
        | Some cells, ([] | [_]) =>
          if bytes_eqb (body_wrapped hdr cells failed scanned total) body then [] else [MBytes i]
        | _, _ => []
        end
      else [MShape i]
    | Some _ => [MShape i]
    | None => [MParse i]
    end
  end.

Definition check_req (i : nat) (r : robs) : list reason :=
  match r with
  | OBad _ => []
  | OEmpty => []
  | OGet ka fx code exp sent =>
    match unframe fx code sent with
    | None => [MFrame i]
    | Some body =>
      check_body exp body i
      ++ match exp with
         | EErr => []
         | _ => if utf8_valid body then [] else [MUtf8 i]
         end
    end
  end.

(** the request as the connection model sees it *)
Definition to_request (r : robs) : request :=
  match r with
  | OBad sent => RBad (removelast sent)
  | OEmpty => REmpty
  | OGet ka fx code _ sent =>
    RGet ka fx code (if fx then removelast (skipn 16 sent) else removelast sent)
  end.

Definition check_sock (c : case) : list reason :=
  match c_sock c with
  | None => []
  | Some (stream, closed) =>
    let '(answers, mclosed) := serve true (map to_request (c_reqs c)) in
    if bytes_eqb (concat answers) stream && Bool.eqb mclosed closed then [] else [MSocket]
  end.

Fixpoint check_reqs (i : nat) (rs : list robs) : list reason :=
  match rs with
  | [] => []
  | r :: rest => check_req i r ++ check_reqs (S i) rest
  end.

Definition expected (c : case) : list reason :=
  (if c_goside c then [] else [MGoSide]) ++ check_reqs 0 (c_reqs c) ++ check_sock c.

Definition check (c : case) : bool := match expected c with [] => true | _ => false end.

Fixpoint mismatches_from (i : nat) (cs : list case) : list (nat * list reason) :=
  match cs with
  | [] => []
  | c :: rest => (if check c then [] else [(i, expected c)]) ++ mismatches_from (S i) rest
  end.

Definition mismatches := mismatches_from 0.
