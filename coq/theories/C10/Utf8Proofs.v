(** C10: the bodies of the (repaired) writer are well-formed UTF-8 - the part of
    "syntactically valid JSON" (RFC 8259 section 8.1) that the lenient string
    reader of Json.v does not check. *)
From Coq Require Import List NArith ZArith Bool Lia.
Import ListNotations.
From LMD Require Import C10.Json C10.JsonProofs C10.Model C10.Proofs.
Open Scope N_scope.
Open Scope list_scope.

Lemma rune_size_prefix b0 t k :
  rune_size (b0 :: t) = S k -> forall x, rune_size (b0 :: firstn k t ++ x) = S k.
Proof.
  intros H x. unfold rune_size in *.
  repeat match type of H with
         | (if ?c then _ else _) = _ => let E := fresh "E" in destruct c eqn:E
         | (match ?l with [] => _ | _ :: _ => _ end) = _ => destruct l
         end; try discriminate; injection H as <-; cbn [firstn List.app];
  repeat (match goal with E : ?c = _ |- context[?c] => rewrite E end; cbn iota); reflexivity.
Qed.

Lemma valid_skip_firstn k : forall t x,
  (k <= length t)%nat -> utf8_valid_go k (firstn k t ++ x) = utf8_valid_go O x.
Proof.
  induction k as [|k IH]; intros t x Hk; [reflexivity|].
  destruct t as [|b t]; [cbn in Hk; lia|]. cbn [firstn List.app utf8_valid_go]. apply IH. cbn in Hk. lia.
Qed.

Lemma valid_app a : forall k b,
  utf8_valid_go k a = true -> utf8_valid_go k (a ++ b) = utf8_valid_go O b.
Proof.
  induction a as [|c a IH]; intros k b H.
  - cbn [utf8_valid_go] in H. apply Nat.eqb_eq in H. subst k. reflexivity.
  - cbn [List.app]. destruct k as [|k]; cbn [utf8_valid_go] in *.
    + destruct (c <? 128); [apply IH, H|].
      destruct (rune_size (c :: a)) as [|j] eqn:Er; [discriminate|].
      assert (Er' : rune_size (c :: a ++ b) = S j).
      { pose proof (rune_size_prefix c a j Er) as Hp.
        destruct (rune_size_shape _ _ Er) as (b0 & t & Hs & _ & _ & Hl & _). injection Hs as <- <-.
        rewrite <- (firstn_skipn j a) at 1. rewrite <- List.app_assoc. apply Hp. }
      rewrite Er'. apply IH, H.
    + apply IH, H.
Qed.

Lemma ascii_valid l x : forallb (fun b => b <? 128) l = true -> utf8_valid_go O (l ++ x) = utf8_valid_go O x.
Proof.
  induction l as [|b l IH]; intros H; [reflexivity|]. cbn [forallb] in H. apply andb_true_iff in H.
  destruct H as [Hb Hl]. cbn [List.app utf8_valid_go]. rewrite Hb. apply IH, Hl.
Qed.

Lemma copy_to_valid k : forall t,
  (k <= length t)%nat -> to_valid_go false k t = firstn k t ++ to_valid_go false O (skipn k t).
Proof.
  induction k as [|k IH]; intros t Hk; [reflexivity|].
  destruct t as [|b t]; [cbn in Hk; lia|]. cbn [to_valid_go firstn skipn List.app]. rewrite IH by (cbn in Hk; lia).
  reflexivity.
Qed.

Lemma to_valid_valid_n n : forall s inv,
  (length s <= n)%nat -> utf8_valid_go O (to_valid_go inv O s) = true.
Proof.
  induction n as [|n IH]; intros s inv Hn.
  - destruct s; [reflexivity|cbn in Hn; lia].
  - destruct s as [|b r]; [reflexivity|]. cbn [length] in Hn. cbn [to_valid_go].
    destruct (b <? 128) eqn:Eb.
    + cbn [utf8_valid_go]. rewrite Eb. apply IH. lia.
    + destruct (rune_size (b :: r)) as [|k] eqn:Er.
      * destruct inv; cbn [List.app]; [apply IH; lia|].
        change (utf8_valid_go 0 (239 :: 191 :: 189 :: to_valid_go true 0 r)) with (utf8_valid_go 0 (to_valid_go true 0 r)).
        apply IH. lia.
      * destruct (rune_size_shape _ _ Er) as (b0 & t & Hs & _ & _ & Hl & _). injection Hs as <- <-.
        rewrite copy_to_valid by exact Hl. cbn [utf8_valid_go]. rewrite Eb.
        rewrite (rune_size_prefix b r k Er). rewrite valid_skip_firstn by exact Hl.
        apply IH. pose proof (skipn_length_le k r). lia.
Qed.

Lemma to_valid_utf8 s : utf8_valid (to_valid s) = true.
Proof. apply (to_valid_valid_n (length s)). lia. Qed.

Lemma esc_byte_ascii b : b < 128 -> forallb (fun c => c <? 128) (esc_byte b) = true.
Proof.
  revert b. apply (small_cases _ 128). intros j Hj.
  do 128 (destruct j as [|j]; [reflexivity|]). lia.
Qed.

Lemma esc_high l : Forall (fun b => 128 <= b) l -> esc l = l.
Proof.
  induction 1 as [|b l Hb Hl IH]; [reflexivity|]. unfold esc in *. cbn [flat_map].
  rewrite esc_byte_plain by lia. rewrite IH. reflexivity.
Qed.

Lemma esc_app a b : esc (a ++ b) = esc a ++ esc b.
Proof. unfold esc. apply flat_map_app. Qed.

Lemma esc_valid_n n : forall s x,
  (length s <= n)%nat -> utf8_valid_go O s = true -> utf8_valid_go O (esc s ++ x) = utf8_valid_go O x.
Proof.
  induction n as [|n IH]; intros s x Hn Hv.
  - destruct s; [reflexivity|cbn in Hn; lia].
  - destruct s as [|b r]; [reflexivity|]. cbn [length] in Hn. cbn [utf8_valid_go] in Hv.
    destruct (b <? 128) eqn:Eb.
    + change (esc (b :: r)) with (esc_byte b ++ esc r). rewrite <- List.app_assoc.
      rewrite ascii_valid by (apply esc_byte_ascii, N.ltb_lt, Eb). apply IH; [lia|exact Hv].
    + destruct (rune_size (b :: r)) as [|k] eqn:Er; [discriminate|].
      destruct (rune_size_shape _ _ Er) as (b0 & t & Hs & Hb0 & _ & Hl & Hall). injection Hs as <- <-.
      rewrite <- (firstn_skipn k r) in Hv. rewrite valid_skip_firstn in Hv by exact Hl.
      change (esc (b :: r)) with (esc_byte b ++ esc r). rewrite esc_byte_plain by lia.
      rewrite <- (firstn_skipn k r) at 1. rewrite esc_app, (esc_high _ Hall).
      cbn [List.app utf8_valid_go]. rewrite Eb. rewrite <- !List.app_assoc.
      rewrite (rune_size_prefix b r k Er). rewrite valid_skip_firstn by exact Hl.
      apply IH; [pose proof (skipn_length_le k r); lia|exact Hv].
Qed.

Lemma print_str_utf8 s : utf8_valid (print_str (to_valid s)) = true.
Proof.
  unfold utf8_valid, print_str. change (34 :: esc (to_valid s) ++ [34]) with ([34] ++ esc (to_valid s) ++ [34]).
  rewrite ascii_valid by reflexivity. rewrite (esc_valid_n (length (to_valid s))); [reflexivity|lia|apply to_valid_utf8].
Qed.

(* ---- whole bodies ---- *)
Definition vpre (p : bytes) : Prop := forall x, utf8_valid_go O (p ++ x) = utf8_valid_go O x.

Lemma vpre_nil : vpre [].
Proof. intros x. reflexivity. Qed.

Lemma vpre_app a b : vpre a -> vpre b -> vpre (a ++ b).
Proof. intros Ha Hb x. rewrite <- List.app_assoc, Ha, Hb. reflexivity. Qed.

Lemma vpre_ascii l : forallb (fun b => b <? 128) l = true -> vpre l.
Proof. intros H x. apply ascii_valid, H. Qed.

Lemma vpre_cons b p : b < 128 -> vpre p -> vpre (b :: p).
Proof.
  intros Hb Hp. change (b :: p) with ([b] ++ p). apply vpre_app; [|exact Hp].
  apply vpre_ascii. cbn [forallb]. replace (b <? 128) with true by (symmetry; apply N.ltb_lt; exact Hb). reflexivity.
Qed.

Lemma vpre_valid p : vpre p -> utf8_valid p = true.
Proof. intros H. unfold utf8_valid. rewrite <- (List.app_nil_r p), H. reflexivity. Qed.

Lemma vpre_str s : utf8_valid s = true -> vpre (print_str s).
Proof.
  intros Hs. unfold print_str. apply vpre_cons; [reflexivity|]. apply vpre_app; [|apply vpre_ascii; reflexivity].
  intros x. apply (esc_valid_n (length s)); [lia|exact Hs].
Qed.

Lemma vpre_join sep l : vpre sep -> Forall vpre l -> vpre (join sep l).
Proof.
  intros Hsep H. induction H as [|p l Hp Hl IH]; [apply vpre_nil|].
  destruct l as [|p2 l']; [exact Hp|]. rewrite join_cons. apply vpre_app; [exact Hp|]. apply vpre_app; assumption.
Qed.

Lemma uint_bytes_ascii u : forallb (fun b => b <? 128) (uint_bytes u) = true.
Proof. induction u; cbn [uint_bytes forallb]; try rewrite IHu; reflexivity. Qed.

Lemma vpre_dec_Z z : vpre (dec_Z z).
Proof.
  apply vpre_ascii. destruct z; cbn [dec_Z]; [reflexivity|apply uint_bytes_ascii|].
  cbn [forallb]. unfold dec_N. rewrite uint_bytes_ascii. reflexivity.
Qed.

Lemma vpre_num m e : vpre (print_num m e).
Proof.
  unfold print_num. destruct (e =? 0)%Z; [apply vpre_dec_Z|].
  apply vpre_app; [apply vpre_dec_Z|]. apply vpre_cons; [reflexivity|apply vpre_dec_Z].
Qed.

(** all strings and keys of a value are well-formed UTF-8 *)
Fixpoint json_valid (v : json) : Prop :=
  match v with
  | JStr s => utf8_valid s = true
  | JArr l => (fix all (l : list json) : Prop := match l with [] => True | x :: r => json_valid x /\ all r end) l
  | JObj l => (fix all (l : list (bytes * json)) : Prop :=
                 match l with [] => True | kv :: r => (utf8_valid (fst kv) = true /\ json_valid (snd kv)) /\ all r end) l
  | _ => True
  end.

Lemma jv_arr l : json_valid (JArr l) <-> Forall json_valid l.
Proof.
  induction l as [|x r IH]; cbn; [split; auto|]. split.
  - intros [Hx Hr]. constructor; [exact Hx|apply IH, Hr].
  - intros H. inversion H; subst. split; [assumption|apply IH; assumption].
Qed.

Lemma jv_obj l : json_valid (JObj l) <-> Forall (fun kv => utf8_valid (fst kv) = true /\ json_valid (snd kv)) l.
Proof.
  induction l as [|x r IH]; cbn; [split; auto|]. split.
  - intros [Hx Hr]. constructor; [exact Hx|apply IH, Hr].
  - intros H. inversion H; subst. split; [assumption|apply IH; assumption].
Qed.

Lemma vpre_print v : json_valid v -> vpre (print v).
Proof.
  induction v as [|b|m e|s|l IH|l IH] using json_ind'; intros Hv.
  - apply vpre_ascii. reflexivity.
  - destruct b; apply vpre_ascii; reflexivity.
  - apply vpre_num.
  - apply vpre_str, Hv.
  - cbn [print]. apply vpre_cons; [reflexivity|]. apply vpre_app; [|apply vpre_ascii; reflexivity].
    apply vpre_join; [apply vpre_ascii; reflexivity|]. apply jv_arr in Hv.
    induction l as [|x r IHr]; cbn [map]; constructor; inversion IH; inversion Hv; subst; auto.
  - cbn [print]. apply vpre_cons; [reflexivity|]. apply vpre_app; [|apply vpre_ascii; reflexivity].
    apply vpre_join; [apply vpre_ascii; reflexivity|]. apply jv_obj in Hv.
    induction l as [|[k x] r IHr]; cbn [map]; constructor; inversion IH; inversion Hv; subst; cbn [fst snd] in *; auto.
    destruct H5 as [Hk Hx]. apply vpre_app; [apply vpre_str, Hk|]. apply vpre_cons; [reflexivity|auto].
Qed.

(* the HTML escaping encoder always writes well-formed UTF-8 *)
Lemma esc_html_ascii_ascii b : b < 128 -> forallb (fun c => c <? 128) (esc_html_ascii b) = true.
Proof.
  revert b. apply (small_cases _ 128). intros j Hj.
  do 128 (destruct j as [|j]; [reflexivity|]). lia.
Qed.

Lemma copy_esc_html k : forall t,
  (k <= length t)%nat -> esc_html_go true k t = firstn k t ++ esc_html_go true O (skipn k t).
Proof.
  induction k as [|k IH]; intros t Hk; [reflexivity|].
  destruct t as [|b t]; [cbn in Hk; lia|]. cbn [esc_html_go firstn skipn List.app]. rewrite IH by (cbn in Hk; lia).
  reflexivity.
Qed.

Lemma esc_html_valid_n n : forall s, (length s <= n)%nat -> vpre (esc_html_go true O s).
Proof.
  induction n as [|n IH]; intros s Hn.
  - destruct s; [apply vpre_nil|cbn in Hn; lia].
  - destruct s as [|b r]; [apply vpre_nil|]. cbn [length] in Hn. cbn [esc_html_go].
    destruct (b <? 128) eqn:Eb.
    + apply vpre_app; [apply vpre_ascii, esc_html_ascii_ascii, N.ltb_lt, Eb|apply IH; lia].
    + destruct (rune_size (b :: r)) as [|k] eqn:Er.
      * apply vpre_app; [apply vpre_ascii; reflexivity|apply IH; lia].
      * destruct (rune_size_shape _ _ Er) as (b0 & t & Hs & _ & _ & Hl & _). injection Hs as <- <-.
        destruct (is_lsep (b :: r)) as [d|] eqn:El.
        -- destruct (is_lsep_shape _ _ El) as (t' & [[Hs ->]|[Hs ->]]); injection Hs as -> ->;
             cbn in Er; injection Er as <-; cbn [esc_html_go];
             rewrite (esc_html_go_O false);
             (apply vpre_app; [apply vpre_ascii; reflexivity|apply IH; cbn [length] in Hn; lia]).
        -- rewrite copy_esc_html by exact Hl. intros x. cbn [List.app utf8_valid_go]. rewrite Eb.
           rewrite <- List.app_assoc. rewrite (rune_size_prefix b r k Er). rewrite valid_skip_firstn by exact Hl.
           apply IH. pose proof (skipn_length_le k r). lia.
Qed.

Lemma vpre_html s : vpre (print_html s).
Proof.
  unfold print_html, esc_html. apply vpre_cons; [reflexivity|]. apply vpre_app; [|apply vpre_ascii; reflexivity].
  apply (esc_html_valid_n (length s)). lia.
Qed.

Definition cell_utf8_ok (c : cell) : Prop :=
  match c with CExt tok _ => vpre tok | _ => True end.

Lemma jv_jstr s : json_valid (jstr s).
Proof. apply to_valid_utf8. Qed.

Lemma jv_custvar names values : json_valid (JObj (custvar_members names values)).
Proof.
  apply jv_obj. revert values. induction names as [|n ns IH]; intros values; cbn [custvar_members]; [constructor|].
  destruct values as [|v vs]; constructor; cbn [fst snd]; auto using to_valid_utf8, jv_jstr.
  split; [apply to_valid_utf8|exact I].
Qed.

Lemma jv_cell c :
  match c with CHtml _ | CExt _ _ => True | _ => json_valid (cell_json c) end.
Proof.
  destruct c as [s|z|l|l|l|names values| |s|tok v]; cbn [cell_json].
  - apply jv_jstr.
  - exact I.
  - apply jv_arr. induction l; constructor; auto. apply jv_jstr.
  - apply jv_arr. induction l; constructor; auto. exact I.
  - apply jv_arr. induction l; constructor; auto. cbn. auto using to_valid_utf8.
  - apply jv_custvar.
  - exact I.
  - exact I.
  - exact I.
Qed.

Lemma vpre_cell c : cell_utf8_ok c -> vpre (cell_bytes c).
Proof.
  intros H. pose proof (jv_cell c) as Hv.
  destruct c; try (apply vpre_print; exact Hv).
  - apply vpre_html.
  - exact H.
Qed.

Lemma vpre_row r : Forall cell_utf8_ok r -> vpre (row_bytes r).
Proof.
  intros H. unfold row_bytes. apply vpre_cons; [reflexivity|]. apply vpre_app; [|apply vpre_ascii; reflexivity].
  apply vpre_join; [apply vpre_ascii; reflexivity|].
  induction H; cbn [map]; constructor; auto using vpre_cell.
Qed.

Lemma vpre_rows rows : Forall (Forall cell_utf8_ok) rows -> vpre (rows_bytes rows).
Proof.
  intros H. unfold rows_bytes. apply vpre_join; [apply vpre_ascii; reflexivity|].
  induction H; cbn [map]; constructor; auto using vpre_row.
Qed.

Lemma vpre_cols cols : vpre (cols_bytes cols).
Proof.
  unfold cols_bytes. apply vpre_app; [|apply vpre_ascii; reflexivity].
  apply vpre_print, jv_arr. induction cols; constructor; auto. apply jv_jstr.
Qed.

Lemma vpre_failed failed : vpre (failed_bytes failed).
Proof.
  unfold failed_bytes. apply vpre_join; [apply vpre_ascii; reflexivity|].
  induction failed as [|kv r IH]; cbn [map]; constructor; [|exact IH].
  apply vpre_app; [apply vpre_str, to_valid_utf8|]. apply vpre_cons; [reflexivity|apply vpre_str, to_valid_utf8].
Qed.

Lemma body_json_utf8 hdr rows :
  Forall (Forall cell_utf8_ok) rows -> utf8_valid (body_json hdr rows) = true.
Proof.
  intros H. apply vpre_valid. unfold body_json. apply vpre_cons; [reflexivity|].
  apply vpre_app.
  - destruct hdr as [cols|]; [|apply vpre_nil]. apply vpre_app; [apply vpre_cols|].
    destruct rows; apply vpre_ascii; reflexivity.
  - apply vpre_app; [apply vpre_rows, H|apply vpre_ascii; reflexivity].
Qed.

Lemma body_wrapped_utf8 hdr rows failed scanned total :
  Forall (Forall cell_utf8_ok) rows -> utf8_valid (body_wrapped hdr rows failed scanned total) = true.
Proof.
  intros H. apply vpre_valid. unfold body_wrapped.
  repeat first [ apply vpre_app | apply vpre_cons; [reflexivity|] ];
    try (apply vpre_ascii; reflexivity);
    try apply vpre_dec_Z; try apply vpre_failed; try (apply vpre_rows; exact H).
  destruct hdr as [cols|]; [|apply vpre_nil].
  apply vpre_cons; [reflexivity|]. apply vpre_app; [apply vpre_ascii; reflexivity|apply vpre_cols].
Qed.

Section Utf8Shape.
  Variables R C : Type.
  Variable cols : list (bytes * C).
  Variable get : R -> C -> cell.
  Variable rows : list R.
  Hypothesis Hext : forall r c, cell_utf8_ok (get r c).

  Lemma table_utf8_ok : Forall (Forall cell_utf8_ok) (table R C cols get rows).
  Proof.
    unfold table. apply Forall_forall. intros row Hin. apply in_map_iff in Hin.
    destruct Hin as (r & <- & _). apply Forall_forall. intros c Hc. apply in_map_iff in Hc.
    destruct Hc as (nc & <- & _). apply Hext.
  Qed.

  Lemma utf8_stmt header failed scanned total :
    utf8_valid (body_json (hdr_of C cols header) (table R C cols get rows)) = true /\
    utf8_valid (body_wrapped (hdr_of C cols header) (table R C cols get rows) failed scanned total) = true.
  Proof. split; [apply body_json_utf8|apply body_wrapped_utf8]; apply table_utf8_ok. Qed.
End Utf8Shape.

(** the pinned writer hands cached strings to jsoniter's WriteString as they are *)
Lemma pinned_writer_not_utf8 : exists s : bytes, utf8_valid (print_str s) = false.
Proof. exists [255]. reflexivity. Qed.
