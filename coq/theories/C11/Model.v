(** C11: a restarted or reconfigured backend is reloaded as a whole.

    Transcribes, of pkg/lmd:
      peer.go          periodicUpdate (398: per-minute refresh, dispatch on the status and data
                       pointer read at the top), handleBrokenPeer (474), updateLoop's
                       initTablesIfRestartRequiredError (684), InitAllTables (724),
                       initAllTablesSerial/Parallel (787/807), initTable (861: "reconnecting..."),
                       updateInitialStatus (900), resetErrors (959), setNextAddrFromErr (1547),
                       setBroken (2439), CheckBackendRestarted (2825)
      datastoreset.go  UpdateFull (209), UpdateDelta (256: status table first), UpdateFullTable
                       (726: row count comparison), skipTableUpdate (803), updateFullScan /
                       getMissingTimestamps (456/543: more objects than cached => broken)

    The backend is {identity (program_start, pid) as a counter; version of its object set;
    answering or not}. An object set version stands for the complete content of all object
    tables; [c_cnt c v t] is the number of objects of table [t] in version [v].
    The peer is what clients can see: the published version (the DataStoreSet pointer), the
    stored identity, status, last_error (empty or not) and whether the last successful contact
    is younger than the stale timeout.

    Order of side effects of a rebuild (InitAllTables), as the CORRECT code has it: the new
    DataStoreSet is built aside; after the status table was accepted ([c_ns] queries) the peer
    is marked "syncing / reconnecting..."; the identity is stored together with the data pointer
    swap, after all [c_nq] queries succeeded. [c_early = true] is the order of the pinned code
    (identity stored as soon as the status table was accepted), kept only to state its defect
    (Props.C11_eventual_reload_refuted_with_early_identity); the correspondence stream always
    compares with [c_early = false]. *)
From LMD Require Export Base.Str.

Inductive pstatus := Up | Warning | Down | Broken | Pending | Syncing.

Definition pstatus_eqb (a b : pstatus) : bool :=
  match a, b with
  | Up, Up | Warning, Warning | Down, Down | Broken, Broken | Pending, Pending | Syncing, Syncing => true
  | _, _ => false
  end.

Record cfg := mkCfg {
  c_ns : nat;               (* queries of a rebuild until the status table is accepted *)
  c_nq : nat;               (* queries of a complete rebuild *)
  c_cnt : N -> nat -> nat;  (* number of objects in table t of object set version v *)
  c_minute : list nat;      (* tables refreshed as a whole every minute *)
  c_full : list nat;        (* tables refreshed as a whole by a full update *)
  c_hosts : nat;            (* index of the hosts table *)
  c_svcs : nat;             (* index of the services table *)
  c_early : bool }.

Record backend := mkB { b_ident : N; b_ver : N; b_ok : bool }.

Record peer := mkP {
  published : option N;   (* Peer.data: None or one complete object set version *)
  ident : N;              (* Peer.programStart / corePid; 0 = none yet *)
  status : pstatus;
  err : bool;             (* last_error is not empty *)
  fresh : bool }.         (* lastOnline is within the stale timeout *)

(** peer.go:1547 setNextAddrFromErr: every failed backend query ends here *)
Definition fail_query (p : peer) : peer :=
  let st1 := match status p with
             | Up | Pending | Syncing => match published p with Some _ => Warning | None => status p end
             | x => x
             end in
  if fresh p then mkP (published p) (ident p) st1 true true
  else mkP None (ident p) Down true false.

(** peer.go:959 resetErrors *)
Definition reset_errors (p : peer) : peer := mkP (published p) (ident p) Up false true.

(** peer.go:883 initTable(status): "got an answer, let clients know we are reconnecting" *)
Definition mark_syncing (p : peer) : peer :=
  match status p with
  | Pending | Syncing => p
  | _ => mkP (published p) (ident p) Syncing true (fresh p)
  end.

(** peer.go:2439 setBroken *)
Definition set_broken (p : peer) : peer := mkP None (ident p) Broken true (fresh p).

Definition set_ident (i : N) (p : peer) : peer := mkP (published p) i (status p) (err p) (fresh p).

Definition fails_before (k : option nat) (n : nat) : bool :=
  match k with Some j => Nat.ltb j n | None => false end.

(** the fault that hits a rebuild: its k-th query (from 0) fails; a backend that does not
    answer fails the first one *)
Definition eff_fault (b : backend) (fault : option nat) : option nat :=
  if b_ok b then fault else Some 0%nat.

(** peer.go:724 InitAllTables *)
Definition rebuild (c : cfg) (fault : option nat) (b : backend) (p : peer) : peer :=
  let k := eff_fault b fault in
  if fails_before k (c_ns c) then fail_query p else
  let p1 := mark_syncing p in
  let p1 := if c_early c then set_ident (b_ident b) p1 else p1 in
  if fails_before k (c_nq c) then fail_query p1 else
  mkP (Some (b_ver b)) (b_ident b) Up false true.

(** the peer states clients can observe while a rebuild runs (before its last step) *)
Definition rebuild_during (c : cfg) (fault : option nat) (b : backend) (p : peer) : list peer :=
  let k := eff_fault b fault in
  if fails_before k (c_ns c) then [p] else
  let p1 := mark_syncing p in
  [p; if c_early c then set_ident (b_ident b) p1 else p1].

Inductive rres := ROk | RFail | RRestart.

(** UpdateFullTablesList on cached version [v]: every table is fetched as a whole and its row
    count compared with the cache (datastoreset.go:759) *)
Definition refresh (c : cfg) (tables : list nat) (v : N) (b : backend) : rres :=
  if negb (b_ok b) then RFail else
  if forallb (fun t => Nat.eqb (c_cnt c v t) (c_cnt c (b_ver b) t)) tables then ROk else RRestart.

(** peer.go:2825 CheckBackendRestarted *)
Definition restarted (p : peer) (b : backend) : bool :=
  negb (N.eqb (ident p) 0%N) && negb (N.eqb (ident p) (b_ident b)).

Record tickflags := mkTF {
  f_minute : bool;          (* the wall clock minute changed: timeperiods, host/servicegroups are refreshed *)
  f_full : bool;            (* the last full synchronisation is long ago: FullUpdateInterval elapsed
                               (and the grace time of a broken peer is over) *)
  f_scan : bool;            (* the host/service full scan of the delta update is due *)
  f_fault : option nat }.   (* the rebuild started by this cycle fails at its k-th query *)

(** a complete rebuild against an answering backend (the last line of [rebuild]) *)
Definition published_now (b : backend) : peer := mkP (Some (b_ver b)) (b_ident b) Up false true.

(** datastoreset.go:548 getMissingTimestamps, the full scan of ONE table (hosts, then services) of
    the cached version [v]: the backend has more objects than the cache -
      nothing cached at all: reloadIfNumberOfObjectsChanged rebuilds at once (InitAllTables
      inside the update, not through a "restart required" error; the update goes on);
      otherwise setBroken and the update ends.
    result: peer, the update ends here *)
Definition scan_table (c : cfg) (t : nat) (v : N) (b : backend) (p : peer) : peer * bool :=
  if Nat.ltb (c_cnt c v t) (c_cnt c (b_ver b) t) then
    if Nat.eqb (c_cnt c v t) 0 then (published_now b, false) else (set_broken p, true)
  else (p, false).

(** datastoreset.go:256 UpdateDelta on cached version [v]; result: peer, restart required *)
Definition delta (c : cfg) (f : tickflags) (b : backend) (p : peer) (v : N) : peer * bool :=
  if negb (b_ok b) then (fail_query p, false) else
  if restarted p b then (p, true) else
  if f_scan f then
    let r1 := scan_table c (c_hosts c) v b p in
    if snd r1 then (fst r1, false) else
    let r2 := scan_table c (c_svcs c) v b (fst r1) in
    if snd r2 then (fst r2, false) else (reset_errors (fst r2), false)
  else (reset_errors p, false).

(** datastoreset.go:209 UpdateFull(Objects.UpdateTables) *)
Definition full_update (c : cfg) (b : backend) (p : peer) (v : N) : peer * bool :=
  if negb (b_ok b) then (fail_query p, false) else
  if restarted p b then (p, true) else
  match refresh c (c_full c) v b with
  | RRestart => (p, true)
  | _ => (reset_errors p, false)
  end.

(** peer.go:474 handleBrokenPeer *)
Definition handle_broken (c : cfg) (f : tickflags) (b : backend) (p : peer) : peer :=
  if negb (b_ok b) then fail_query p else
  if f_full f || negb (N.eqb (ident p) (b_ident b)) then rebuild c (f_fault f) b p else p.

(** updateLoop: initTablesIfRestartRequiredError *)
Definition finish (c : cfg) (f : tickflags) (b : backend) (r : peer * bool) : peer :=
  if snd r then rebuild c (f_fault f) b (fst r) else fst r.

(** the due part of peer.go:398 periodicUpdate *)
Definition dispatch (c : cfg) (f : tickflags) (b : backend) (p : peer) : peer :=
  match status p with
  | Broken => handle_broken c f b p
  | Down | Pending => rebuild c (f_fault f) b p
  | Warning =>
      match published p with
      | None => rebuild c (f_fault f) b p
      | Some v => finish c f b (delta c f b p v)
      end
  | Up | Syncing =>
      match published p with
      | None => rebuild c (f_fault f) b p
      | Some v => finish c f b (if f_full f then full_update c b p v else delta c f b p v)
      end
  end.

(** one iteration of updateLoop with a due update *)
Definition tick (c : cfg) (f : tickflags) (b : backend) (p : peer) : peer :=
  match (if f_minute f then published p else None) with
  | Some v =>
      match refresh c (c_minute c) v b with
      | RFail => fail_query p
      | RRestart => rebuild c (f_fault f) b p
      | ROk => dispatch c f b p
      end
  | None => dispatch c f b p
  end.

Inductive event :=
| ERestart                 (* the backend restarts: new identity, next object set *)
| EChange                  (* its object set changes without a restart *)
| ESetOk (ok : bool)       (* it stops / resumes answering *)
| EStale                   (* more than the stale timeout passes *)
| ETick (f : tickflags).

Definition world := (backend * peer)%type.

Definition step (c : cfg) (w : world) (e : event) : world :=
  let (b, p) := w in
  match e with
  | ERestart => (mkB (b_ident b + 1)%N (b_ver b + 1)%N (b_ok b), p)
  | EChange => (mkB (b_ident b) (b_ver b + 1)%N (b_ok b), p)
  | ESetOk ok => (mkB (b_ident b) (b_ver b) ok, p)
  | EStale => (b, mkP (published p) (ident p) (status p) (err p) false)
  | ETick f => (b, tick c f b p)
  end.

(** NewPeer: pending, "connecting...", never online *)
Definition world0 : world := (mkB 1%N 0%N true, mkP None 0%N Pending true false).

Definition run (c : cfg) (evs : list event) : world := fold_left (step c) evs world0.

Definition plain : tickflags := mkTF false false false None.

(** ** the status row of what is served

    [GET status] is answered from the same published set as every other table: its
    program_start / nagios_pid / program_version are those of the backend process the
    served object set was loaded from. [idents_of evs] lists, per object set version
    (index = version), the identity of the backend process that had it. *)
Definition served_ident (p : peer) : option N :=
  match published p with Some _ => Some (ident p) | None => None end.

Fixpoint idents_from (cur : N) (acc : list N) (evs : list event) : list N :=
  match evs with
  | [] => acc
  | ERestart :: r => idents_from (cur + 1)%N (acc ++ [(cur + 1)%N]) r
  | EChange :: r => idents_from cur (acc ++ [cur]) r
  | _ :: r => idents_from cur acc r
  end.

Definition idents_of (evs : list event) : list N := idents_from 1%N [1%N] evs.
