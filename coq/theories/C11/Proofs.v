(** C11: proofs about the restart / rebuild model. *)
From LMD Require Import Base.Str C11.Model.
Local Open Scope N_scope.

(** case analysis on every [match] / [if] of the goal *)
Ltac break :=
  repeat match goal with
         | |- context [match ?x with _ => _ end] => destruct x eqn:?; cbn in *
         | |- context [if ?x then _ else _] => destruct x eqn:?; cbn in *
         end.

Ltac peer_cases p :=
  let pub := fresh "pub" in let id := fresh "id" in let st := fresh "st" in
  let er := fresh "er" in let fr := fresh "fr" in
  destruct p as [pub id st er fr]; cbn in *.

(** ** the invariant of all reachable worlds (both orders of side effects) *)

Definition good (b : backend) (p : peer) : Prop :=
  ident p <= b_ident b /\ 1 <= b_ident b /\
  match published p with Some v => ident p <> 0 /\ v <= b_ver b | None => True end /\
  (status p = Up -> published p <> None /\ err p = false) /\
  match status p with Down | Broken | Pending => published p = None | _ => True end.

Ltac good_tac := unfold good in *; cbn in *; intuition (try discriminate; try congruence; try lia).

Lemma good_fail_query b p : good b p -> good b (fail_query p).
Proof.
  intros Hg. peer_cases p. unfold fail_query; cbn. destruct fr, st, pub; good_tac.
Qed.

Lemma good_mark_syncing b p : good b p -> good b (mark_syncing p).
Proof.
  intros Hg. peer_cases p. unfold mark_syncing; cbn. destruct st, pub; good_tac.
Qed.

Lemma good_set_ident b p : good b p -> 1 <= b_ident b -> good b (set_ident (b_ident b) p).
Proof.
  intros Hg Hb. peer_cases p. unfold set_ident; cbn. destruct st, pub; good_tac.
Qed.

Lemma good_set_broken b p : good b p -> good b (set_broken p).
Proof.
  intros Hg. peer_cases p. unfold set_broken; cbn. good_tac.
Qed.

Lemma good_reset_errors b p : good b p -> published p <> None -> good b (reset_errors p).
Proof.
  intros Hg Hp. peer_cases p. unfold reset_errors; cbn. destruct pub; good_tac.
Qed.

Lemma good_published b : 1 <= b_ident b -> good b (mkP (Some (b_ver b)) (b_ident b) Up false true).
Proof. intros Hb. good_tac. Qed.

Lemma good_rebuild c k b p : good b p -> good b (rebuild c k b p).
Proof.
  intros Hg. pose proof Hg as (_ & Hb & _). unfold rebuild.
  destruct (fails_before (eff_fault b k) (c_ns c)); [apply good_fail_query; exact Hg|].
  destruct (fails_before (eff_fault b k) (c_nq c)); [|apply good_published; exact Hb].
  apply good_fail_query. destruct (c_early c).
  - apply good_set_ident; [apply good_mark_syncing; exact Hg|exact Hb].
  - apply good_mark_syncing; exact Hg.
Qed.

Lemma good_scan_table c t v b p :
  good b p -> published p <> None ->
  good b (fst (scan_table c t v b p)) /\ (snd (scan_table c t v b p) = false -> published (fst (scan_table c t v b p)) <> None).
Proof.
  intros Hg Hp. pose proof Hg as (_ & Hb & _). unfold scan_table.
  destruct (Nat.ltb _ _); [destruct (Nat.eqb _ 0)|]; cbn [fst snd].
  - split; [apply good_published; exact Hb|intros _; discriminate].
  - split; [apply good_set_broken; exact Hg|discriminate].
  - split; [exact Hg|intros _; exact Hp].
Qed.

Lemma good_delta c f b p v : good b p -> published p = Some v -> good b (fst (delta c f b p v)).
Proof.
  intros Hg Hv. assert (Hp : published p <> None) by congruence. unfold delta.
  destruct (negb (b_ok b)); cbn [fst]; [apply good_fail_query; exact Hg|].
  destruct (restarted p b); cbn [fst]; [exact Hg|].
  destruct (f_scan f); cbn [fst]; [|apply good_reset_errors; assumption].
  destruct (good_scan_table c (c_hosts c) v b p Hg Hp) as [G1 P1].
  destruct (snd (scan_table c (c_hosts c) v b p)); cbn [fst]; [exact G1|].
  destruct (good_scan_table c (c_svcs c) v b _ G1 (P1 eq_refl)) as [G2 P2].
  destruct (snd (scan_table c (c_svcs c) v b _)); cbn [fst]; [exact G2|].
  apply good_reset_errors; [exact G2|apply P2; reflexivity].
Qed.

Lemma good_full_update c b p v : good b p -> published p = Some v -> good b (fst (full_update c b p v)).
Proof.
  intros Hg Hv. unfold full_update. break; cbn; try exact Hg.
  - apply good_fail_query; exact Hg.
  - apply good_reset_errors; [exact Hg|congruence].
  - apply good_reset_errors; [exact Hg|congruence].
Qed.

Lemma good_finish c f b r : good b (fst r) -> good b (finish c f b r).
Proof. intros Hg. unfold finish. destruct (snd r); [apply good_rebuild|]; exact Hg. Qed.

Lemma good_dispatch c f b p : good b p -> good b (dispatch c f b p).
Proof.
  intros Hg. unfold dispatch.
  destruct (status p); try (apply good_rebuild; exact Hg).
  - destruct (published p) as [v|] eqn:Hv; [|apply good_rebuild; exact Hg].
    apply good_finish. destruct (f_full f); [apply good_full_update|apply good_delta]; assumption.
  - destruct (published p) as [v|] eqn:Hv; [|apply good_rebuild; exact Hg].
    apply good_finish, good_delta; assumption.
  - unfold handle_broken. break; try exact Hg; try (apply good_rebuild; exact Hg).
    apply good_fail_query; exact Hg.
  - destruct (published p) as [v|] eqn:Hv; [|apply good_rebuild; exact Hg].
    apply good_finish. destruct (f_full f); [apply good_full_update|apply good_delta]; assumption.
Qed.

Lemma good_tick c f b p : good b p -> good b (tick c f b p).
Proof.
  intros Hg. unfold tick.
  destruct (if f_minute f then published p else None).
  - destruct (refresh c (c_minute c) n b).
    + apply good_dispatch; exact Hg.
    + apply good_fail_query; exact Hg.
    + apply good_rebuild; exact Hg.
  - apply good_dispatch; exact Hg.
Qed.

Lemma good_step c w e : good (fst w) (snd w) -> good (fst (step c w e)) (snd (step c w e)).
Proof.
  destruct w as [b p]; cbn [fst snd]. intros Hg. destruct e; cbn [step fst snd]; try exact Hg.
  - peer_cases p. destruct pub, st; good_tac.
  - peer_cases p. destruct pub, st; good_tac.
  - apply good_tick; exact Hg.
Qed.

Lemma good_world0 : good (fst world0) (snd world0).
Proof. unfold world0. good_tac. Qed.

Lemma good_fold c evs w : good (fst w) (snd w) -> good (fst (fold_left (step c) evs w)) (snd (fold_left (step c) evs w)).
Proof.
  revert w; induction evs as [|e r IH]; intros w Hg; cbn [fold_left]; [exact Hg|].
  apply IH, good_step; exact Hg.
Qed.

Lemma good_run c evs : good (fst (run c evs)) (snd (run c evs)).
Proof. unfold run; apply good_fold, good_world0. Qed.

(** ** what a cycle can publish *)

Lemma fail_query_published p : published (fail_query p) = published p \/ published (fail_query p) = None.
Proof. unfold fail_query. destruct (fresh p); cbn; [left|right]; reflexivity. Qed.

Lemma mark_syncing_published p : published (mark_syncing p) = published p.
Proof. unfold mark_syncing. destruct (status p); reflexivity. Qed.

Definition pub_ok (b : backend) (p p' : peer) : Prop :=
  published p' = published p \/ published p' = None \/ published p' = Some (b_ver b).

Lemma pub_ok_refl b p : pub_ok b p p.
Proof. left; reflexivity. Qed.

Lemma pub_ok_fail b p q : pub_ok b p q -> pub_ok b p (fail_query q).
Proof.
  intros H. destruct (fail_query_published q) as [E|E]; unfold pub_ok in *; rewrite E; [exact H|].
  right; left; reflexivity.
Qed.

Lemma pub_ok_rebuild c k b p q : pub_ok b p q -> pub_ok b p (rebuild c k b q).
Proof.
  intros H. unfold rebuild.
  destruct (fails_before (eff_fault b k) (c_ns c)); [apply pub_ok_fail; exact H|].
  destruct (fails_before (eff_fault b k) (c_nq c)); [|right; right; reflexivity].
  apply pub_ok_fail. unfold pub_ok in *.
  destruct (c_early c); cbn [set_ident published]; rewrite mark_syncing_published; exact H.
Qed.

Lemma pub_ok_finish c f b p r : pub_ok b p (fst r) -> pub_ok b p (finish c f b r).
Proof. intros H; unfold finish; destruct (snd r); [apply pub_ok_rebuild|]; exact H. Qed.

Lemma pub_ok_scan_table c t v b p q : pub_ok b p q -> pub_ok b p (fst (scan_table c t v b q)).
Proof.
  intros H. unfold scan_table.
  destruct (Nat.ltb _ _); [destruct (Nat.eqb _ 0)|]; cbn [fst].
  - right; right; reflexivity.
  - right; left; reflexivity.
  - exact H.
Qed.

Lemma pub_ok_delta c f b p v : pub_ok b p (fst (delta c f b p v)).
Proof.
  unfold delta.
  destruct (negb (b_ok b)); cbn [fst]; [apply pub_ok_fail, pub_ok_refl|].
  destruct (restarted p b); cbn [fst]; [apply pub_ok_refl|].
  destruct (f_scan f); cbn [fst]; [|left; reflexivity].
  pose proof (pub_ok_scan_table c (c_hosts c) v b p p (pub_ok_refl b p)) as H1.
  destruct (snd (scan_table c (c_hosts c) v b p)); cbn [fst]; [exact H1|].
  pose proof (pub_ok_scan_table c (c_svcs c) v b p _ H1) as H2.
  destruct (snd (scan_table c (c_svcs c) v b _)); cbn [fst]; [exact H2|].
  exact H2.
Qed.

Lemma pub_ok_full c b p v : pub_ok b p (fst (full_update c b p v)).
Proof.
  unfold full_update. break; cbn [fst]; try apply pub_ok_refl; try (left; reflexivity).
  apply pub_ok_fail, pub_ok_refl.
Qed.

Lemma pub_ok_dispatch c f b p : pub_ok b p (dispatch c f b p).
Proof.
  unfold dispatch.
  destruct (status p); try (apply pub_ok_rebuild, pub_ok_refl).
  - destruct (published p) as [v|] eqn:Hv; [|apply pub_ok_rebuild, pub_ok_refl].
    apply pub_ok_finish. destruct (f_full f); [apply pub_ok_full|apply pub_ok_delta].
  - destruct (published p) as [v|] eqn:Hv; [|apply pub_ok_rebuild, pub_ok_refl].
    apply pub_ok_finish, pub_ok_delta.
  - unfold handle_broken. break; try apply pub_ok_refl; try (apply pub_ok_rebuild, pub_ok_refl).
    apply pub_ok_fail, pub_ok_refl.
  - destruct (published p) as [v|] eqn:Hv; [|apply pub_ok_rebuild, pub_ok_refl].
    apply pub_ok_finish. destruct (f_full f); [apply pub_ok_full|apply pub_ok_delta].
Qed.

Lemma thm_tick_publishes c f b p : pub_ok b p (tick c f b p).
Proof.
  unfold tick.
  destruct (if f_minute f then published p else None).
  - destruct (refresh c (c_minute c) n b).
    + apply pub_ok_dispatch.
    + apply pub_ok_fail, pub_ok_refl.
    + apply pub_ok_rebuild, pub_ok_refl.
  - apply pub_ok_dispatch.
Qed.

Lemma thm_rebuild_during c k b p q : In q (rebuild_during c k b p) -> published q = published p.
Proof.
  unfold rebuild_during. destruct (fails_before (eff_fault b k) (c_ns c)); cbn [In].
  - intros [<-|[]]; reflexivity.
  - intros [<-|[<-|[]]]; [reflexivity|].
    destruct (c_early c); cbn [set_ident published]; apply mark_syncing_published.
Qed.

Lemma thm_publish_atomic c evs :
  let w := run c evs in
  published (snd w) = None \/ exists v, published (snd w) = Some v /\ v <= b_ver (fst w).
Proof.
  cbn zeta. pose proof (good_run c evs) as (_ & _ & H3 & _).
  destruct (published (snd (run c evs))) as [v|] eqn:Hv; [right|left; reflexivity].
  exists v; split; [reflexivity|]. apply H3.
Qed.

Lemma thm_up_means_synced c evs :
  let w := run c evs in
  status (snd w) = Up -> (exists v, published (snd w) = Some v /\ v <= b_ver (fst w)) /\ err (snd w) = false.
Proof.
  cbn zeta. pose proof (good_run c evs) as (_ & _ & H3 & H4 & _). intros Hs.
  destruct (H4 Hs) as [Hn He]. split; [|exact He].
  destruct (published (snd (run c evs))) as [v|] eqn:Hv; [|contradiction Hn; reflexivity].
  exists v; split; [reflexivity|]. apply H3.
Qed.

(** ** a complete rebuild *)

Lemma fails_before_mono k n m : (n <= m)%nat -> fails_before k m = false -> fails_before k n = false.
Proof.
  unfold fails_before. destruct k as [j|]; [|reflexivity].
  intros Hle H. apply Nat.ltb_ge in H. apply Nat.ltb_ge. lia.
Qed.

Lemma thm_rebuild_complete c k b p :
  (c_ns c <= c_nq c)%nat -> b_ok b = true -> fails_before k (c_nq c) = false ->
  rebuild c k b p = mkP (Some (b_ver b)) (b_ident b) Up false true.
Proof.
  intros Hle Hok Hk. unfold rebuild, eff_fault. rewrite Hok.
  rewrite (fails_before_mono k _ _ Hle Hk), Hk. reflexivity.
Qed.

(** ** a failed rebuild *)

Lemma fail_query_reported p :
  (status p = Up -> published p <> None) ->
  status (fail_query p) <> Up /\ err (fail_query p) = true /\ ident (fail_query p) = ident p.
Proof.
  intros H. peer_cases p. unfold fail_query; cbn.
  destruct fr; cbn; [|repeat split; discriminate].
  repeat split. destruct st, pub; cbn; try discriminate. intros _. apply H; reflexivity.
Qed.

Lemma rebuild_fails_eq c k b p :
  (c_ns c <= c_nq c)%nat -> c_early c = false ->
  fails_before (eff_fault b k) (c_nq c) = true ->
  rebuild c k b p = if fails_before (eff_fault b k) (c_ns c) then fail_query p else fail_query (mark_syncing p).
Proof.
  intros Hle He Hk. unfold rebuild. rewrite He, Hk. reflexivity.
Qed.

Lemma thm_failed_rebuild_reported c evs k :
  (c_ns c <= c_nq c)%nat -> (0 < c_nq c)%nat -> c_early c = false ->
  let b := fst (run c evs) in
  let p := snd (run c evs) in
  b_ok b = false \/ fails_before k (c_nq c) = true ->
  let p' := rebuild c k b p in
  status p' <> Up /\ err p' = true /\ ident p' = ident p /\
  (published p' = published p \/ published p' = None).
Proof.
  intros Hle Hpos He b p Hf p'.
  pose proof (good_run c evs) as (_ & _ & _ & H4 & _). fold p in H4.
  assert (Hk : fails_before (eff_fault b k) (c_nq c) = true).
  { unfold eff_fault. destruct (b_ok b); [destruct Hf as [Hf|Hf]; [discriminate Hf|exact Hf]|].
    unfold fails_before. apply Nat.ltb_lt; exact Hpos. }
  subst p'. rewrite (rebuild_fails_eq c k b p Hle He Hk).
  destruct (fails_before (eff_fault b k) (c_ns c)).
  - destruct (fail_query_reported p) as (A & B & C); [intros Hs; apply H4; exact Hs|].
    repeat split; try assumption. apply fail_query_published.
  - destruct (fail_query_reported (mark_syncing p)) as (A & B & C).
    { intros Hs. exfalso. revert Hs. unfold mark_syncing. destruct (status p) eqn:Hst; cbn; rewrite ?Hst; discriminate. }
    repeat split; try assumption.
    + rewrite C. unfold mark_syncing. destruct (status p); reflexivity.
    + destruct (fail_query_published (mark_syncing p)) as [E|E]; rewrite E; [left; apply mark_syncing_published|right; reflexivity].
Qed.

(** ** eventual reload (identity stored together with the data) *)

(** since the backend's last restart nothing else changed its objects: if the peer carries the
    backend's identity, what it serves (if anything) is the backend's current object set *)
Definition synced (b : backend) (p : peer) : Prop :=
  ident p = b_ident b -> status p <> Broken /\ (published p = None \/ published p = Some (b_ver b)).

Lemma synced_fail_query b p : synced b p -> synced b (fail_query p).
Proof.
  intros H. peer_cases p. unfold synced, fail_query in *; cbn in *.
  destruct fr; cbn; intros Hi; destruct (H Hi) as [Hs Hp].
  - split; [destruct st, pub; cbn; congruence|exact Hp].
  - split; [discriminate|left; reflexivity].
Qed.

Lemma synced_mark_syncing b p : synced b p -> synced b (mark_syncing p).
Proof.
  intros H. peer_cases p. unfold synced, mark_syncing in *; cbn in *.
  destruct st; cbn; intros Hi; destruct (H Hi) as [Hs Hp]; split; try assumption; discriminate.
Qed.

Lemma synced_published b : synced b (mkP (Some (b_ver b)) (b_ident b) Up false true).
Proof. intros _; cbn; split; [discriminate|right; reflexivity]. Qed.

Lemma synced_rebuild c k b p : c_early c = false -> synced b p -> synced b (rebuild c k b p).
Proof.
  intros He H. unfold rebuild. rewrite He.
  destruct (fails_before (eff_fault b k) (c_ns c)); [apply synced_fail_query; exact H|].
  destruct (fails_before (eff_fault b k) (c_nq c)); [|apply synced_published].
  apply synced_fail_query, synced_mark_syncing; exact H.
Qed.

Lemma scan_table_same c t b p : scan_table c t (b_ver b) b p = (p, false).
Proof. unfold scan_table. rewrite Nat.ltb_irrefl. reflexivity. Qed.

Lemma synced_delta c f b p v :
  good b p -> synced b p -> published p = Some v -> synced b (fst (delta c f b p v)).
Proof.
  intros Hg H Hv. unfold delta.
  destruct (negb (b_ok b)); cbn [fst]; [apply synced_fail_query; exact H|].
  destruct (restarted p b) eqn:Hr; cbn [fst]; [exact H|].
  assert (Hre : synced b (reset_errors p)).
  { intros Hi. unfold reset_errors in *; cbn in *. destruct (H Hi) as [_ Hp]. split; [discriminate|exact Hp]. }
  destruct (f_scan f); cbn [fst]; [|exact Hre].
  (* the restart check passed: the peer carries the backend's identity (it has data, so an identity),
     hence serves the current version and the scan finds nothing *)
  assert (Hi : ident p = b_ident b).
  { destruct Hg as (_ & _ & H3 & _). rewrite Hv in H3. destruct H3 as [Hn _].
    unfold restarted in Hr. apply andb_false_iff in Hr. destruct Hr as [Hr|Hr]; apply negb_false_iff, N.eqb_eq in Hr;
      [contradiction|exact Hr]. }
  destruct (H Hi) as [_ [Hp|Hp]]; [congruence|].
  rewrite Hv in Hp; inversion Hp; subst v.
  rewrite !scan_table_same; cbn [fst snd]. exact Hre.
Qed.

Lemma synced_full c b p v : synced b p -> synced b (fst (full_update c b p v)).
Proof.
  intros H. unfold full_update. break; cbn [fst]; try exact H.
  - apply synced_fail_query; exact H.
  - intros Hi. unfold reset_errors in *; cbn in *. destruct (H Hi) as [_ Hp]. split; [discriminate|exact Hp].
  - intros Hi. unfold reset_errors in *; cbn in *. destruct (H Hi) as [_ Hp]. split; [discriminate|exact Hp].
Qed.

Lemma synced_finish c f b r : c_early c = false -> synced b (fst r) -> synced b (finish c f b r).
Proof. intros He H. unfold finish. destruct (snd r); [apply synced_rebuild|]; assumption. Qed.

Lemma synced_dispatch c f b p : c_early c = false -> good b p -> synced b p -> synced b (dispatch c f b p).
Proof.
  intros He Hg H. unfold dispatch.
  destruct (status p); try (apply synced_rebuild; assumption).
  - destruct (published p) as [v|] eqn:Hv; [|apply synced_rebuild; assumption].
    apply synced_finish; [exact He|]. destruct (f_full f); [apply synced_full|apply synced_delta]; assumption.
  - destruct (published p) as [v|] eqn:Hv; [|apply synced_rebuild; assumption].
    apply synced_finish; [exact He|]. apply synced_delta; assumption.
  - unfold handle_broken. break; try exact H; try (apply synced_rebuild; assumption).
    apply synced_fail_query; exact H.
  - destruct (published p) as [v|] eqn:Hv; [|apply synced_rebuild; assumption].
    apply synced_finish; [exact He|]. destruct (f_full f); [apply synced_full|apply synced_delta]; assumption.
Qed.

Lemma synced_tick c f b p : c_early c = false -> good b p -> synced b p -> synced b (tick c f b p).
Proof.
  intros He Hg H. unfold tick.
  destruct (if f_minute f then published p else None).
  - destruct (refresh c (c_minute c) n b).
    + apply synced_dispatch; assumption.
    + apply synced_fail_query; exact H.
    + apply synced_rebuild; assumption.
  - apply synced_dispatch; assumption.
Qed.

Definition is_change (e : event) : bool := match e with ERestart | EChange => true | _ => false end.

Lemma synced_fold c evs w :
  c_early c = false -> forallb (fun e => negb (is_change e)) evs = true ->
  good (fst w) (snd w) -> synced (fst w) (snd w) ->
  synced (fst (fold_left (step c) evs w)) (snd (fold_left (step c) evs w)).
Proof.
  intros He. revert w; induction evs as [|e r IH]; intros w Hn Hg Hs; cbn [fold_left]; [exact Hs|].
  cbn [forallb] in Hn. apply andb_true_iff in Hn; destruct Hn as [Hn1 Hn2].
  apply IH; [exact Hn2|apply good_step; exact Hg|].
  destruct w as [b p]; cbn [fst snd] in *. destruct e; cbn [step fst snd is_change negb] in *; try discriminate Hn1.
  - exact Hs.
  - peer_cases p. exact Hs.
  - apply synced_tick; assumption.
Qed.

(** one fault-free cycle from a [good], [synced] state with an answering backend *)
Lemma tick_reloads c f b p :
  c_early c = false -> good b p -> synced b p -> b_ok b = true -> f_fault f = None ->
  tick c f b p = mkP (Some (b_ver b)) (b_ident b) Up false true.
Proof.
  intros He (H1 & H2 & H3 & H4 & H5) Hs Hok Hf.
  assert (Hreb : forall q, rebuild c (f_fault f) b q = mkP (Some (b_ver b)) (b_ident b) Up false true).
  { intros q. unfold rebuild, eff_fault. rewrite Hok, Hf. reflexivity. }
  assert (Hdelta : forall v, published p = Some v ->
            finish c f b (delta c f b p v) = mkP (Some (b_ver b)) (b_ident b) Up false true).
  { intros v Hv. unfold delta. rewrite Hok; cbn [negb].
    destruct (restarted p b) eqn:Hr; [unfold finish; cbn [fst snd]; apply Hreb|].
    assert (Hi : ident p = b_ident b).
    { unfold restarted in Hr. apply andb_false_iff in Hr. destruct Hr as [Hr|Hr]; apply negb_false_iff, N.eqb_eq in Hr.
      - rewrite Hv in H3. destruct H3 as [Hn _]; contradiction.
      - exact Hr. }
    destruct (Hs Hi) as [_ [Hp|Hp]]; [congruence|].
    rewrite Hv in Hp; inversion Hp; subst v.
    rewrite !scan_table_same; cbn [fst snd].
    destruct (f_scan f); unfold finish; cbn [fst snd]; unfold reset_errors; rewrite Hv, Hi; reflexivity. }
  assert (Hfull : forall v, published p = Some v ->
            finish c f b (full_update c b p v) = mkP (Some (b_ver b)) (b_ident b) Up false true).
  { intros v Hv. unfold full_update. rewrite Hok; cbn [negb].
    destruct (restarted p b) eqn:Hr; [unfold finish; cbn [fst snd]; apply Hreb|].
    assert (Hi : ident p = b_ident b).
    { unfold restarted in Hr. apply andb_false_iff in Hr. destruct Hr as [Hr|Hr]; apply negb_false_iff, N.eqb_eq in Hr.
      - rewrite Hv in H3. destruct H3 as [Hn _]; contradiction.
      - exact Hr. }
    destruct (Hs Hi) as [_ [Hp|Hp]]; [congruence|].
    rewrite Hv in Hp; inversion Hp; subst v.
    destruct (refresh c (c_full c) (b_ver b) b); unfold finish; cbn [fst snd]; try apply Hreb;
      unfold reset_errors; rewrite Hv, Hi; reflexivity. }
  assert (Hdisp : dispatch c f b p = mkP (Some (b_ver b)) (b_ident b) Up false true).
  { unfold dispatch. destruct (status p) eqn:Hst; try apply Hreb.
    - destruct (published p) as [v|] eqn:Hv; [|apply Hreb].
      destruct (f_full f); [apply Hfull|apply Hdelta]; reflexivity.
    - destruct (published p) as [v|] eqn:Hv; [|apply Hreb]. apply Hdelta; reflexivity.
    - unfold handle_broken. rewrite Hok; cbn [negb].
      destruct (f_full f); cbn [orb]; [apply Hreb|].
      destruct (N.eqb (ident p) (b_ident b)) eqn:Hi; cbn [negb]; [|apply Hreb].
      apply N.eqb_eq in Hi. destruct (Hs Hi) as [Hn _]. contradiction.
    - destruct (published p) as [v|] eqn:Hv; [|apply Hreb].
      destruct (f_full f); [apply Hfull|apply Hdelta]; reflexivity. }
  unfold tick. destruct (if f_minute f then published p else None); [|exact Hdisp].
  unfold refresh. rewrite Hok; cbn [negb].
  destruct (forallb _ (c_minute c)); [exact Hdisp|apply Hreb].
Qed.

Lemma run_app c a b : run c (a ++ b) = fold_left (step c) b (run c a).
Proof. unfold run; apply fold_left_app. Qed.

Lemma thm_eventual_reload c evs1 evs2 f :
  c_early c = false ->
  forallb (fun e => negb (is_change e)) evs2 = true ->
  f_fault f = None ->
  let w := run c (evs1 ++ ERestart :: evs2) in
  b_ok (fst w) = true ->
  tick c f (fst w) (snd w) = mkP (Some (b_ver (fst w))) (b_ident (fst w)) Up false true.
Proof.
  intros He Hn Hf w Hok. subst w.
  replace (evs1 ++ ERestart :: evs2) with ((evs1 ++ [ERestart]) ++ evs2) in * by (rewrite <- app_assoc; reflexivity).
  rewrite run_app in *.
  pose proof (good_run c (evs1 ++ [ERestart])) as Hg.
  assert (Hs : synced (fst (run c (evs1 ++ [ERestart]))) (snd (run c (evs1 ++ [ERestart])))).
  { rewrite run_app. cbn [fold_left]. pose proof (good_run c evs1) as (H1 & _).
    destruct (run c evs1) as [b p]; cbn [step fst snd b_ident] in *.
    intros Hi. cbn in Hi. exfalso. lia. }
  apply tick_reloads; try assumption.
  - apply good_fold; exact Hg.
  - apply synced_fold; assumption.
Qed.

(** a full update notices a changed object count and reloads *)
Lemma thm_count_change_reloads c f b p v t :
  b_ok b = true -> f_fault f = None -> f_minute f = false -> f_full f = true ->
  status p = Up \/ status p = Syncing -> published p = Some v ->
  In t (c_full c) -> c_cnt c v t <> c_cnt c (b_ver b) t ->
  tick c f b p = mkP (Some (b_ver b)) (b_ident b) Up false true.
Proof.
  intros Hok Hf Hm Hfull Hst Hv Hin Hne.
  assert (Hreb : forall q, rebuild c (f_fault f) b q = mkP (Some (b_ver b)) (b_ident b) Up false true).
  { intros q. unfold rebuild, eff_fault. rewrite Hok, Hf. reflexivity. }
  unfold tick. rewrite Hm. unfold dispatch.
  assert (Hfin : finish c f b (full_update c b p v) = mkP (Some (b_ver b)) (b_ident b) Up false true).
  { unfold full_update. rewrite Hok; cbn [negb].
    destruct (restarted p b); [unfold finish; cbn [fst snd]; apply Hreb|].
    unfold refresh. rewrite Hok; cbn [negb].
    destruct (forallb _ (c_full c)) eqn:Hall; [|unfold finish; cbn [fst snd]; apply Hreb].
    exfalso. rewrite forallb_forall in Hall. apply Hall in Hin. apply Nat.eqb_eq in Hin. contradiction. }
  destruct Hst as [Hst|Hst]; rewrite Hst, Hv, Hfull; exact Hfin.
Qed.

(** ** the identity (status row) of what is served belongs to the served version *)

Definition pid_ok (b : backend) (p p' : peer) : Prop :=
  (published p' = published p /\ ident p' = ident p) \/ published p' = None \/
  (published p' = Some (b_ver b) /\ ident p' = b_ident b).

Lemma pid_ok_refl b p : pid_ok b p p.
Proof. left; split; reflexivity. Qed.

Lemma fail_query_ident p : ident (fail_query p) = ident p.
Proof. unfold fail_query. destruct (fresh p); reflexivity. Qed.

Lemma mark_syncing_ident p : ident (mark_syncing p) = ident p.
Proof. unfold mark_syncing. destruct (status p); reflexivity. Qed.

Lemma pid_ok_fail b p q : pid_ok b p q -> pid_ok b p (fail_query q).
Proof.
  intros H. unfold pid_ok in *. rewrite fail_query_ident.
  destruct (fail_query_published q) as [E|E]; rewrite E; [exact H|right; left; reflexivity].
Qed.

Lemma pid_ok_rebuild c k b p q : c_early c = false -> pid_ok b p q -> pid_ok b p (rebuild c k b q).
Proof.
  intros He H. unfold rebuild. rewrite He.
  destruct (fails_before (eff_fault b k) (c_ns c)); [apply pid_ok_fail; exact H|].
  destruct (fails_before (eff_fault b k) (c_nq c)); [|right; right; split; reflexivity].
  apply pid_ok_fail. unfold pid_ok in *. rewrite mark_syncing_published, mark_syncing_ident. exact H.
Qed.

Lemma pid_ok_finish c f b p r : c_early c = false -> pid_ok b p (fst r) -> pid_ok b p (finish c f b r).
Proof. intros He H; unfold finish; destruct (snd r); [apply pid_ok_rebuild|]; assumption. Qed.

Lemma pid_ok_scan_table c t v b p q : pid_ok b p q -> pid_ok b p (fst (scan_table c t v b q)).
Proof.
  intros H. unfold scan_table.
  destruct (Nat.ltb _ _); [destruct (Nat.eqb _ 0)|]; cbn [fst].
  - right; right; split; reflexivity.
  - right; left; reflexivity.
  - exact H.
Qed.

Lemma pid_ok_reset b p q : pid_ok b p q -> pid_ok b p (reset_errors q).
Proof. intros H. exact H. Qed.

Lemma pid_ok_delta c f b p v : pid_ok b p (fst (delta c f b p v)).
Proof.
  unfold delta.
  destruct (negb (b_ok b)); cbn [fst]; [apply pid_ok_fail, pid_ok_refl|].
  destruct (restarted p b); cbn [fst]; [apply pid_ok_refl|].
  destruct (f_scan f); cbn [fst]; [|apply pid_ok_reset, pid_ok_refl].
  pose proof (pid_ok_scan_table c (c_hosts c) v b p p (pid_ok_refl b p)) as H1.
  destruct (snd (scan_table c (c_hosts c) v b p)); cbn [fst]; [exact H1|].
  pose proof (pid_ok_scan_table c (c_svcs c) v b p _ H1) as H2.
  destruct (snd (scan_table c (c_svcs c) v b _)); cbn [fst]; [exact H2|].
  apply pid_ok_reset; exact H2.
Qed.

Lemma pid_ok_full c b p v : pid_ok b p (fst (full_update c b p v)).
Proof.
  unfold full_update. break; cbn [fst]; try apply pid_ok_refl; try (apply pid_ok_reset, pid_ok_refl).
  apply pid_ok_fail, pid_ok_refl.
Qed.

Lemma pid_ok_dispatch c f b p : c_early c = false -> pid_ok b p (dispatch c f b p).
Proof.
  intros He. unfold dispatch.
  destruct (status p); try (apply pid_ok_rebuild; [exact He|apply pid_ok_refl]).
  - destruct (published p) as [v|] eqn:Hv; [|apply pid_ok_rebuild; [exact He|apply pid_ok_refl]].
    apply pid_ok_finish; [exact He|]. destruct (f_full f); [apply pid_ok_full|apply pid_ok_delta].
  - destruct (published p) as [v|] eqn:Hv; [|apply pid_ok_rebuild; [exact He|apply pid_ok_refl]].
    apply pid_ok_finish; [exact He|]. apply pid_ok_delta.
  - unfold handle_broken. break; try apply pid_ok_refl; try (apply pid_ok_rebuild; [exact He|apply pid_ok_refl]).
    apply pid_ok_fail, pid_ok_refl.
  - destruct (published p) as [v|] eqn:Hv; [|apply pid_ok_rebuild; [exact He|apply pid_ok_refl]].
    apply pid_ok_finish; [exact He|]. destruct (f_full f); [apply pid_ok_full|apply pid_ok_delta].
Qed.

Lemma pid_ok_tick c f b p : c_early c = false -> pid_ok b p (tick c f b p).
Proof.
  intros He. unfold tick.
  destruct (if f_minute f then published p else None).
  - destruct (refresh c (c_minute c) n b).
    + apply pid_ok_dispatch; exact He.
    + apply pid_ok_fail, pid_ok_refl.
    + apply pid_ok_rebuild; [exact He|apply pid_ok_refl].
  - apply pid_ok_dispatch; exact He.
Qed.

(** [acc] lists the identity of every version up to the backend's current one, and the peer's
    identity is the one of the version it serves *)
Definition ids_inv (b : backend) (p : peer) (acc : list N) : Prop :=
  length acc = S (N.to_nat (b_ver b)) /\
  nth_error acc (N.to_nat (b_ver b)) = Some (b_ident b) /\
  forall v, published p = Some v -> nth_error acc (N.to_nat v) = Some (ident p).

Lemma nth_error_snoc_old {A} (l : list A) x n y : nth_error l n = Some y -> nth_error (l ++ [x]) n = Some y.
Proof.
  intros H. rewrite nth_error_app1; [exact H|]. apply nth_error_Some. congruence.
Qed.

Lemma nth_error_snoc_new {A} (l : list A) x : nth_error (l ++ [x]) (length l) = Some x.
Proof. rewrite nth_error_app2 by apply Nat.le_refl. rewrite Nat.sub_diag. reflexivity. Qed.

Lemma ids_inv_fold c evs : c_early c = false ->
  forall w acc, ids_inv (fst w) (snd w) acc ->
    let w' := fold_left (step c) evs w in
    ids_inv (fst w') (snd w') (idents_from (b_ident (fst w)) acc evs).
Proof.
  intros He. induction evs as [|e r IH]; intros w acc Hi; cbn [fold_left idents_from]; [exact Hi|].
  destruct w as [b p]; cbn [fst snd] in *. destruct Hi as (Hl & Hc & Hp).
  assert (Hsucc : N.to_nat (b_ver b + 1) = S (N.to_nat (b_ver b))) by lia.
  destruct e; cbn [step].
  - apply (IH (mkB (b_ident b + 1) (b_ver b + 1) (b_ok b), p)). unfold ids_inv; cbn [fst snd b_ver b_ident]. repeat split.
    + rewrite app_length, Hl, Hsucc; cbn; lia.
    + rewrite Hsucc, <- Hl. apply nth_error_snoc_new.
    + intros v Hv. apply nth_error_snoc_old, Hp, Hv.
  - apply (IH (mkB (b_ident b) (b_ver b + 1) (b_ok b), p)). unfold ids_inv; cbn [fst snd b_ver b_ident]. repeat split.
    + rewrite app_length, Hl, Hsucc; cbn; lia.
    + rewrite Hsucc, <- Hl. apply nth_error_snoc_new.
    + intros v Hv. apply nth_error_snoc_old, Hp, Hv.
  - apply (IH (mkB (b_ident b) (b_ver b) ok, p)). unfold ids_inv; cbn [fst snd b_ver b_ident]. repeat split; assumption.
  - apply (IH (b, mkP (published p) (ident p) (status p) (err p) false)). unfold ids_inv; cbn [fst snd published ident].
    repeat split; assumption.
  - apply (IH (b, tick c f b p)). unfold ids_inv; cbn [fst snd]. repeat split; try assumption.
    intros v Hv. destruct (pid_ok_tick c f b p He) as [[E1 E2]|[E|[E1 E2]]].
    + rewrite E2. apply Hp. rewrite <- E1; exact Hv.
    + congruence.
    + rewrite E2. rewrite E1 in Hv; inversion Hv; subst v. exact Hc.
Qed.

Lemma thm_status_of_served_set c evs :
  c_early c = false ->
  let w := run c evs in
  forall v, published (snd w) = Some v -> nth_error (idents_of evs) (N.to_nat v) = Some (ident (snd w)).
Proof.
  intros He w. subst w. unfold run, idents_of.
  pose proof (ids_inv_fold c evs He world0 [1]) as H. cbn [fst snd world0 b_ident] in H.
  apply H. unfold ids_inv; cbn. repeat split. intros v Hv; discriminate Hv.
Qed.

Lemma thm_status_during_rebuild c k b p q :
  c_early c = false -> In q (rebuild_during c k b p) -> served_ident q = served_ident p.
Proof.
  intros He. unfold rebuild_during, served_ident. rewrite He.
  destruct (fails_before (eff_fault b k) (c_ns c)); cbn [In].
  - intros [<-|[]]; reflexivity.
  - intros [<-|[<-|[]]]; [reflexivity|]. rewrite mark_syncing_published, mark_syncing_ident. reflexivity.
Qed.

(** ** the pinned order of side effects loses a restart *)

Definition early_cfg : cfg := mkCfg 1 12 (fun _ _ => 3%nat) [0; 5; 7]%nat [0; 1; 4; 5; 6; 7]%nat 4 6 true.
Definition late_cfg : cfg := mkCfg 1 12 (fun _ _ => 3%nat) [0; 5; 7]%nat [0; 1; 4; 5; 6; 7]%nat 4 6 false.

(** initial sync, restart with a changed object set of the same size, the rebuild fails at its
    6th query, then any number of fault-free cycles *)
Definition witness (n : nat) : list event :=
  [ETick plain; ERestart; ETick (mkTF false false false (Some 6%nat))] ++ repeat (ETick plain) n.

Lemma thm_early_identity_refuted n :
  let w := run early_cfg (witness (S n)) in
  b_ver (fst w) = 1 /\ b_ok (fst w) = true /\
  snd w = mkP (Some 0) 2 Up false true.
Proof.
  cbn zeta. unfold witness. rewrite run_app.
  change (run early_cfg [ETick plain; ERestart; ETick (mkTF false false false (Some 6%nat))])
    with (mkB 2 1 true, mkP (Some 0) 2 Warning true true).
  induction n as [|n IH].
  - vm_compute. repeat split.
  - change (repeat (ETick plain) (S (S n))) with (ETick plain :: repeat (ETick plain) (S n)).
    cbn [fold_left]. exact IH.
Qed.

Lemma thm_late_identity_witness n :
  snd (run late_cfg (witness (S n))) = mkP (Some 1) 2 Up false true.
Proof.
  unfold witness. rewrite run_app.
  change (run late_cfg [ETick plain; ERestart; ETick (mkTF false false false (Some 6%nat))])
    with (mkB 2 1 true, mkP (Some 0) 1 Warning true true).
  induction n as [|n IH].
  - vm_compute. reflexivity.
  - change (repeat (ETick plain) (S (S n))) with (ETick plain :: repeat (ETick plain) (S n)).
    cbn [fold_left]. exact IH.
Qed.
