(** C11: a restarted or reconfigured backend is reloaded as a whole.
    Only statements, each closed by [exact]; proofs live in Proofs.v.

    [run c evs] is the world (backend, peer) after the history [evs] of
      ERestart   the backend restarts: new identity (program_start, pid), next object set
      EChange    its object set changes without restart (next version, same identity)
      ESetOk ok  it stops / resumes answering
      EStale     more than the stale timeout passes without successful contact
      ETick f    one iteration of the peer's update loop (periodicUpdate +
                 initTablesIfRestartRequiredError) with a due update; [f] says whether the
                 per-minute refresh, the full update (or the broken peer's grace time) and the
                 host/service full scan are due and at which of its queries the rebuild this
                 cycle may start fails ([f_fault = Some k], any k: all failure positions)
    for parameters [c]: the number of queries of a rebuild, object counts of every object set
    version, the tables a full refresh compares. An object set version stands for the complete
    content of all tables; what the peer publishes is [None] or ONE version - that the real
    DataStoreSet pointer behaves like this (all tables of one version, also for a client asking
    while a rebuild runs) is what the correspondence stream checks.
    [c_early c = false] is the correct order of side effects: the identity of the backend is
    stored together with the data pointer swap. *)
From LMD Require Import Base.Str C11.Model C11.Proofs.
Local Open Scope N_scope.

(** publish_atomic: after every history what is served is nothing or one complete object set
    the backend really had (versions 0 .. current) ... *)
Theorem C11_publish_atomic :
  forall (c : cfg) (evs : list event),
    let w := run c evs in
    published (snd w) = None \/ exists v, published (snd w) = Some v /\ v <= b_ver (fst w).
Proof. exact thm_publish_atomic. Qed.

(** ... every cycle, whatever fails in it, ends with the set served before, with nothing, or
    with the backend's current set ... *)
Theorem C11_cycle_publishes_old_none_or_new :
  forall (c : cfg) (f : tickflags) (b : backend) (p : peer),
    published (tick c f b p) = published p \/ published (tick c f b p) = None \/
    published (tick c f b p) = Some (b_ver b).
Proof. exact thm_tick_publishes. Qed.

(** ... and while a rebuild runs (at every failure position) clients keep being served the old set. *)
Theorem C11_old_set_until_rebuild_finished :
  forall (c : cfg) (k : option nat) (b : backend) (p q : peer),
    In q (rebuild_during c k b p) -> published q = published p.
Proof. exact thm_rebuild_during. Qed.

(** The status table is part of the served set: after every history the identity the peer carries -
    the program_start / nagios_pid / version row [GET status] answers with - is the identity of
    the backend process that had the served object set version, never the one of another process
    (old objects with the restarted process's status row would be a mixture) ... *)
Theorem C11_status_row_of_served_set :
  forall (c : cfg) (evs : list event),
    c_early c = false ->
    let w := run c evs in
    forall v, published (snd w) = Some v ->
      nth_error (idents_of evs) (N.to_nat v) = Some (ident (snd w)).
Proof. exact thm_status_of_served_set. Qed.

(** ... also while a rebuild runs, at every failure position ... *)
Theorem C11_old_status_until_rebuild_finished :
  forall (c : cfg) (k : option nat) (b : backend) (p q : peer),
    c_early c = false -> In q (rebuild_during c k b p) -> served_ident q = served_ident p.
Proof. exact thm_status_during_rebuild. Qed.

(** ... and every cycle ends with the old set and its identity, with nothing, or with the backend's
    current set and current identity. *)
Theorem C11_cycle_keeps_set_and_status_together :
  forall (c : cfg) (f : tickflags) (b : backend) (p : peer),
    c_early c = false ->
    (published (tick c f b p) = published p /\ ident (tick c f b p) = ident p) \/
    published (tick c f b p) = None \/
    (published (tick c f b p) = Some (b_ver b) /\ ident (tick c f b p) = b_ident b).
Proof. exact pid_ok_tick. Qed.

(** rebuild_complete: a rebuild none of whose queries fails publishes the backend's current
    object set, stores its identity and reports the backend up without error. *)
Theorem C11_rebuild_complete :
  forall (c : cfg) (k : option nat) (b : backend) (p : peer),
    (c_ns c <= c_nq c)%nat -> b_ok b = true -> fails_before k (c_nq c) = false ->
    rebuild c k b p = mkP (Some (b_ver b)) (b_ident b) Up false true.
Proof. exact thm_rebuild_complete. Qed.

(** failed_rebuild_reported: from every reachable state a rebuild that fails at any of its
    queries leaves the backend reported failed (not up, last_error set), serving the complete old
    set or nothing, and does not touch the stored identity. *)
Theorem C11_failed_rebuild_reported :
  forall (c : cfg) (evs : list event) (k : option nat),
    (c_ns c <= c_nq c)%nat -> (0 < c_nq c)%nat -> c_early c = false ->
    let b := fst (run c evs) in
    let p := snd (run c evs) in
    b_ok b = false \/ fails_before k (c_nq c) = true ->
    let p' := rebuild c k b p in
    status p' <> Up /\ err p' = true /\ ident p' = ident p /\
    (published p' = published p \/ published p' = None).
Proof. exact thm_failed_rebuild_reported. Qed.

(** whenever a backend is reported up it serves a complete set and shows no error *)
Theorem C11_up_means_complete_set :
  forall (c : cfg) (evs : list event),
    let w := run c evs in
    status (snd w) = Up ->
    (exists v, published (snd w) = Some v /\ v <= b_ver (fst w)) /\ err (snd w) = false.
Proof. exact thm_up_means_synced. Qed.

(** eventual_reload: after a backend restart - whatever happened before, whatever failed
    afterwards (failed rebuilds at any query, outages, stale timeouts, broken state), as long as
    the object set did not change again - ONE fault-free cycle of any kind serves the new
    object set, stores the new identity and reports the backend up. *)
Theorem C11_eventual_reload :
  forall (c : cfg) (evs1 evs2 : list event) (f : tickflags),
    c_early c = false ->
    forallb (fun e => negb (is_change e)) evs2 = true ->
    f_fault f = None ->
    let w := run c (evs1 ++ ERestart :: evs2) in
    b_ok (fst w) = true ->
    tick c f (fst w) (snd w) = mkP (Some (b_ver (fst w))) (b_ident (fst w)) Up false true.
Proof. exact thm_eventual_reload. Qed.

(** a fully refreshed table with another number of objects triggers the same reload *)
Theorem C11_count_change_reloads :
  forall (c : cfg) (f : tickflags) (b : backend) (p : peer) (v : N) (t : nat),
    b_ok b = true -> f_fault f = None -> f_minute f = false -> f_full f = true ->
    status p = Up \/ status p = Syncing -> published p = Some v ->
    In t (c_full c) -> c_cnt c v t <> c_cnt c (b_ver b) t ->
    tick c f b p = mkP (Some (b_ver b)) (b_ident b) Up false true.
Proof. exact thm_count_change_reloads. Qed.

(** The pinned code stores the identity as soon as the status table of a rebuild was accepted
    ([c_early = true]). Then eventual_reload is FALSE: initial sync, restart with an object set of
    the same size, a rebuild that fails at its 6th query - and after any number n+1 of fault-free
    cycles the peer is up, without error, with the NEW identity and the OLD object set. *)
Theorem C11_eventual_reload_refuted_with_early_identity :
  forall n : nat,
    let w := run early_cfg (witness (S n)) in
    b_ver (fst w) = 1 /\ b_ok (fst w) = true /\ snd w = mkP (Some 0) 2 Up false true.
Proof. exact thm_early_identity_refuted. Qed.

(** non-vacuity: the same history with the correct order is reloaded by the first cycle *)
Example C11_example :
  (forall n, snd (run late_cfg (witness (S n))) = mkP (Some 1) 2 Up false true) /\
  snd (run late_cfg (witness 0)) = mkP (Some 0) 1 Warning true true /\
  snd (run late_cfg [ETick plain; EChange; ETick (mkTF false false true None)]) = mkP (Some 0) 1 Up false true /\
  let c := mkCfg 1 12 (fun v t => if N.eqb v 0 then 2%nat else 3%nat) [0; 5; 7]%nat [0; 1; 4; 5; 6; 7]%nat 4 6 false in
  snd (run c [ETick plain; EChange; ETick (mkTF false false true None)]) = mkP None 1 Broken true true /\
  snd (run c [ETick plain; EChange; ETick (mkTF true false false (Some 3%nat)); EStale; ESetOk false; ETick plain])
    = mkP None 1 Down true false /\
  snd (run c [ETick plain; EChange; ETick (mkTF false true false None)]) = mkP (Some 1) 1 Up false true /\
  (* nothing cached at all and the scan finds objects: reloaded at once, not broken *)
  let c0 := mkCfg 1 12 (fun v t => if N.eqb v 0 then 0%nat else 3%nat) [0; 5; 7]%nat [0; 1; 4; 5; 6; 7]%nat 4 6 false in
  snd (run c0 [ETick plain; EChange; ETick (mkTF false false true None)]) = mkP (Some 1) 1 Up false true.
Proof. split; [exact thm_late_identity_witness|]. vm_compute. repeat split. Qed.

Print Assumptions C11_publish_atomic.
Print Assumptions C11_cycle_publishes_old_none_or_new.
Print Assumptions C11_old_set_until_rebuild_finished.
Print Assumptions C11_status_row_of_served_set.
Print Assumptions C11_old_status_until_rebuild_finished.
Print Assumptions C11_cycle_keeps_set_and_status_together.
Print Assumptions C11_rebuild_complete.
Print Assumptions C11_failed_rebuild_reported.
Print Assumptions C11_up_means_complete_set.
Print Assumptions C11_eventual_reload.
Print Assumptions C11_count_change_reloads.
Print Assumptions C11_eventual_reload_refuted_with_early_identity.
