(** C11: executable comparison of the model with what the harness observed through lmd after
    every event: GET sites (status, last_error empty?) and the keys of all object tables
    (or "failed"), plus what a concurrent client saw while the event was processed. *)
From LMD Require Export C11.Model.

(** one object set version: per table (in the order timeperiods contacts contactgroups commands
    hosts hostgroups services servicegroups comments downtimes) the keys of its objects;
    hosts are (name, alias), services (host_name, description), the others (name or id, "") *)
Definition dataset := list (list (str * str)).

Definition key3 := (str * str * str)%type.

(** monomorphic constructors for the cases files (cheaper to elaborate than nested pairs) *)
Definition P (a b : str) : str * str := (a, b).
Definition T (a b c : str) : key3 := (a, b, c).

(** the row of GET status: program_start, nagios_pid, program_version *)
Definition srow := (N * N * str)%type.
Definition SR (a b : N) (c : str) : srow := (a, b, c).

Record obs := mkObs {
  o_status : pstatus;
  o_err : bool;
  o_tables : list (option (list (str * str)));   (* None = the backend is listed as failed *)
  o_during : list (option (list key3));          (* answers a concurrent reader got meanwhile:
                                                    services joined with their host's alias *)
  o_srow : option srow;                          (* GET status, None = failed *)
  o_sduring : list (option srow) }.              (* ... as the concurrent reader got it meanwhile *)

Record case := mkCase {
  k_ns : nat; k_nq : nat; k_minute : list nat; k_full : list nat; k_hosts : nat; k_svcs : nat;
  k_dsets : list dataset;
  k_srows : list srow;     (* the status row of the backend process with identity i (index i) *)
  k_events : list event; k_obs : list obs }.

Definition dset (c : case) (v : N) : dataset := nth (N.to_nat v) (k_dsets c) [].

(** always the correct order of side effects ([c_early = false]) *)
Definition cfg_of (c : case) : cfg :=
  mkCfg (k_ns c) (k_nq c) (fun v t => length (nth t (dset c v) [])) (k_minute c) (k_full c)
        (k_hosts c) (k_svcs c) false.

Definition ntables : nat := 10.

Definition pair_eqb (a b : str * str) : bool := str_eqb (fst a) (fst b) && str_eqb (snd a) (snd b).
Definition key3_eqb (a b : key3) : bool :=
  str_eqb (fst (fst a)) (fst (fst b)) && str_eqb (snd (fst a)) (snd (fst b)) && str_eqb (snd a) (snd b).

Definition count_of {A} (eqb : A -> A -> bool) (x : A) (l : list A) : nat := length (filter (eqb x) l).

(** equal as multisets *)
Definition perm_eqb {A} (eqb : A -> A -> bool) (a b : list A) : bool :=
  Nat.eqb (length a) (length b) &&
  forallb (fun x => Nat.eqb (count_of eqb x a) (count_of eqb x b)) a.

Definition opt_eqb {A} (eqb : A -> A -> bool) (a b : option A) : bool :=
  match a, b with
  | None, None => true
  | Some x, Some y => eqb x y
  | _, _ => false
  end.

Fixpoint list_eqb {A} (eqb : A -> A -> bool) (a b : list A) : bool :=
  match a, b with
  | [], [] => true
  | x :: a', y :: b' => eqb x y && list_eqb eqb a' b'
  | _, _ => false
  end.

Fixpoint pad {A} (n : nat) (l : list A) (d : A) : list A :=
  match n with
  | O => []
  | S n' => match l with [] => d :: pad n' [] d | x :: r => x :: pad n' r d end
  end.

Definition tables_of (c : case) (pub : option N) : list (option (list (str * str))) :=
  match pub with
  | None => repeat None ntables
  | Some v => map Some (pad ntables (dset c v) [])
  end.

Fixpoint alias_of (h : str) (hosts : list (str * str)) : str :=
  match hosts with
  | [] => []
  | (n, a) :: r => if str_eqb h n then a else alias_of h r
  end.

(** GET services, Columns: host_name description host_alias *)
Definition join_of (c : case) (pub : option N) : option (list key3) :=
  match pub with
  | None => None
  | Some v =>
      let hosts := nth (k_hosts c) (dset c v) [] in
      Some (map (fun k => (fst k, snd k, alias_of (fst k) hosts)) (nth (k_svcs c) (dset c v) []))
  end.

Definition srow_eqb (a b : srow) : bool :=
  N.eqb (fst (fst a)) (fst (fst b)) && N.eqb (snd (fst a)) (snd (fst b)) && str_eqb (snd a) (snd b).

(** the status row served by a peer: the one of the process whose identity it stored with the set *)
Definition srow_of (c : case) (p : peer) : option srow :=
  match served_ident p with
  | None => None
  | Some i => Some (nth (N.to_nat i) (k_srows c) (0%N, 0%N, []))
  end.

Definition sduring_ok (c : case) (before after : peer) (seen : list (option srow)) : bool :=
  forallb (fun a => opt_eqb srow_eqb a (srow_of c before) || opt_eqb srow_eqb a (srow_of c after)) seen.

(** a concurrent reader sees the complete set published before or after the event *)
Definition during_ok (c : case) (before after : option N) (seen : list (option (list key3))) : bool :=
  forallb (fun a => opt_eqb (perm_eqb key3_eqb) a (join_of c before) ||
                    opt_eqb (perm_eqb key3_eqb) a (join_of c after)) seen.

Definition obs_ok (c : case) (before : peer) (after : peer) (o : obs) : bool :=
  pstatus_eqb (o_status o) (status after) && Bool.eqb (o_err o) (err after) &&
  list_eqb (opt_eqb (perm_eqb pair_eqb)) (o_tables o) (tables_of c (published after)) &&
  during_ok c (published before) (published after) (o_during o) &&
  opt_eqb srow_eqb (o_srow o) (srow_of c after) &&
  sduring_ok c before after (o_sduring o).

(** index of the first event whose observation differs (or the length if all agree) *)
Fixpoint first_bad (c : case) (i : nat) (w : world) (evs : list event) (os : list obs) : option nat :=
  match evs, os with
  | [], [] => None
  | e :: evs', o :: os' =>
      let w' := step (cfg_of c) w e in
      if obs_ok c (snd w) (snd w') o then first_bad c (S i) w' evs' os' else Some i
  | _, _ => Some i
  end.

Definition check (c : case) : option nat := first_bad c 0 world0 (k_events c) (k_obs c).

(** what the model expects after every event: status, last_error set?, published version *)
Fixpoint expected_from (c : case) (w : world) (evs : list event) : list (pstatus * bool * option N) :=
  match evs with
  | [] => []
  | e :: r => let w' := step (cfg_of c) w e in
              (status (snd w'), err (snd w'), published (snd w')) :: expected_from c w' r
  end.
Definition expected (c : case) := expected_from c world0 (k_events c).

(** (case index, index of the first event whose observation differs) *)
Fixpoint mismatches_from (i : nat) (cs : list case) : list (nat * nat) :=
  match cs with
  | [] => []
  | c :: rest =>
      (match check c with None => [] | Some j => [(i, j)] end) ++ mismatches_from (S i) rest
  end.

Definition mismatches := mismatches_from 0.
