(** C12: comments and downtimes follow additions and removals.

    One model serves both tables (comments, downtimes); they only differ in the
    number [k] of numeric columns that go into [*_with_info].

    Transcribes, of pkg/lmd:
      datastoreset.go  maxIDOrSizeChanged (692), updateDeltaCommentsOrDowntimes (599),
                       buildDowntimeCommentsList (889), CreateObjectByType (101: sorted by id)
      datastore.go     AppendData/AddItem (129,178), RemoveItem (205)
      datarow.go       VirtualColCommentsWithInfo / VirtualColDowntimesWithInfo (612, 651)

    The backend table is a list of entries whose order is the order of its
    replies; [Reorder] changes it arbitrarily between two operations. *)
From LMD Require Export Base.Str.

(** one comment / downtime with all stored columns: [e_nums] are the numeric
    columns in a fixed order (comments: entry_time entry_type expires
    expire_time is_service persistent source type; downtimes: entry_time
    start_time end_time fixed duration triggered_by is_service type) *)
Record entry := mkE {
  e_id : N; e_host : str; e_svc : str; e_author : str; e_comment : str; e_nums : list N }.

Definition ids (l : list entry) : list N := map e_id l.
Definition mem_id (i : N) (l : list N) : bool := existsb (N.eqb i) l.

(** ** the backend *)

Definition move_front (i : N) (b : list entry) : list entry :=
  filter (fun e => N.eqb (e_id e) i) b ++ filter (fun e => negb (N.eqb (e_id e) i)) b.

Definition reorder (order : list N) (b : list entry) : list entry :=
  fold_left (fun b i => move_front i b) order b.

Definition remove_id (i : N) (b : list entry) : list entry :=
  filter (fun e => negb (N.eqb (e_id e) i)) b.

(** [Stats: max id] *)
Definition max_id (b : list entry) : N := fold_right (fun e m => N.max (e_id e) m) 0%N b.

(** ** the cache *)

(** the monitored objects of the backend (fixed during a history) *)
Record objs := mkObjs { o_hosts : list str; o_svcs : list (str * str) }.

Record st := mkSt {
  cache : list entry;                    (* DataStore.data of the table, in cache order *)
  hl : list (str * list N);              (* hosts: the comments / downtimes column *)
  sl : list (str * str * list N) }.      (* services: the comments / downtimes column *)

Definition last_id (c : list entry) : N :=
  match rev c with [] => 0%N | e :: _ => e_id e end.

(** maxIDOrSizeChanged: "did not change" iff the number of entries is the
    backend's count and (no entries or the backend's max id is the id of the
    LAST cached row) *)
Definition unchanged (c b : list entry) : bool :=
  Nat.eqb (length c) (length b) &&
  match c with [] => true | _ => N.eqb (max_id b) (last_id c) end.

Definition svc_key_eqb (a b : str * str) : bool := str_eqb (fst a) (fst b) && str_eqb (snd a) (snd b).

Fixpoint app_host (h : str) (i : N) (l : list (str * list N)) : list (str * list N) :=
  match l with
  | [] => []
  | (h', v) :: r => if str_eqb h h' then (h', v ++ [i]) :: r else (h', v) :: app_host h i r
  end.

Fixpoint app_svc (k : str * str) (i : N) (l : list (str * str * list N)) : list (str * str * list N) :=
  match l with
  | [] => []
  | (h', d', v) :: r => if svc_key_eqb k (h', d') then (h', d', v ++ [i]) :: r else (h', d', v) :: app_svc k i r
  end.

Definition nonempty (x : str) : bool := match x with [] => false | _ => true end.

(** buildDowntimeCommentsList: rows in table order; a row with a service
    description goes to that service (if it exists), otherwise to its host (if it
    exists); every object without row gets the empty list *)
Definition build_h (o : objs) (c : list entry) : list (str * list N) :=
  fold_left (fun acc e => if nonempty (e_svc e) then acc else app_host (e_host e) (e_id e) acc)
            c (map (fun h => (h, [])) (o_hosts o)).

Definition build_s (o : objs) (c : list entry) : list (str * str * list N) :=
  fold_left (fun acc e => if nonempty (e_svc e) then app_svc (e_host e, e_svc e) (e_id e) acc else acc)
            c (map (fun k => (fst k, snd k, [])) (o_svcs o)).

Definition rebuilt (o : objs) (c : list entry) : st := mkSt c (build_h o c) (build_s o c).

(** updateDeltaCommentsOrDowntimes against the backend table [b] *)
Definition update (o : objs) (b : list entry) (s : st) : st :=
  let c := cache s in
  if unchanged c b then s else
  let reply := ids b in                                               (* GET ... Columns: id *)
  let missing := filter (fun i => negb (mem_id i (ids c))) reply in   (* ids without index entry *)
  let c1 := filter (fun e => mem_id (e_id e) reply) c in              (* RemoveItem of all others *)
  let c2 := match missing with
            | [] => c1
            | _ => c1 ++ filter (fun e => mem_id (e_id e) missing) b  (* Filter: id = ... Or: n; AppendData in reply order *)
            end in
  rebuilt o c2.

(** initial synchronisation (InitAllTables): rows sorted by id *)
Fixpoint insert_by_id (e : entry) (l : list entry) : list entry :=
  match l with
  | [] => [e]
  | x :: r => if N.leb (e_id e) (e_id x) then e :: l else x :: insert_by_id e r
  end.
Definition sort_by_id (l : list entry) : list entry := fold_right insert_by_id [] l.

Definition reload (o : objs) (b : list entry) : st := rebuilt o (sort_by_id b).

(** ** what clients see *)

Definition find_id (i : N) (c : list entry) : option entry := find (fun e => N.eqb (e_id e) i) c.

Definition info := (N * str * str * list N)%type.
Definition info_row (k : nat) (e : entry) : info := (e_id e, e_author e, e_comment e, firstn k (e_nums e)).

(** VirtualCol*WithInfo: one row per id of the object's list that the table's index knows *)
Definition with_info (k : nat) (c : list entry) (l : list N) : list info :=
  flat_map (fun i => match find_id i c with Some e => [info_row k e] | None => [] end) l.

Fixpoint get_h (h : str) (l : list (str * list N)) : option (list N) :=
  match l with
  | [] => None
  | (h', v) :: r => if str_eqb h h' then Some v else get_h h r
  end.

Fixpoint get_s (k : str * str) (l : list (str * str * list N)) : option (list N) :=
  match l with
  | [] => None
  | (h', d', v) :: r => if svc_key_eqb k (h', d') then Some v else get_s k r
  end.

Definition att_h (h : str) (e : entry) : bool := negb (nonempty (e_svc e)) && str_eqb (e_host e) h.
Definition att_s (k : str * str) (e : entry) : bool :=
  nonempty (e_svc e) && svc_key_eqb (e_host e, e_svc e) k.

(** ** histories *)

Inductive op :=
| Add (e : entry)            (* the core creates an entry; its id is fresh: above every id used before *)
| Remove (i : N)             (* ... deletes one (any existing one, also the newest, also the last one left) *)
| Reorder (order : list N)   (* the reply order of the backend changes *)
| Run                        (* one update run of lmd *)
| Reload.                    (* lmd re-creates all objects *)

Record world := mkW { backend : list entry; peer : st; next : N }.

Definition step (o : objs) (w : world) (x : op) : world :=
  match x with
  | Add e => if N.leb (next w) (e_id e)
             then mkW (backend w ++ [e]) (peer w) (e_id e + 1)%N
             else w
  | Remove i => mkW (remove_id i (backend w)) (peer w) (next w)
  | Reorder order => mkW (reorder order (backend w)) (peer w) (next w)
  | Run => mkW (backend w) (update o (backend w) (peer w)) (next w)
  | Reload => mkW (backend w) (reload o (backend w)) (next w)
  end.

Definition world0 (o : objs) : world := mkW [] (rebuilt o []) 1%N.

Definition run (o : objs) (ops : list op) : world := fold_left (step o) ops (world0 o).
