(** C12: proofs about the model of the comments / downtimes update. *)
From LMD Require Import Base.Str C12.Model.
From Coq Require Import Permutation.
Local Open Scope N_scope.

(** ** generic list facts *)

Lemma mem_id_In i l : mem_id i l = true <-> In i l.
Proof.
  unfold mem_id; rewrite existsb_exists; split.
  - intros [y [Hy He]]; apply N.eqb_eq in He; subst; assumption.
  - intros H; exists i; split; [assumption|apply N.eqb_refl].
Qed.

Lemma mem_id_nIn i l : mem_id i l = false <-> ~ In i l.
Proof.
  rewrite <- mem_id_In. destruct (mem_id i l); split; intros H; congruence.
Qed.

Lemma in_ids e l : In e l -> In (e_id e) (ids l).
Proof. intros H; unfold ids; apply in_map; assumption. Qed.

Lemma ids_in i l : In i (ids l) -> exists e, In e l /\ e_id e = i.
Proof.
  unfold ids; intros H; apply in_map_iff in H; destruct H as [e [He Hi]]; exists e; split; assumption.
Qed.

Lemma nodup_ids_inj l x y : NoDup (ids l) -> In x l -> In y l -> e_id x = e_id y -> x = y.
Proof.
  induction l as [|a l IH]; cbn [ids map]; intros Hnd Hx Hy Heq; [destruct Hx|].
  inversion Hnd as [|? ? Hnin Hnd']; subst.
  destruct Hx as [->|Hx], Hy as [->|Hy].
  - reflexivity.
  - exfalso; apply Hnin; rewrite Heq; apply in_ids; assumption.
  - exfalso; apply Hnin; rewrite <- Heq; apply in_ids; assumption.
  - apply IH; assumption.
Qed.

Lemma nodup_ids_filter p l : NoDup (ids l) -> NoDup (ids (filter p l)).
Proof.
  induction l as [|a l IH]; cbn [ids map filter]; intros Hnd; [constructor|].
  inversion Hnd as [|? ? Hnin Hnd']; subst.
  destruct (p a); cbn [map].
  - constructor; [|apply IH; assumption].
    intros Hin; apply Hnin. apply ids_in in Hin; destruct Hin as [e [He Hi]].
    apply filter_In in He; destruct He as [He _]. rewrite <- Hi; apply in_ids; assumption.
  - apply IH; assumption.
Qed.

Lemma nodup_app {A} (l1 l2 : list A) :
  NoDup l1 -> NoDup l2 -> (forall x, In x l1 -> ~ In x l2) -> NoDup (l1 ++ l2).
Proof.
  induction l1 as [|a l1 IH]; cbn [app]; intros H1 H2 Hd; [assumption|].
  inversion H1 as [|? ? Hnin H1']; subst.
  constructor.
  - intros Hin; apply in_app_or in Hin; destruct Hin as [Hin|Hin]; [contradiction|].
    apply (Hd a); [left; reflexivity|assumption].
  - apply IH; [assumption|assumption|]. intros x Hx; apply Hd; right; assumption.
Qed.

Lemma perm_partition {A} (p : A -> bool) l :
  Permutation (filter p l ++ filter (fun x => negb (p x)) l) l.
Proof.
  induction l as [|a l IH]; cbn [filter app]; [constructor|].
  destruct (p a); cbn [negb app].
  - constructor; assumption.
  - apply Permutation_sym, Permutation_cons_app, Permutation_sym; assumption.
Qed.

Lemma perm_filter {A} (p : A -> bool) l l' : Permutation l l' -> Permutation (filter p l) (filter p l').
Proof.
  induction 1 as [|x l l' H IH|x y l|l l' l'' H1 IH1 H2 IH2]; cbn [filter].
  - constructor.
  - destruct (p x); [constructor|]; assumption.
  - destruct (p x), (p y); try apply Permutation_refl. apply perm_swap.
  - eapply Permutation_trans; eassumption.
Qed.

(** ** the backend operations are permutations / restrictions *)

Lemma move_front_perm i b : Permutation (move_front i b) b.
Proof. unfold move_front. apply (perm_partition (fun e => N.eqb (e_id e) i)). Qed.

Lemma reorder_perm order b : Permutation (reorder order b) b.
Proof.
  unfold reorder; revert b; induction order as [|i r IH]; intros b; cbn [fold_left].
  - apply Permutation_refl.
  - eapply Permutation_trans; [apply IH|apply move_front_perm].
Qed.

Lemma insert_perm e l : Permutation (insert_by_id e l) (e :: l).
Proof.
  induction l as [|x r IH]; cbn [insert_by_id]; [apply Permutation_refl|].
  destruct (N.leb (e_id e) (e_id x)); [apply Permutation_refl|].
  eapply Permutation_trans; [apply perm_skip, IH|apply perm_swap].
Qed.

Lemma sort_perm l : Permutation (sort_by_id l) l.
Proof.
  induction l as [|x r IH]; cbn [sort_by_id fold_right]; [constructor|].
  eapply Permutation_trans; [apply insert_perm|]. constructor; exact IH.
Qed.

Lemma max_id_ge b i : In i (ids b) -> i <= max_id b.
Proof.
  induction b as [|e b IH]; cbn [ids map max_id fold_right]; intros H; [destruct H|].
  destruct H as [<-|H].
  - apply N.le_max_l.
  - etransitivity; [apply IH; exact H|apply N.le_max_r].
Qed.

Lemma last_id_in c : c <> [] -> In (last_id c) (ids c).
Proof.
  intros Hne. unfold last_id. destruct (rev c) as [|e r] eqn:Hr.
  - exfalso; apply Hne. rewrite <- (rev_involutive c), Hr; reflexivity.
  - apply in_ids. apply in_rev. rewrite Hr; left; reflexivity.
Qed.

(** ** the invariant of all reachable worlds *)

Record inv (o : objs) (w : world) : Prop := mkInv {
  i_nd_b : NoDup (ids (backend w));
  i_nd_c : NoDup (ids (cache (peer w)));
  i_lt_b : forall i, In i (ids (backend w)) -> i < next w;
  i_lt_c : forall i, In i (ids (cache (peer w))) -> i < next w;
  (* an entry never changes: a cached entry whose id still exists is the backend's entry *)
  i_same : forall e, In e (cache (peer w)) -> In (e_id e) (ids (backend w)) -> In e (backend w);
  (* ids are handed out in increasing order: what the cache has not seen is newer than all it has *)
  i_new : forall i, In i (ids (backend w)) -> ~ In i (ids (cache (peer w))) ->
                    forall j, In j (ids (cache (peer w))) -> j < i;
  i_hl : hl (peer w) = build_h o (cache (peer w));
  i_sl : sl (peer w) = build_s o (cache (peer w)) }.

Lemma inv_perm_backend o b b' p n :
  Permutation b' b -> inv o (mkW b p n) -> inv o (mkW b' p n).
Proof.
  intros Hp [H1 H2 H3 H4 H5 H6 H7 H8]; cbn [backend peer next] in *.
  assert (Hpi : Permutation (ids b') (ids b)) by (unfold ids; apply Permutation_map; exact Hp).
  constructor; cbn [backend peer next].
  - eapply Permutation_NoDup; [apply Permutation_sym; exact Hpi|exact H1].
  - exact H2.
  - intros i Hi; apply H3. eapply Permutation_in; eassumption.
  - exact H4.
  - intros e He Hi. eapply Permutation_in; [apply Permutation_sym; exact Hp|].
    apply H5; [exact He|]. eapply Permutation_in; eassumption.
  - intros i Hi Hn; apply H6; [|exact Hn]. eapply Permutation_in; eassumption.
  - exact H7.
  - exact H8.
Qed.

(** the cache after an update run *)
Definition fetched (c b : list entry) : list entry :=
  filter (fun e => mem_id (e_id e) (filter (fun i => negb (mem_id i (ids c))) (ids b))) b.
Definition kept (c b : list entry) : list entry := filter (fun e => mem_id (e_id e) (ids b)) c.

Lemma update_cache o b s :
  cache (update o b s) = if unchanged (cache s) b then cache s else kept (cache s) b ++ fetched (cache s) b.
Proof.
  unfold update. destruct (unchanged (cache s) b); [reflexivity|].
  fold (kept (cache s) b). unfold fetched.
  destruct (filter (fun i => negb (mem_id i (ids (cache s)))) (ids b)) as [|m ms] eqn:Hm; cbn [rebuilt cache].
  - assert (Hnil : filter (fun e : entry => mem_id (e_id e) []) b = []).
    { clear. induction b as [|e b IH]; cbn [filter mem_id existsb]; [reflexivity|exact IH]. }
    rewrite Hnil, app_nil_r; reflexivity.
  - reflexivity.
Qed.

Lemma update_lists o b s :
  hl s = build_h o (cache s) -> sl s = build_s o (cache s) ->
  hl (update o b s) = build_h o (cache (update o b s)) /\ sl (update o b s) = build_s o (cache (update o b s)).
Proof.
  intros Hh Hs. unfold update. destruct (unchanged (cache s) b); [split; assumption|].
  cbn [rebuilt hl sl cache]. split; reflexivity.
Qed.

Lemma in_fetched c b e : In e (fetched c b) <-> In e b /\ ~ In (e_id e) (ids c).
Proof.
  unfold fetched; rewrite filter_In, mem_id_In, filter_In, negb_true_iff, mem_id_nIn.
  split.
  - intros [He [_ Hn]]; split; assumption.
  - intros [He Hn]; split; [assumption|split; [apply in_ids; assumption|assumption]].
Qed.

Lemma in_kept c b e : In e (kept c b) <-> In e c /\ In (e_id e) (ids b).
Proof. unfold kept; rewrite filter_In, mem_id_In; reflexivity. Qed.

(** change detection is complete: "did not change" implies the id sets coincide *)
Lemma unchanged_ids o w :
  inv o w -> unchanged (cache (peer w)) (backend w) = true ->
  forall i, In i (ids (cache (peer w))) <-> In i (ids (backend w)).
Proof.
  intros [H1 H2 H3 H4 H5 H6 _ _] Hu.
  set (c := cache (peer w)) in *; set (b := backend w) in *.
  unfold unchanged in Hu. apply andb_true_iff in Hu; destruct Hu as [Hlen Hmax].
  apply Nat.eqb_eq in Hlen.
  assert (Hincl : incl (ids b) (ids c)).
  { destruct c as [|e0 c'] eqn:Hc.
    - destruct b; [intros x Hx; exact Hx|discriminate Hlen].
    - rewrite <- Hc in *. apply N.eqb_eq in Hmax.
      assert (HL : In (last_id c) (ids c)) by (apply last_id_in; rewrite Hc; discriminate).
      intros i Hi.
      destruct (in_dec N.eq_dec i (ids c)) as [Hin|Hnin]; [exact Hin|exfalso].
      pose proof (H6 i Hi Hnin _ HL) as Hlt.
      pose proof (max_id_ge b i Hi) as Hle.
      rewrite Hmax in Hle. apply N.lt_nge in Hlt; contradiction. }
  intros i; split; [|apply Hincl].
  apply (NoDup_length_incl H1); [|exact Hincl].
  unfold ids; rewrite !map_length; rewrite Hlen; apply Nat.le_refl.
Qed.

(** after an update run: cache and backend hold the same entries *)
Lemma update_sync o w :
  inv o w ->
  forall e, In e (cache (update o (backend w) (peer w))) <-> In e (backend w).
Proof.
  intros Hinv e. pose proof Hinv as [H1 H2 H3 H4 H5 H6 _ _].
  rewrite update_cache.
  destruct (unchanged (cache (peer w)) (backend w)) eqn:Hu.
  - pose proof (unchanged_ids o w Hinv Hu) as Hids. split.
    + intros He; apply H5; [exact He|]. apply Hids, in_ids; exact He.
    + intros He. pose proof (in_ids _ _ He) as Hi. apply Hids in Hi.
      apply ids_in in Hi; destruct Hi as [e' [He' Hid]].
      assert (Hb : In e' (backend w)) by (apply H5; [exact He'|rewrite Hid; apply in_ids; exact He]).
      rewrite <- (nodup_ids_inj _ _ _ H1 Hb He Hid); exact He'.
  - rewrite in_app_iff, in_kept, in_fetched. split.
    + intros [[Hc Hi]|[Hb _]]; [apply H5; assumption|exact Hb].
    + intros Hb. destruct (in_dec N.eq_dec (e_id e) (ids (cache (peer w)))) as [Hin|Hnin].
      * left. apply ids_in in Hin; destruct Hin as [e' [He' Hid]].
        assert (Hb' : In e' (backend w)) by (apply H5; [exact He'|rewrite Hid; apply in_ids; exact Hb]).
        rewrite <- (nodup_ids_inj _ _ _ H1 Hb' Hb Hid). split; [exact He'|rewrite Hid; apply in_ids; exact Hb].
      * right; split; assumption.
Qed.

Lemma update_nodup o w : inv o w -> NoDup (ids (cache (update o (backend w) (peer w)))).
Proof.
  intros [H1 H2 _ _ _ _ _ _]. rewrite update_cache.
  destruct (unchanged (cache (peer w)) (backend w)); [exact H2|].
  unfold ids; rewrite map_app. apply nodup_app.
  - apply (nodup_ids_filter _ _ H2).
  - apply (nodup_ids_filter _ _ H1).
  - intros i Hk Hf. apply ids_in in Hk; destruct Hk as [e [He Hi]].
    apply ids_in in Hf; destruct Hf as [e' [He' Hi']].
    apply in_kept in He; destruct He as [He _].
    apply in_fetched in He'; destruct He' as [_ Hn].
    apply Hn. rewrite Hi', <- Hi. apply in_ids; exact He.
Qed.

Lemma inv_update o w : inv o w -> inv o (mkW (backend w) (update o (backend w) (peer w)) (next w)).
Proof.
  intros Hinv. pose proof Hinv as [H1 H2 H3 H4 H5 H6 H7 H8].
  pose proof (update_sync o w Hinv) as Hs.
  pose proof (update_lists o (backend w) (peer w) H7 H8) as [Hl1 Hl2].
  constructor; cbn [backend peer next].
  - exact H1.
  - apply update_nodup; exact Hinv.
  - exact H3.
  - intros i Hi. apply ids_in in Hi; destruct Hi as [e [He <-]]. apply H3, in_ids, Hs; exact He.
  - intros e He _. apply Hs; exact He.
  - intros i Hi Hn. exfalso; apply Hn. apply ids_in in Hi; destruct Hi as [e [He <-]].
    apply in_ids, Hs; exact He.
  - exact Hl1.
  - exact Hl2.
Qed.

Lemma inv_reload o w : inv o w -> inv o (mkW (backend w) (reload o (backend w)) (next w)).
Proof.
  intros [H1 H2 H3 H4 H5 H6 H7 H8].
  pose proof (sort_perm (backend w)) as Hp.
  assert (Hpi : Permutation (ids (sort_by_id (backend w))) (ids (backend w)))
    by (unfold ids; apply Permutation_map; exact Hp).
  constructor; cbn [backend peer next reload rebuilt cache hl sl]; try reflexivity.
  - exact H1.
  - eapply Permutation_NoDup; [apply Permutation_sym; exact Hpi|exact H1].
  - exact H3.
  - intros i Hi; apply H3. eapply Permutation_in; eassumption.
  - intros e He _. eapply Permutation_in; eassumption.
  - intros i Hi Hn. exfalso; apply Hn. eapply Permutation_in; [apply Permutation_sym; exact Hpi|exact Hi].
Qed.

Lemma in_remove_id i b e : In e (remove_id i b) <-> In e b /\ e_id e <> i.
Proof. unfold remove_id; rewrite filter_In, negb_true_iff, N.eqb_neq; reflexivity. Qed.

Lemma inv_step o w x : inv o w -> inv o (step o w x).
Proof.
  intros Hinv. destruct x as [e|i|order| |]; cbn [step].
  - destruct (N.leb (next w) (e_id e)) eqn:Hfresh; [|exact Hinv].
    apply N.leb_le in Hfresh. destruct Hinv as [H1 H2 H3 H4 H5 H6 H7 H8].
    constructor; cbn [backend peer next]; try assumption.
    + unfold ids; rewrite map_app. apply nodup_app; [exact H1|repeat constructor; intros []|].
      intros x Hx [<-|[]]. apply H3 in Hx. lia.
    + intros i Hi. unfold ids in Hi; rewrite map_app in Hi; apply in_app_or in Hi.
      destruct Hi as [Hi|[<-|[]]]; [apply H3 in Hi|]; lia.
    + intros i Hi. apply H4 in Hi. lia.
    + intros e' He' Hi. apply in_or_app; left. apply H5; [exact He'|].
      unfold ids in Hi; rewrite map_app in Hi; apply in_app_or in Hi. destruct Hi as [Hi|[Hi|[]]]; [exact Hi|exfalso].
      pose proof (H4 _ (in_ids _ _ He')) as Hlt. rewrite <- Hi in Hlt. lia.
    + intros i Hi Hn j Hj. unfold ids in Hi; rewrite map_app in Hi; apply in_app_or in Hi.
      destruct Hi as [Hi|[<-|[]]]; [apply (H6 i Hi Hn j Hj)|].
      apply H4 in Hj. lia.
  - destruct Hinv as [H1 H2 H3 H4 H5 H6 H7 H8].
    constructor; cbn [backend peer next]; try assumption.
    + apply nodup_ids_filter; exact H1.
    + intros j Hj. apply ids_in in Hj; destruct Hj as [e [He <-]]. apply in_remove_id in He.
      apply H3, in_ids, He.
    + intros e He Hi. apply ids_in in Hi; destruct Hi as [e' [He' Hid]].
      apply in_remove_id in He'; destruct He' as [He' Hne].
      apply in_remove_id. split; [|rewrite <- Hid; exact Hne].
      apply H5; [exact He|]. rewrite <- Hid; apply in_ids; exact He'.
    + intros j Hj Hn. apply H6; [|exact Hn].
      apply ids_in in Hj; destruct Hj as [e [He <-]]. apply in_remove_id in He. apply in_ids, He.
  - apply (inv_perm_backend o (backend w)); [apply reorder_perm|]. destruct w; exact Hinv.
  - apply inv_update; exact Hinv.
  - apply inv_reload; exact Hinv.
Qed.

Lemma inv_world0 o : inv o (world0 o).
Proof.
  constructor; cbn [world0 backend peer next rebuilt cache hl sl ids map]; try reflexivity;
    try constructor; try (intros ? []); try (intros ? ? []).
Qed.

Lemma inv_run o ops : inv o (run o ops).
Proof.
  unfold run. generalize (inv_world0 o). generalize (world0 o).
  induction ops as [|x r IH]; intros w Hw; cbn [fold_left]; [exact Hw|].
  apply IH, inv_step; exact Hw.
Qed.

Lemma run_snoc o ops x : run o (ops ++ [x]) = step o (run o ops) x.
Proof. unfold run; rewrite fold_left_app; reflexivity. Qed.

(** ** the theorems *)

Lemma thm_sync o ops :
  let w := run o (ops ++ [Run]) in
  Permutation (cache (peer w)) (backend w) /\ NoDup (ids (cache (peer w))).
Proof.
  cbn zeta. rewrite run_snoc. cbn [step backend peer].
  pose proof (inv_run o ops) as Hinv.
  pose proof (update_sync o _ Hinv) as Hs. pose proof (update_nodup o _ Hinv) as Hnd.
  split; [|exact Hnd].
  apply NoDup_Permutation.
  - unfold ids in Hnd; apply NoDup_map_inv in Hnd; exact Hnd.
  - destruct Hinv as [H1 _ _ _ _ _ _ _]. unfold ids in H1; apply NoDup_map_inv in H1; exact H1.
  - exact Hs.
Qed.

Lemma thm_change_detected o ops :
  let w := run o ops in
  ~ (forall i, In i (ids (cache (peer w))) <-> In i (ids (backend w))) ->
  unchanged (cache (peer w)) (backend w) = false.
Proof.
  cbn zeta; intros Hne. destruct (unchanged _ _) eqn:Hu; [|reflexivity].
  exfalso; apply Hne. apply (unchanged_ids o); [apply inv_run|exact Hu].
Qed.

(** an unnoticed state is a synchronised state (all columns) *)
Lemma thm_unchanged_synced o ops :
  let w := run o ops in
  unchanged (cache (peer w)) (backend w) = true -> Permutation (cache (peer w)) (backend w).
Proof.
  cbn zeta; intros Hu. pose proof (inv_run o ops) as Hinv.
  pose proof (update_sync o _ Hinv) as Hs. rewrite update_cache, Hu in Hs.
  destruct Hinv as [H1 H2 _ _ _ _ _ _].
  apply NoDup_Permutation; [| |exact Hs].
  - unfold ids in H2; apply NoDup_map_inv in H2; exact H2.
  - unfold ids in H1; apply NoDup_map_inv in H1; exact H1.
Qed.

(** *** the per object lists *)

Lemma get_app_host h h' i l :
  get_h h (app_host h' i l) = if str_eqb h' h then option_map (fun v => v ++ [i]) (get_h h l) else get_h h l.
Proof.
  induction l as [|[h'' v] r IH]; cbn [app_host get_h].
  - destruct (str_eqb h' h); reflexivity.
  - destruct (str_eqb_spec h' h'') as [E1|N1]; cbn [get_h].
    + subst h''. destruct (str_eqb_spec h h') as [E2|N2].
      * subst h'. rewrite str_eqb_refl; reflexivity.
      * destruct (str_eqb_spec h' h) as [E3|N3]; [subst; contradiction N2; reflexivity|reflexivity].
    + destruct (str_eqb_spec h h'') as [E2|N2].
      * subst h''. destruct (str_eqb_spec h' h) as [E3|N3]; [contradiction|reflexivity].
      * exact IH.
Qed.

Lemma get_h_init h hs : get_h h (map (fun x => (x, [])) hs) = if mem_str h hs then Some [] else None.
Proof.
  induction hs as [|x r IH]; cbn [map get_h mem_str existsb]; [reflexivity|].
  destruct (str_eqb h x); cbn [orb]; [reflexivity|exact IH].
Qed.

Lemma build_h_fold h c acc :
  get_h h (fold_left (fun acc e => if nonempty (e_svc e) then acc else app_host (e_host e) (e_id e) acc) c acc)
  = option_map (fun v => v ++ ids (filter (att_h h) c)) (get_h h acc).
Proof.
  revert acc; induction c as [|e c IH]; intros acc; cbn [fold_left filter ids map].
  - destruct (get_h h acc); cbn [option_map]; [rewrite app_nil_r|]; reflexivity.
  - rewrite IH. unfold att_h at 2. destruct (nonempty (e_svc e)); cbn [negb andb].
    + reflexivity.
    + rewrite get_app_host. destruct (str_eqb (e_host e) h); [|reflexivity].
      destruct (get_h h acc); cbn [option_map ids map]; [rewrite <- app_assoc|]; reflexivity.
Qed.

Lemma get_build_h o c h :
  get_h h (build_h o c) = if mem_str h (o_hosts o) then Some (ids (filter (att_h h) c)) else None.
Proof.
  unfold build_h. rewrite build_h_fold, get_h_init.
  destruct (mem_str h (o_hosts o)); reflexivity.
Qed.

Lemma svc_key_eqb_spec a b : reflect (a = b) (svc_key_eqb a b).
Proof.
  destruct a as [a1 a2], b as [b1 b2]; unfold svc_key_eqb; cbn [fst snd].
  destruct (str_eqb_spec a1 b1) as [->|N1]; cbn [andb].
  - destruct (str_eqb_spec a2 b2) as [->|N2]; constructor; congruence.
  - constructor; congruence.
Qed.

Lemma get_app_svc k k' i l :
  get_s k (app_svc k' i l) = if svc_key_eqb k' k then option_map (fun v => v ++ [i]) (get_s k l) else get_s k l.
Proof.
  induction l as [|[[h'' d''] v] r IH]; cbn [app_svc get_s].
  - destruct (svc_key_eqb k' k); reflexivity.
  - destruct (svc_key_eqb_spec k' (h'', d'')) as [E1|N1]; cbn [get_s].
    + subst k'. destruct (svc_key_eqb_spec k (h'', d'')) as [E2|N2].
      * subst k. destruct (svc_key_eqb_spec (h'', d'') (h'', d'')) as [_|N]; [reflexivity|contradiction N; reflexivity].
      * destruct (svc_key_eqb_spec (h'', d'') k) as [E3|N3]; [subst; contradiction N2; reflexivity|reflexivity].
    + destruct (svc_key_eqb_spec k (h'', d'')) as [E2|N2].
      * subst k. destruct (svc_key_eqb_spec k' (h'', d'')) as [E3|N3]; [contradiction|reflexivity].
      * exact IH.
Qed.

Definition mem_svc (k : str * str) (l : list (str * str)) : bool := existsb (svc_key_eqb k) l.

Lemma get_s_init k ks : get_s k (map (fun x => (fst x, snd x, [])) ks) = if mem_svc k ks then Some [] else None.
Proof.
  induction ks as [|[x1 x2] r IH]; cbn [map get_s mem_svc existsb fst snd]; [reflexivity|].
  destruct (svc_key_eqb k (x1, x2)); cbn [orb]; [reflexivity|exact IH].
Qed.

Lemma build_s_fold k c acc :
  get_s k (fold_left (fun acc e => if nonempty (e_svc e) then app_svc (e_host e, e_svc e) (e_id e) acc else acc) c acc)
  = option_map (fun v => v ++ ids (filter (att_s k) c)) (get_s k acc).
Proof.
  revert acc; induction c as [|e c IH]; intros acc; cbn [fold_left filter ids map].
  - destruct (get_s k acc); cbn [option_map]; [rewrite app_nil_r|]; reflexivity.
  - rewrite IH. unfold att_s at 2. destruct (nonempty (e_svc e)); cbn [andb].
    + rewrite get_app_svc. destruct (svc_key_eqb (e_host e, e_svc e) k); [|reflexivity].
      destruct (get_s k acc); cbn [option_map ids map]; [rewrite <- app_assoc|]; reflexivity.
    + reflexivity.
Qed.

Lemma get_build_s o c k :
  get_s k (build_s o c) = if mem_svc k (o_svcs o) then Some (ids (filter (att_s k) c)) else None.
Proof.
  unfold build_s. rewrite build_s_fold, get_s_init.
  destruct (mem_svc k (o_svcs o)); reflexivity.
Qed.

Lemma find_id_in c e : NoDup (ids c) -> In e c -> find_id (e_id e) c = Some e.
Proof.
  induction c as [|a c IH]; cbn [ids map]; intros Hnd Hin; [destruct Hin|].
  unfold find_id; cbn [find]. inversion Hnd as [|? ? Hnin Hnd']; subst.
  destruct Hin as [->|Hin]; [rewrite N.eqb_refl; reflexivity|].
  destruct (N.eqb_spec (e_id a) (e_id e)) as [E|_].
  - exfalso; apply Hnin; rewrite E; apply in_ids; exact Hin.
  - apply IH; assumption.
Qed.

Lemma with_info_ids k c l :
  NoDup (ids c) -> incl l c -> with_info k c (ids l) = map (info_row k) l.
Proof.
  intros Hnd; induction l as [|e l IH]; intros Hincl; cbn [ids map with_info flat_map]; [reflexivity|].
  rewrite (find_id_in c e Hnd) by (apply Hincl; left; reflexivity).
  cbn [app]. f_equal. apply IH. intros x Hx; apply Hincl; right; exact Hx.
Qed.

(** in EVERY reachable state the lists are the ids of the cached rows attached
    to the object (in table order) and the info rows are those rows' columns *)
Lemma thm_lists_cache o ops k :
  let w := run o ops in
  let c := cache (peer w) in
  (forall h, mem_str h (o_hosts o) = true ->
     get_h h (hl (peer w)) = Some (ids (filter (att_h h) c)) /\
     with_info k c (ids (filter (att_h h) c)) = map (info_row k) (filter (att_h h) c)) /\
  (forall key, mem_svc key (o_svcs o) = true ->
     get_s key (sl (peer w)) = Some (ids (filter (att_s key) c)) /\
     with_info k c (ids (filter (att_s key) c)) = map (info_row k) (filter (att_s key) c)).
Proof.
  cbn zeta. pose proof (inv_run o ops) as [_ H2 _ _ _ _ H7 H8].
  split.
  - intros h Hh. rewrite H7, get_build_h, Hh. split; [reflexivity|].
    apply with_info_ids; [exact H2|]. intros x Hx; apply filter_In in Hx; apply Hx.
  - intros key Hk. rewrite H8, get_build_s, Hk. split; [reflexivity|].
    apply with_info_ids; [exact H2|]. intros x Hx; apply filter_In in Hx; apply Hx.
Qed.

Lemma lists_of_perm (p : entry -> bool) k c b :
  Permutation c b -> NoDup (ids c) ->
  (forall i, In i (ids (filter p c)) <-> exists e, In e b /\ e_id e = i /\ p e = true) /\
  NoDup (ids (filter p c)) /\
  Permutation (map (info_row k) (filter p c)) (map (info_row k) (filter p b)).
Proof.
  intros Hp Hnd. split; [|split].
  - intros i; split.
    + intros Hi; apply ids_in in Hi; destruct Hi as [e [He Hid]].
      apply filter_In in He; destruct He as [He Hpe].
      exists e; split; [eapply Permutation_in; eassumption|split; assumption].
    + intros [e [He [Hid Hpe]]]. rewrite <- Hid; apply in_ids, filter_In.
      split; [eapply Permutation_in; [apply Permutation_sym; exact Hp|exact He]|exact Hpe].
  - apply nodup_ids_filter; exact Hnd.
  - apply Permutation_map, perm_filter; exact Hp.
Qed.

Lemma thm_lists o ops k :
  let w := run o (ops ++ [Run]) in
  let c := cache (peer w) in
  let b := backend w in
  (forall h, mem_str h (o_hosts o) = true ->
     exists l, get_h h (hl (peer w)) = Some l /\
       (forall i, In i l <-> exists e, In e b /\ e_id e = i /\ att_h h e = true) /\
       NoDup l /\
       Permutation (with_info k c l) (map (info_row k) (filter (att_h h) b))) /\
  (forall key, mem_svc key (o_svcs o) = true ->
     exists l, get_s key (sl (peer w)) = Some l /\
       (forall i, In i l <-> exists e, In e b /\ e_id e = i /\ att_s key e = true) /\
       NoDup l /\
       Permutation (with_info k c l) (map (info_row k) (filter (att_s key) b))).
Proof.
  cbn zeta.
  pose proof (thm_sync o ops) as Hsync; cbn zeta in Hsync; destruct Hsync as [Hp Hnd].
  pose proof (thm_lists_cache o (ops ++ [Run]) k) as Hl; cbn zeta in Hl; destruct Hl as [Hlh Hls].
  split.
  - intros h Hh. destruct (Hlh h Hh) as [Hg Hw].
    exists (ids (filter (att_h h) (cache (peer (run o (ops ++ [Run])))))).
    destruct (lists_of_perm (att_h h) k _ _ Hp Hnd) as [L1 [L2 L3]].
    split; [exact Hg|split; [exact L1|split; [exact L2|rewrite Hw; exact L3]]].
  - intros key Hk. destruct (Hls key Hk) as [Hg Hw].
    exists (ids (filter (att_s key) (cache (peer (run o (ops ++ [Run])))))).
    destruct (lists_of_perm (att_s key) k _ _ Hp Hnd) as [L1 [L2 L3]].
    split; [exact Hg|split; [exact L1|split; [exact L2|rewrite Hw; exact L3]]].
Qed.
