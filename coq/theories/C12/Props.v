(** C12: comments and downtimes follow additions and removals.
    Only statements, each closed by [exact]; proofs live in Proofs.v.

    [run o ops] is the world (backend table, lmd's cache of it with the per
    host / service id lists, next fresh id) after the history [ops] of
      Add e      the core creates an entry (ignored unless its id is fresh, i.e.
                 above every id handed out before: monotonically increasing ids)
      Remove i   the core deletes an entry (any: the newest, the only one, ...)
      Reorder l  the backend's reply order changes (any permutation)
      Run        one update run (updateDeltaCommentsOrDowntimes)
      Reload     lmd re-creates its objects (InitAllTables)
    for monitored objects [o]. Histories are arbitrary lists: any number of
    changes between two runs. The model is generic in the table; comments and
    downtimes are its two instances ([k] = number of numeric info columns). *)
From LMD Require Import Base.Str C12.Model C12.Proofs.
From Coq Require Import Permutation.

(** C12_sync: after an update run the cached entries are exactly the backend's
    current entries, with all columns, none twice. *)
Theorem C12_sync :
  forall (o : objs) (ops : list op),
    let w := run o (ops ++ [Run]) in
    Permutation (cache (peer w)) (backend w) /\ NoDup (ids (cache (peer w))).
Proof. exact thm_sync. Qed.

(** change_detected: in every reachable state - also with a cache that is not
    sorted by id after out-of-order appends, after removing the newest entry
    and adding one, after emptying the table - any difference between the id
    sets makes maxIDOrSizeChanged answer "changed". *)
Theorem C12_change_detected :
  forall (o : objs) (ops : list op),
    let w := run o ops in
    ~ (forall i, In i (ids (cache (peer w))) <-> In i (ids (backend w))) ->
    unchanged (cache (peer w)) (backend w) = false.
Proof. exact thm_change_detected. Qed.

(** ... and what is reported unchanged is synchronised with all columns. *)
Theorem C12_unchanged_is_synced :
  forall (o : objs) (ops : list op),
    let w := run o ops in
    unchanged (cache (peer w)) (backend w) = true -> Permutation (cache (peer w)) (backend w).
Proof. exact thm_unchanged_synced. Qed.

(** C12_lists: after an update run every host's and every service's id list
    holds exactly the ids of the backend's entries attached to it (a service
    entry belongs to the service, not to its host), none twice, and the
    *_with_info rows are exactly those entries' columns. *)
Theorem C12_lists :
  forall (o : objs) (ops : list op) (k : nat),
    let w := run o (ops ++ [Run]) in
    let c := cache (peer w) in
    let b := backend w in
    (forall h, mem_str h (o_hosts o) = true ->
       exists l, get_h h (hl (peer w)) = Some l /\
         (forall i, In i l <-> exists e, In e b /\ e_id e = i /\ att_h h e = true) /\
         NoDup l /\
         Permutation (with_info k c l) (map (info_row k) (filter (att_h h) b))) /\
    (forall key, mem_svc key (o_svcs o) = true ->
       exists l, get_s key (sl (peer w)) = Some l /\
         (forall i, In i l <-> exists e, In e b /\ e_id e = i /\ att_s key e = true) /\
         NoDup l /\
         Permutation (with_info k c l) (map (info_row k) (filter (att_s key) b))).
Proof. exact thm_lists. Qed.

(** Between two runs the lists never dangle: in EVERY reachable state they are
    the ids of the cached rows attached to the object, in table order, and each
    id has its info row. *)
Theorem C12_lists_consistent_with_cache :
  forall (o : objs) (ops : list op) (k : nat),
    let w := run o ops in
    let c := cache (peer w) in
    (forall h, mem_str h (o_hosts o) = true ->
       get_h h (hl (peer w)) = Some (ids (filter (att_h h) c)) /\
       with_info k c (ids (filter (att_h h) c)) = map (info_row k) (filter (att_h h) c)) /\
    (forall key, mem_svc key (o_svcs o) = true ->
       get_s key (sl (peer w)) = Some (ids (filter (att_s key) c)) /\
       with_info k c (ids (filter (att_s key) c)) = map (info_row k) (filter (att_s key) c)).
Proof. exact thm_lists_cache. Qed.

(** non-vacuity: out-of-order append (reply order 7,5), then "remove the
    newest and add one" with an unsorted cache, then emptying the table *)
Example C12_example :
  let o := mkObjs [s "h1"; s "h2"] [(s "h1", s "svc")] in
  let e i h d := mkE i (s h) (s d) (s "admin") (s "text") [i; 1; 0; 0]%N in
  let ops1 := [Add (e 3%N "h1" ""); Reload; Add (e 5%N "h1" "svc"); Add (e 7%N "h2" ""); Reorder [7]%N; Run] in
  let w1 := run o ops1 in
  let w2 := run o (ops1 ++ [Remove 7%N; Add (e 9%N "h1" "")]) in
  let w3 := run o (ops1 ++ [Remove 7%N; Add (e 9%N "h1" ""); Run]) in
  let w4 := run o (ops1 ++ [Remove 7%N; Add (e 9%N "h1" ""); Run; Remove 3%N; Remove 5%N; Remove 9%N; Run]) in
  ids (cache (peer w1)) = [3; 7; 5]%N /\
  get_h (s "h1") (hl (peer w1)) = Some [3%N] /\ get_s (s "h1", s "svc") (sl (peer w1)) = Some [5%N] /\
  unchanged (cache (peer w2)) (backend w2) = false /\
  ids (cache (peer w3)) = [3; 5; 9]%N /\ get_h (s "h1") (hl (peer w3)) = Some [3; 9]%N /\
  get_h (s "h2") (hl (peer w3)) = Some [] /\
  with_info 2 (cache (peer w3)) [3; 9]%N = [(3, s "admin", s "text", [3; 1]); (9, s "admin", s "text", [9; 1])]%N /\
  cache (peer w4) = [] /\ get_h (s "h1") (hl (peer w4)) = Some [].
Proof. vm_compute. repeat split. Qed.

Print Assumptions C12_sync.
Print Assumptions C12_change_detected.
Print Assumptions C12_unchanged_is_synced.
Print Assumptions C12_lists.
Print Assumptions C12_lists_consistent_with_cache.
