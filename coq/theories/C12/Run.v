(** C12: executable comparison of the model with what the harness observed
    through lmd (GET comments, GET downtimes, GET hosts / services with the
    comments, downtimes, comments_with_info, downtimes_with_info columns)
    after every operation of a history. Set-like output is compared after
    sorting by id (duplicates are not removed, so they are noticed). *)
From LMD Require Export C12.Model.

Inductive kind := KC | KD.   (* comments / downtimes *)

Inductive cop :=
| CAdd (k : kind) (e : entry)
| CRemove (k : kind) (i : N)
| CReorder (k : kind) (order : list N)
| CRun (k : kind)          (* updateDeltaCommentsOrDowntimes on one table *)
| CDelta                   (* a whole UpdateDelta: comments, then downtimes *)
| CReload.                 (* InitAllTables *)

(** number of numeric columns in comments_with_info / downtimes_with_info *)
Definition ninfo (k : kind) : nat := match k with KC => 4%nat | KD => 6%nat end.

Definition hobs := (str * list N * list N * list info * list info)%type.
Definition sobs := (str * str * list N * list N * list info * list info)%type.

(** monomorphic constructors for the cases files (cheaper to elaborate than nested pairs) *)
Definition I (i : N) (a c : str) (n : list N) : info := (i, a, c, n).
Definition H (h : str) (c d : list N) (ci di : list info) : hobs := (h, c, d, ci, di).
Definition Sv (h s : str) (c d : list N) (ci di : list info) : sobs := (h, s, c, d, ci, di).

Record obs := mkObs {
  ob_comments : list entry; ob_downtimes : list entry; ob_hosts : list hobs; ob_svcs : list sobs }.

Record case := mkCase { k_objs : objs; k_ops : list cop; k_obs : list obs }.

(** ** canonical forms *)

Fixpoint ninsert (x : N) (l : list N) : list N :=
  match l with
  | [] => [x]
  | y :: r => if N.leb x y then x :: l else y :: ninsert x r
  end.
Definition nsort (l : list N) : list N := fold_right ninsert [] l.

Definition info_id (r : info) : N := fst (fst (fst r)).
Fixpoint iinsert (x : info) (l : list info) : list info :=
  match l with
  | [] => [x]
  | y :: r => if N.leb (info_id x) (info_id y) then x :: l else y :: iinsert x r
  end.
Definition isort (l : list info) : list info := fold_right iinsert [] l.

Fixpoint list_eqb {A} (eqb : A -> A -> bool) (a b : list A) : bool :=
  match a, b with
  | [], [] => true
  | x :: a', y :: b' => eqb x y && list_eqb eqb a' b'
  | _, _ => false
  end.

Definition entry_eqb (a b : entry) : bool :=
  N.eqb (e_id a) (e_id b) && str_eqb (e_host a) (e_host b) && str_eqb (e_svc a) (e_svc b) &&
  str_eqb (e_author a) (e_author b) && str_eqb (e_comment a) (e_comment b) &&
  list_eqb N.eqb (e_nums a) (e_nums b).

Definition info_eqb (a b : info) : bool :=
  let '(i1, a1, c1, n1) := a in
  let '(i2, a2, c2, n2) := b in
  N.eqb i1 i2 && str_eqb a1 a2 && str_eqb c1 c2 && list_eqb N.eqb n1 n2.

Definition hobs_eqb (a b : hobs) : bool :=
  let '(h1, c1, d1, ci1, di1) := a in
  let '(h2, c2, d2, ci2, di2) := b in
  str_eqb h1 h2 && list_eqb N.eqb (nsort c1) (nsort c2) && list_eqb N.eqb (nsort d1) (nsort d2) &&
  list_eqb info_eqb (isort ci1) (isort ci2) && list_eqb info_eqb (isort di1) (isort di2).

Definition sobs_eqb (a b : sobs) : bool :=
  let '(h1, s1, c1, d1, ci1, di1) := a in
  let '(h2, s2, c2, d2, ci2, di2) := b in
  str_eqb h1 h2 && str_eqb s1 s2 &&
  list_eqb N.eqb (nsort c1) (nsort c2) && list_eqb N.eqb (nsort d1) (nsort d2) &&
  list_eqb info_eqb (isort ci1) (isort ci2) && list_eqb info_eqb (isort di1) (isort di2).

Definition obs_eqb (a b : obs) : bool :=
  list_eqb entry_eqb (sort_by_id (ob_comments a)) (sort_by_id (ob_comments b)) &&
  list_eqb entry_eqb (sort_by_id (ob_downtimes a)) (sort_by_id (ob_downtimes b)) &&
  list_eqb hobs_eqb (ob_hosts a) (ob_hosts b) &&
  list_eqb sobs_eqb (ob_svcs a) (ob_svcs b).

(** ** the model on a two-table history *)

Definition step2 (o : objs) (ws : world * world) (x : cop) : world * world :=
  let (wc, wd) := ws in
  match x with
  | CAdd KC e => (step o wc (Add e), wd)
  | CAdd KD e => (wc, step o wd (Add e))
  | CRemove KC i => (step o wc (Remove i), wd)
  | CRemove KD i => (wc, step o wd (Remove i))
  | CReorder KC l => (step o wc (Reorder l), wd)
  | CReorder KD l => (wc, step o wd (Reorder l))
  | CRun KC => (step o wc Run, wd)
  | CRun KD => (wc, step o wd Run)
  | CDelta => (step o wc Run, step o wd Run)
  | CReload => (step o wc Reload, step o wd Reload)
  end.

Definition olist (x : option (list N)) : list N := match x with Some l => l | None => [] end.

Definition observe (o : objs) (ws : world * world) : obs :=
  let (wc, wd) := ws in
  let pc := peer wc in
  let pd := peer wd in
  mkObs (cache pc) (cache pd)
    (map (fun h =>
            let lc := olist (get_h h (hl pc)) in
            let ld := olist (get_h h (hl pd)) in
            (h, lc, ld, with_info (ninfo KC) (cache pc) lc, with_info (ninfo KD) (cache pd) ld))
         (o_hosts o))
    (map (fun k =>
            let lc := olist (get_s k (sl pc)) in
            let ld := olist (get_s k (sl pd)) in
            (fst k, snd k, lc, ld, with_info (ninfo KC) (cache pc) lc, with_info (ninfo KD) (cache pd) ld))
         (o_svcs o)).

(** lmd is observed after each of ITS steps; the backend's own changes are not visible to it *)
Definition lmd_step (x : cop) : bool :=
  match x with CRun _ | CDelta | CReload => true | _ => false end.

Fixpoint trace (o : objs) (ws : world * world) (ops : list cop) : list obs :=
  match ops with
  | [] => []
  | x :: r =>
      let ws' := step2 o ws x in
      if lmd_step x then observe o ws' :: trace o ws' r else trace o ws' r
  end.

Definition expected (c : case) : list obs := trace (k_objs c) (world0 (k_objs c), world0 (k_objs c)) (k_ops c).

Definition check (c : case) : bool := list_eqb obs_eqb (expected c) (k_obs c).

(** index of the first differing step, for diagnosis *)
Fixpoint first_diff (i : nat) (a b : list obs) : nat :=
  match a, b with
  | x :: a', y :: b' => if obs_eqb x y then first_diff (S i) a' b' else i
  | _, _ => i
  end.

(** (case index, index of the first step whose observation differs) *)
Fixpoint mismatches_from (i : nat) (cs : list case) : list (nat * nat) :=
  match cs with
  | [] => []
  | c :: rest =>
      (if check c then [] else [(i, first_diff 0 (expected c) (k_obs c))]) ++ mismatches_from (S i) rest
  end.

Definition mismatches := mismatches_from 0.
