(** C13: the availability state machine of one peer ([PeerFSM]).

    Transcribes, line by line, of pkg/lmd/peer.go:
      periodicUpdate (398-471: idle decision, per-minute timeperiod refresh,
      due test, [lastUpdate := now], dispatch on the status read at the top),
      updateIdleStatus (645), InitAllTables / initTable(status) (724-897),
      resetErrors (959), Query / query / GetConnection / tryConnection
      (1312, 969, 1406, 1426), setNextAddrFromErr (1547), ResumeFromIdle (2752),
      GetDataStore (2673); of datastoreset.go UpdateDelta (252) and of
      response.go prepareResponse/buildLocalResponse (idle spin up, lastQuery).

    Time is in milliseconds and explicit ([now]); it only advances by [EPass].
    The environment is the mode of every configured address (sources first,
    then fallbacks). Within one event the modes are constant, therefore after
    the first successful query of an operation all its later queries succeed
    on the same address; an operation is decided by its first query.

    The core behind the backend is an environment value as well ([env_core]:
    the instance identified by program_start / nagios_pid of the status row,
    [env_dset]: the object set it serves; event [ERestart]). The peer remembers
    the instance whose objects it holds ([core_seen], peer.go programStart /
    corePid, stored together with the objects at the end of InitAllTables); an
    update that reads another instance from the status row returns "restart
    required" before it changes anything (CheckBackendRestarted) and updateLoop
    runs InitAllTables at once - entered from up (or warning).

    [c_fixed] selects the repaired behaviour proposed in notes/C13.md (an
    update that finds the cache dropped under it reports "restart required"
    instead of declaring the peer up); [c_fixed = false] is the pinned code. *)
From LMD Require Export Base.Str.

Inductive pstatus := Up | Warning | Down | Pending | Syncing.

Definition pstatus_eqb (a b : pstatus) : bool :=
  match a, b with
  | Up, Up | Warning, Warning | Down, Down | Pending, Pending | Syncing, Syncing => true
  | _, _ => false
  end.

Inductive mode := MOk | MRefuse | MGarbage.

(** lastError: only the class is observable *)
Inductive errclass := ENone | EConnecting | EReconnecting | EFail | ENotReady.

Definition err_nonempty (e : errclass) : bool := match e with ENone => false | _ => true end.

Record cfg := mkCfg {
  c_stale : Z;        (* StaleBackendTimeout, ms *)
  c_idle_timeout : Z; (* IdleTimeout, ms *)
  c_upd : Z;          (* UpdateInterval, ms *)
  c_idle_int : Z;     (* IdleInterval, ms *)
  c_nsrc : nat;       (* number of source addresses, >= 1 *)
  c_nfb : nat;        (* number of fallback addresses *)
  c_fixed : bool }.

Record st := mkSt {
  status : pstatus;
  lasterr : errclass;
  last_online : Z;    (* 0 = never *)
  err_count : Z;
  has_data : bool;
  idling : bool;
  last_query : Z;     (* 0 = never *)
  last_update : Z;
  cur : nat;          (* curPeerAddrNum *)
  addr : nat;         (* peerAddr as index: sources 0..nsrc-1, fallbacks nsrc.. *)
  now : Z;
  main_restart : Z;
  (* ghost fields, not in the implementation *)
  last_fail : Z;      (* time of the last failure handling *)
  last_sync : Z;      (* time of the last successful synchronisation *)
  attempts : list nat; (* addresses a connection was attempted to, most recent first *)
  (* the core behind the backend: [programStart]/[corePid] remembered together with the cached objects *)
  core_seen : nat;    (* instance of the core whose objects were synchronised last, 0 = none yet *)
  dset_seen : nat;    (* ghost: identity of the object set that was synchronised last, 0 = none yet *)
  (* environment: all addresses of the backend serve the same core *)
  env_core : nat;     (* the instance that is running now (program_start / nagios_pid), >= 1 *)
  env_dset : nat;     (* the object set it serves *)
  env_ready : bool    (* false: the status query is answered with zero rows (the backend is an lmd whose own
                         backends are not ready yet, "peered partner not ready yet"); all other tables answer *)
}.

Definition srcs (c : cfg) : list nat := seq 0 (c_nsrc c).
Definition fbs (c : cfg) : list nat := seq (c_nsrc c) (c_nfb c).
Definition nall (c : cfg) : Z := Z.of_nat (c_nsrc c + c_nfb c).

Definition mode_of (modes : list mode) (a : nat) : mode := nth a modes MRefuse.

(** peer.go:1547 setNextAddrFromErr(err, req, source) *)
Definition set_next (c : cfg) (L : list nat) (s : st) : st :=
  let nxt := if Nat.ltb (S (cur s)) (length L) then S (cur s) else 0%nat in
  let ec := (err_count s + 1)%Z in
  let st1 := match status s with
             | Up | Pending | Syncing => if has_data s then Warning else status s
             | x => x
             end in
  let drop := (last_online s <? now s - c_stale c)%Z
              || ((nall c <? ec)%Z && (last_online s <=? 0)%Z) in
  mkSt (if drop then Down else st1) EFail (last_online s) ec
       (if drop then false else has_data s) (idling s) (last_query s) (last_update s)
       nxt (nth nxt L 0%nat) (now s) (main_restart s) (now s) (last_sync s) (attempts s) (core_seen s) (dset_seen s) (env_core s) (env_dset s) (env_ready s).

Definition note_attempt (a : nat) (s : st) : st :=
  mkSt (status s) (lasterr s) (last_online s) (err_count s) (has_data s) (idling s) (last_query s)
       (last_update s) (cur s) (addr s) (now s) (main_restart s) (last_fail s) (last_sync s)
       (a :: attempts s) (core_seen s) (dset_seen s) (env_core s) (env_dset s) (env_ready s).

(** peer.go:1426 tryConnection: at most [length L] dials, each to the current address *)
Fixpoint try_conn (c : cfg) (n : nat) (L : list nat) (modes : list mode) (s : st) : st * option nat :=
  match n with
  | O => (s, None)
  | S n' =>
      let a := addr s in
      let s := note_attempt a s in
      match mode_of modes a with
      | MRefuse => try_conn c n' L modes (set_next c L s)
      | _ => (s, Some a)
      end
  end.

Definition set_addr (k a : nat) (s : st) : st :=
  mkSt (status s) (lasterr s) (last_online s) (err_count s) (has_data s) (idling s) (last_query s)
       (last_update s) k a (now s) (main_restart s) (last_fail s) (last_sync s) (attempts s) (core_seen s) (dset_seen s) (env_core s) (env_dset s) (env_ready s).

(** peer.go:1406 GetConnection *)
Definition get_conn (c : cfg) (modes : list mode) (s : st) : st * option nat :=
  let (s1, r) := try_conn c (c_nsrc c) (srcs c) modes s in
  match r with
  | Some a => (s1, Some a)
  | None =>
      match c_nfb c with
      | O => (s1, None)
      | _ => try_conn c (c_nfb c) (fbs c) modes (set_addr 0 (c_nsrc c) s1)
      end
  end.

(** peer.go:1312 Query = query + setNextAddrFromErr(err, req, p.source) on any error *)
Definition do_query (c : cfg) (modes : list mode) (s : st) : st * bool :=
  let (s1, r) := get_conn c modes s in
  match r with
  | Some a => match mode_of modes a with
              | MOk => (s1, true)
              | _ => (set_next c (srcs c) s1, false)
              end
  | None => (set_next c (srcs c) s1, false)
  end.

(** peer.go:959 resetErrors *)
Definition reset_errors (s : st) : st :=
  mkSt Up ENone (now s) 0 (has_data s) (idling s) (last_query s) (last_update s)
       (cur s) (addr s) (now s) (main_restart s) (last_fail s) (now s) (attempts s) (core_seen s) (dset_seen s) (env_core s) (env_dset s) (env_ready s).

Definition set_last_update (t : Z) (s : st) : st :=
  mkSt (status s) (lasterr s) (last_online s) (err_count s) (has_data s) (idling s) (last_query s)
       t (cur s) (addr s) (now s) (main_restart s) (last_fail s) (last_sync s) (attempts s) (core_seen s) (dset_seen s) (env_core s) (env_dset s) (env_ready s).

Definition set_data (d : bool) (s : st) : st :=
  mkSt (status s) (lasterr s) (last_online s) (err_count s) d (idling s) (last_query s)
       (last_update s) (cur s) (addr s) (now s) (main_restart s) (last_fail s) (last_sync s) (attempts s) (core_seen s) (dset_seen s) (env_core s) (env_dset s) (env_ready s).

(** InitAllTables, success: [p.data.Store(data)] together with program_start / nagios_pid of the new status row *)
Definition store_data (s : st) : st :=
  mkSt (status s) (lasterr s) (last_online s) (err_count s) true (idling s) (last_query s)
       (last_update s) (cur s) (addr s) (now s) (main_restart s) (last_fail s) (last_sync s) (attempts s)
       (env_core s) (env_dset s) (env_core s) (env_dset s) (env_ready s).

(** environment: the core behind the (reachable or not) backend restarts; [changed]: with another object set *)
Definition restart (changed : bool) (s : st) : st :=
  mkSt (status s) (lasterr s) (last_online s) (err_count s) (has_data s) (idling s) (last_query s)
       (last_update s) (cur s) (addr s) (now s) (main_restart s) (last_fail s) (last_sync s) (attempts s)
       (core_seen s) (dset_seen s) (S (env_core s)) (if changed then S (env_core s) else env_dset s) (env_ready s).

(** environment: the partner behind the backend becomes (not) ready *)
Definition set_ready (b : bool) (s : st) : st :=
  mkSt (status s) (lasterr s) (last_online s) (err_count s) (has_data s) (idling s) (last_query s)
       (last_update s) (cur s) (addr s) (now s) (main_restart s) (last_fail s) (last_sync s) (attempts s)
       (core_seen s) (dset_seen s) (env_core s) (env_dset s) b.

(** peer.go:909 updateInitialStatus, the status query of a (re)initialisation is answered with zero rows:
    down, "peered partner not ready yet", [p.data.Store(nil)]; no connection error: no error count, no rotation *)
Definition not_ready (s : st) : st :=
  mkSt Down ENotReady (last_online s) (err_count s) false (idling s) (last_query s)
       (last_update s) (cur s) (addr s) (now s) (main_restart s) (now s) (last_sync s) (attempts s)
       (core_seen s) (dset_seen s) (env_core s) (env_dset s) (env_ready s).

Definition set_idling (i : bool) (s : st) : st :=
  mkSt (status s) (lasterr s) (last_online s) (err_count s) (has_data s) i (last_query s)
       (last_update s) (cur s) (addr s) (now s) (main_restart s) (last_fail s) (last_sync s) (attempts s) (core_seen s) (dset_seen s) (env_core s) (env_dset s) (env_ready s).

Definition set_last_query (t : Z) (s : st) : st :=
  mkSt (status s) (lasterr s) (last_online s) (err_count s) (has_data s) (idling s) t
       (last_update s) (cur s) (addr s) (now s) (main_restart s) (last_fail s) (last_sync s) (attempts s) (core_seen s) (dset_seen s) (env_core s) (env_dset s) (env_ready s).

(** initTable(status): "got an answer, let clients know we are reconnecting" *)
Definition mark_syncing (s : st) : st :=
  match status s with
  | Pending | Syncing => s
  | _ => mkSt Syncing EReconnecting (last_online s) (err_count s) (has_data s) (idling s) (last_query s)
              (last_update s) (cur s) (addr s) (now s) (main_restart s) (last_fail s) (last_sync s) (attempts s) (core_seen s) (dset_seen s) (env_core s) (env_dset s) (env_ready s)
  end.

(** peer.go:724 InitAllTables; result: success *)
Definition init_all (c : cfg) (modes : list mode) (s : st) : st * bool :=
  let s := set_last_update (now s) s in
  let (s1, ok) := do_query c modes s in
  if ok then
    if env_ready s1 then (reset_errors (store_data (mark_syncing s1)), true)
    else (not_ready s1, false)
  else (s1, false).

Inductive ures := UOk | UErr | URestart.

(** datastoreset.go:252 UpdateDelta on the data set read by the caller *)
Definition update_delta (c : cfg) (modes : list mode) (s : st) : st * ures :=
  let (s1, ok) := do_query c modes s in
  if ok then
    (* peer.go CheckBackendRestarted on the status row, before anything is updated *)
    (* datastoreset.go:776 a status answer with another number of rows than cached (zero rows: partner not ready) *)
    if negb (env_ready s1) then (s1, URestart)
    else if negb (Nat.eqb (core_seen s1) (env_core s1)) then (s1, URestart)
    else if c_fixed c && negb (has_data s1) then (s1, URestart)
    else (set_last_update (now s1) (reset_errors s1), UOk)
  else (s1, UErr).

(** peer.go:645 updateIdleStatus *)
Definition update_idle (c : cfg) (s : st) : st :=
  let should :=
    (((last_query s =? 0) && (main_restart s <? now s - c_idle_timeout c))
     || ((0 <? last_query s) && (last_query s <? now s - c_idle_timeout c)))%Z in
  if negb (idling s) && should then set_idling true s else s.

(** updateLoop: a "restart required" error triggers InitAllTables *)
Definition after_update (c : cfg) (modes : list mode) (r : st * ures) : st :=
  match snd r with
  | URestart => fst (init_all c modes (fst r))
  | _ => fst r
  end.

(** peer.go:398 periodicUpdate, [minute]: the wall clock minute changed since
    the last timeperiod refresh *)
Definition periodic (c : cfg) (modes : list mode) (minute : bool) (s0 : st) : st :=
  let top_status := status s0 in
  let top_data := has_data s0 in
  let top_update := last_update s0 in
  let s := update_idle c s0 in
  let idl := idling s in
  let (s, cont) :=
    if negb idl && minute && top_data
    then do_query c modes s       (* periodicTimeperiodsUpdate: first query decides *)
    else (s, true) in
  if negb cont then s else
  let interval := if idl then c_idle_int c else c_upd c in
  if (now s <? top_update + interval)%Z then s else
  let s := set_last_update (now s) s in
  match top_status with
  | Down | Pending => fst (init_all c modes s)
  | Warning | Up | Syncing =>
      if top_data then after_update c modes (update_delta c modes s)
      else fst (init_all c modes s)
  end.

(** peer.go:2752 ResumeFromIdle (errors are only logged by SpinUpPeers) *)
Definition resume (c : cfg) (modes : list mode) (s : st) : st :=
  let top_status := status s in
  let top_data := has_data s in
  let s := set_idling false s in
  match top_status with
  | Up =>
      if top_data then
        let (s1, ok) := do_query c modes s in   (* UpdateFullTablesList [timeperiods] *)
        if ok then fst (update_delta c modes s1) else s1
      else set_last_update (now s - c_upd c) s
  | _ => set_last_update (now s - c_upd c) s
  end.

(** a client data query: response.go prepareResponse (spin up) + buildLocalResponse *)
Definition client_query (c : cfg) (modes : list mode) (s : st) : st :=
  let s := if idling s then resume c modes (set_last_query (now s) s) else s in
  set_last_query (now s) s.

Definition pass (d : Z) (s : st) : st :=
  mkSt (status s) (lasterr s) (last_online s) (err_count s) (has_data s) (idling s) (last_query s)
       (last_update s) (cur s) (addr s) (now s + d) (main_restart s) (last_fail s) (last_sync s) (attempts s) (core_seen s) (dset_seen s) (env_core s) (env_dset s) (env_ready s).

Inductive event :=
| EInit                       (* updateLoop start: InitAllTables *)
| ESetMode (a : nat) (m : mode)
| ETick (minute : bool)       (* one periodicUpdate *)
| EPass (d : Z)               (* d milliseconds pass, d > 0 *)
| EQuery                      (* a client data query *)
| ERestart (changed : bool)   (* the core behind the backend restarts: program_start / nagios_pid change *)
| EReady (b : bool).          (* the partner starts / stops answering the status query with zero rows *)

Fixpoint set_nth {A} (n : nat) (x : A) (l : list A) : list A :=
  match l, n with
  | [], _ => []
  | _ :: r, O => x :: r
  | y :: r, S n' => y :: set_nth n' x r
  end.

Definition step (c : cfg) (ms : list mode * st) (e : event) : list mode * st :=
  let (modes, s) := ms in
  match e with
  | EInit => (modes, fst (init_all c modes s))
  | ESetMode a m => (set_nth a m modes, s)
  | ETick minute => (modes, periodic c modes minute s)
  | EPass d => (modes, pass d s)
  | EQuery => (modes, client_query c modes s)
  | ERestart changed => (modes, restart changed s)
  | EReady b => (modes, set_ready b s)
  end.

Definition t0 : Z := 1000000000000.

(** NewPeer *)
Definition init_st : st :=
  mkSt Pending EConnecting 0 0 false false 0 0 0%nat 0%nat t0 t0 0 0 [] 0%nat 0%nat 1%nat 1%nat true.

Definition run (c : cfg) (modes : list mode) (evs : list event) : list mode * st :=
  fold_left (step c) evs (modes, init_st).

(** what `GET sites` and a data query show *)
Record obs := mkObs {
  o_status : pstatus;
  o_err : bool;      (* last_error non-empty *)
  o_idling : bool;
  o_failed : bool;   (* a data query lists the backend in "failed" (GetDataStore refuses) *)
  o_addr : nat;
  o_online : bool;   (* Peer.isOnline: pass-through queries use the backend *)
  o_bygroup : bool;  (* the hostsbygroup table of the backend is refused ("peer is down") *)
  o_core : nat;      (* instance (program_start, nagios_pid) in the cached status table, 0 = no data *)
  o_dset : nat }.    (* object set a hosts query is answered from, 0 = no data *)

Definition is_online (s : st) : bool := match status s with Up | Warning => true | _ => false end.

Definition observe (s : st) : obs :=
  mkObs (status s) (err_nonempty (lasterr s)) (idling s) (negb (has_data s)) (addr s)
        (is_online s) (negb (is_online s && has_data s))
        (if has_data s then core_seen s else 0%nat) (if has_data s then dset_seen s else 0%nat).

Fixpoint trace (c : cfg) (ms : list mode * st) (evs : list event) : list obs :=
  match evs with
  | [] => []
  | e :: r => let ms' := step c ms e in observe (snd ms') :: trace c ms' r
  end.
