(** Proofs about the availability state machine (C13). *)
From LMD Require Import C13.Model.
From Coq Require Import Arith Lia ZArith.
Open Scope Z_scope.

(** *** the invariant of the repaired machine *)

Definition inv (c : cfg) (s : st) : Prop :=
  (status s = Up -> has_data s = true /\ lasterr s = ENone /\ err_count s = 0 /\ last_fail s <= last_sync s) /\
  (status s = Warning -> has_data s = true /\ lasterr s = EFail) /\
  (status s = Down -> has_data s = false /\ lasterr s <> ENone) /\
  (status s = Pending -> has_data s = false /\ lasterr s <> ENone) /\
  status s <> Syncing /\
  (has_data s = true -> last_fail s - last_online s <= c_stale c /\ t0 <= last_online s) /\
  last_online s = last_sync s /\ last_sync s <= now s /\ last_fail s <= now s /\ t0 <= now s.

Lemma inv_init c : 0 <= c_stale c -> inv c init_st.
Proof.
  intros Hs. unfold inv, init_st, t0; cbn. repeat split; intros; try discriminate; try lia.
Qed.

Ltac inv_parts H :=
  destruct H as (HUp & HWarn & HDown & HPend & HSync & HData & HOnl & HSyncT & HFailT & HNow).

(** setNextAddrFromErr keeps the invariant: with cached data the peer becomes
    Warning (not older than the stale timeout) or loses the data and is Down *)
Lemma set_next_inv c L s : inv c s -> inv c (set_next c L s).
Proof.
  intros H. inv_parts H. unfold inv, set_next; cbn.
  destruct ((last_online s <? now s - c_stale c) || ((nall c <? err_count s + 1) && (last_online s <=? 0))) eqn:Hdrop.
  - repeat split; intros; try discriminate; try congruence; try lia.
  - apply orb_false_iff in Hdrop as [Hd1 Hd2]. apply Z.ltb_ge in Hd1.
    destruct (status s) eqn:Hst; destruct (has_data s) eqn:Hd;
      repeat split; intros; try discriminate; try congruence; try lia;
      try (destruct (HData eq_refl); lia);
      try (destruct (HUp eq_refl) as (? & _); congruence);
      try (destruct (HWarn eq_refl) as (? & _); congruence);
      try (destruct (HDown eq_refl) as (? & _); congruence);
      try (destruct (HPend eq_refl) as (? & _); congruence).
Qed.

Lemma note_attempt_inv c a s : inv c s -> inv c (note_attempt a s).
Proof. intros H. exact H. Qed.

Lemma set_addr_inv c k a s : inv c s -> inv c (set_addr k a s).
Proof. intros H. exact H. Qed.

Lemma try_conn_inv c n L modes : forall s, inv c s -> inv c (fst (try_conn c n L modes s)).
Proof.
  induction n as [|n IH]; intros s H; [exact H|].
  cbn [try_conn]. destruct (mode_of modes (addr s)); cbn [fst]; try exact H.
  apply IH. apply set_next_inv. exact H.
Qed.

Lemma get_conn_inv c modes s : inv c s -> inv c (fst (get_conn c modes s)).
Proof.
  intros H. unfold get_conn.
  pose proof (try_conn_inv c (c_nsrc c) (srcs c) modes s H) as H1.
  destruct (try_conn c (c_nsrc c) (srcs c) modes s) as [s1 [a|]]; cbn [fst] in *; [exact H1|].
  destruct (c_nfb c) eqn:Hn; cbn [fst]; [exact H1|].
  rewrite <- Hn. apply try_conn_inv. exact H1.
Qed.

Lemma do_query_inv c modes s : inv c s -> inv c (fst (do_query c modes s)).
Proof.
  intros H. unfold do_query. pose proof (get_conn_inv c modes s H) as H1.
  destruct (get_conn c modes s) as [s1 [a|]]; cbn [fst] in *.
  - destruct (mode_of modes a); cbn [fst]; try exact H1; apply set_next_inv; exact H1.
  - apply set_next_inv; exact H1.
Qed.

(** a successful synchronisation: up, fresh, no error *)
Definition synced (s : st) : Prop :=
  status s = Up /\ has_data s = true /\ lasterr s = ENone /\ err_count s = 0 /\
  last_online s = now s /\ last_sync s = now s.

Lemma reset_inv c s :
  0 <= c_stale c -> inv c s -> has_data s = true -> inv c (reset_errors s) /\ synced (reset_errors s).
Proof.
  intros Hs H Hd. inv_parts H. unfold inv, synced, reset_errors; cbn.
  repeat split; intros; try discriminate; try congruence; try lia.
Qed.

Lemma set_last_update_inv c t s : inv c s -> inv c (set_last_update t s).
Proof. intros H. exact H. Qed.

Lemma mark_syncing_data c s : inv c s ->
  let s' := store_data (mark_syncing s) in
  has_data s' = true /\ last_fail s' = last_fail s /\ last_sync s' = last_sync s /\
  last_online s' = last_online s /\ now s' = now s.
Proof. intros H. unfold mark_syncing. destruct (status s); cbn; repeat split; reflexivity. Qed.

Lemma not_ready_inv c s : inv c s -> inv c (not_ready s).
Proof.
  intros H. inv_parts H. unfold inv, not_ready; cbn.
  repeat split; intros; try discriminate; try congruence; try lia.
Qed.

Lemma init_all_inv c modes s :
  0 <= c_stale c -> inv c s ->
  inv c (fst (init_all c modes s)) /\
  (snd (init_all c modes s) = true -> synced (fst (init_all c modes s))).
Proof.
  intros Hs H. unfold init_all.
  pose proof (do_query_inv c modes (set_last_update (now s) s) (set_last_update_inv c _ s H)) as H1.
  destruct (do_query c modes (set_last_update (now s) s)) as [s1 ok]. cbn [fst] in H1.
  destruct ok; cbn [fst snd]; [|split; [exact H1|discriminate]].
  destruct (env_ready s1); cbn [fst snd]; [|split; [apply not_ready_inv; exact H1|discriminate]].
  inv_parts H1. unfold inv, synced, reset_errors, store_data, mark_syncing.
  destruct (status s1); cbn; repeat split; intros; try discriminate; try congruence; try lia.
Qed.

Lemma update_delta_inv c modes s :
  0 <= c_stale c -> c_fixed c = true -> inv c s ->
  inv c (fst (update_delta c modes s)) /\
  (snd (update_delta c modes s) = UOk -> synced (fst (update_delta c modes s))).
Proof.
  intros Hs Hf H. unfold update_delta.
  pose proof (do_query_inv c modes s H) as H1.
  destruct (do_query c modes s) as [s1 ok]. cbn [fst] in H1.
  destruct ok; cbn [fst snd]; [|split; [exact H1|discriminate]].
  destruct (negb (env_ready s1)); cbn [fst snd]; [split; [exact H1|discriminate]|].
  destruct (negb (Nat.eqb (core_seen s1) (env_core s1))); cbn [fst snd]; [split; [exact H1|discriminate]|].
  rewrite Hf. cbn [andb]. destruct (has_data s1) eqn:Hd; cbn [negb fst snd].
  - destruct (reset_inv c s1 Hs H1 Hd) as [Hi Hsy]. split; [exact Hi|]. intros _. exact Hsy.
  - split; [exact H1|discriminate].
Qed.

Lemma after_update_inv c modes r :
  0 <= c_stale c -> inv c (fst r) -> inv c (after_update c modes r).
Proof.
  intros Hs H. unfold after_update. destruct (snd r); try exact H.
  apply init_all_inv; assumption.
Qed.

Lemma update_idle_inv c s : inv c s -> inv c (update_idle c s).
Proof. intros H. unfold update_idle. destruct (_ && _); exact H. Qed.

Lemma periodic_inv c modes m s :
  0 <= c_stale c -> c_fixed c = true -> inv c s -> inv c (periodic c modes m s).
Proof.
  intros Hs Hf H. unfold periodic.
  pose proof (update_idle_inv c s H) as H0.
  set (s1 := update_idle c s) in *.
  destruct (negb (idling s1) && m && has_data s).
  - pose proof (do_query_inv c modes s1 H0) as H1.
    destruct (do_query c modes s1) as [s2 cont]. cbn [fst] in H1.
    destruct cont; cbn [negb]; [|exact H1].
    destruct (now s2 <? last_update s + _); [exact H1|].
    destruct (status s); destruct (has_data s);
      try (apply init_all_inv; assumption);
      try (apply after_update_inv; [assumption|]; apply update_delta_inv; assumption).
  - cbn [negb]. destruct (now s1 <? last_update s + _); [exact H0|].
    destruct (status s); destruct (has_data s);
      try (apply init_all_inv; assumption);
      try (apply after_update_inv; [assumption|]; apply update_delta_inv; assumption).
Qed.

Lemma resume_inv c modes s :
  0 <= c_stale c -> c_fixed c = true -> inv c s -> inv c (resume c modes s).
Proof.
  intros Hs Hf H. unfold resume.
  assert (Hi : inv c (set_idling false s)) by exact H.
  destruct (status s); try exact H.
  destruct (has_data s); [|exact H].
  pose proof (do_query_inv c modes (set_idling false s) Hi) as H1.
  destruct (do_query c modes (set_idling false s)) as [s1 ok]. cbn [fst] in H1.
  destruct ok; [|exact H1]. apply update_delta_inv; assumption.
Qed.

Lemma client_query_inv c modes s :
  0 <= c_stale c -> c_fixed c = true -> inv c s -> inv c (client_query c modes s).
Proof.
  intros Hs Hf H. unfold client_query.
  destruct (idling s); [|exact H].
  assert (Hq : inv c (set_last_query (now s) s)) by exact H.
  pose proof (resume_inv c modes _ Hs Hf Hq) as H1. exact H1.
Qed.

Lemma pass_inv c d s : 0 <= d -> inv c s -> inv c (pass d s).
Proof.
  intros Hd H. inv_parts H. unfold inv, pass; cbn. repeat split; intros; auto; try lia;
    try (apply HUp; assumption); try (apply HWarn; assumption); try (apply HDown; assumption);
    try (apply HPend; assumption); try (apply HData; assumption).
Qed.

Definition event_ok (e : event) : Prop := match e with EPass d => 0 <= d | _ => True end.

Lemma step_inv c ms e :
  0 <= c_stale c -> c_fixed c = true -> event_ok e -> inv c (snd ms) -> inv c (snd (step c ms e)).
Proof.
  intros Hs Hf He H. destruct ms as [modes s]. cbn [snd] in H. destruct e; cbn [step snd].
  - apply init_all_inv; assumption.
  - exact H.
  - apply periodic_inv; assumption.
  - apply pass_inv; assumption.
  - apply client_query_inv; assumption.
  - exact H.
  - exact H.
Qed.

Lemma run_inv c modes evs :
  0 <= c_stale c -> c_fixed c = true -> Forall event_ok evs -> inv c (snd (run c modes evs)).
Proof.
  intros Hs Hf Hev. unfold run.
  assert (Hgen : forall ms, inv c (snd ms) -> inv c (snd (fold_left (step c) evs ms))).
  { induction Hev as [|e evs He _ IH]; intros ms H; [exact H|].
    cbn [fold_left]. apply IH. apply step_inv; assumption. }
  apply Hgen. cbn [snd]. apply inv_init; assumption.
Qed.

(** *** frame: what a failing query does not touch *)

Definition frame (s s' : st) : Prop :=
  idling s' = idling s /\ last_query s' = last_query s /\ now s' = now s /\
  main_restart s' = main_restart s /\ last_update s' = last_update s /\
  last_online s' = last_online s /\ last_sync s' = last_sync s /\
  core_seen s' = core_seen s /\ dset_seen s' = dset_seen s /\
  env_core s' = env_core s /\ env_dset s' = env_dset s /\ env_ready s' = env_ready s.

Lemma frame_refl s : frame s s.
Proof. unfold frame; repeat split; reflexivity. Qed.

Lemma frame_trans a b c' : frame a b -> frame b c' -> frame a c'.
Proof. unfold frame; intros H1 H2; decompose [and] H1; decompose [and] H2; repeat split; congruence. Qed.

Lemma set_next_frame c L s : frame s (set_next c L s).
Proof. unfold frame, set_next; cbn; repeat split; reflexivity. Qed.

Lemma try_conn_frame c n L modes : forall s, frame s (fst (try_conn c n L modes s)).
Proof.
  induction n as [|n IH]; intros s; [apply frame_refl|].
  cbn [try_conn]. destruct (mode_of modes (addr s)); cbn [fst]; try (unfold frame, note_attempt; cbn; repeat split; reflexivity).
  eapply frame_trans; [|apply IH]. unfold frame, set_next, note_attempt; cbn; repeat split; reflexivity.
Qed.

Lemma get_conn_frame c modes s : frame s (fst (get_conn c modes s)).
Proof.
  unfold get_conn. pose proof (try_conn_frame c (c_nsrc c) (srcs c) modes s) as H1.
  destruct (try_conn c (c_nsrc c) (srcs c) modes s) as [s1 [a|]]; cbn [fst] in *; [exact H1|].
  destruct (c_nfb c) eqn:Hn; cbn [fst]; [exact H1|]. rewrite <- Hn.
  eapply frame_trans; [exact H1|]. eapply frame_trans; [|apply try_conn_frame].
  unfold frame, set_addr; cbn; repeat split; reflexivity.
Qed.

Lemma do_query_frame c modes s : frame s (fst (do_query c modes s)).
Proof.
  unfold do_query. pose proof (get_conn_frame c modes s) as H1.
  destruct (get_conn c modes s) as [s1 [a|]]; cbn [fst] in *.
  - destruct (mode_of modes a); cbn [fst];
      first [exact H1 | eapply frame_trans; [exact H1|apply set_next_frame]].
  - eapply frame_trans; [exact H1|apply set_next_frame].
Qed.

(** *** what one failure does (warning_keeps_data, stale_drops, bounded_staleness) *)

Lemma set_next_stale c L s :
  last_online s < now s - c_stale c ->
  status (set_next c L s) = Down /\ has_data (set_next c L s) = false /\ lasterr (set_next c L s) = EFail.
Proof.
  intros H. apply Z.ltb_lt in H. unfold set_next; cbn. rewrite H. cbn. repeat split; reflexivity.
Qed.

Lemma set_next_fresh c L s :
  now s - c_stale c <= last_online s -> 0 < last_online s -> has_data s = true ->
  status s <> Down ->
  status (set_next c L s) = Warning /\ has_data (set_next c L s) = true /\ lasterr (set_next c L s) = EFail /\
  last_fail (set_next c L s) = now s.
Proof.
  intros H1 H2 Hd Hst. unfold set_next; cbn.
  assert (Hn : (last_online s <? now s - c_stale c) = false) by (apply Z.ltb_ge; lia).
  assert (Hz : (last_online s <=? 0) = false) by (apply Z.leb_gt; lia).
  rewrite Hn, Hz, andb_false_r. cbn. rewrite Hd. destruct (status s); try contradiction; repeat split; reflexivity.
Qed.

(** a failed query ends in setNextAddrFromErr *)
Lemma do_query_fail c modes s :
  snd (do_query c modes s) = false ->
  exists s1, frame s s1 /\ fst (do_query c modes s) = set_next c (srcs c) s1 /\ (inv c s -> inv c s1).
Proof.
  unfold do_query. pose proof (get_conn_frame c modes s) as H1. pose proof (get_conn_inv c modes s) as H2.
  destruct (get_conn c modes s) as [s1 [a|]]; cbn [fst snd] in *.
  - destruct (mode_of modes a); cbn [fst snd]; intros H; try discriminate; exists s1; auto.
  - intros _. exists s1; auto.
Qed.

Lemma failure_is_bounded c modes s :
  inv c s -> snd (do_query c modes s) = false ->
  let s' := fst (do_query c modes s) in
  last_fail s' = now s /\ lasterr s' = EFail /\
  (last_online s < now s - c_stale c -> status s' = Down /\ has_data s' = false) /\
  (has_data s' = true -> now s - last_online s' <= c_stale c /\ status s' = Warning).
Proof.
  intros Hi Hf. destruct (do_query_fail c modes s Hf) as (s1 & Hfr & -> & Hinv). cbn zeta.
  destruct Hfr as (_ & _ & Hnow & _ & _ & Honl & _).
  split; [unfold set_next; cbn; exact Hnow|]. split; [reflexivity|]. split.
  - intros Hst. rewrite <- Hnow, <- Honl in Hst. destruct (set_next_stale c (srcs c) s1 Hst) as (A & B & _). auto.
  - intros Hd. pose proof (set_next_inv c (srcs c) s1 (Hinv Hi)) as Hi'. inv_parts Hi'.
    destruct (HData Hd) as [Hb _]. assert (Hlf : last_fail (set_next c (srcs c) s1) = now s1) by reflexivity.
    assert (Hlo : last_online (set_next c (srcs c) s1) = last_online s1) by reflexivity.
    split; [lia|].
    destruct (status (set_next c (srcs c) s1)) eqn:Hst; try reflexivity.
    + destruct (HUp eq_refl) as (_ & He & _). unfold set_next in He; cbn in He. discriminate.
    + destruct (HDown eq_refl) as (He & _). congruence.
    + destruct (HPend eq_refl) as (He & _). congruence.
    + contradiction.
Qed.

(** *** recovery *)

Lemma do_query_ok_addr c modes s :
  snd (do_query c modes s) = true -> mode_of modes (addr (fst (do_query c modes s))) = MOk.
Proof.
  unfold do_query, get_conn.
  assert (Htry : forall n L s0, match snd (try_conn c n L modes s0) with
                               | Some a => a = addr (fst (try_conn c n L modes s0)) | None => True end).
  { induction n as [|n IH]; intros L s0; [exact I|]. cbn [try_conn].
    destruct (mode_of modes (addr s0)) eqn:Hm; cbn [fst snd]; try reflexivity. apply IH. }
  pose proof (Htry (c_nsrc c) (srcs c) s) as H1.
  destruct (try_conn c (c_nsrc c) (srcs c) modes s) as [s1 [a|]]; cbn [fst snd] in *.
  - subst a. destruct (mode_of modes (addr s1)) eqn:Hm; cbn [fst snd]; intros H; try discriminate. exact Hm.
  - destruct (c_nfb c) eqn:Hn; cbn [fst snd]; [discriminate|]. rewrite <- Hn.
    pose proof (Htry (c_nfb c) (fbs c) (set_addr 0 (c_nsrc c) s1)) as H2.
    destruct (try_conn c (c_nfb c) (fbs c) modes (set_addr 0 (c_nsrc c) s1)) as [s2 [a|]]; cbn [fst snd] in *.
    + subst a. destruct (mode_of modes (addr s2)) eqn:Hm; cbn [fst snd]; intros H; try discriminate. exact Hm.
    + discriminate.
Qed.

(** with the current address answering, a query succeeds without any side effect *)
Lemma do_query_ok_again c modes s :
  (0 < c_nsrc c)%nat -> mode_of modes (addr s) = MOk ->
  do_query c modes s = (note_attempt (addr s) s, true).
Proof.
  intros Hn Hm. unfold do_query, get_conn. destruct (c_nsrc c) as [|n]; [lia|].
  cbn [try_conn]. rewrite Hm. cbn. rewrite Hm. reflexivity.
Qed.

Lemma init_all_recovers c modes s :
  env_ready s = true ->
  snd (do_query c modes (set_last_update (now s) s)) = true ->
  snd (init_all c modes s) = true.
Proof.
  intros Hr. unfold init_all.
  pose proof (do_query_frame c modes (set_last_update (now s) s)) as Hfr.
  destruct (do_query c modes (set_last_update (now s) s)) as [s1 ok]. cbn [fst snd] in *. intros ->.
  assert (Hr1 : env_ready s1 = true).
  { unfold frame in Hfr. decompose [and] Hfr. cbn in *. congruence. }
  rewrite Hr1. reflexivity.
Qed.

(** a due periodicUpdate whose first query is answered brings the peer up with
    fresh data and a cleared error *)
Lemma periodic_recovery c modes s :
  (0 < c_nsrc c)%nat -> 0 <= c_stale c -> c_fixed c = true -> inv c s -> env_ready s = true ->
  let s1 := update_idle c s in
  last_update s + (if idling s1 then c_idle_int c else c_upd c) <= now s ->
  snd (do_query c modes (set_last_update (now s) s1)) = true ->
  synced (periodic c modes false s).
Proof.
  intros Hn Hs Hf Hi Hrd s1 Hdue Hok. unfold periodic. fold s1.
  rewrite andb_false_r. cbn [andb negb].
  assert (Hnow : now s1 = now s) by (unfold s1, update_idle; destruct (_ && _); reflexivity).
  rewrite Hnow. destruct (now s <? last_update s + _) eqn:Hlt; [apply Z.ltb_lt in Hlt; lia|].
  set (s2 := set_last_update (now s) s1) in *.
  assert (Hi2 : inv c s2) by (apply update_idle_inv; exact Hi).
  assert (Hrd2 : env_ready s2 = true) by (unfold s2, s1, update_idle; destruct (_ && _); exact Hrd).
  assert (Hinit : synced (fst (init_all c modes s2))).
  { apply init_all_inv; [assumption|assumption|]. apply init_all_recovers; [exact Hrd2|].
    replace (set_last_update (now s2) s2) with s2; [exact Hok|]. unfold s2, set_last_update; cbn. rewrite Hnow. reflexivity. }
  assert (Hdelta : synced (after_update c modes (update_delta c modes s2))).
  { unfold after_update. destruct (update_delta_inv c modes s2 Hs Hf Hi2) as [Hi3 Hsy].
    unfold update_delta in *. pose proof (do_query_ok_addr c modes s2 Hok) as Haddr.
    pose proof (do_query_inv c modes s2 Hi2) as Hi4.
    pose proof (do_query_frame c modes s2) as Hfr3.
    destruct (do_query c modes s2) as [s3 ok] eqn:Hq. cbn [fst snd] in *. subst ok.
    assert (Hrd3 : env_ready s3 = true) by (unfold frame in Hfr3; decompose [and] Hfr3; congruence).
    assert (Hre : synced (fst (init_all c modes s3))).
    { apply init_all_inv; [assumption|assumption|]. apply init_all_recovers; [exact Hrd3|].
      assert (Hm : mode_of modes (addr (set_last_update (now s3) s3)) = MOk) by exact Haddr.
      rewrite (do_query_ok_again c modes _ Hn Hm). reflexivity. }
    rewrite Hrd3 in *. cbn [negb] in *.
    destruct (negb (Nat.eqb (core_seen s3) (env_core s3))); cbn [fst snd] in *; [exact Hre|].
    rewrite Hf in *. cbn [andb] in *. destruct (has_data s3) eqn:Hd; cbn [negb fst snd] in *.
    - apply Hsy; reflexivity.
    - exact Hre. }
  destruct (status s); destruct (has_data s); assumption.
Qed.

(** *** idle mode *)

Lemma update_idle_now c s : now (update_idle c s) = now s /\ last_update (update_idle c s) = last_update s.
Proof. unfold update_idle. destruct (_ && _); split; reflexivity. Qed.

(** idle_rate: while idling nothing is fetched before the idle interval is over *)
Lemma periodic_idle_skip c modes m s :
  idling (update_idle c s) = true ->
  now s < last_update s + c_idle_int c ->
  periodic c modes m s = update_idle c s.
Proof.
  intros Hidl Hlt. unfold periodic. rewrite Hidl. cbn [negb andb].
  destruct (update_idle_now c s) as [-> _]. apply Z.ltb_lt in Hlt. rewrite Hlt. reflexivity.
Qed.

(** ... and a peer only becomes idle when nobody asked for the idle timeout *)
Lemma idle_requires_silence c s :
  idling (update_idle c s) = true -> idling s = false ->
  (last_query s = 0 /\ main_restart s < now s - c_idle_timeout c) \/
  (0 < last_query s /\ last_query s < now s - c_idle_timeout c).
Proof.
  unfold update_idle. intros H Hn. rewrite Hn in H. cbn [negb andb] in H.
  destruct (((last_query s =? 0) && (main_restart s <? now s - c_idle_timeout c))
            || ((0 <? last_query s) && (last_query s <? now s - c_idle_timeout c))) eqn:Hsh.
  - apply orb_true_iff in Hsh as [Hsh|Hsh]; apply andb_true_iff in Hsh as [A B]; [left|right].
    + apply Z.eqb_eq in A. apply Z.ltb_lt in B. auto.
    + apply Z.ltb_lt in A. apply Z.ltb_lt in B. auto.
  - rewrite Hn in H. discriminate.
Qed.

Lemma update_delta_frame_idle c modes s :
  idling (fst (update_delta c modes s)) = idling s /\ now (fst (update_delta c modes s)) = now s /\
  last_query (fst (update_delta c modes s)) = last_query s.
Proof.
  unfold update_delta. pose proof (do_query_frame c modes s) as (A & B & C & _).
  destruct (do_query c modes s) as [s1 ok]. cbn [fst] in *.
  destruct ok; [|auto]. destruct (negb (env_ready s1)); [cbn; auto|].
  destruct (negb (Nat.eqb (core_seen s1) (env_core s1))); [cbn; auto|].
  destruct (c_fixed c && negb (has_data s1)); cbn; auto.
Qed.

Lemma resume_frame c modes s :
  idling (resume c modes s) = false /\ now (resume c modes s) = now s /\
  last_query (resume c modes s) = last_query s.
Proof.
  unfold resume.
  assert (Hdef : forall t, idling (set_last_update t (set_idling false s)) = false /\
                           now (set_last_update t (set_idling false s)) = now s /\
                           last_query (set_last_update t (set_idling false s)) = last_query s)
    by (intros t; repeat split; reflexivity).
  destruct (status s); try apply Hdef.
  destruct (has_data s); [|apply Hdef].
  pose proof (do_query_frame c modes (set_idling false s)) as (A & B & C & _).
  destruct (do_query c modes (set_idling false s)) as [s1 ok]. cbn [fst] in *.
  cbn [idling last_query now set_idling] in A, B, C.
  destruct ok.
  - pose proof (update_delta_frame_idle c modes s1) as (A' & C' & B').
    repeat split; congruence.
  - repeat split; congruence.
Qed.

(** first_query_refreshes: a query for an idling peer ends idle mode before it
    is answered ... *)
Lemma client_query_wakes c modes s :
  idling s = true ->
  let s' := client_query c modes s in
  idling s' = false /\ last_query s' = now s /\ now s' = now s.
Proof.
  intros Hidl. unfold client_query. rewrite Hidl.
  destruct (resume_frame c modes (set_last_query (now s) s)) as (A & B & C).
  cbn zeta. unfold set_last_query at 1; cbn [idling last_query now]. rewrite A, B. auto.
Qed.

(** ... a peer that is up is refreshed first (fresh data when the backend answers) ... *)
Lemma client_query_refreshes c modes s :
  0 <= c_stale c -> c_fixed c = true -> inv c s ->
  idling s = true -> status s = Up -> has_data s = true ->
  let q := set_idling false (set_last_query (now s) s) in
  snd (do_query c modes q) = true ->
  snd (update_delta c modes (fst (do_query c modes q))) = UOk ->
  synced (client_query c modes s).
Proof.
  intros Hs Hf Hi Hidl Hst Hd q Hok Huok. unfold client_query. rewrite Hidl. unfold resume.
  cbn [status has_data set_last_query]. rewrite Hst, Hd. fold q.
  assert (Hi1 : inv c (fst (do_query c modes q))) by (apply do_query_inv; exact Hi).
  destruct (do_query c modes q) as [s1 ok]. cbn [fst snd] in *. subst ok.
  destruct (update_delta_inv c modes s1 Hs Hf Hi1) as [_ Hsy]. specialize (Hsy Huok).
  unfold synced in *. cbn. exact Hsy.
Qed.

(** ... otherwise the next periodicUpdate is due at once. *)
Lemma client_query_schedules c modes s :
  idling s = true -> status s <> Up \/ has_data s = false ->
  last_update (client_query c modes s) = now s - c_upd c.
Proof.
  intros Hidl H. unfold client_query. rewrite Hidl. unfold resume. cbn [status has_data set_last_query].
  destruct (status s) eqn:Hst; try reflexivity.
  destruct H as [H|H]; [contradiction|]. rewrite H. reflexivity.
Qed.

(** *** source rotation *)

Definition rotate {A} (k : nat) (l : list A) : list A := skipn k l ++ firstn k l.

Lemma skipn_nth_cons {A} (l : list A) : forall k d,
  (k < length l)%nat -> skipn k l = nth k l d :: skipn (S k) l.
Proof.
  induction l as [|x l IH]; intros k d H; cbn [length] in H; [lia|].
  destruct k as [|k]; [reflexivity|]. cbn [nth].
  change (skipn (S k) (x :: l)) with (skipn k l).
  change (skipn (S (S k)) (x :: l)) with (skipn (S k) l).
  apply IH. lia.
Qed.

Lemma firstn_S_nth {A} (l : list A) : forall k d,
  (k < length l)%nat -> firstn (S k) l = firstn k l ++ [nth k l d].
Proof.
  induction l as [|x l IH]; intros k d H; cbn [length] in H; [lia|].
  destruct k as [|k]; [reflexivity|]. cbn [nth].
  change (firstn (S (S k)) (x :: l)) with (x :: firstn (S k) l).
  change (firstn (S k) (x :: l)) with (x :: firstn k l).
  rewrite (IH k d) by lia. reflexivity.
Qed.

Lemma firstn_app_l {A} (x y : list A) n : (n <= length x)%nat -> firstn n (x ++ y) = firstn n x.
Proof.
  intros H. rewrite firstn_app. replace (n - length x)%nat with 0%nat by lia. cbn [firstn]. apply app_nil_r.
Qed.

Lemma rotate_head {A} (l : list A) k d :
  (k < length l)%nat -> rotate k l = nth k l d :: (skipn (S k) l ++ firstn k l).
Proof. intros H. unfold rotate. rewrite (skipn_nth_cons l k d H). reflexivity. Qed.

Lemma rotate_next {A} (l : list A) k d :
  (k < length l)%nat ->
  rotate (S k mod length l) l = (skipn (S k) l ++ firstn k l) ++ [nth k l d].
Proof.
  intros H. unfold rotate. destruct (Nat.ltb_spec (S k) (length l)) as [Hlt|Hge].
  - rewrite (Nat.mod_small _ _ Hlt). rewrite (firstn_S_nth l k d H), app_assoc. reflexivity.
  - assert (Heq : S k = length l) by lia. rewrite Heq, Nat.mod_same by lia.
    rewrite skipn_all. cbn [skipn firstn app]. rewrite app_nil_r.
    rewrite <- (firstn_all l) at 1. rewrite <- Heq. apply firstn_S_nth. exact H.
Qed.

Lemma set_next_rotates c L s :
  (cur s < length L)%nat ->
  cur (set_next c L s) = (S (cur s) mod length L)%nat /\
  addr (set_next c L s) = nth (cur (set_next c L s)) L 0%nat.
Proof.
  intros Hlt. unfold set_next; cbn [cur addr]. split; [|reflexivity].
  destruct (Nat.ltb_spec (S (cur s)) (length L)) as [H|H].
  - symmetry. apply Nat.mod_small. exact H.
  - assert (S (cur s) = length L) as -> by lia. symmetry. apply Nat.mod_same. lia.
Qed.

(** when every address of the list refuses, they are dialled one after the
    other, round robin, starting with the active one *)
Lemma try_conn_round_robin c modes L : forall n s,
  (forall a, In a L -> mode_of modes a = MRefuse) ->
  (cur s < length L)%nat -> addr s = nth (cur s) L 0%nat ->
  (n <= length L)%nat ->
  snd (try_conn c n L modes s) = None /\
  attempts (fst (try_conn c n L modes s)) = rev (firstn n (rotate (cur s) L)) ++ attempts s.
Proof.
  induction n as [|n IH]; intros s Hall Hcur Haddr Hn; [split; reflexivity|].
  cbn [try_conn].
  assert (Hin : In (nth (cur s) L 0%nat) L) by (apply nth_In; exact Hcur).
  assert (Hm : mode_of modes (addr s) = MRefuse) by (rewrite Haddr; apply Hall; exact Hin).
  rewrite Hm.
  set (s1 := set_next c L (note_attempt (addr s) s)).
  destruct (set_next_rotates c L (note_attempt (addr s) s) Hcur) as [Hc1 Ha1]. fold s1 in Hc1, Ha1.
  cbn [cur note_attempt] in Hc1.
  assert (Hlt1 : (cur s1 < length L)%nat) by (rewrite Hc1; apply Nat.mod_upper_bound; lia).
  destruct (IH s1 Hall Hlt1 Ha1 ltac:(lia)) as [Hnone Hatt]. split; [exact Hnone|].
  rewrite Hatt. assert (Hs1a : attempts s1 = addr s :: attempts s) by reflexivity. rewrite Hs1a, Haddr.
  assert (Hrot : firstn (S n) (rotate (cur s) L) = nth (cur s) L 0%nat :: firstn n (rotate (cur s1) L)).
  { rewrite Hc1, (rotate_head L (cur s) 0%nat Hcur), (rotate_next L (cur s) 0%nat Hcur). cbn [firstn]. f_equal.
    symmetry. apply firstn_app_l. rewrite app_length, skipn_length, firstn_length. lia. }
  rewrite Hrot. cbn [rev]. rewrite <- app_assoc. reflexivity.
Qed.

Lemma srcs_length c : length (srcs c) = c_nsrc c.
Proof. apply seq_length. Qed.

Lemma fbs_length c : length (fbs c) = c_nfb c.
Proof. apply seq_length. Qed.

Lemma rotate_full {A} (l : list A) k : firstn (length l) (rotate k l) = rotate k l.
Proof.
  apply firstn_all2. unfold rotate. rewrite app_length, skipn_length, firstn_length. lia.
Qed.

(** all addresses refuse: the sources are dialled round robin from the active
    one, then the fallbacks in their order *)
Lemma get_conn_all_refused c modes s :
  (forall a, mode_of modes a = MRefuse) ->
  (cur s < c_nsrc c)%nat -> addr s = nth (cur s) (srcs c) 0%nat ->
  snd (get_conn c modes s) = None /\
  attempts (fst (get_conn c modes s)) = rev (fbs c) ++ rev (rotate (cur s) (srcs c)) ++ attempts s.
Proof.
  intros Hall Hcur Haddr. unfold get_conn.
  destruct (try_conn_round_robin c modes (srcs c) (c_nsrc c) s (fun a _ => Hall a)) as [Hn Ha];
    try (rewrite srcs_length); auto.
  rewrite <- (srcs_length c) in Ha at 2. rewrite rotate_full in Ha.
  destruct (try_conn c (c_nsrc c) (srcs c) modes s) as [s1 r]. cbn [fst snd] in *. subst r.
  destruct (c_nfb c) eqn:Hnfb.
  - cbn [fst snd]. split; [reflexivity|]. unfold fbs. rewrite Hnfb. cbn. exact Ha.
  - rewrite <- Hnfb.
    destruct (try_conn_round_robin c modes (fbs c) (c_nfb c) (set_addr 0 (c_nsrc c) s1) (fun a _ => Hall a)) as [Hn2 Ha2].
    + rewrite fbs_length. cbn [cur set_addr]. lia.
    + cbn [cur addr set_addr]. unfold fbs. rewrite Hnfb. reflexivity.
    + rewrite fbs_length. lia.
    + split; [exact Hn2|]. rewrite Ha2. cbn [cur set_addr attempts].
      rewrite <- (fbs_length c) at 1. rewrite rotate_full. unfold rotate. cbn [skipn firstn]. rewrite app_nil_r, Ha.
      reflexivity.
Qed.

(** *** the statements of Props.v *)

Definition hist_ok (c : cfg) (evs : list event) : Prop :=
  0 <= c_stale c /\ c_fixed c = true /\ Forall event_ok evs.

Lemma thm_up_only_after_sync c modes evs :
  hist_ok c evs ->
  let s := snd (run c modes evs) in
  status s = Up ->
  has_data s = true /\ lasterr s = ENone /\ err_count s = 0 /\
  last_online s = last_sync s /\ t0 <= last_sync s /\ last_fail s <= last_sync s.
Proof.
  intros (Hs & Hf & Hev) s Hup. pose proof (run_inv c modes evs Hs Hf Hev) as H. fold s in H. inv_parts H.
  destruct (HUp Hup) as (A & B & C & D). destruct (HData A) as [_ E]. repeat split; try assumption. lia.
Qed.

Lemma thm_warning_keeps_data c modes evs :
  hist_ok c evs ->
  let s := snd (run c modes evs) in
  status s = Warning ->
  has_data s = true /\ lasterr s = EFail /\ last_fail s - last_online s <= c_stale c.
Proof.
  intros (Hs & Hf & Hev) s Hw. pose proof (run_inv c modes evs Hs Hf Hev) as H. fold s in H. inv_parts H.
  destruct (HWarn Hw) as (A & B). destruct (HData A) as [E _]. auto.
Qed.

Lemma thm_bounded_staleness c modes evs :
  hist_ok c evs ->
  let s := snd (run c modes evs) in
  has_data s = true -> last_fail s - last_online s <= c_stale c /\ last_online s = last_sync s.
Proof.
  intros (Hs & Hf & Hev) s Hd. pose proof (run_inv c modes evs Hs Hf Hev) as H. fold s in H. inv_parts H.
  destruct (HData Hd) as [E _]. auto.
Qed.

Lemma thm_down_lists_failed c modes evs :
  hist_ok c evs ->
  let s := snd (run c modes evs) in
  (status s = Down -> o_failed (observe s) = true /\ o_err (observe s) = true) /\
  (o_failed (observe s) = false -> status s = Up \/ status s = Warning).
Proof.
  intros (Hs & Hf & Hev) s. pose proof (run_inv c modes evs Hs Hf Hev) as H. fold s in H. inv_parts H.
  unfold observe; cbn [o_failed o_err]. split.
  - intros Hd. destruct (HDown Hd) as [A B]. rewrite A. split; [reflexivity|].
    destruct (lasterr s); try reflexivity. contradiction.
  - intros Hnf. apply negb_false_iff in Hnf. destruct (status s) eqn:Hst; auto.
    + destruct (HDown eq_refl); congruence.
    + destruct (HPend eq_refl); congruence.
    + contradiction.
Qed.

Lemma thm_failure_step c modes evs :
  hist_ok c evs ->
  let s := snd (run c modes evs) in
  let modes' := fst (run c modes evs) in
  snd (do_query c modes' s) = false ->
  let s' := fst (do_query c modes' s) in
  last_fail s' = now s /\ lasterr s' = EFail /\
  (last_online s < now s - c_stale c -> status s' = Down /\ has_data s' = false) /\
  (has_data s' = true -> now s - last_online s' <= c_stale c /\ status s' = Warning).
Proof.
  intros (Hs & Hf & Hev) s modes' Hfail. apply failure_is_bounded; [|exact Hfail].
  apply run_inv; assumption.
Qed.

Lemma thm_recovery_clears c modes evs :
  hist_ok c evs -> (0 < c_nsrc c)%nat ->
  let s := snd (run c modes evs) in
  let modes' := fst (run c modes evs) in
  let s1 := update_idle c s in
  env_ready s = true ->
  last_update s + (if idling s1 then c_idle_int c else c_upd c) <= now s ->
  snd (do_query c modes' (set_last_update (now s) s1)) = true ->
  synced (periodic c modes' false s).
Proof.
  intros (Hs & Hf & Hev) Hn s modes' s1 Hrd Hdue Hok. apply periodic_recovery; try assumption.
  apply run_inv; assumption.
Qed.

(** the pinned code: up without data (and then up with an error) *)
Definition witness_cfg : cfg := mkCfg 10000 120000 3000 40000 2 0 false.
Definition witness_events : list event :=
  [EInit; EPass 11100; ESetMode 0 MRefuse; ETick false; ESetMode 1 MRefuse; EPass 3100; ETick false].

Lemma thm_pinned_refuted :
  let s1 := snd (run witness_cfg [MOk; MOk] (firstn 4 witness_events)) in
  let s2 := snd (run witness_cfg [MOk; MOk] witness_events) in
  (status s1 = Up /\ has_data s1 = false /\ lasterr s1 = ENone) /\
  (status s2 = Up /\ has_data s2 = false /\ lasterr s2 = EFail).
Proof. vm_compute. repeat split. Qed.
