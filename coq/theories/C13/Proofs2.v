(** Proofs about the core instance behind the backend (C13): a restart of the
    core while the backend stays reachable, the re-synchronisation that is
    entered from up, and "a successful contact of any kind ends up". *)
From LMD Require Import C13.Model C13.Proofs.
From Coq Require Import Arith Lia ZArith.

(** the cached objects are the complete object set of the running instance *)
Definition current (s : st) : Prop := core_seen s = env_core s /\ dset_seen s = env_dset s.

(** holds for every history, pinned or repaired code, any configuration *)
Definition inv2 (s : st) : Prop :=
  (core_seen s <= env_core s)%nat /\
  (core_seen s = env_core s -> dset_seen s = env_dset s) /\
  (has_data s = true -> (1 <= core_seen s)%nat) /\
  (1 <= env_core s)%nat /\
  lasterr s <> EReconnecting.

Ltac inv2_parts H := destruct H as (HLe & HCur & HSeen & HEnv & HRec).

Lemma inv2_init : inv2 init_st.
Proof. unfold inv2, init_st; cbn. repeat split; intros; try discriminate; try lia. Qed.

Lemma set_next_inv2 c L s : inv2 s -> inv2 (set_next c L s).
Proof.
  intros H. inv2_parts H. unfold inv2, set_next; cbn.
  repeat split; try assumption; try discriminate.
  intros Hd. apply HSeen. destruct (_ || _); [discriminate|exact Hd].
Qed.

Lemma try_conn_inv2 c n L modes : forall s, inv2 s -> inv2 (fst (try_conn c n L modes s)).
Proof.
  induction n as [|n IH]; intros s H; [exact H|].
  cbn [try_conn]. destruct (mode_of modes (addr s)); cbn [fst]; try exact H.
  apply IH. apply set_next_inv2. exact H.
Qed.

Lemma get_conn_inv2 c modes s : inv2 s -> inv2 (fst (get_conn c modes s)).
Proof.
  intros H. unfold get_conn.
  pose proof (try_conn_inv2 c (c_nsrc c) (srcs c) modes s H) as H1.
  destruct (try_conn c (c_nsrc c) (srcs c) modes s) as [s1 [a|]]; cbn [fst] in *; [exact H1|].
  destruct (c_nfb c) eqn:Hn; cbn [fst]; [exact H1|].
  rewrite <- Hn. apply try_conn_inv2. exact H1.
Qed.

Lemma do_query_inv2 c modes s : inv2 s -> inv2 (fst (do_query c modes s)).
Proof.
  intros H. unfold do_query. pose proof (get_conn_inv2 c modes s H) as H1.
  destruct (get_conn c modes s) as [s1 [a|]]; cbn [fst] in *.
  - destruct (mode_of modes a); cbn [fst]; try exact H1; apply set_next_inv2; exact H1.
  - apply set_next_inv2; exact H1.
Qed.

Lemma reset_inv2 s : inv2 s -> inv2 (reset_errors s).
Proof. intros H. inv2_parts H. unfold inv2, reset_errors; cbn. repeat split; try assumption; discriminate. Qed.

Lemma reset_current s : current s -> current (reset_errors s).
Proof. intros H. exact H. Qed.

Lemma not_ready_inv2 s : inv2 s -> inv2 (not_ready s).
Proof. intros H. inv2_parts H. unfold inv2, not_ready; cbn. repeat split; try assumption; try discriminate. Qed.

(** a full synchronisation that succeeds - from whatever state it was entered,
    up included - stores the complete object set of the running instance *)
Lemma init_all_inv2 c modes s :
  inv2 s ->
  inv2 (fst (init_all c modes s)) /\
  (snd (init_all c modes s) = true -> current (fst (init_all c modes s))).
Proof.
  intros H. unfold init_all.
  pose proof (do_query_inv2 c modes (set_last_update (now s) s) H) as H1.
  destruct (do_query c modes (set_last_update (now s) s)) as [s1 ok].
  destruct ok; cbn [fst snd]; [|split; [exact H1|discriminate]].
  destruct (env_ready s1); cbn [fst snd]; [|split; [apply not_ready_inv2; exact H1|discriminate]].
  inv2_parts H1. unfold inv2, current, reset_errors, store_data, mark_syncing.
  destruct (status s1); cbn; repeat split; intros; try assumption; try discriminate; try lia.
Qed.

Lemma update_delta_inv2 c modes s :
  inv2 s ->
  inv2 (fst (update_delta c modes s)) /\
  (snd (update_delta c modes s) = UOk -> current (fst (update_delta c modes s))).
Proof.
  intros H. unfold update_delta.
  pose proof (do_query_inv2 c modes s H) as H1.
  destruct (do_query c modes s) as [s1 ok].
  destruct ok; cbn [fst snd]; [|split; [exact H1|discriminate]].
  destruct (negb (env_ready s1)); cbn [fst snd]; [split; [exact H1|discriminate]|].
  destruct (Nat.eqb (core_seen s1) (env_core s1)) eqn:He; cbn [negb fst snd]; [|split; [exact H1|discriminate]].
  apply Nat.eqb_eq in He.
  destruct (c_fixed c && negb (has_data s1)); cbn [fst snd]; [split; [exact H1|discriminate]|].
  split.
  - apply (reset_inv2 s1). exact H1.
  - intros _. inv2_parts H1. unfold current; cbn. split; [exact He|exact (HCur He)].
Qed.

Lemma after_update_inv2 c modes r : inv2 (fst r) -> inv2 (after_update c modes r).
Proof.
  intros H. unfold after_update. destruct (snd r); try exact H.
  apply init_all_inv2. exact H.
Qed.

Lemma update_idle_inv2 c s : inv2 s -> inv2 (update_idle c s).
Proof. intros H. unfold update_idle. destruct (_ && _); exact H. Qed.

Lemma periodic_inv2 c modes m s : inv2 s -> inv2 (periodic c modes m s).
Proof.
  intros H. unfold periodic.
  pose proof (update_idle_inv2 c s H) as H0.
  set (s1 := update_idle c s) in *.
  destruct (negb (idling s1) && m && has_data s).
  - pose proof (do_query_inv2 c modes s1 H0) as H1.
    destruct (do_query c modes s1) as [s2 cont]. cbn [fst] in H1.
    destruct cont; cbn [negb]; [|exact H1].
    destruct (now s2 <? last_update s + _)%Z; [exact H1|].
    destruct (status s); destruct (has_data s);
      try (apply init_all_inv2; exact H1);
      try (apply after_update_inv2; apply update_delta_inv2; exact H1).
  - cbn [negb]. destruct (now s1 <? last_update s + _)%Z; [exact H0|].
    destruct (status s); destruct (has_data s);
      try (apply init_all_inv2; exact H0);
      try (apply after_update_inv2; apply update_delta_inv2; exact H0).
Qed.

Lemma resume_inv2 c modes s : inv2 s -> inv2 (resume c modes s).
Proof.
  intros H. unfold resume.
  assert (Hi : inv2 (set_idling false s)) by exact H.
  destruct (status s); try exact H.
  destruct (has_data s); [|exact H].
  pose proof (do_query_inv2 c modes (set_idling false s) Hi) as H1.
  destruct (do_query c modes (set_idling false s)) as [s1 ok]. cbn [fst] in H1.
  destruct ok; [|exact H1]. apply update_delta_inv2; exact H1.
Qed.

Lemma client_query_inv2 c modes s : inv2 s -> inv2 (client_query c modes s).
Proof.
  intros H. unfold client_query.
  destruct (idling s); [|exact H].
  assert (Hq : inv2 (set_last_query (now s) s)) by exact H.
  pose proof (resume_inv2 c modes _ Hq) as H1. exact H1.
Qed.

Lemma pass_inv2 d s : inv2 s -> inv2 (pass d s).
Proof. intros H. exact H. Qed.

(** a restart of the core makes every cached object set one of an older instance *)
Lemma restart_inv2 ch s : inv2 s -> inv2 (restart ch s).
Proof.
  intros H. inv2_parts H. unfold inv2, restart; cbn.
  repeat split; intros; try assumption; try lia; auto.
Qed.

Lemma restart_not_current ch s : inv2 s -> core_seen (restart ch s) <> env_core (restart ch s).
Proof. intros H. inv2_parts H. unfold restart; cbn. lia. Qed.

Lemma step_inv2 c ms e : inv2 (snd ms) -> inv2 (snd (step c ms e)).
Proof.
  intros H. destruct ms as [modes s]. cbn [snd] in H. destruct e; cbn [step snd].
  - apply init_all_inv2; exact H.
  - exact H.
  - apply periodic_inv2; exact H.
  - apply pass_inv2; exact H.
  - apply client_query_inv2; exact H.
  - apply restart_inv2; exact H.
  - exact H.
Qed.

Lemma run_inv2 c modes evs : inv2 (snd (run c modes evs)).
Proof.
  unfold run.
  assert (Hgen : forall ms, inv2 (snd ms) -> inv2 (snd (fold_left (step c) evs ms))).
  { induction evs as [|e evs IH]; intros ms H; [exact H|].
    cbn [fold_left]. apply IH. apply step_inv2; exact H. }
  apply Hgen. cbn [snd]. exact inv2_init.
Qed.

(** *** the environment is only changed by the environment *)

Definition env_same (s s' : st) : Prop :=
  env_core s' = env_core s /\ env_dset s' = env_dset s /\ env_ready s' = env_ready s.

Lemma frame_env s s' : frame s s' -> env_same s s'.
Proof. unfold frame, env_same. intros H. decompose [and] H. repeat split; assumption. Qed.

Lemma env_same_trans a b c' : env_same a b -> env_same b c' -> env_same a c'.
Proof. unfold env_same. intros (A & B & E) (C & D & F). repeat split; congruence. Qed.

Lemma init_all_env c modes s : env_same s (fst (init_all c modes s)).
Proof.
  unfold init_all. pose proof (frame_env _ _ (do_query_frame c modes (set_last_update (now s) s))) as H1.
  destruct (do_query c modes (set_last_update (now s) s)) as [s1 ok]. cbn [fst] in H1.
  destruct ok; cbn [fst]; [|exact H1].
  destruct (env_ready s1) eqn:Hr; cbn [fst]; [|exact H1].
  unfold env_same in *. unfold reset_errors, store_data, mark_syncing. destruct (status s1); cbn; exact H1.
Qed.

Lemma update_delta_env c modes s : env_same s (fst (update_delta c modes s)).
Proof.
  unfold update_delta. pose proof (frame_env _ _ (do_query_frame c modes s)) as H1.
  destruct (do_query c modes s) as [s1 ok]. cbn [fst] in H1.
  destruct ok; cbn [fst]; [|exact H1].
  destruct (negb (env_ready s1)); [exact H1|].
  destruct (negb (Nat.eqb (core_seen s1) (env_core s1))); [exact H1|].
  destruct (c_fixed c && negb (has_data s1)); exact H1.
Qed.

Lemma after_update_env c modes r : env_same (fst r) (after_update c modes r).
Proof.
  unfold after_update. destruct (snd r); try (repeat split; reflexivity). apply init_all_env.
Qed.

Lemma periodic_env c modes m s : env_same s (periodic c modes m s).
Proof.
  unfold periodic.
  assert (H0 : env_same s (update_idle c s)) by (unfold update_idle; destruct (_ && _); repeat split; reflexivity).
  set (s1 := update_idle c s) in *.
  assert (Hlu : forall x, env_same s x -> env_same s (set_last_update (now x) x)) by (intros x Hx; exact Hx).
  destruct (negb (idling s1) && m && has_data s).
  - pose proof (frame_env _ _ (do_query_frame c modes s1)) as H1.
    destruct (do_query c modes s1) as [s2 cont]. cbn [fst] in H1.
    pose proof (env_same_trans _ _ _ H0 H1) as H2.
    destruct cont; cbn [negb]; [|exact H2].
    destruct (now s2 <? last_update s + _)%Z; [exact H2|].
    destruct (status s); destruct (has_data s);
      try (eapply env_same_trans; [apply (Hlu s2 H2)|apply init_all_env]);
      try (eapply env_same_trans; [apply (Hlu s2 H2)|]; eapply env_same_trans; [apply update_delta_env|apply after_update_env]).
  - cbn [negb]. destruct (now s1 <? last_update s + _)%Z; [exact H0|].
    destruct (status s); destruct (has_data s);
      try (eapply env_same_trans; [apply (Hlu s1 H0)|apply init_all_env]);
      try (eapply env_same_trans; [apply (Hlu s1 H0)|]; eapply env_same_trans; [apply update_delta_env|apply after_update_env]).
Qed.

(** *** a successful contact of any kind ends up, error cleared, current objects *)

(** the update of one tick whose first query is answered: a delta update, or -
    the status row is from another instance / the cache was dropped - the full
    re-synchronisation that updateLoop runs at once *)
Lemma contact_synced c modes s :
  (0 < c_nsrc c)%nat -> (0 <= c_stale c)%Z -> c_fixed c = true -> inv c s -> inv2 s ->
  env_ready s = true ->
  snd (do_query c modes s) = true ->
  let s' := after_update c modes (update_delta c modes s) in
  synced s' /\ current s'.
Proof.
  intros Hn Hs Hf Hi Hi2 Hrd Hok. cbn zeta. unfold after_update.
  destruct (update_delta_inv c modes s Hs Hf Hi) as [_ Hsy].
  destruct (update_delta_inv2 c modes s Hi2) as [_ Hcu].
  unfold update_delta in *. pose proof (do_query_ok_addr c modes s Hok) as Haddr.
  pose proof (do_query_inv c modes s Hi) as Hi3. pose proof (do_query_inv2 c modes s Hi2) as Hi4.
  pose proof (frame_env _ _ (do_query_frame c modes s)) as (_ & _ & Hfr).
  destruct (do_query c modes s) as [s3 ok] eqn:Hq. cbn [fst snd] in *. subst ok.
  assert (Hrd3 : env_ready s3 = true) by congruence.
  assert (Hre : synced (fst (init_all c modes s3)) /\ current (fst (init_all c modes s3))).
  { assert (Hin : snd (init_all c modes s3) = true).
    { apply init_all_recovers; [exact Hrd3|].
      assert (Hm : mode_of modes (addr (set_last_update (now s3) s3)) = MOk) by exact Haddr.
      rewrite (do_query_ok_again c modes _ Hn Hm). reflexivity. }
    split; [apply init_all_inv; assumption|apply init_all_inv2; assumption]. }
  rewrite Hrd3 in *. cbn [negb] in *.
  destruct (negb (Nat.eqb (core_seen s3) (env_core s3))); cbn [fst snd] in *; [exact Hre|].
  rewrite Hf in *. cbn [andb] in *. destruct (has_data s3) eqn:Hd; cbn [negb fst snd] in *.
  - split; [apply Hsy; reflexivity|apply Hcu; reflexivity].
  - exact Hre.
Qed.

Lemma periodic_recovery_current c modes s :
  (0 < c_nsrc c)%nat -> (0 <= c_stale c)%Z -> c_fixed c = true -> inv c s -> inv2 s ->
  env_ready s = true ->
  let s1 := update_idle c s in
  (last_update s + (if idling s1 then c_idle_int c else c_upd c) <= now s)%Z ->
  snd (do_query c modes (set_last_update (now s) s1)) = true ->
  current (periodic c modes false s).
Proof.
  intros Hn Hs Hf Hi Hi2 Hrd s1 Hdue Hok. unfold periodic. fold s1.
  rewrite andb_false_r. cbn [andb negb].
  assert (Hnow : now s1 = now s) by (unfold s1, update_idle; destruct (_ && _); reflexivity).
  rewrite Hnow. destruct (now s <? last_update s + _)%Z eqn:Hlt; [apply Z.ltb_lt in Hlt; lia|].
  set (s2 := set_last_update (now s) s1) in *.
  assert (Hi3 : inv c s2) by (apply update_idle_inv; exact Hi).
  assert (Hi4 : inv2 s2) by (apply update_idle_inv2; exact Hi2).
  assert (Hrd2 : env_ready s2 = true) by (unfold s2, s1, update_idle; destruct (_ && _); exact Hrd).
  assert (Hinit : current (fst (init_all c modes s2))).
  { apply init_all_inv2; [assumption|]. apply init_all_recovers; [exact Hrd2|].
    replace (set_last_update (now s2) s2) with s2; [exact Hok|]. unfold s2, set_last_update; cbn. rewrite Hnow. reflexivity. }
  assert (Hdelta : current (after_update c modes (update_delta c modes s2))).
  { apply (contact_synced c modes s2); assumption. }
  destruct (status s); destruct (has_data s); assumption.
Qed.

(** *** statements of Props.v *)

Lemma thm_data_of_one_core c modes evs :
  let s := snd (run c modes evs) in
  (core_seen s <= env_core s)%nat /\ (1 <= env_core s)%nat /\
  (core_seen s = env_core s -> dset_seen s = env_dset s) /\
  (has_data s = true -> (1 <= o_core (observe s))%nat).
Proof.
  intros s. pose proof (run_inv2 c modes evs) as H. fold s in H. inv2_parts H.
  repeat split; try assumption. intros Hd. unfold observe; cbn [o_core]. rewrite Hd. apply HSeen. exact Hd.
Qed.

Lemma thm_never_left_syncing c modes evs :
  hist_ok c evs ->
  let s := snd (run c modes evs) in
  status s <> Syncing /\ lasterr s <> EReconnecting /\
  o_online (observe s) = negb (o_failed (observe s)) /\
  o_bygroup (observe s) = o_failed (observe s).
Proof.
  intros (Hs & Hf & Hev) s. pose proof (run_inv c modes evs Hs Hf Hev) as H. fold s in H. inv_parts H.
  pose proof (run_inv2 c modes evs) as H2. fold s in H2. inv2_parts H2.
  split; [exact HSync|]. split; [exact HRec|].
  unfold observe, is_online; cbn [o_online o_failed o_bygroup].
  destruct (status s) eqn:Hst.
  - destruct (HUp eq_refl) as (-> & _). split; reflexivity.
  - destruct (HWarn eq_refl) as (-> & _). split; reflexivity.
  - destruct (HDown eq_refl) as (-> & _). split; reflexivity.
  - destruct (HPend eq_refl) as (-> & _). split; reflexivity.
  - contradiction.
Qed.

Lemma thm_successful_contact c modes evs :
  hist_ok c evs -> (0 < c_nsrc c)%nat ->
  let s := snd (run c modes evs) in
  let modes' := fst (run c modes evs) in
  (snd (init_all c modes' s) = true ->
     synced (fst (init_all c modes' s)) /\ current (fst (init_all c modes' s))) /\
  (snd (update_delta c modes' s) = UOk ->
     synced (fst (update_delta c modes' s)) /\ current (fst (update_delta c modes' s))) /\
  (env_ready s = true -> snd (do_query c modes' s) = true ->
     synced (after_update c modes' (update_delta c modes' s)) /\
     current (after_update c modes' (update_delta c modes' s))).
Proof.
  intros (Hs & Hf & Hev) Hn s modes'.
  pose proof (run_inv c modes evs Hs Hf Hev) as Hi. fold s in Hi.
  pose proof (run_inv2 c modes evs) as Hi2. fold s in Hi2.
  split; [|split].
  - intros Hok. split; [apply init_all_inv; assumption|apply init_all_inv2; assumption].
  - intros Hok. split; [apply update_delta_inv; assumption|apply update_delta_inv2; assumption].
  - intros Hrd Hok. apply contact_synced; assumption.
Qed.

Lemma synced_observed s : synced s -> current s ->
  let o := observe s in
  o_status o = Up /\ o_err o = false /\ o_online o = true /\ o_failed o = false /\ o_bygroup o = false /\
  o_core o = env_core s /\ o_dset o = env_dset s.
Proof.
  intros (Hst & Hd & He & _) (Hc & Hds). unfold observe, is_online; cbn.
  rewrite Hst, Hd, He, Hc, Hds. cbn. repeat split; reflexivity.
Qed.

Lemma thm_recovery_is_current c modes evs :
  hist_ok c evs -> (0 < c_nsrc c)%nat ->
  let s := snd (run c modes evs) in
  let modes' := fst (run c modes evs) in
  let s1 := update_idle c s in
  env_ready s = true ->
  (last_update s + (if idling s1 then c_idle_int c else c_upd c) <= now s)%Z ->
  snd (do_query c modes' (set_last_update (now s) s1)) = true ->
  let o := observe (periodic c modes' false s) in
  o_status o = Up /\ o_err o = false /\ o_online o = true /\ o_failed o = false /\ o_bygroup o = false /\
  o_core o = env_core s /\ o_dset o = env_dset s.
Proof.
  intros (Hs & Hf & Hev) Hn s modes' s1 Hrd Hdue Hok.
  pose proof (run_inv c modes evs Hs Hf Hev) as Hi. fold s in Hi.
  pose proof (run_inv2 c modes evs) as Hi2. fold s in Hi2.
  pose proof (periodic_recovery c modes' s Hn Hs Hf Hi Hrd Hdue Hok) as Hsy.
  pose proof (periodic_recovery_current c modes' s Hn Hs Hf Hi Hi2 Hrd Hdue Hok) as Hcu.
  destruct (periodic_env c modes' false s) as (E1 & E2 & _).
  cbn zeta. rewrite <- E1, <- E2. apply synced_observed; assumption.
Qed.

(** the re-synchronisation after a restart of the core is entered from up:
    the history ends with the restart of the core behind an up backend *)
Lemma thm_resync_after_core_restart c modes evs ch :
  hist_ok c evs -> (0 < c_nsrc c)%nat ->
  let s0 := snd (run c modes evs) in
  let modes' := fst (run c modes evs) in
  status s0 = Up -> env_ready s0 = true ->
  let s := restart ch s0 in
  let s1 := update_idle c s in
  (last_update s + (if idling s1 then c_idle_int c else c_upd c) <= now s)%Z ->
  snd (do_query c modes' (set_last_update (now s) s1)) = true ->
  let o := observe (periodic c modes' false s) in
  o_core (observe s) <> env_core s /\
  o_status o = Up /\ o_err o = false /\ o_online o = true /\ o_failed o = false /\ o_bygroup o = false /\
  o_core o = env_core s /\ o_dset o = env_dset s.
Proof.
  intros Hh Hn s0 modes' Hup Hrd s s1 Hdue Hok.
  assert (Hev' : hist_ok c (evs ++ [ERestart ch])).
  { destruct Hh as (A & B & C). repeat split; try assumption. apply Forall_app. split; [exact C|]. constructor; [exact I|constructor]. }
  assert (Hrun : run c modes (evs ++ [ERestart ch]) = (modes', s)).
  { unfold run. rewrite fold_left_app. cbn [fold_left]. fold (run c modes evs).
    unfold modes', s, s0. destruct (run c modes evs) as [m x]. reflexivity. }
  split.
  - pose proof (run_inv2 c modes evs) as Hi2. fold s0 in Hi2.
    destruct Hh as (Hs & Hf & Hev). pose proof (run_inv c modes evs Hs Hf Hev) as Hi. fold s0 in Hi. inv_parts Hi.
    destruct (HUp Hup) as (Hd & _).
    unfold observe; cbn [o_core]. assert (Hd' : has_data s = true) by exact Hd. rewrite Hd'.
    apply restart_not_current. exact Hi2.
  - pose proof (thm_recovery_is_current c modes (evs ++ [ERestart ch]) Hev' Hn) as H.
    rewrite Hrun in H. cbn [fst snd] in H. apply H; assumption.
Qed.

(** *** the partner is not ready: the status query is answered with zero rows *)

Definition down_not_ready (s : st) : Prop :=
  status s = Down /\ lasterr s = ENotReady /\ has_data s = false.

Lemma init_all_not_ready c modes s :
  env_ready s = false ->
  snd (do_query c modes (set_last_update (now s) s)) = true ->
  snd (init_all c modes s) = false /\ down_not_ready (fst (init_all c modes s)).
Proof.
  intros Hr. unfold init_all.
  pose proof (frame_env _ _ (do_query_frame c modes (set_last_update (now s) s))) as (_ & _ & Hfr).
  destruct (do_query c modes (set_last_update (now s) s)) as [s1 ok]. cbn [fst snd] in *. intros ->.
  assert (Hr1 : env_ready s1 = false) by (cbn in Hfr; congruence).
  rewrite Hr1. cbn. unfold down_not_ready; cbn. repeat split; reflexivity.
Qed.

(** one tick whose first query is answered while the partner is not ready: the
    first synchronisation ends down, and so does an update of a synchronised
    backend (the status answer has another number of rows: restart required,
    InitAllTables at once, entered from up / warning with the old objects) *)
Lemma contact_not_ready c modes s :
  (0 < c_nsrc c)%nat -> env_ready s = false ->
  snd (do_query c modes s) = true ->
  down_not_ready (after_update c modes (update_delta c modes s)).
Proof.
  intros Hn Hr Hok. unfold after_update, update_delta.
  pose proof (do_query_ok_addr c modes s Hok) as Haddr.
  pose proof (frame_env _ _ (do_query_frame c modes s)) as (_ & _ & Hfr).
  destruct (do_query c modes s) as [s3 ok]. cbn [fst snd] in *. subst ok.
  assert (Hr3 : env_ready s3 = false) by congruence.
  rewrite Hr3. cbn [negb fst snd].
  apply init_all_not_ready; [exact Hr3|].
  assert (Hm : mode_of modes (addr (set_last_update (now s3) s3)) = MOk) by exact Haddr.
  rewrite (do_query_ok_again c modes _ Hn Hm). reflexivity.
Qed.

Lemma periodic_not_ready c modes s :
  (0 < c_nsrc c)%nat -> env_ready s = false ->
  let s1 := update_idle c s in
  (last_update s + (if idling s1 then c_idle_int c else c_upd c) <= now s)%Z ->
  snd (do_query c modes (set_last_update (now s) s1)) = true ->
  down_not_ready (periodic c modes false s).
Proof.
  intros Hn Hrd s1 Hdue Hok. unfold periodic. fold s1.
  rewrite andb_false_r. cbn [andb negb].
  assert (Hnow : now s1 = now s) by (unfold s1, update_idle; destruct (_ && _); reflexivity).
  rewrite Hnow. destruct (now s <? last_update s + _)%Z eqn:Hlt; [apply Z.ltb_lt in Hlt; lia|].
  set (s2 := set_last_update (now s) s1) in *.
  assert (Hrd2 : env_ready s2 = false) by (unfold s2, s1, update_idle; destruct (_ && _); exact Hrd).
  assert (Hinit : down_not_ready (fst (init_all c modes s2))).
  { apply init_all_not_ready; [exact Hrd2|].
    replace (set_last_update (now s2) s2) with s2; [exact Hok|]. unfold s2, set_last_update; cbn. rewrite Hnow. reflexivity. }
  assert (Hdelta : down_not_ready (after_update c modes (update_delta c modes s2))).
  { apply contact_not_ready; assumption. }
  destruct (status s); destruct (has_data s); assumption.
Qed.

Lemma thm_partner_not_ready c modes evs :
  (0 < c_nsrc c)%nat ->
  let s := snd (run c modes evs) in
  let modes' := fst (run c modes evs) in
  env_ready s = false ->
  (snd (do_query c modes' (set_last_update (now s) s)) = true ->
     snd (init_all c modes' s) = false /\ down_not_ready (fst (init_all c modes' s))) /\
  (let s1 := update_idle c s in
   (last_update s + (if idling s1 then c_idle_int c else c_upd c) <= now s)%Z ->
   snd (do_query c modes' (set_last_update (now s) s1)) = true ->
   let o := observe (periodic c modes' false s) in
   o_status o = Down /\ o_err o = true /\ o_online o = false /\ o_failed o = true /\ o_bygroup o = true /\
   o_core o = 0%nat /\ o_dset o = 0%nat).
Proof.
  intros Hn s modes' Hrd. split.
  - intros Hok. apply init_all_not_ready; assumption.
  - intros s1 Hdue Hok.
    destruct (periodic_not_ready c modes' s Hn Hrd Hdue Hok) as (A & B & C).
    cbn zeta. unfold observe, is_online; cbn. rewrite A, B, C. cbn. repeat split; reflexivity.
Qed.
