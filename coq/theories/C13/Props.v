(** C13: backend availability follows a bounded-staleness state machine.
    Only statements; proofs live in Proofs.v.

    [run c modes evs] is the peer after the event history [evs] (InitAllTables,
    periodicUpdate ticks, time passing, client queries, the environment
    switching addresses between ok / refuse / garbage, the core behind the
    backend restarting, the partner answering the status query with zero rows)
    for configuration [c].
    [hist_ok c evs]: the stale timeout is not negative, time only moves
    forward and [c] is the repaired code ([c_fixed]); for the pinned code the
    first theorem is refuted ([C13_up_only_after_sync_refuted_for_pinned_code]). *)
From LMD Require Import C13.Model C13.Proofs C13.Proofs2.
Open Scope Z_scope.

(** up_only_after_sync: whenever a backend is reported up, it holds data, the
    error is cleared and nothing failed since its last successful
    synchronisation (which exists). *)
Theorem C13_up_only_after_sync :
  forall c modes evs, hist_ok c evs ->
    let s := snd (run c modes evs) in
    status s = Up ->
    has_data s = true /\ lasterr s = ENone /\ err_count s = 0 /\
    last_online s = last_sync s /\ t0 <= last_sync s /\ last_fail s <= last_sync s.
Proof. exact thm_up_only_after_sync. Qed.

Theorem C13_up_only_after_sync_refuted_for_pinned_code :
  let s1 := snd (run witness_cfg [MOk; MOk] (firstn 4 witness_events)) in
  let s2 := snd (run witness_cfg [MOk; MOk] witness_events) in
  (status s1 = Up /\ has_data s1 = false /\ lasterr s1 = ENone) /\
  (status s2 = Up /\ has_data s2 = false /\ lasterr s2 = EFail).
Proof. exact thm_pinned_refuted. Qed.

(** warning_keeps_data: a backend flagged with an error but not down still
    serves its last data, and that data was not older than the stale timeout
    when the last failure was handled. *)
Theorem C13_warning_keeps_data :
  forall c modes evs, hist_ok c evs ->
    let s := snd (run c modes evs) in
    status s = Warning ->
    has_data s = true /\ lasterr s = EFail /\ last_fail s - last_online s <= c_stale c.
Proof. exact thm_warning_keeps_data. Qed.

(** stale_drops and the step form of warning_keeps_data: a failed query at
    time [now] flags the error; if the last successful contact is older than
    the stale timeout the data are dropped and the backend is down, and if data
    survive they are at most [stale] old and the backend is in warning. *)
Theorem C13_stale_drops :
  forall c modes evs, hist_ok c evs ->
    let s := snd (run c modes evs) in
    let modes' := fst (run c modes evs) in
    snd (do_query c modes' s) = false ->
    let s' := fst (do_query c modes' s) in
    last_fail s' = now s /\ lasterr s' = EFail /\
    (last_online s < now s - c_stale c -> status s' = Down /\ has_data s' = false) /\
    (has_data s' = true -> now s - last_online s' <= c_stale c /\ status s' = Warning).
Proof. exact thm_failure_step. Qed.

(** bounded_staleness: data that are served were, when the last failure was
    handled, synchronised at most [stale] before; every due periodicUpdate is
    such a handling or a synchronisation. *)
Theorem C13_bounded_staleness :
  forall c modes evs, hist_ok c evs ->
    let s := snd (run c modes evs) in
    has_data s = true -> last_fail s - last_online s <= c_stale c /\ last_online s = last_sync s.
Proof. exact thm_bounded_staleness. Qed.

(** down_lists_failed: a backend that is down has no data - data queries list it
    as failed - and shows an error; only up or warning backends answer. *)
Theorem C13_down_lists_failed :
  forall c modes evs, hist_ok c evs ->
    let s := snd (run c modes evs) in
    (status s = Down -> o_failed (observe s) = true /\ o_err (observe s) = true) /\
    (o_failed (observe s) = false -> status s = Up \/ status s = Warning).
Proof. exact thm_down_lists_failed. Qed.

(** recovery_clears: a due periodicUpdate whose first query is answered brings
    the backend up with fresh data, a cleared error and error count.
    ([env_ready s]: answered with a status row. The environment of the model
    got this dimension when the event [EReady] - a partner lmd that answers the
    status query with zero rows - was added; for [env_ready s = false] see
    [C13_partner_not_ready].) *)
Theorem C13_recovery_clears :
  forall c modes evs, hist_ok c evs -> (0 < c_nsrc c)%nat ->
    let s := snd (run c modes evs) in
    let modes' := fst (run c modes evs) in
    let s1 := update_idle c s in
    env_ready s = true ->
    last_update s + (if idling s1 then c_idle_int c else c_upd c) <= now s ->
    snd (do_query c modes' (set_last_update (now s) s1)) = true ->
    synced (periodic c modes' false s).
Proof. exact thm_recovery_clears. Qed.

(** idle_rate: an idling backend is not contacted before the idle interval is
    over, and it only starts idling after [idle_timeout] without a query. *)
Theorem C13_idle_rate :
  forall c modes m s,
    idling (update_idle c s) = true ->
    now s < last_update s + c_idle_int c ->
    periodic c modes m s = update_idle c s.
Proof. exact periodic_idle_skip. Qed.

Theorem C13_idle_requires_silence :
  forall c s,
    idling (update_idle c s) = true -> idling s = false ->
    (last_query s = 0 /\ main_restart s < now s - c_idle_timeout c) \/
    (0 < last_query s /\ last_query s < now s - c_idle_timeout c).
Proof. exact idle_requires_silence. Qed.

(** first_query_refreshes: the first query for an idling backend ends idle
    mode before it is answered; a backend that is up is refreshed first and,
    if it answers, serves fresh data; otherwise the next periodicUpdate is due. *)
Theorem C13_first_query_wakes :
  forall c modes s,
    idling s = true ->
    let s' := client_query c modes s in
    idling s' = false /\ last_query s' = now s /\ now s' = now s.
Proof. exact client_query_wakes. Qed.

Theorem C13_first_query_refreshes :
  forall c modes s,
    0 <= c_stale c -> c_fixed c = true -> inv c s ->
    idling s = true -> status s = Up -> has_data s = true ->
    let q := set_idling false (set_last_query (now s) s) in
    snd (do_query c modes q) = true ->
    snd (update_delta c modes (fst (do_query c modes q))) = UOk ->
    synced (client_query c modes s).
Proof. exact client_query_refreshes. Qed.

Theorem C13_first_query_schedules :
  forall c modes s,
    idling s = true -> status s <> Up \/ has_data s = false ->
    last_update (client_query c modes s) = now s - c_upd c.
Proof. exact client_query_schedules. Qed.

(** source_rotation: every failure moves to the next address of the list
    (round robin); when all addresses refuse, one connection attempt dials the
    sources once each starting with the active one, then the fallbacks. *)
Theorem C13_source_rotation_step :
  forall c L s,
    (cur s < length L)%nat ->
    cur (set_next c L s) = (S (cur s) mod length L)%nat /\
    addr (set_next c L s) = nth (cur (set_next c L s)) L 0%nat.
Proof. exact set_next_rotates. Qed.

Theorem C13_source_rotation :
  forall c modes s,
    (forall a, mode_of modes a = MRefuse) ->
    (cur s < c_nsrc c)%nat -> addr s = nth (cur s) (srcs c) 0%nat ->
    snd (get_conn c modes s) = None /\
    attempts (fst (get_conn c modes s)) = rev (fbs c) ++ rev (rotate (cur s) (srcs c)) ++ attempts s.
Proof. exact get_conn_all_refused. Qed.

(** the invariant behind the theorems above holds after every history *)
Theorem C13_invariant :
  forall c modes evs,
    0 <= c_stale c -> c_fixed c = true -> Forall event_ok evs -> inv c (snd (run c modes evs)).
Proof. exact run_inv. Qed.

(** non-vacuity: failure within the stale timeout, stale drop, recovery, idle *)
Example C13_example :
  let c := mkCfg 10000 20000 3000 40000 1 0 true in
  map (fun o => (o_status o, o_err o, o_idling o, o_failed o))
      (trace c ([MOk], init_st)
         [EInit; ESetMode 0 MRefuse; EPass 4100; ETick false; EPass 8100; ETick false;
          ESetMode 0 MOk; EPass 3100; ETick false; EPass 30100; ETick false; EQuery]) =
  [(Up, false, false, false); (Up, false, false, false); (Up, false, false, false);
   (Warning, true, false, false); (Warning, true, false, false); (Down, true, false, true);
   (Down, true, false, true); (Down, true, false, true); (Up, false, false, false);
   (Up, false, false, false); (Up, false, true, false); (Up, false, false, false)].
Proof. vm_compute. reflexivity. Qed.

(** *** the core behind a reachable backend restarts ([ERestart]: program_start /
    nagios_pid of the status row change, same or changed objects)

    data_of_one_core: for every history (any configuration, pinned or repaired
    code) the cached objects are the complete object set of ONE instance of the
    core, never of a future one; if it is the running instance, they are the
    object set it serves. *)
Theorem C13_data_of_one_core :
  forall c modes evs,
    let s := snd (run c modes evs) in
    (core_seen s <= env_core s)%nat /\ (1 <= env_core s)%nat /\
    (core_seen s = env_core s -> dset_seen s = env_dset s) /\
    (has_data s = true -> (1 <= o_core (observe s))%nat).
Proof. exact thm_data_of_one_core. Qed.

(** never_left_syncing: after every history - whatever state a full
    synchronisation was entered from - the backend is not left in "syncing" and
    does not show "reconnecting..."; isOnline, the by-group tables and data
    queries agree about whether the backend is usable. *)
Theorem C13_never_left_syncing :
  forall c modes evs, hist_ok c evs ->
    let s := snd (run c modes evs) in
    status s <> Syncing /\ lasterr s <> EReconnecting /\
    o_online (observe s) = negb (o_failed (observe s)) /\
    o_bygroup (observe s) = o_failed (observe s).
Proof. exact thm_never_left_syncing. Qed.

(** successful_contact_ends_up: a successful contact of any kind, after any
    history - a full synchronisation (InitAllTables, from whatever state,
    up included), a delta update, and the update of one tick whose first query
    is answered (a delta update, or the full re-synchronisation after the status
    row showed another core instance or the cache had been dropped) - leaves
    the backend up with an empty error, error count 0, last_online = now, and
    with the complete object set of the running instance. *)
Theorem C13_successful_contact_ends_up :
  forall c modes evs, hist_ok c evs -> (0 < c_nsrc c)%nat ->
    let s := snd (run c modes evs) in
    let modes' := fst (run c modes evs) in
    (snd (init_all c modes' s) = true ->
       synced (fst (init_all c modes' s)) /\ current (fst (init_all c modes' s))) /\
    (snd (update_delta c modes' s) = UOk ->
       synced (fst (update_delta c modes' s)) /\ current (fst (update_delta c modes' s))) /\
    (env_ready s = true -> snd (do_query c modes' s) = true ->
       synced (after_update c modes' (update_delta c modes' s)) /\
       current (after_update c modes' (update_delta c modes' s))).
Proof. exact thm_successful_contact. Qed.

(** recovery_is_current: what is observed right after a due periodicUpdate
    whose first query is answered (before any further update): sites shows up
    and an empty last_error, isOnline, data queries and the by-group tables are
    answered, from the objects of the instance that is running. *)
Theorem C13_recovery_is_current :
  forall c modes evs, hist_ok c evs -> (0 < c_nsrc c)%nat ->
    let s := snd (run c modes evs) in
    let modes' := fst (run c modes evs) in
    let s1 := update_idle c s in
    env_ready s = true ->
    last_update s + (if idling s1 then c_idle_int c else c_upd c) <= now s ->
    snd (do_query c modes' (set_last_update (now s) s1)) = true ->
    let o := observe (periodic c modes' false s) in
    o_status o = Up /\ o_err o = false /\ o_online o = true /\ o_failed o = false /\ o_bygroup o = false /\
    o_core o = env_core s /\ o_dset o = env_dset s.
Proof. exact thm_recovery_is_current. Qed.

(** resync_after_core_restart: the core behind an UP backend restarts; the
    cached objects are those of the old instance; right after the next due
    periodicUpdate whose first query is answered - the full re-synchronisation
    entered from up - the backend is up again (not syncing), the error is
    empty, and everything is answered from the new complete object set. *)
Theorem C13_resync_after_core_restart :
  forall c modes evs ch, hist_ok c evs -> (0 < c_nsrc c)%nat ->
    let s0 := snd (run c modes evs) in
    let modes' := fst (run c modes evs) in
    status s0 = Up -> env_ready s0 = true ->
    let s := restart ch s0 in
    let s1 := update_idle c s in
    last_update s + (if idling s1 then c_idle_int c else c_upd c) <= now s ->
    snd (do_query c modes' (set_last_update (now s) s1)) = true ->
    let o := observe (periodic c modes' false s) in
    o_core (observe s) <> env_core s /\
    o_status o = Up /\ o_err o = false /\ o_online o = true /\ o_failed o = false /\ o_bygroup o = false /\
    o_core o = env_core s /\ o_dset o = env_dset s.
Proof. exact thm_resync_after_core_restart. Qed.

(** partner_not_ready: the status query of a (re)initialisation is answered
    with zero rows ("peered partner not ready yet"; any history, any
    configuration, pinned or repaired code). A full synchronisation whose
    first query is answered fails and leaves the backend down with that error
    and WITHOUT data; right after a due periodicUpdate whose first query is
    answered - the first synchronisation, a retry, or the update of a
    synchronised up / warning backend, which re-initialises at once with the
    old objects still cached - sites shows down and the error, the backend is
    offline, listed as failed, the by-group tables are refused and nothing of
    the old objects is served. A later answered contact of a ready partner
    recovers: [C13_recovery_clears], [C13_recovery_is_current]. *)
Theorem C13_partner_not_ready :
  forall c modes evs, (0 < c_nsrc c)%nat ->
    let s := snd (run c modes evs) in
    let modes' := fst (run c modes evs) in
    env_ready s = false ->
    (snd (do_query c modes' (set_last_update (now s) s)) = true ->
       snd (init_all c modes' s) = false /\ down_not_ready (fst (init_all c modes' s))) /\
    (let s1 := update_idle c s in
     last_update s + (if idling s1 then c_idle_int c else c_upd c) <= now s ->
     snd (do_query c modes' (set_last_update (now s) s1)) = true ->
     let o := observe (periodic c modes' false s) in
     o_status o = Down /\ o_err o = true /\ o_online o = false /\ o_failed o = true /\ o_bygroup o = true /\
     o_core o = 0%nat /\ o_dset o = 0%nat).
Proof. exact thm_partner_not_ready. Qed.

(** non-vacuity: partner not ready at the first synchronisation, recovery,
    not ready when an up backend is updated (down, nothing served), recovery,
    not ready together with a restart of the core *)
Example C13_example_partner_not_ready :
  let c := mkCfg 10000 120000 3000 40000 1 0 true in
  map (fun o => (o_status o, o_err o, o_online o, o_failed o, o_bygroup o, o_core o))
      (trace c ([MOk], init_st)
         [EReady false; EInit; EPass 3100; ETick false; EReady true; EPass 3100; ETick false;
          EReady false; ETick false; EPass 3100; ETick false; EPass 3100; ETick false;
          EReady true; EPass 3100; ETick false;
          ERestart true; EReady false; EPass 3100; ETick false; EReady true; EPass 3100; ETick false]) =
  [(Pending, true, false, true, true, 0); (Down, true, false, true, true, 0); (Down, true, false, true, true, 0);
   (Down, true, false, true, true, 0); (Down, true, false, true, true, 0); (Down, true, false, true, true, 0);
   (Up, false, true, false, false, 1);
   (Up, false, true, false, false, 1); (Up, false, true, false, false, 1); (Up, false, true, false, false, 1);
   (Down, true, false, true, true, 0); (Down, true, false, true, true, 0); (Down, true, false, true, true, 0);
   (Down, true, false, true, true, 0); (Down, true, false, true, true, 0); (Up, false, true, false, false, 1);
   (Up, false, true, false, false, 1); (Up, false, true, false, false, 1); (Up, false, true, false, false, 1);
   (Down, true, false, true, true, 0); (Down, true, false, true, true, 0); (Down, true, false, true, true, 0);
   (Up, false, true, false, false, 2)]%nat.
Proof. vm_compute. reflexivity. Qed.

(** non-vacuity: restart of the core behind an up backend (old objects served
    until the next due update, then up with the new ones), a restart noticed
    while in warning, and a restart while the backend is unreachable *)
Example C13_example_core_restart :
  let c := mkCfg 10000 120000 3000 40000 1 0 true in
  map (fun o => (o_status o, o_err o, o_online o, o_bygroup o, o_core o, o_dset o))
      (trace c ([MOk], init_st)
         [EInit; ERestart true; ETick false; EPass 3100; ETick false;
          ESetMode 0 MRefuse; EPass 3100; ETick false; ERestart false; ESetMode 0 MOk; EPass 3100; ETick false;
          ESetMode 0 MGarbage; ERestart true; EPass 11100; ETick false; ESetMode 0 MOk; EPass 3100; ETick false]) =
  [(Up, false, true, false, 1, 1); (Up, false, true, false, 1, 1); (Up, false, true, false, 1, 1);
   (Up, false, true, false, 1, 1); (Up, false, true, false, 2, 2);
   (Up, false, true, false, 2, 2); (Up, false, true, false, 2, 2); (Warning, true, true, false, 2, 2);
   (Warning, true, true, false, 2, 2); (Warning, true, true, false, 2, 2); (Warning, true, true, false, 2, 2);
   (Up, false, true, false, 3, 2);
   (Up, false, true, false, 3, 2); (Up, false, true, false, 3, 2); (Up, false, true, false, 3, 2);
   (Down, true, false, true, 0, 0); (Down, true, false, true, 0, 0); (Down, true, false, true, 0, 0);
   (Up, false, true, false, 4, 4)]%nat.
Proof. vm_compute. reflexivity. Qed.

Print Assumptions C13_up_only_after_sync.
Print Assumptions C13_up_only_after_sync_refuted_for_pinned_code.
Print Assumptions C13_warning_keeps_data.
Print Assumptions C13_stale_drops.
Print Assumptions C13_bounded_staleness.
Print Assumptions C13_down_lists_failed.
Print Assumptions C13_recovery_clears.
Print Assumptions C13_idle_rate.
Print Assumptions C13_idle_requires_silence.
Print Assumptions C13_first_query_wakes.
Print Assumptions C13_first_query_refreshes.
Print Assumptions C13_first_query_schedules.
Print Assumptions C13_source_rotation_step.
Print Assumptions C13_source_rotation.
Print Assumptions C13_invariant.
Print Assumptions C13_data_of_one_core.
Print Assumptions C13_never_left_syncing.
Print Assumptions C13_successful_contact_ends_up.
Print Assumptions C13_recovery_is_current.
Print Assumptions C13_resync_after_core_restart.
Print Assumptions C13_partner_not_ready.
