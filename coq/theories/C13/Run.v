(** C13: executable comparison of the model with the observations of the
    harness (GET sites: status, last_error class, idling, addr; data query /
    GetDataStore: failed; isOnline; the hostsbygroup table; which core instance
    and which object set the cached status / hosts tables are from) after every
    event, i.e. also right after the step that re-synchronised. *)
From LMD Require Export C13.Model.

Record case := mkCase {
  k_cfg : cfg;
  k_modes : list mode;
  k_events : list event;
  k_obs : list obs }.

Definition obs_eqb (a b : obs) : bool :=
  pstatus_eqb (o_status a) (o_status b) && Bool.eqb (o_err a) (o_err b) &&
  Bool.eqb (o_idling a) (o_idling b) && Bool.eqb (o_failed a) (o_failed b) &&
  Nat.eqb (o_addr a) (o_addr b) &&
  Bool.eqb (o_online a) (o_online b) && Bool.eqb (o_bygroup a) (o_bygroup b) &&
  Nat.eqb (o_core a) (o_core b) && Nat.eqb (o_dset a) (o_dset b).

Fixpoint list_eqb {A} (eqb : A -> A -> bool) (a b : list A) : bool :=
  match a, b with
  | [], [] => true
  | x :: a', y :: b' => eqb x y && list_eqb eqb a' b'
  | _, _ => false
  end.

Definition expected (c : case) : list obs := trace (k_cfg c) (k_modes c, init_st) (k_events c).

Definition check (c : case) : bool := list_eqb obs_eqb (expected c) (k_obs c).

Fixpoint mismatches_from (i : nat) (cs : list case) : list (nat * list obs) :=
  match cs with
  | [] => []
  | c :: rest => (if check c then [] else [(i, expected c)]) ++ mismatches_from (S i) rest
  end.

Definition mismatches := mismatches_from 0.
