(** C14: the ACCESS TABLE of the cache's shared fields - hand-written from the source (the weak point:
    it is validated by the race detector stream `c14race`, not derived from the code) - and the lockset
    discipline computed over it.

    One row = one place in pkg/lmd that reads or writes a shared field, with the locks held there:
      [LStore]  the RWMutex of the DataStore the accessed row / map belongs to (DataStore.lock)
      [LUpdate] DataStore.updateLock (only exists after the proposed patch)
      [LTable]  Table.lock (global table definition)
      [LPeerMap] Daemon.PeerMapLock
    A lock of ANOTHER store (e.g. the hosts lock while reading service rows) protects nothing and is
    not listed. [a_private]: the object is not yet published (data set under construction) - no other
    thread can reach it. [a_atomic]: sync/atomic access.

    [a_locks] is what the code under verification does BEFORE the patch of notes/C14.md,
    [a_fix] (when given) what it does after it. *)
From Coq Require Import List Bool String.
Import ListNotations.
Open Scope string_scope.

Inductive field :=
| FRowCells          (* DataRow.data* of hosts / services / hostgroups ... rows (dynamic columns) *)
| FTimeperiodRows    (* the same of timeperiods rows *)
| FRowIdLists        (* DataRow.dataInt64List[comments|downtimes] of hosts / services *)
| FStoreData         (* DataStore.data of comments / downtimes (append, remove) *)
| FStoreIndex        (* DataStore.index of comments / downtimes *)
| FObjectIndex       (* DataStore.index / index2 / indexLowerCase of all other tables (filled once) *)
| FDupStringList     (* DataStore.dupStringList *)
| FPeerData          (* Peer.data (atomic.Pointer[DataStoreSet]) *)
| FDataSetTables     (* DataStoreSet.table* (atomic.Pointer[DataStore]) *)
| FColumnIndex       (* Table.dataSizes and Column.Index while it is still unassigned (-1) *)
| FColumnIndexSet    (* Column.Index once assigned: never changes again; assigned before any store with a slot
                        for the column is built, i.e. before the stores whose rows are read through it are published *)
| FPeerMap           (* Daemon.PeerMap / PeerMapOrder *)
| FPeerStatus        (* Peer.peerState, lastError, lastUpdate, lastOnline, ... (atomic wrappers) *)
| FConnectionPool.   (* Peer.cache.connectionPool (the channel-typed field itself) *)

Definition field_eqb (a b : field) : bool :=
  match a, b with
  | FRowCells, FRowCells | FTimeperiodRows, FTimeperiodRows | FRowIdLists, FRowIdLists
  | FStoreData, FStoreData | FStoreIndex, FStoreIndex | FObjectIndex, FObjectIndex
  | FDupStringList, FDupStringList | FPeerData, FPeerData | FDataSetTables, FDataSetTables
  | FColumnIndex, FColumnIndex | FColumnIndexSet, FColumnIndexSet | FPeerMap, FPeerMap | FPeerStatus, FPeerStatus
  | FConnectionPool, FConnectionPool => true
  | _, _ => false
  end.

Definition all_fields : list field :=
  [FRowCells; FTimeperiodRows; FRowIdLists; FStoreData; FStoreIndex; FObjectIndex; FDupStringList;
   FPeerData; FDataSetTables; FColumnIndex; FColumnIndexSet; FPeerMap; FPeerStatus; FConnectionPool].

Inductive lock := LStore | LUpdate | LTable | LPeerMap.
Inductive mode := R | W.

Definition lock_eqb (a b : lock) : bool :=
  match a, b with
  | LStore, LStore | LUpdate, LUpdate | LTable, LTable | LPeerMap, LPeerMap => true
  | _, _ => false
  end.

Definition all_locks : list lock := [LStore; LUpdate; LTable; LPeerMap].

(** who runs the code: a client goroutine answering a query, the peer's update loop, a goroutine started
    by a client (WaitCondition / spin up from idle) running update functions, a rebuild building aside *)
Inductive role := Reader | UpdateLoop | ClientUpdater | Rebuild.

Record access := mkA {
  a_field : field;
  a_where : string;
  a_role : role;
  a_write : bool;
  a_locks : list (lock * mode);
  a_atomic : bool;
  a_private : bool;
  a_fix : option (list (lock * mode)) }.

Definition rd f w r l := mkA f w r false l false false None.
Definition wr f w r l := mkA f w r true l false false None.
Definition rd_fix f w r l l' := mkA f w r false l false false (Some l').
Definition wr_fix f w r l l' := mkA f w r true l false false (Some l').
Definition atomic f w r wrt := mkA f w r wrt [] true false None.
Definition private f w r wrt := mkA f w r wrt [] false true None.

Definition table : list access := [
  (* --- rows of hosts, services, groups ... (dynamic columns) --- *)
  rd FRowCells "response.go gatherResultRows/gatherStatsResult: MatchFilter, CountStats on the requested table" Reader [(LStore, R)];
  rd FRowCells "response.go Send/Buffer: WriteJSON of the requested table and of reference columns listed in Columns (table in getAffectedTables)" Reader [(LStore, R)];
  rd_fix FRowCells "response.go gatherResultRows/gatherStatsResult/PostProcessing: Filter / Stats / Sort on a reference column that is not in Columns (host_state on services): referenced table NOT locked" Reader [] [(LStore, R)];
  rd_fix FRowCells "datarow.go VirtualColServicesWithInfo / VirtualColMembersWithState: rows of services / hosts read for a hosts / hostgroups / servicegroups request: that table NOT locked" Reader [] [(LStore, R)];
  rd FRowCells "virtstore.go GetGroupByData: hosts / services rows for the by-group tables" Reader [(LStore, R)];
  wr_fix FRowCells "datastoreset.go insertDeltaDataResult: UpdateValues / UpdateValuesNumberOnly for the whole batch" UpdateLoop [(LStore, W)] [(LStore, W); (LUpdate, W)];
  wr_fix FRowCells "the same, called by peer.go waitcondition (UpdateDeltaHosts/Services/UpdateFullTable) and ResumeFromIdle" ClientUpdater [(LStore, W)] [(LStore, W); (LUpdate, W)];
  rd_fix FRowCells "datastore.go prepareDataUpdateSet: compares last_check / last_update of the cached row BEFORE the table is locked" UpdateLoop [] [(LUpdate, W)];
  rd_fix FRowCells "the same from waitcondition / ResumeFromIdle goroutines" ClientUpdater [] [(LUpdate, W)];
  rd_fix FRowCells "peer.go waitcondition: obj.MatchFilter on the watched row, no lock" ClientUpdater [] [(LStore, R)];
  rd_fix FRowCells "peer.go waitConditionTableMatches: MatchFilter over all rows, no lock" ClientUpdater [] [(LStore, R)];
  rd FRowCells "datastoreset.go getMissingTimestamps: checkChangedIntValues" UpdateLoop [(LStore, R)];
  private FRowCells "datastoreset.go CreateObjectByType / InsertData / SetReferences on the data set built aside" Rebuild true;
  (* --- timeperiods --- *)
  rd FTimeperiodRows "response.go: GET timeperiods" Reader [(LStore, R)];
  wr_fix FTimeperiodRows "datastoreset.go updateTimeperiodsData: Lock only to copy store.data, Unlock, THEN UpdateValues row by row" UpdateLoop [] [(LStore, W)];
  wr_fix FTimeperiodRows "the same from waitcondition (WaitTrigger on GET timeperiods)" ClientUpdater [] [(LStore, W)];
  rd_fix FTimeperiodRows "datastoreset.go updateTimeperiodsData: checkChangedIntValues / GetString after the Unlock" UpdateLoop [] [(LStore, W)];
  (* --- comment / downtime id lists of hosts and services --- *)
  rd FRowIdLists "response.go: comments / downtimes columns of hosts / services" Reader [(LStore, R)];
  wr FRowIdLists "datastoreset.go buildDowntimeCommentsList: empty and refill under hostStore.lock / serviceStore.lock" UpdateLoop [(LStore, W)];
  (* --- comments / downtimes stores --- *)
  rd FStoreData "response.go: GET comments / downtimes" Reader [(LStore, R)];
  rd FStoreData "datastoreset.go maxIDOrSizeChanged, buildDowntimeCommentsList (scan)" UpdateLoop [(LStore, R)];
  rd_fix FStoreData "datastoreset.go buildDowntimeCommentsList: len(store.data) for the prometheus gauge after the RUnlock" UpdateLoop [] [(LStore, R)];
  wr FStoreData "datastoreset.go updateDeltaCommentsOrDowntimes: RemoveItem" UpdateLoop [(LStore, W)];
  wr FStoreData "datastore.go AppendData: AddItem" UpdateLoop [(LStore, W)];
  rd FStoreIndex "response.go: GET comments with Filter: id = (index lookup)" Reader [(LStore, R)];
  rd_fix FStoreIndex "datarow.go VirtualColCommentsWithInfo / VirtualColDowntimesWithInfo for a hosts / services request: comments store NOT locked (map read)" Reader [] [(LStore, R)];
  wr FStoreIndex "datastoreset.go updateDeltaCommentsOrDowntimes: delete(index)" UpdateLoop [(LStore, W)];
  wr FStoreIndex "datastore.go AppendData: index[id] = row" UpdateLoop [(LStore, W)];
  (* --- indexes filled once --- *)
  private FObjectIndex "datastore.go InsertData / InsertItem on the data set built aside" Rebuild true;
  rd FObjectIndex "datastore.go prepareDataUpdateSet, GetWaitObject, TryFilterIndex, VirtualCol*, SetReferences of appended comments: never written after publication" Reader [];
  (* --- dupStringList (D21) --- *)
  private FDupStringList "datastore.go InsertData (NewDataRow, reset at the end)" Rebuild true;
  wr_fix FDupStringList "datastore.go prepareDataUpdateSet -> cast2Type -> deduplicateStringlist: map write BEFORE the table is locked" UpdateLoop [] [(LUpdate, W)];
  wr_fix FDupStringList "the same from waitcondition / ResumeFromIdle goroutines" ClientUpdater [] [(LUpdate, W)];
  wr_fix FDupStringList "datarow.go UpdateValues -> deduplicateStringlist under the table lock" UpdateLoop [(LStore, W)] [(LStore, W); (LUpdate, W)];
  wr_fix FDupStringList "the same from waitcondition / ResumeFromIdle goroutines" ClientUpdater [(LStore, W)] [(LStore, W); (LUpdate, W)];
  (* --- pointers --- *)
  atomic FPeerData "peer.go InitAllTables p.data.Store(data); setBroken / setNextAddrFromErr Store(nil)" UpdateLoop true;
  atomic FPeerData "peer.go GetDataStoreSet / GetDataStore, virtstore.go GetGroupByData: p.data.Load()" Reader false;
  atomic FDataSetTables "datastoreset.go Set (initTable)" Rebuild true;
  atomic FDataSetTables "datastoreset.go Get" Reader false;
  (* --- table definition --- *)
  rd FColumnIndex "datastore.go NewDataStore: col.Index == -1 ?" Rebuild [(LTable, R)];
  wr FColumnIndex "datastore.go NewDataStore: col.Index = dataSizes[..]; dataSizes[..]++" Rebuild [(LTable, W)];
  rd FColumnIndex "datastore.go AppendData -> NewDataRow" UpdateLoop [(LStore, W); (LTable, R)];
  rd FColumnIndexSet "datarow.go GetString / GetInt8 / ... : col.Index of a column the store's peer provides (HasFlag(col.Optional) is checked first)" Reader [];
  rd FColumnIndexSet "datarow.go UpdateValues / SetData, datastore.go getUpdateColumn" UpdateLoop [];
  (* --- peer map --- *)
  rd FPeerMap "response.go prepareResponse, request.go ExpandRequestedBackends" Reader [(LPeerMap, R)];
  rd_fix FPeerMap "response.go:216 prepareResponse: PeerMap[PeerMapOrder[0]] for GET tables / columns AFTER PeerMapLock.RUnlock" Reader [] [(LPeerMap, R)];
  wr FPeerMap "main.go initializePeers / PeerMapRemove on reload" UpdateLoop [(LPeerMap, W)];
  (* --- peer status --- *)
  atomic FPeerStatus "peer.go resetErrors, setNextAddrFromErr, setBroken, InitAllTables, periodicUpdate" UpdateLoop true;
  atomic FPeerStatus "response.go prepareResponse (lastQuery, idling), sites table columns" Reader false;
  (* --- connection pool --- *)
  rd_fix FConnectionPool "peer.go GetCachedConnection / query: p.cache.connectionPool" UpdateLoop [] [];
  rd_fix FConnectionPool "the same from waitcondition / parallel rebuild goroutines" ClientUpdater [] [];
  mkA FConnectionPool "peer.go setNextAddrFromErr: p.cache.connectionPool = make(chan ...) (the patch drops this assignment)" UpdateLoop true [] false false (Some [])
].

(** the accesses after the patch: new lock sets; the one write to the connection pool field is gone *)
Definition patched (a : access) : access :=
  match a_fix a with
  | Some l => mkA (a_field a) (a_where a) (a_role a)
                  (match a_field a with FConnectionPool => false | _ => a_write a end) l (a_atomic a) (a_private a) None
  | None => a
  end.

Definition table_fixed : list access := map patched table.

(** ** the discipline *)

Definition holds (a : access) (l : lock) (need_w : bool) : bool :=
  existsb (fun lm => lock_eqb (fst lm) l && (match snd lm with W => true | R => negb need_w end)) (a_locks a).

Definition of_field (t : list access) (f : field) : list access :=
  filter (fun a => field_eqb (a_field a) f && negb (a_private a)) t.

(** the locks every writer of the field holds in write mode *)
Definition writer_locks (accs : list access) : list lock :=
  filter (fun l => forallb (fun a => negb (a_write a) || holds a l true) accs) all_locks.

(** a shared field is disciplined when all its (non-private) accesses are atomic, or none of them
    writes, or there are locks ALL writers hold in write mode (so writers exclude each other) and every
    reader holds at least one of them in some mode (so it excludes every writer) *)
Definition disciplined (t : list access) (f : field) : bool :=
  let accs := of_field t f in
  forallb a_atomic accs
  || negb (existsb a_write accs)
  || (let wl := writer_locks accs in
      negb (match wl with [] => true | _ => false end)
      && forallb (fun a => a_write a || existsb (fun l => holds a l false) wl) accs).

Definition violations (t : list access) : list field := filter (fun f => negb (disciplined t f)) all_fields.

(** ** what is computed *)

Example violations_pinned :
  violations table = [FRowCells; FTimeperiodRows; FStoreData; FStoreIndex; FDupStringList; FPeerMap; FConnectionPool].
Proof. vm_compute. reflexivity. Qed.

Example violations_fixed : violations table_fixed = [].
Proof. vm_compute. reflexivity. Qed.

Lemma lockset_discipline_fixed : forall f, In f all_fields -> disciplined table_fixed f = true.
Proof.
  intros f Hf. assert (H : forallb (disciplined table_fixed) all_fields = true) by (vm_compute; reflexivity).
  rewrite forallb_forall in H. exact (H f Hf).
Qed.

Lemma lockset_refuted_pinned :
  (exists f, In f all_fields /\ disciplined table f = false) /\
  violations table = [FRowCells; FTimeperiodRows; FStoreData; FStoreIndex; FDupStringList; FPeerMap; FConnectionPool].
Proof.
  split; [exists FDupStringList; split; [vm_compute; tauto|vm_compute; reflexivity]|exact violations_pinned].
Qed.
