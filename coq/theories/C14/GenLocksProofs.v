(** C14: obligations about the GENERATED lock coverage matrix (Gen/Locks.v) and the generated schema
    (Gen/Schema.v), closed by computation over the finite domain (every table x column x position) and
    lifted with [forallb_forall]. Re-checked whenever `lmdverif gen` prints a different table.

    A broken obligation names the offending entries: (table, column, position, tables read without lock). *)
From LMD Require Import Base.Str QE.SchemaTypes Gen.Schema C14.Model C14.Proofs C14.Locks Gen.Locks.

(** ** generic lifting lemmas (any matrix) *)

Lemma memn_In x l : memn x l = true <-> In x l.
Proof.
  unfold memn. rewrite existsb_exists. split.
  - intros [y [Hy He]]. apply Nat.eqb_eq in He. subst. assumption.
  - intros H. exists x. split; [assumption|apply Nat.eqb_refl].
Qed.

Lemma held_In virt lk r : In r (held virt lk) <-> In r lk /\ ~ In r virt.
Proof.
  unfold held. rewrite filter_In. split.
  - intros [Hin Hn]. split; [assumption|]. intros Hv. apply memn_In in Hv. rewrite Hv in Hn. discriminate.
  - intros [Hin Hn]. split; [assumption|]. destruct (memn r virt) eqn:Hm; [|reflexivity].
    apply memn_In in Hm. contradiction.
Qed.

Lemma entry_of_matrix virt stored m t e :
  matrix_ok virt stored m = true -> In t m -> In e (lt_cols t) -> entry_ok virt stored e = true.
Proof.
  unfold matrix_ok. intros Hm Ht He. rewrite forallb_forall in Hm. specialize (Hm t Ht).
  rewrite forallb_forall in Hm. exact (Hm e He).
Qed.

Lemma usage_of_entry virt stored e u lk :
  entry_ok virt stored e = true -> In (u, Some lk) (l_locks e) ->
  (forall r, In r (l_reads e) -> In r (held virt lk)) /\ increasing (held virt lk) = true.
Proof.
  unfold entry_ok. intros Hok Hu.
  apply andb_true_iff in Hok as [Hok _]. apply andb_true_iff in Hok as [Hok _].
  apply andb_true_iff in Hok as [_ Hus]. rewrite forallb_forall in Hus. specialize (Hus _ Hu).
  unfold usage_ok in Hus. cbn [snd] in Hus. apply andb_true_iff in Hus as [Hr Hinc].
  split; [|assumption]. intros r Hin. rewrite forallb_forall in Hr. apply memn_In. exact (Hr r Hin).
Qed.

Lemma stored_of_entry virt stored e r :
  entry_ok virt stored e = true -> In r (l_reads e) -> In r stored.
Proof.
  unfold entry_ok. intros Hok Hin.
  apply andb_true_iff in Hok as [Hok _]. apply andb_true_iff in Hok as [_ Hst].
  rewrite forallb_forall in Hst. apply memn_In. exact (Hst r Hin).
Qed.

(** ** the generated matrix *)

Definition show (x : str) : String.string :=
  String.string_of_list_ascii (map (fun c => Ascii.ascii_of_N (if (c <? 128)%N then c else 63%N)) x).

Inductive shown := Unlocked (table column : String.string) (position : lusage) (read_without_lock : list String.string).

Definition show_uncovered (x : str * str * lusage * list nat) : shown :=
  match x with (t, c, u, ms) => Unlocked (show t) (show c) u (map (fun id => show (table_name lk_tables id)) ms) end.

(** the entries that read a table they do not lock; [] when the obligation below holds *)
Eval vm_compute in (length (uncovered lk_virtual lock_matrix), map show_uncovered (firstn 60 (uncovered lk_virtual lock_matrix))).

(** the same as one line of text (distinct table.column, first 8), so that the failure below names them *)
Fixpoint distinct_cols (last : str * str) (l : list (str * str * lusage * list nat)) : list (str * str * list nat) :=
  match l with
  | [] => []
  | (t, c, _, ms) :: r =>
      if str_eqb t (fst last) && str_eqb c (snd last) then distinct_cols last r
      else (t, c, ms) :: distinct_cols (t, c) r
  end.

Definition uncovered_text (l : list (str * str * lusage * list nat)) : String.string :=
  String.concat "; "
    (map (fun x => match x with (t, c, ms) =>
            String.append (show t) (String.append "." (String.append (show c) (String.append " reads unlocked "
              (String.concat "," (map (fun id => show (table_name lk_tables id)) ms))))) end)
         (firstn 8 (distinct_cols ([], []) l))).

Goal True.
  let r := eval vm_compute in (uncovered lk_virtual lock_matrix) in
  match r with
  | [] => idtac
  | _ => let txt := eval vm_compute in (String.append "Error C14 lock coverage (GET <table> / Columns: <column>): " (uncovered_text r)) in
         fail 0 txt
  end.
  exact I.
Qed.

Lemma lock_matrix_checked : matrix_ok lk_virtual lk_stored lock_matrix = true.
Proof. vm_compute. reflexivity. Qed.

Lemma lock_matrix_nothing_uncovered : uncovered lk_virtual lock_matrix = [].
Proof. vm_compute. reflexivity. Qed.

Lemma lock_matrix_reads_locked t e u lk r :
  In t lock_matrix -> In e (lt_cols t) -> In (u, Some lk) (l_locks e) -> In r (l_reads e) ->
  In r lk /\ ~ In r lk_virtual /\ In r lk_stored.
Proof.
  intros Ht He Hu Hr.
  pose proof (entry_of_matrix _ _ _ _ _ lock_matrix_checked Ht He) as Hok.
  destruct (usage_of_entry _ _ _ _ _ Hok Hu) as [Hreads _].
  pose proof (Hreads r Hr) as Hh. apply held_In in Hh. destruct Hh as [H1 H2].
  split; [assumption|]. split; [assumption|]. exact (stored_of_entry _ _ _ _ Hok Hr).
Qed.

Lemma lock_matrix_increasing t e u lk :
  In t lock_matrix -> In e (lt_cols t) -> In (u, Some lk) (l_locks e) ->
  increasing (held lk_virtual lk) = true.
Proof.
  intros Ht He Hu.
  pose proof (entry_of_matrix _ _ _ _ _ lock_matrix_checked Ht He) as Hok.
  exact (proj2 (usage_of_entry _ _ _ _ _ Hok Hu)).
Qed.

(** the reader role of the protocol model, instantiated with what the code locks for the request and any
    cells of the tables the column reads, passes the static discipline check *)
Lemma lock_matrix_readers_safe t e u lk cells :
  In t lock_matrix -> In e (lt_cols t) -> In (u, Some lk) (l_locks e) ->
  (forall tc, In tc cells -> In (fst tc) (l_reads e)) ->
  safe [] None None false false (reader_prog (held lk_virtual lk) cells) = true.
Proof.
  intros Ht He Hu Hcells.
  pose proof (entry_of_matrix _ _ _ _ _ lock_matrix_checked Ht He) as Hok.
  destruct (usage_of_entry _ _ _ _ _ Hok Hu) as [Hreads Hinc].
  apply reader_prog_safe; [assumption|]. intros tc Htc. apply Hreads, Hcells, Htc.
Qed.

(** ** coverage of the generated schema *)

Definition col_covered (lt : ltable) (c : column) : bool :=
  match find_lentry lt (c_name c) with
  | None => false
  | Some e => existsb is_col_usage (l_locks e) &&
              (negb (l_volatile e) || match c_store c with SVirtual => true | _ => false end)
  end.

Definition table_covered (t : tschema) : bool :=
  t_passthrough t ||
  match find_ltable lock_matrix (t_name t) with
  | None => false
  | Some lt => forallb (col_covered lt) (t_cols t) &&
               Bool.eqb (t_virtual t) (memn (lt_id lt) lk_virtual) &&
               str_eqb (table_name lk_tables (lt_id lt)) (t_name t)
  end.

Eval vm_compute in (map (fun t => show (t_name t)) (filter (fun t => negb (table_covered t)) schema)).

Lemma lock_matrix_schema_checked : forallb table_covered schema = true.
Proof. vm_compute. reflexivity. Qed.

Lemma lock_matrix_covers_schema t c :
  In t schema -> t_passthrough t = false -> In c (t_cols t) ->
  exists lt e lk, In lt lock_matrix /\ lt_name lt = t_name t /\ In e (lt_cols lt) /\ l_col e = c_name c /\
                  In (LCol, Some lk) (l_locks e) /\
                  t_virtual t = memn (lt_id lt) lk_virtual /\
                  (l_volatile e = true -> c_store c = SVirtual).
Proof.
  intros Ht Hp Hc. pose proof lock_matrix_schema_checked as Hall. rewrite forallb_forall in Hall.
  specialize (Hall t Ht). unfold table_covered in Hall. rewrite Hp in Hall. cbn [orb] in Hall.
  destruct (find_ltable lock_matrix (t_name t)) as [lt|] eqn:Hf; [|discriminate].
  unfold find_ltable in Hf. apply find_some in Hf as [Hlt Hname]. apply str_eqb_eq in Hname.
  apply andb_true_iff in Hall as [Hall _]. apply andb_true_iff in Hall as [Hcols Hvirt].
  rewrite forallb_forall in Hcols. specialize (Hcols c Hc). unfold col_covered in Hcols.
  destruct (find_lentry lt (c_name c)) as [e|] eqn:He; [|discriminate].
  unfold find_lentry in He. apply find_some in He as [Hein Hcol]. apply str_eqb_eq in Hcol.
  apply andb_true_iff in Hcols as [Hex Hvol]. apply existsb_exists in Hex as [u [Hu Hiu]].
  destruct u as [u [lk|]]; destruct u; cbn [is_col_usage] in Hiu; try discriminate.
  exists lt, e, lk. repeat split; try assumption.
  - apply Bool.eqb_prop. assumption.
  - intros Hv. rewrite Hv in Hvol. cbn [negb orb] in Hvol. destruct (c_store c); try discriminate. reflexivity.
Qed.
