(** C14: the comment / downtime id lists of hosts and services in a response, against the backend.

    A backend attaches comments and downtimes to its hosts and services; the attachments of one object over
    the backend versions [vs] that existed up to the end of the request are lists of ids. What a response
    may serve for the object's `comments` / `downtimes` / `comments_with_info` / `downtimes_with_info` column
    (directly, through a reference column, through a by-group table) is bounded by them:
      must = the ids attached in EVERY version of the window, may = the ids attached in SOME version;
    [list_ok]: must <= served <= may. A list that lacks an entry which was attached the whole time (the
    lists of a freshly published data set before they are rebuilt) or holds an entry that never belonged to
    the object violates it. When the backend's comments and downtimes do not change (one version), the served
    list is exactly the backend's. The stream evaluates [list_ok] on every observed (served, must, may). *)
From LMD Require Export Base.Str.
Local Open Scope Z_scope.

Definition memz (x : Z) (l : list Z) : bool := existsb (Z.eqb x) l.
Definition subsetz (a b : list Z) : bool := forallb (fun x => memz x b) a.

(** ids attached in every / in some version *)
Definition must_of (vs : list (list Z)) : list Z :=
  match vs with
  | [] => []
  | v :: r => filter (fun x => forallb (memz x) r) v
  end.
Definition may_of (vs : list (list Z)) : list Z := concat vs.

Definition list_ok (o : list Z * list Z * list Z) : bool :=
  match o with (served, must, may) => subsetz must served && subsetz served may end.

Lemma memz_In x l : memz x l = true <-> In x l.
Proof.
  unfold memz. rewrite existsb_exists. split.
  - intros [y [Hy He]]. apply Z.eqb_eq in He. subst. assumption.
  - intros H. exists x. split; [assumption|apply Z.eqb_refl].
Qed.

Lemma subsetz_In a b : subsetz a b = true <-> (forall x, In x a -> In x b).
Proof.
  unfold subsetz. rewrite forallb_forall. split; intros H x Hx; [apply memz_In, H, Hx|apply memz_In, H, Hx].
Qed.

Lemma list_ok_spec served must may :
  list_ok (served, must, may) = true <->
  (forall x, In x must -> In x served) /\ (forall x, In x served -> In x may).
Proof. unfold list_ok. rewrite andb_true_iff, !subsetz_In. reflexivity. Qed.

Lemma must_of_In vs x : vs <> [] -> (In x (must_of vs) <-> forall v, In v vs -> In x v).
Proof.
  destruct vs as [|v r]; [congruence|]. intros _. cbn [must_of]. rewrite filter_In, forallb_forall. split.
  - intros [Hv Hr] w [<-|Hw]; [assumption|]. apply memz_In, Hr, Hw.
  - intros H. split; [apply H; left; reflexivity|]. intros w Hw. apply memz_In, H. right. assumption.
Qed.

Lemma may_of_In vs x : In x (may_of vs) <-> exists v, In v vs /\ In x v.
Proof.
  unfold may_of. rewrite in_concat. split; intros [v [H1 H2]]; exists v; split; assumption.
Qed.

(** a served list that passes against the versions of the window: it holds whatever was attached all the
    time and only what was attached at some time; with ONE version (a backend whose comments do not change)
    it has exactly the backend's entries *)
Lemma list_ok_window served vs :
  vs <> [] -> list_ok (served, must_of vs, may_of vs) = true ->
  (forall x, (forall v, In v vs -> In x v) -> In x served) /\
  (forall x, In x served -> exists v, In v vs /\ In x v).
Proof.
  intros Hne Hok. apply list_ok_spec in Hok as [Hmust Hmay]. split.
  - intros x Hx. apply Hmust, must_of_In; assumption.
  - intros x Hx. apply may_of_In, Hmay, Hx.
Qed.

Lemma list_ok_static served v :
  list_ok (served, must_of [v], may_of [v]) = true -> forall x, In x served <-> In x v.
Proof.
  intros Hok. destruct (list_ok_window served [v] ltac:(discriminate) Hok) as [Hmust Hmay].
  intros x. split.
  - intros Hx. destruct (Hmay x Hx) as [w [[<-|[]] Hw]]. assumption.
  - intros Hx. apply Hmust. intros w [<-|[]]. assumption.
Qed.

(** ** WaitTrigger requests that really wait

    [elapsed; timeout; margin; threshold; served]: a request `WaitObject: o / WaitCondition: current_attempt >=
    threshold / WaitTimeout: timeout` was answered after [elapsed] ms and shows version [served] for [o] (every check
    result of [o] writes its version into current_attempt and all other stamped columns; -1: the backend of [o] is
    listed as failed). An answer that arrives clearly before the timeout was released by the condition: it must
    satisfy its own WaitCondition - its row of [o] belongs to a version at or after the one that made the condition
    true (versions only grow). *)
Definition wait_ok (o : list Z) : bool :=
  match o with
  | [elapsed; timeout; margin; threshold; served] =>
      (served <? 0) || negb (elapsed + margin <? timeout) || (threshold <=? served)
  | _ => false
  end.

Lemma wait_ok_spec elapsed timeout margin threshold served :
  wait_ok [elapsed; timeout; margin; threshold; served] = true ->
  0 <= served -> elapsed + margin < timeout -> threshold <= served.
Proof.
  unfold wait_ok. intros H Hs He.
  apply orb_true_iff in H as [H|H]; [apply orb_true_iff in H as [H|H]|].
  - apply Z.ltb_lt in H. lia.
  - apply negb_true_iff, Z.ltb_ge in H. lia.
  - apply Z.leb_le in H. assumption.
Qed.
