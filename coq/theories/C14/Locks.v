(** C14: the LOCK COVERAGE MATRIX of the request path - types and executable checks for the generated
    table Gen/Locks.v (printed by `lmdverif gen`, harness/inpkg/c14_gen.go).

    One entry per table x column of Objects.Tables:
      [l_locks]   per position of the column in a request (Columns, Filter, Sort, Stats counter, Stats sum,
                  group key): [Some ts] = what the real getAffectedTables returns for that request, in its
                  order (table ids = TableName = rank of the table's lock), [None] = the request is rejected;
      [l_static]  the stored tables the column reads according to the column metadata (LocalStore: its own
                  table, RefStore: RefColTableName and what the referenced column reads);
      [l_dynamic] the stored tables whose perturbation (in place, under their write lock) changed the
                  serialised value of the column for some row of the probe data set;
      [l_volatile] the value changes without any perturbation (localtime): only [l_static] is known.
    lockStores skips virtual tables (their store is private to the response): [held] removes them.

    Definitions only; the obligations are in GenLocksProofs.v. *)
From LMD Require Export Base.Str C14.Model.

Inductive lusage := LCol | LFilter | LSort | LStats | LStatsSum | LGroup.

Record lentry := mkL {
  l_col : str;
  l_locks : list (lusage * option (list nat));
  l_static : list nat;
  l_dynamic : list nat;
  l_volatile : bool }.

Record ltable := mkLT { lt_name : str; lt_id : nat; lt_cols : list lentry }.

Definition memn (x : nat) (l : list nat) : bool := existsb (Nat.eqb x) l.

(** the stored tables the value of the column reads *)
Definition l_reads (e : lentry) : list nat := l_static e ++ l_dynamic e.

(** the locks a response really takes: lockStores skips the virtual tables *)
Definition held (virt : list nat) (lk : list nat) : list nat := filter (fun t => negb (memn t virt)) lk.

(** read but not locked (for the report of a broken obligation) *)
Definition missing (virt reads lk : list nat) : list nat := filter (fun r => negb (memn r (held virt lk))) reads.

Definition usage_ok (virt reads : list nat) (u : lusage * option (list nat)) : bool :=
  match snd u with
  | None => true
  | Some lk => forallb (fun r => memn r (held virt lk)) reads && increasing (held virt lk)
  end.

Definition is_col_usage (u : lusage * option (list nat)) : bool :=
  match u with (LCol, Some _) => true | _ => false end.

(** every column can at least be requested; all accepted positions lock what the column reads, in
    increasing order; what is read are stored tables; a volatile column has no measurement *)
Definition entry_ok (virt stored : list nat) (e : lentry) : bool :=
  existsb is_col_usage (l_locks e) &&
  forallb (usage_ok virt (l_reads e)) (l_locks e) &&
  forallb (fun r => memn r stored) (l_reads e) &&
  (negb (l_volatile e) || match l_dynamic e with [] => true | _ => false end).

Definition matrix_ok (virt stored : list nat) (m : list ltable) : bool :=
  forallb (fun t => forallb (entry_ok virt stored) (lt_cols t)) m.

(** the entries that break [matrix_ok]: table, column, position, tables read without their lock *)
Definition uncovered_usages (virt : list nat) (t : ltable) (e : lentry) : list (str * str * lusage * list nat) :=
  flat_map (fun u => match snd u with
                     | None => []
                     | Some lk => match missing virt (l_reads e) lk with
                                  | [] => []
                                  | ms => [(lt_name t, l_col e, fst u, ms)]
                                  end
                     end) (l_locks e).

Definition uncovered (virt : list nat) (m : list ltable) : list (str * str * lusage * list nat) :=
  flat_map (fun t => flat_map (uncovered_usages virt t) (lt_cols t)) m.

Definition find_ltable (m : list ltable) (name : str) : option ltable :=
  find (fun t => str_eqb (lt_name t) name) m.

Definition find_lentry (t : ltable) (col : str) : option lentry :=
  find (fun e => str_eqb (l_col e) col) (lt_cols t).

Definition table_name (tables : list (nat * str)) (id : nat) : str :=
  match find (fun p => Nat.eqb (fst p) id) tables with Some p => snd p | None => [] end.
