(** C14: the locking protocol between client queries and updates of the cache - MODEL.

    PARTIAL by nature: this is a model of the PROTOCOL (who takes which lock when, what is written
    and read under it), not of Go. Data races, the Go memory model and the scheduler are outside;
    they are explored (not proved) by the stream `c14race`.

    Transcribes, of pkg/lmd:
      response.go       NewResponse (90-117: getAffectedTables sorted by table id, lockStores = RLock per
                        table of the data set loaded once per peer, buildLocalResponse = gather,
                        Send/Buffer = serialise, unlockStores), getAffectedTables (156-177)
      datastoreset.go   insertDeltaDataResult (386-429: prepare outside the lock, Lock, the whole batch,
                        Unlock), UpdateFullTable, updateDeltaCommentsOrDowntimes (621-645 one batch under
                        Lock), buildDowntimeCommentsList (910-956: RLock hosts, services, comments in that
                        order = increasing table id, release, then Lock hosts / Lock services one at a time)
      peer.go           InitAllTables (724-790: NewDataStoreSet built aside, p.data.Store = publication),
                        waitcondition (1906-2014: client goroutines calling the update functions)
      go-deadlock / sync.RWMutex: a pending Lock() blocks new RLock() calls.

    A data set is a number [d]; a store is a pair (data set, table id) with its own RW lock; the
    content of a store maps cells (row x column, abstractly a number) to versions. A thread runs a
    list of instructions, one per step; ANY interleaving of ANY number of threads is a schedule.
    The semantics is permissive (a write without lock does write): the discipline is the static
    check [safe], which the thread programs of the code's roles satisfy ([reader_prog] ...), and a
    program violating it shows the failure ([Props.C14_example]).

    Ghost state (never read by a step's enabledness or by the data): [comm] the content of a store at
    its last batch boundary (last write-unlock, or publication of its data set), [snap] what [comm] was when a
    thread took its read lock, [pubs] the data sets ever published, [dsel] the data set of a lock scope. *)
From Coq Require Export List Arith Bool Lia.
Export ListNotations.

Definition tid := nat.   (* table id = rank of the table's lock (TableName, table.go:22-41) *)
Definition cell := nat.
Definition ver := nat.
Definition thr := nat.

Inductive instr :=
| ILoad                                   (* d := p.data.Load() *)
| IRLock (t : tid)                        (* store(d,t).lock.RLock(); the first one of a scope starts a new request *)
| IRUnlock (t : tid)
| IWant (t : tid)                         (* Lock() has been called: pending, new readers wait *)
| ILock (t : tid)                         (* Lock() returns *)
| IUnlock (t : tid)                       (* Unlock(): batch boundary *)
| IRead (t : tid) (c : cell)              (* gather / serialise one cell *)
| IWrite (t : tid) (c : cell) (v : ver)   (* one cell of a batch (or of a data set built aside) *)
| INew                                    (* d := NewDataStoreSet(p), private *)
| IPublish.                               (* p.data.Store(d) *)

(** an entry of a thread's output: lock scope number, data set, table, cell, version read *)
Definition entry := (nat * nat * tid * cell * ver)%type.

Record thread := mkT {
  code : list instr;
  dreg : nat;            (* the data set the thread works on *)
  hr : list tid;         (* read locks held on stores (dreg, t) *)
  hw : option tid;       (* write lock held *)
  pend : option tid;     (* pending writer on (dreg, t) *)
  priv : bool;           (* dreg is being built aside *)
  rel : bool;            (* the current lock scope has started to release *)
  reqno : nat;           (* number of lock scopes started *)
  out : list entry }.

Record state := mkS {
  th : thr -> thread;
  mem : nat -> tid -> cell -> ver;
  pub : nat;                               (* Peer.data *)
  next : nat;                              (* next unused data set id *)
  comm : nat -> tid -> cell -> ver;        (* ghost *)
  pubs : list nat;                         (* ghost *)
  snap : thr -> nat -> tid -> cell -> ver; (* ghost: thread, scope, table *)
  dsel : thr -> nat -> nat }.              (* ghost: thread, scope -> data set *)

Definition upd {A} (f : nat -> A) (i : nat) (a : A) : nat -> A :=
  fun j => if Nat.eqb j i then a else f j.

Definition upd2 {A} (f : nat -> nat -> A) (d t : nat) (a : A) : nat -> nat -> A :=
  fun d' t' => if Nat.eqb d' d && Nat.eqb t' t then a else f d' t'.

Definition oeqb (o : option nat) (t : nat) : bool :=
  match o with Some u => Nat.eqb u t | None => false end.

Definition onone (o : option nat) : bool := match o with None => true | Some _ => false end.

Definition lnil (l : list nat) : bool := match l with [] => true | _ => false end.

Definition memb (t : nat) (l : list nat) : bool := existsb (Nat.eqb t) l.

Fixpoint remove1 (t : nat) (l : list nat) : list nat :=
  match l with
  | [] => []
  | u :: r => if Nat.eqb u t then r else u :: remove1 t r
  end.

(** all threads below [n] other than [i] satisfy [p] *)
Definition others (n i : nat) (p : thr -> bool) : bool :=
  forallb (fun j => Nat.eqb j i || p j) (seq 0 n).

(** RLock returns: nobody holds the write lock of the store and no writer is pending on it *)
Definition can_rlock (n : nat) (s : state) (i : thr) (t : tid) : bool :=
  others n i (fun j => negb (Nat.eqb (dreg (th s j)) (dreg (th s i)))
                       || (negb (oeqb (hw (th s j)) t) && negb (oeqb (pend (th s j)) t))).

(** Lock returns: nobody else holds the store in any mode *)
Definition can_lock (n : nat) (s : state) (i : thr) (t : tid) : bool :=
  others n i (fun j => negb (Nat.eqb (dreg (th s j)) (dreg (th s i)))
                       || (negb (oeqb (hw (th s j)) t) && negb (memb t (hr (th s j))))).

Definition set_th (s : state) (i : thr) (T : thread) : state :=
  mkS (upd (th s) i T) (mem s) (pub s) (next s) (comm s) (pubs s) (snap s) (dsel s).

(** one step of thread [i]; [None]: it has finished, or its lock request has to wait *)
Definition step (n : nat) (s : state) (i : thr) : option state :=
  if Nat.leb n i then None else
  let T := th s i in
  let d := dreg T in
  match code T with
  | [] => None
  | ILoad :: r =>
      Some (set_th s i (mkT r (pub s) (hr T) (hw T) (pend T) (priv T) (rel T) (reqno T) (out T)))
  | IRLock t :: r =>
      if can_rlock n s i t then
        let k := if lnil (hr T) then S (reqno T) else reqno T in
        Some (mkS (upd (th s) i (mkT r d (t :: hr T) (hw T) (pend T) (priv T) (if lnil (hr T) then false else rel T) k (out T)))
                  (mem s) (pub s) (next s) (comm s) (pubs s)
                  (upd (snap s) i (upd2 (snap s i) k t (comm s d t)))
                  (upd (dsel s) i (upd (dsel s i) k d)))
      else None
  | IRUnlock t :: r =>
      Some (set_th s i (mkT r d (remove1 t (hr T)) (hw T) (pend T) (priv T) true (reqno T) (out T)))
  | IWant t :: r =>
      Some (set_th s i (mkT r d (hr T) (hw T) (Some t) (priv T) (rel T) (reqno T) (out T)))
  | ILock t :: r =>
      if can_lock n s i t then
        Some (set_th s i (mkT r d (hr T) (Some t) None (priv T) (rel T) (reqno T) (out T)))
      else None
  | IUnlock t :: r =>
      Some (mkS (upd (th s) i (mkT r d (hr T) None (pend T) (priv T) (rel T) (reqno T) (out T)))
                (mem s) (pub s) (next s) (upd2 (comm s) d t (mem s d t)) (pubs s) (snap s) (dsel s))
  | IRead t c :: r =>
      (* what a reader serialises is recorded; a writer / builder looking at its own store is not a response *)
      let o := if memb t (hr T) || negb (oeqb (hw T) t || priv T)
               then (reqno T, d, t, c, mem s d t c) :: out T else out T in
      Some (set_th s i (mkT r d (hr T) (hw T) (pend T) (priv T) (rel T) (reqno T) o))
  | IWrite t c v :: r =>
      Some (mkS (upd (th s) i (mkT r d (hr T) (hw T) (pend T) (priv T) (rel T) (reqno T) (out T)))
                (upd2 (mem s) d t (upd (mem s d t) c v)) (pub s) (next s) (comm s) (pubs s) (snap s) (dsel s))
  | INew :: r =>
      Some (mkS (upd (th s) i (mkT r (next s) (hr T) (hw T) (pend T) true (rel T) (reqno T) (out T)))
                (mem s) (pub s) (S (next s)) (comm s) (pubs s) (snap s) (dsel s))
  | IPublish :: r =>
      Some (mkS (upd (th s) i (mkT r d (hr T) (hw T) (pend T) false (rel T) (reqno T) (out T)))
                (mem s) d (next s) (upd (comm s) d (mem s d)) (d :: pubs s) (snap s) (dsel s))
  end.

(** a schedule: which thread moves next. [None]: the schedule asks a thread to move that cannot. *)
Fixpoint run (n : nat) (s : state) (sched : list thr) : option state :=
  match sched with
  | [] => Some s
  | i :: rest => match step n s i with Some s' => run n s' rest | None => None end
  end.

(** ** The discipline, as a static check of a program

    [safe hr hw pend priv rel code]: from a thread state holding read locks [hr], write lock [hw], ...
    the program
      - takes read locks in strictly increasing table id order, never while holding or waiting for a
        write lock, never after the scope began to release, never on a private data set;
      - takes a write lock only while holding nothing (Lock() = IWant; ILock);
      - reads a cell only of a table it holds (in either mode) or of its private data set;
      - writes a cell only of the table it holds the write lock of, or of its private data set;
      - reloads the data set pointer / starts a data set aside only while holding nothing;
      - publishes only a private data set; ends holding nothing. *)
Fixpoint safe (h : list tid) (w p : option tid) (pv rl : bool) (is : list instr) : bool :=
  match is with
  | [] => lnil h && onone w && onone p && negb pv
  | ILoad :: r => lnil h && onone w && onone p && negb pv && safe [] None None false rl r
  | IRLock t :: r =>
      negb pv && onone w && onone p && (lnil h || negb rl) && forallb (fun u => Nat.ltb u t) h
      && safe (t :: h) None None false (if lnil h then false else rl) r
  | IRUnlock t :: r => memb t h && onone p && safe (remove1 t h) w None pv true r
  | IWant t :: r =>
      negb pv && lnil h && onone w && onone p
      && match r with ILock t' :: _ => Nat.eqb t t' | _ => false end
      && safe [] None (Some t) false rl r
  | ILock t :: r => oeqb p t && lnil h && onone w && negb pv && safe [] (Some t) None false rl r
  | IUnlock t :: r => oeqb w t && lnil h && onone p && safe [] None None pv rl r
  | IRead t c :: r => (memb t h || oeqb w t || pv) && onone p && safe h w None pv rl r
  | IWrite t c v :: r => (oeqb w t || pv) && onone p && safe h w None pv rl r
  | INew :: r => lnil h && onone w && onone p && negb pv && safe [] None None true rl r
  | IPublish :: r => pv && lnil h && onone w && onone p && safe [] None None false rl r
  end.

Definition tsafe (T : thread) : bool := safe (hr T) (hw T) (pend T) (priv T) (rel T) (code T).

(** initial states: [n] threads, nobody holds anything, everybody looks at the published data set,
    whose content is committed, every program passes the check *)
Record init_ok (n : nat) (s : state) : Prop := {
  i_hr : forall i, i < n -> hr (th s i) = [];
  i_hw : forall i, i < n -> hw (th s i) = None;
  i_pend : forall i, i < n -> pend (th s i) = None;
  i_priv : forall i, i < n -> priv (th s i) = false;
  i_out : forall i, i < n -> out (th s i) = [];
  i_dreg : forall i, i < n -> dreg (th s i) = pub s;
  i_safe : forall i, i < n -> tsafe (th s i) = true;
  i_pubs : pubs s = [pub s];
  i_next : pub s < next s;
  i_comm : forall d t c, mem s d t c = comm s d t c }.

(** ** The roles of the code as programs *)

(** response.go NewResponse: load the data set, lock the affected tables in the given (sorted) order,
    gather and serialise [cells], unlock *)
Definition reader_prog (ts : list tid) (cells : list (tid * cell)) : list instr :=
  ILoad :: map IRLock ts ++ map (fun tc => IRead (fst tc) (snd tc)) cells ++ map IRUnlock ts.

(** insertDeltaDataResult / UpdateFullTable / updateDeltaCommentsOrDowntimes / a WaitCondition
    goroutine's UpdateDeltaHosts: (prepare outside the lock: no shared effect) Lock one table, apply the
    batch (cells of the rows, all with the batch's version), Unlock *)
Definition batch_prog (t : tid) (v : ver) (cells : list cell) : list instr :=
  IWant t :: ILock t :: map (fun c => IWrite t c v) cells ++ [IUnlock t].

(** UpdateDelta on a loaded data set: batches on several tables, one after the other *)
Definition delta_prog (bs : list (tid * ver * list cell)) : list instr :=
  ILoad :: flat_map (fun b => batch_prog (fst (fst b)) (snd (fst b)) (snd b)) bs.

(** buildDowntimeCommentsList: scan hosts, services and the comments table under read locks taken in
    this (increasing) order, release, then one batch on hosts and one on services *)
Definition commentdiff_prog (ts : list tid) (cells : list (tid * cell)) (bs : list (tid * ver * list cell)) : list instr :=
  reader_prog ts cells ++ flat_map (fun b => batch_prog (fst (fst b)) (snd (fst b)) (snd b)) bs.

(** InitAllTables: build a new data set aside, publish it with one atomic store *)
Definition rebuild_prog (v : ver) (cells : list (tid * cell)) : list instr :=
  INew :: map (fun tc => IWrite (fst tc) (snd tc) v) cells ++ [IPublish].

(** strictly increasing table ids: the order getAffectedTables produces (slices.Sort of distinct ids) *)
Fixpoint increasing (l : list tid) : bool :=
  match l with
  | [] => true
  | t :: r => forallb (fun u => Nat.ltb t u) r && increasing r
  end.

(** ** Wait-for graph *)

(** [i] is at a lock request that [j] (holder, or pending writer ahead of a reader) keeps from returning *)
Definition waits_for (n : nat) (s : state) (i j : thr) : Prop :=
  i < n /\ j < n /\ i <> j /\ dreg (th s j) = dreg (th s i) /\
  match code (th s i) with
  | IRLock t :: _ => hw (th s j) = Some t \/ pend (th s j) = Some t
  | ILock t :: _ => hw (th s j) = Some t \/ In t (hr (th s j))
  | _ => False
  end.

(** rank of the request a thread is making *)
Definition want (T : thread) : option nat :=
  match code T with
  | IRLock t :: _ => Some (2 * t)
  | ILock t :: _ => Some (2 * t + 1)
  | _ => None
  end.

(** ** Rows: a cell is (row, column), [ncols] columns per row *)
Section Rows.
  Variable ncols : nat.
  Definition cell_of (row col : nat) : cell := row * ncols + col.
  Definition row_cells (row : nat) : list cell := map (cell_of row) (seq 0 ncols).
  (** the cells a batch touching [rows] writes: every column of every one of its rows *)
  Definition rows_cells (rows : list nat) : list cell := flat_map row_cells rows.
End Rows.

(** ** concrete states for the examples of Props.v *)

Definition idle : thread := mkT [] 0 [] None None false false 0 [].

Definition st0 (progs : list (list instr)) : state :=
  mkS (fun i => mkT (nth i progs []) 0 [] None None false false 0 [])
      (fun _ _ _ => 0) 0 1 (fun _ _ _ => 0) [0] (fun _ _ _ _ => 0) (fun _ _ => 0).

Definition outs (n : nat) (o : option state) : list (list entry) :=
  match o with Some s => map (fun i => out (th s i)) (seq 0 n) | None => [] end.

(** tables 3 (hosts) and 4 (services); cells 0,1 = the two columns of row 0 *)
Definition good : list (list instr) :=
  [ reader_prog [3; 4] [(3, 0); (3, 1); (4, 0)];
    delta_prog [(3, 7, [0; 1])];
    rebuild_prog 9 [(3, 0); (3, 1); (4, 0)];
    reader_prog [3] [(3, 0); (3, 1)] ].

(** the mutant "unlock before serialising" and the mutant "a batch row by row, lock released in between" *)
Definition unlock_early : list instr := [ILoad; IRLock 3; IRUnlock 3; IRead 3 0; IRead 3 1].
Definition row_by_row : list instr := ILoad :: batch_prog 3 7 [0] ++ batch_prog 3 7 [1].

