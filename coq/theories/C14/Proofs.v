(** C14: proofs about the locking protocol model (Model.v). Invariants of all reachable states,
    by induction over arbitrary schedules. *)
From LMD Require Import C14.Model.
From Coq Require Import Relations.

(** ** small facts *)

Lemma upd_same {A} (f : nat -> A) i a : upd f i a i = a.
Proof. unfold upd; rewrite Nat.eqb_refl; reflexivity. Qed.

Lemma upd_other {A} (f : nat -> A) i a j : j <> i -> upd f i a j = f j.
Proof. intros H; unfold upd; destruct (Nat.eqb_spec j i); [contradiction|reflexivity]. Qed.

Lemma lnil_true l : lnil l = true -> l = [].
Proof. destruct l; [reflexivity|discriminate]. Qed.

Lemma onone_true o : onone o = true -> o = None.
Proof. destruct o; [discriminate|reflexivity]. Qed.

Lemma oeqb_true o t : oeqb o t = true -> o = Some t.
Proof. destruct o as [u|]; cbn [oeqb]; [|discriminate]. intros H; apply Nat.eqb_eq in H; subst; reflexivity. Qed.

Lemma oeqb_false o t : oeqb o t = false -> o <> Some t.
Proof. intros H E; subst; cbn [oeqb] in H; rewrite Nat.eqb_refl in H; discriminate. Qed.

Lemma negb_true b : negb b = true -> b = false.
Proof. destruct b; [discriminate|reflexivity]. Qed.

Lemma memb_In t l : memb t l = true <-> In t l.
Proof.
  unfold memb; rewrite existsb_exists; split.
  - intros [x [Hin Hx]]; apply Nat.eqb_eq in Hx; subst; assumption.
  - intros H; exists t; split; [assumption|apply Nat.eqb_refl].
Qed.

Lemma memb_false t l : memb t l = false -> ~ In t l.
Proof. intros H Hin; apply memb_In in Hin; congruence. Qed.

Lemma remove1_In x t l : In x (remove1 t l) -> In x l.
Proof.
  induction l as [|u r IH]; cbn [remove1]; [tauto|].
  destruct (Nat.eqb u t); cbn [In]; tauto.
Qed.

Lemma others_spec n i p : others n i p = true -> forall j, j < n -> j <> i -> p j = true.
Proof.
  unfold others; rewrite forallb_forall; intros H j Hj Hne.
  assert (Hin : In j (seq 0 n)) by (apply in_seq; lia).
  specialize (H j Hin); apply orb_true_iff in H; destruct H as [H|H]; [|assumption].
  apply Nat.eqb_eq in H; contradiction.
Qed.

Lemma upd2_same {A} (f : nat -> nat -> A) d t a : upd2 f d t a d t = a.
Proof. unfold upd2; rewrite !Nat.eqb_refl; reflexivity. Qed.

Lemma upd2_other {A} (f : nat -> nat -> A) d t a d' t' : (d', t') <> (d, t) -> upd2 f d t a d' t' = f d' t'.
Proof.
  intros H; unfold upd2; destruct (Nat.eqb_spec d' d); destruct (Nat.eqb_spec t' t); cbn [andb]; try reflexivity.
  subst; contradiction.
Qed.

(** ** what the static check says about a thread state *)

Ltac split_safe H :=
  repeat match type of H with
         | (_ && _) = true => let H1 := fresh "Hs" in let H2 := fresh "Hs" in
                              apply andb_true_iff in H; destruct H as [H1 H2]; split_safe H1; split_safe H2
         end.

Ltac norm_safe :=
  repeat match goal with
         | H : lnil _ = true |- _ => apply lnil_true in H
         | H : onone _ = true |- _ => apply onone_true in H
         | H : oeqb _ _ = true |- _ => apply oeqb_true in H
         | H : negb _ = true |- _ => apply negb_true in H
         end.

Section Facts.
  Variable T : thread.
  Hypothesis HT : tsafe T = true.

  Lemma f_load r : code T = ILoad :: r -> hr T = [] /\ hw T = None /\ pend T = None /\ priv T = false.
  Proof. unfold tsafe in HT; intros E; rewrite E in HT; cbn [safe] in HT; split_safe HT; norm_safe; auto. Qed.

  Lemma f_new r : code T = INew :: r -> hr T = [] /\ hw T = None /\ pend T = None /\ priv T = false.
  Proof. unfold tsafe in HT; intros E; rewrite E in HT; cbn [safe] in HT; split_safe HT; norm_safe; auto. Qed.

  Lemma f_publish r : code T = IPublish :: r -> hr T = [] /\ hw T = None /\ pend T = None /\ priv T = true.
  Proof. unfold tsafe in HT; intros E; rewrite E in HT; cbn [safe] in HT; split_safe HT; norm_safe; auto. Qed.

  Lemma f_rlock t r : code T = IRLock t :: r ->
    hw T = None /\ pend T = None /\ priv T = false /\ (forall u, In u (hr T) -> u < t) /\ (hr T = [] \/ rel T = false).
  Proof.
    unfold tsafe in HT; intros E; rewrite E in HT; cbn [safe] in HT.
    rewrite !andb_true_iff in HT. destruct HT as [[[[[Ha Hb] Hc] Hd] He] _]. norm_safe.
    repeat split; auto.
    - intros u Hu. rewrite forallb_forall in He. apply Nat.ltb_lt; auto.
    - apply orb_true_iff in Hd; destruct Hd as [H|H]; norm_safe; auto.
  Qed.

  Lemma f_lock t r : code T = ILock t :: r -> hr T = [] /\ hw T = None /\ pend T = Some t /\ priv T = false.
  Proof. unfold tsafe in HT; intros E; rewrite E in HT; cbn [safe] in HT; split_safe HT; norm_safe; auto. Qed.

  Lemma f_unlock t r : code T = IUnlock t :: r -> hw T = Some t /\ hr T = [] /\ pend T = None.
  Proof. unfold tsafe in HT; intros E; rewrite E in HT; cbn [safe] in HT; split_safe HT; norm_safe; auto. Qed.

  Lemma f_write t c v r : code T = IWrite t c v :: r -> (hw T = Some t \/ priv T = true) /\ pend T = None.
  Proof.
    unfold tsafe in HT; intros E; rewrite E in HT; cbn [safe] in HT.
    rewrite !andb_true_iff in HT. destruct HT as [[Ha Hb] _]. norm_safe.
    split; [|assumption]. apply orb_true_iff in Ha; destruct Ha as [H|H]; norm_safe; auto.
  Qed.

  Lemma f_read t c r : code T = IRead t c :: r -> In t (hr T) \/ hw T = Some t \/ priv T = true.
  Proof.
    unfold tsafe in HT; intros E; rewrite E in HT; cbn [safe] in HT.
    rewrite !andb_true_iff, !orb_true_iff in HT. destruct HT as [[[[Ha|Ha]|Ha] _] _]; norm_safe; auto.
    left; apply memb_In; assumption.
  Qed.

  Lemma f_want t r : code T = IWant t :: r -> hr T = [] /\ hw T = None /\ pend T = None /\ priv T = false.
  Proof. unfold tsafe in HT; intros E; rewrite E in HT; cbn [safe] in HT; split_safe HT; norm_safe; auto. Qed.

  (** a thread holding a write lock is not at a lock request *)
  Lemma f_writer_moves t : hw T = Some t -> want T = None.
  Proof.
    intros Hw; unfold want; destruct (code T) as [|[] r] eqn:E; try reflexivity.
    - destruct (f_rlock _ _ E) as [H _]; congruence.
    - destruct (f_lock _ _ E) as [_ [H _]]; congruence.
  Qed.

  (** a pending writer is at the ILock of the same table *)
  Lemma f_pending t : pend T = Some t -> exists r, code T = ILock t :: r.
  Proof.
    intros Hp; unfold tsafe in HT; rewrite Hp in HT.
    destruct (code T) as [|[] r] eqn:E; cbn [safe] in HT; rewrite ?andb_true_iff in HT;
      try (exfalso; cbn [onone] in HT; intuition discriminate).
    destruct HT as [[[[Ha _] _] _] _]. apply oeqb_true in Ha. injection Ha as ->. eauto.
  Qed.
End Facts.

(** ** invariants *)

Definition all_safe (n : nat) (s : state) : Prop := forall j, j < n -> tsafe (th s j) = true.

Definition priv_nolock (n : nat) (s : state) : Prop :=
  forall j, j < n -> priv (th s j) = true -> hr (th s j) = [].

Definition w_nolock (n : nat) (s : state) : Prop :=
  forall j, j < n -> forall t, hw (th s j) = Some t -> hr (th s j) = [].

Definition excl (n : nat) (s : state) : Prop :=
  forall i j, i < n -> j < n -> i <> j -> dreg (th s i) = dreg (th s j) ->
  forall t, hw (th s i) = Some t -> hw (th s j) <> Some t /\ ~ In t (hr (th s j)).

Record fresh (n : nat) (s : state) : Prop := {
  fr_dreg : forall j, j < n -> dreg (th s j) < next s;
  fr_pub : pub s < next s;
  fr_pubs : forall d, In d (pubs s) -> d < next s;
  fr_pubin : In (pub s) (pubs s);
  fr_alone : forall i j, i < n -> j < n -> i <> j -> priv (th s i) = true -> dreg (th s j) <> dreg (th s i);
  fr_unpub : forall i, i < n -> priv (th s i) = true -> ~ In (dreg (th s i)) (pubs s);
  fr_seen : forall j, j < n -> priv (th s j) = false -> In (dreg (th s j)) (pubs s) }.

(** no writer and no builder on a store: its content is the committed one *)
Definition quiet (n : nat) (s : state) : Prop :=
  forall d t, (forall j, j < n -> dreg (th s j) = d -> hw (th s j) <> Some t /\ priv (th s j) = false) ->
  forall c, mem s d t c = comm s d t c.

Definition snapok (n : nat) (s : state) : Prop :=
  forall i, i < n -> forall t, In t (hr (th s i)) ->
  forall c, snap s i (reqno (th s i)) t c = comm s (dreg (th s i)) t c.

Definition dselok (n : nat) (s : state) : Prop :=
  forall i, i < n -> hr (th s i) <> [] -> dsel s i (reqno (th s i)) = dreg (th s i).

Definition outok (n : nat) (s : state) : Prop :=
  forall i, i < n -> forall k d t c v, In (k, d, t, c, v) (out (th s i)) ->
  v = snap s i k t c /\ d = dsel s i k /\ In d (pubs s) /\ k <= reqno (th s i) /\
  (k = reqno (th s i) -> rel (th s i) = false -> hr (th s i) <> [] -> In t (hr (th s i))).

Record inv (n : nat) (s : state) : Prop := {
  v_safe : all_safe n s;
  v_pnl : priv_nolock n s;
  v_wnl : w_nolock n s;
  v_excl : excl n s;
  v_fresh : fresh n s;
  v_quiet : quiet n s;
  v_snap : snapok n s;
  v_dsel : dselok n s;
  v_out : outok n s }.

(** ** the step function, case by case *)

Ltac step_cases Hstep n s i :=
  unfold step in Hstep;
  destruct (Nat.leb_spec n i) as [Hge|Hlt]; [discriminate|];
  destruct (code (th s i)) as [|ins r] eqn:Ecode; [discriminate|];
  destruct ins as [|t|t|t|t|t|t c|t c v| |];
  [ | destruct (can_rlock n s i t) eqn:Ecan; [|discriminate] | | | destruct (can_lock n s i t) eqn:Ecan; [|discriminate] | | | | | ];
  injection Hstep as <-.

Ltac thcase j i := unfold set_th; cbn [th mem pub next comm pubs snap dsel];
  destruct (Nat.eq_dec j i) as [->|Hji]; [rewrite ?upd_same|rewrite ?upd_other by assumption];
  cbn [code dreg hr hw pend priv rel reqno out].

Lemma step_safe n s i s' : all_safe n s -> step n s i = Some s' -> all_safe n s'.
Proof.
  intros Hs Hstep j Hj.
  step_cases Hstep n s i; thcase j i; auto;
    specialize (Hs i Hlt); unfold tsafe in Hs |- *; rewrite Ecode in Hs; cbn [safe] in Hs;
    cbn [code dreg hr hw pend priv rel reqno out]; split_safe Hs; norm_safe;
    repeat match goal with H : _ = _ |- _ => rewrite H end; try assumption.
Qed.

Lemma step_pnl n s i s' : all_safe n s -> priv_nolock n s -> step n s i = Some s' -> priv_nolock n s'.
Proof.
  intros Hs Hp Hstep j Hj.
  pose proof (Hs i) as Hsi.
  step_cases Hstep n s i; specialize (Hsi Hlt); thcase j i; auto; intros Hpv;
    try (apply (Hp i Hlt); assumption); try discriminate.
  - destruct (f_rlock _ Hsi _ _ Ecode) as [_ [_ [H _]]]; congruence.
  - rewrite (Hp i Hlt Hpv); reflexivity.
  - destruct (f_new _ Hsi _ Ecode) as [H _]; assumption.
Qed.

(** two distinct threads [a], [b] after a step of [i]: [a = i], [b = i] or neither *)
Ltac ab_split a b i :=
  unfold set_th; cbn [th];
  destruct (Nat.eq_dec a i) as [->|Hai];
  [ rewrite upd_same; rewrite (upd_other _ _ _ b) by congruence
  | rewrite (upd_other _ _ _ a) by assumption;
    destruct (Nat.eq_dec b i) as [->|Hbi]; [rewrite upd_same | rewrite (upd_other _ _ _ b) by assumption] ];
  cbn [code dreg hr hw pend priv rel reqno out].

Lemma can_rlock_spec n s i t j : can_rlock n s i t = true -> j < n -> j <> i ->
  dreg (th s j) = dreg (th s i) -> hw (th s j) <> Some t /\ pend (th s j) <> Some t.
Proof.
  intros Hc Hj Hji Hd. pose proof (others_spec _ _ _ Hc j Hj Hji) as H; cbn beta in H.
  rewrite Hd, Nat.eqb_refl in H; cbn [negb orb] in H. apply andb_true_iff in H; destruct H as [H1 H2].
  split; apply oeqb_false; apply negb_true; assumption.
Qed.

Lemma can_lock_spec n s i t j : can_lock n s i t = true -> j < n -> j <> i ->
  dreg (th s j) = dreg (th s i) -> hw (th s j) <> Some t /\ ~ In t (hr (th s j)).
Proof.
  intros Hc Hj Hji Hd. pose proof (others_spec _ _ _ Hc j Hj Hji) as H; cbn beta in H.
  rewrite Hd, Nat.eqb_refl in H; cbn [negb orb] in H. apply andb_true_iff in H; destruct H as [H1 H2].
  split; [apply oeqb_false|apply memb_false]; apply negb_true; assumption.
Qed.

Lemma step_excl n s i s' : all_safe n s -> excl n s -> step n s i = Some s' -> excl n s'.
Proof.
  intros Hs Hex Hstep a b Ha Hb Hab.
  pose proof (Hs i) as Hsi.
  step_cases Hstep n s i; specialize (Hsi Hlt); ab_split a b i; intros Hd t0 Hw0;
    try (apply (Hex a b); assumption); try (apply (Hex i b); assumption); try (apply (Hex a i); assumption).
  - (* ILoad, a = i *) destruct (f_load _ Hsi _ Ecode) as [_ [H _]]; congruence.
  - (* ILoad, b = i *) destruct (f_load _ Hsi _ Ecode) as [H1 [H2 _]]; rewrite H1, H2; split; [discriminate|intros []].
  - (* IRLock, b = i *)
    destruct (f_rlock _ Hsi _ _ Ecode) as [H _]. split; [congruence|].
    intros [<-|Hin].
    + destruct (can_rlock_spec _ _ _ _ a Ecan Ha Hai Hd) as [H1 _]; contradiction.
    + destruct (Hex a i Ha Hb Hab Hd t0 Hw0) as [_ H2]; contradiction.
  - (* IRUnlock, b = i *)
    destruct (Hex a i Ha Hb Hab Hd t0 Hw0) as [H1 H2]. split; [assumption|].
    intros Hin; apply remove1_In in Hin; contradiction.
  - (* ILock, a = i *) injection Hw0 as <-. apply (can_lock_spec _ _ _ _ b Ecan Hb); congruence.
  - (* ILock, b = i *)
    destruct (can_lock_spec _ _ _ _ a Ecan Ha Hai Hd) as [H1 _].
    destruct (f_lock _ Hsi _ _ Ecode) as [H2 _]. rewrite H2. split; [congruence|intros []].
  - (* IUnlock, a = i *) discriminate.
  - (* IUnlock, b = i *)
    destruct (Hex a i Ha Hb Hab Hd t0 Hw0) as [_ H2]. split; [discriminate|assumption].
  - (* INew, a = i *) destruct (f_new _ Hsi _ Ecode) as [_ [H _]]; congruence.
  - (* INew, b = i *) destruct (f_new _ Hsi _ Ecode) as [H1 [H2 _]]; rewrite H1, H2; split; [discriminate|intros []].
Qed.

Lemma fresh_same n s s' :
  (forall j, dreg (th s' j) = dreg (th s j) /\ priv (th s' j) = priv (th s j)) ->
  pub s' = pub s -> next s' = next s -> pubs s' = pubs s -> fresh n s -> fresh n s'.
Proof.
  intros Hth Hp Hn Hps [F1 F2 F3 F4 F5 F6 F7].
  constructor; rewrite ?Hp, ?Hn, ?Hps; auto.
  - intros j Hj; rewrite (proj1 (Hth j)); auto.
  - intros a b Ha Hb Hab Hpv. rewrite (proj1 (Hth a)), (proj1 (Hth b)). rewrite (proj2 (Hth a)) in Hpv. auto.
  - intros a Ha Hpv. rewrite (proj1 (Hth a)). rewrite (proj2 (Hth a)) in Hpv. auto.
  - intros a Ha Hpv. rewrite (proj1 (Hth a)). rewrite (proj2 (Hth a)) in Hpv. auto.
Qed.

Ltac same_fields i :=
  intros j; unfold set_th; cbn [th]; destruct (Nat.eq_dec j i) as [->|Hji];
  [rewrite upd_same|rewrite upd_other by assumption]; cbn [dreg priv]; auto.

Lemma step_fresh n s i s' : all_safe n s -> fresh n s -> step n s i = Some s' -> fresh n s'.
Proof.
  intros Hs Hf Hstep.
  pose proof (Hs i) as Hsi.
  step_cases Hstep n s i; specialize (Hsi Hlt);
    try solve [apply (fresh_same n s); [same_fields i|reflexivity|reflexivity|reflexivity|assumption]].
  - (* ILoad *)
    destruct Hf as [F1 F2 F3 F4 F5 F6 F7]. destruct (f_load _ Hsi _ Ecode) as [_ [_ [_ Hpv]]].
    constructor; unfold set_th; cbn [th pub next pubs]; auto.
    + intros j Hj; thcase j i; auto.
    + intros a b Ha Hb Hab; ab_split a b i; intros Hp; try congruence; auto.
      intros E. apply (F6 a Ha Hp). rewrite <- E. assumption.
    + intros a Ha; thcase a i; auto. congruence.
    + intros a Ha; thcase a i; auto.
  - (* INew *)
    destruct Hf as [F1 F2 F3 F4 F5 F6 F7]. destruct (f_new _ Hsi _ Ecode) as [_ [_ [_ Hpv]]].
    constructor; cbn [th pub next pubs]; auto.
    + intros j Hj; thcase j i; auto. specialize (F1 j Hj); lia.
    + intros d Hd; specialize (F3 d Hd); lia.
    + intros a b Ha Hb Hab; ab_split a b i; intros Hp; auto.
      * specialize (F1 b Hb); lia.
      * specialize (F1 a Ha); lia.
    + intros a Ha; thcase a i; auto. intros _ Hin. specialize (F3 _ Hin); lia.
    + intros a Ha; thcase a i; auto. discriminate.
  - (* IPublish *)
    destruct Hf as [F1 F2 F3 F4 F5 F6 F7]. destruct (f_publish _ Hsi _ Ecode) as [_ [_ [_ Hpv]]].
    constructor; cbn [th pub next pubs]; auto.
    + intros j Hj; thcase j i; auto.
    + intros d [<-|Hd]; auto.
    + left; reflexivity.
    + intros a b Ha Hb Hab; ab_split a b i; intros Hp; auto; discriminate.
    + intros a Ha; thcase a i; [discriminate|]. intros Hp [E|Hin].
      * apply (F5 i a Hlt Ha); auto.
      * apply (F6 a Ha Hp Hin).
    + intros a Ha; thcase a i; intros Hp; [left; reflexivity|right; auto].
Qed.

(** the premise of [quiet] for the state before the step, for all threads but the moving one *)
Ltac pre_other Hpre j i :=
  let H := fresh "H" in
  pose proof (Hpre j) as H; unfold set_th in H; cbn [th] in H; rewrite upd_other in H by assumption; auto.

Ltac pre_self Hpre i :=
  let H := fresh "H" in
  pose proof (Hpre i) as H; unfold set_th in H; cbn [th] in H; rewrite upd_same in H;
  cbn [code dreg hr hw pend priv rel reqno out] in H.

Lemma step_quiet n s i s' : all_safe n s -> quiet n s -> step n s i = Some s' -> quiet n s'.
Proof.
  intros Hs Hq Hstep d tt Hpre cc.
  pose proof (Hs i) as Hsi.
  step_cases Hstep n s i; specialize (Hsi Hlt); unfold set_th; cbn [mem comm].
  - (* ILoad *)
    apply Hq. intros j Hj Hdj. destruct (Nat.eq_dec j i) as [->|Hji]; [|pre_other Hpre j i].
    destruct (f_load _ Hsi _ Ecode) as [_ [H1 [_ H2]]]. rewrite H1, H2; split; [discriminate|reflexivity].
  - (* IRLock *)
    apply Hq. intros j Hj Hdj. destruct (Nat.eq_dec j i) as [->|Hji]; [|pre_other Hpre j i].
    pre_self Hpre i. auto.
  - (* IRUnlock *)
    apply Hq. intros j Hj Hdj. destruct (Nat.eq_dec j i) as [->|Hji]; [|pre_other Hpre j i].
    pre_self Hpre i. auto.
  - (* IWant *)
    apply Hq. intros j Hj Hdj. destruct (Nat.eq_dec j i) as [->|Hji]; [|pre_other Hpre j i].
    pre_self Hpre i. auto.
  - (* ILock *)
    apply Hq. intros j Hj Hdj. destruct (Nat.eq_dec j i) as [->|Hji]; [|pre_other Hpre j i].
    destruct (f_lock _ Hsi _ _ Ecode) as [_ [H1 [_ H2]]]. rewrite H1, H2; split; [discriminate|reflexivity].
  - (* IUnlock *)
    destruct (f_unlock _ Hsi _ _ Ecode) as [Hw _].
    destruct (Nat.eq_dec d (dreg (th s i))) as [->|Hd]; [destruct (Nat.eq_dec t tt) as [<-|Ht]|].
    + rewrite upd2_same; reflexivity.
    + rewrite upd2_other by congruence.
      apply Hq. intros j Hj Hdj. destruct (Nat.eq_dec j i) as [->|Hji]; [|pre_other Hpre j i].
      pre_self Hpre i. destruct (H Hlt eq_refl) as [_ Hpv]. split; [congruence|assumption].
    + rewrite upd2_other by congruence.
      apply Hq. intros j Hj Hdj. destruct (Nat.eq_dec j i) as [->|Hji]; [|pre_other Hpre j i].
      congruence.
  - (* IRead *)
    apply Hq. intros j Hj Hdj. destruct (Nat.eq_dec j i) as [->|Hji]; [|pre_other Hpre j i].
    pre_self Hpre i. auto.
  - (* IWrite *)
    destruct (f_write _ Hsi _ _ _ _ Ecode) as [Hwp _].
    destruct (Nat.eq_dec d (dreg (th s i))) as [->|Hd]; [destruct (Nat.eq_dec t tt) as [<-|Ht]|].
    + exfalso. pre_self Hpre i. destruct (H Hlt eq_refl) as [H1 H2]. destruct Hwp; congruence.
    + rewrite upd2_other by congruence.
      apply Hq. intros j Hj Hdj. destruct (Nat.eq_dec j i) as [->|Hji]; [|pre_other Hpre j i].
      pre_self Hpre i. auto.
    + rewrite upd2_other by congruence.
      apply Hq. intros j Hj Hdj. destruct (Nat.eq_dec j i) as [->|Hji]; [|pre_other Hpre j i].
      pre_self Hpre i. auto.
  - (* INew *)
    apply Hq. intros j Hj Hdj. destruct (Nat.eq_dec j i) as [->|Hji]; [|pre_other Hpre j i].
    destruct (f_new _ Hsi _ Ecode) as [_ [H1 [_ H2]]]. rewrite H1, H2; split; [discriminate|reflexivity].
  - (* IPublish *)
    destruct (Nat.eq_dec d (dreg (th s i))) as [->|Hd].
    + rewrite upd_same; reflexivity.
    + rewrite upd_other by assumption.
      apply Hq. intros j Hj Hdj. destruct (Nat.eq_dec j i) as [->|Hji]; [|pre_other Hpre j i].
      congruence.
Qed.

Lemma step_wnl n s i s' : all_safe n s -> w_nolock n s -> step n s i = Some s' -> w_nolock n s'.
Proof.
  intros Hs Hw Hstep j Hj.
  pose proof (Hs i) as Hsi.
  step_cases Hstep n s i; specialize (Hsi Hlt); thcase j i; auto; intros tt Hwt;
    try (apply (Hw i Hlt tt); assumption); try (apply (Hw j Hj tt); assumption); try discriminate.
  - destruct (f_rlock _ Hsi _ _ Ecode) as [H _]; congruence.
  - rewrite (Hw i Hlt tt Hwt); reflexivity.
  - destruct (f_lock _ Hsi _ _ Ecode) as [H _]; assumption.
Qed.

Lemma step_snap n s i s' :
  all_safe n s -> excl n s -> fresh n s -> snapok n s -> step n s i = Some s' -> snapok n s'.
Proof.
  intros Hs Hex Hf Hsn Hstep a Ha tt Hin cc.
  pose proof (Hs i) as Hsi.
  step_cases Hstep n s i; specialize (Hsi Hlt); revert Hin; thcase a i; intros Hin;
    try (apply Hsn; assumption).
  - (* ILoad, a = i *) destruct (f_load _ Hsi _ Ecode) as [H _]; rewrite H in Hin; destruct Hin.
  - (* IRLock, a = i *)
    destruct (Nat.eq_dec tt t) as [->|Ht].
    + rewrite upd2_same; reflexivity.
    + rewrite upd2_other by congruence.
      destruct Hin as [Hin|Hin]; [congruence|].
      destruct (hr (th s i)) eqn:Ehr; [destruct Hin|]. cbn [lnil].
      apply Hsn; [assumption|]. rewrite Ehr; assumption.
  - (* IRUnlock, a = i *) apply Hsn; [assumption|]. eapply remove1_In; eassumption.
  - (* IUnlock, a = i *) destruct (f_unlock _ Hsi _ _ Ecode) as [_ [H _]]; rewrite H in Hin; destruct Hin.
  - (* IUnlock, a <> i *)
    destruct (f_unlock _ Hsi _ _ Ecode) as [Hw _].
    destruct (Nat.eq_dec (dreg (th s a)) (dreg (th s i))) as [Hd|Hd]; [destruct (Nat.eq_dec tt t) as [->|Ht]|].
    + exfalso. destruct (Hex i a Hlt Ha (not_eq_sym Hji) (eq_sym Hd) t Hw) as [_ H]; contradiction.
    + rewrite upd2_other by congruence. apply Hsn; assumption.
    + rewrite upd2_other by congruence. apply Hsn; assumption.
  - (* INew, a = i *) destruct (f_new _ Hsi _ Ecode) as [H _]; rewrite H in Hin; destruct Hin.
  - (* IPublish, a = i *) destruct (f_publish _ Hsi _ Ecode) as [H _]; rewrite H in Hin; destruct Hin.
  - (* IPublish, a <> i *)
    destruct (f_publish _ Hsi _ Ecode) as [_ [_ [_ Hpv]]].
    rewrite upd_other by (apply (fr_alone _ _ Hf i a); auto).
    apply Hsn; assumption.
Qed.

Lemma step_dsel n s i s' : all_safe n s -> dselok n s -> step n s i = Some s' -> dselok n s'.
Proof.
  intros Hs Hds Hstep a Ha.
  pose proof (Hs i) as Hsi.
  step_cases Hstep n s i; specialize (Hsi Hlt); thcase a i; intros Hne;
    try (apply Hds; assumption).
  - (* ILoad *) destruct (f_load _ Hsi _ Ecode) as [H _]; congruence.
  - (* IRLock *) reflexivity.
  - (* IRUnlock *) apply Hds; [assumption|]. intros E; rewrite E in Hne; apply Hne; reflexivity.
  - (* INew *) destruct (f_new _ Hsi _ Ecode) as [H _]; congruence.
Qed.

Lemma step_out n s i s' : inv n s -> step n s i = Some s' -> outok n s'.
Proof.
  intros [Hs Hp Hwn Hex Hf Hq Hsn Hds Ho] Hstep a Ha k d tt cc vv.
  pose proof (Hs i) as Hsi.
  step_cases Hstep n s i; specialize (Hsi Hlt); thcase a i; intros Hin;
    try (exact (Ho _ Ha _ _ _ _ _ Hin)).
  - (* IRLock, a = i *)
    destruct (Ho _ Ha _ _ _ _ _ Hin) as [H1 [H2 [H3 [H4 H5]]]].
    destruct (f_rlock _ Hsi _ _ Ecode) as [_ [_ [_ [Hord Hrel]]]].
    destruct (hr (th s i)) as [|u0 h0] eqn:Ehr; cbn [lnil] in *.
    + (* a new scope *)
      rewrite upd2_other by (intros E; injection E; lia).
      rewrite upd_other by lia.
      repeat split; auto. intros E; lia.
    + destruct Hrel as [Hrel|Hrel]; [discriminate|].
      assert (Hkt : (k, tt) <> (reqno (th s i), t)).
      { intros E; injection E as -> ->. assert (In t (u0 :: h0)) by (apply H5; auto; discriminate).
        specialize (Hord t H); lia. }
      rewrite upd2_other by assumption.
      repeat split; auto.
      * destruct (Nat.eq_dec k (reqno (th s i))) as [->|Hk]; [rewrite upd_same|rewrite upd_other by assumption; assumption].
        rewrite H2. apply Hds; [assumption|rewrite Ehr; discriminate].
      * intros Ek Hr _. right. apply H5; auto. discriminate.
  - (* IRUnlock, a = i *)
    destruct (Ho _ Ha _ _ _ _ _ Hin) as [H1 [H2 [H3 [H4 H5]]]].
    repeat split; auto. intros _ E; discriminate.
  - (* IRead, a = i *)
    destruct (memb t (hr (th s i))) eqn:Emem; cbn [orb] in Hin.
    2:{ destruct (f_read _ Hsi _ _ _ Ecode) as [H|[H|H]].
        - apply memb_In in H; congruence.
        - rewrite H in Hin; cbn [oeqb] in Hin; rewrite Nat.eqb_refl in Hin; exact (Ho _ Ha _ _ _ _ _ Hin).
        - rewrite H, orb_true_r in Hin; exact (Ho _ Ha _ _ _ _ _ Hin). }
    destruct Hin as [E|Hin]; [|exact (Ho _ Ha _ _ _ _ _ Hin)].
    injection E as <- <- <- <- <-.
    apply memb_In in Emem.
    assert (Hne : hr (th s i) <> []) by (intros E; rewrite E in Emem; destruct Emem).
    assert (Hpv : priv (th s i) = false).
    { destruct (priv (th s i)) eqn:E; [|reflexivity]. exfalso; apply Hne; apply (Hp i Hlt E). }
    repeat split; auto.
    + rewrite (Hsn i Hlt t Emem c). apply Hq.
      intros j Hj Hdj. destruct (Nat.eq_dec j i) as [->|Hji].
      * split; [|assumption]. intros Hw; apply Hne; apply (Hwn i Hlt t Hw).
      * split.
        -- intros Hw. destruct (Hex j i Hj Hlt Hji Hdj t Hw) as [_ H]; contradiction.
        -- destruct (priv (th s j)) eqn:E; [|reflexivity]. exfalso.
           apply (fr_alone _ _ Hf j i Hj Hlt Hji E). auto.
    + symmetry; apply Hds; assumption.
    + apply (fr_seen _ _ Hf i Hlt Hpv).
  - (* IPublish, a = i *)
    destruct (Ho _ Ha _ _ _ _ _ Hin) as [H1 [H2 [H3 [H4 H5]]]].
    repeat split; auto. right; assumption.
  - (* IPublish, a <> i *)
    destruct (Ho _ Ha _ _ _ _ _ Hin) as [H1 [H2 [H3 [H4 H5]]]].
    repeat split; auto. right; assumption.
Qed.

Lemma step_inv n s i s' : inv n s -> step n s i = Some s' -> inv n s'.
Proof.
  intros Hi Hstep. pose proof Hi as [Hs Hp Hwn Hex Hf Hq Hsn Hds Ho].
  constructor.
  - eapply step_safe; eassumption.
  - eapply step_pnl; eassumption.
  - eapply step_wnl; eassumption.
  - eapply step_excl; eassumption.
  - eapply step_fresh; eassumption.
  - eapply step_quiet; eassumption.
  - eapply step_snap; eassumption.
  - eapply step_dsel; eassumption.
  - eapply step_out; eassumption.
Qed.

Lemma init_inv n s : init_ok n s -> inv n s.
Proof.
  intros [Ihr Ihw Ipe Ipv Iout Idr Isafe Ipubs Inext Icomm].
  constructor.
  - exact Isafe.
  - intros j Hj _; auto.
  - intros j Hj t _; auto.
  - intros a b Ha Hb _ _ t Hw. rewrite (Ihw a Ha) in Hw; discriminate.
  - constructor.
    + intros j Hj; rewrite (Idr j Hj); assumption.
    + assumption.
    + rewrite Ipubs; intros d [<-|[]]; assumption.
    + rewrite Ipubs; left; reflexivity.
    + intros a b Ha _ _ Hpv; rewrite (Ipv a Ha) in Hpv; discriminate.
    + intros a Ha Hpv; rewrite (Ipv a Ha) in Hpv; discriminate.
    + intros j Hj _; rewrite (Idr j Hj), Ipubs; left; reflexivity.
  - intros d t _ c; apply Icomm.
  - intros a Ha t Hin; rewrite (Ihr a Ha) in Hin; destruct Hin.
  - intros a Ha Hne; rewrite (Ihr a Ha) in Hne; contradiction.
  - intros a Ha k d t c v Hin; rewrite (Iout a Ha) in Hin; destruct Hin.
Qed.

Lemma run_inv n sched : forall s s', inv n s -> run n s sched = Some s' -> inv n s'.
Proof.
  induction sched as [|i rest IH]; intros s s' Hi Hrun; cbn [run] in Hrun.
  - injection Hrun as <-; assumption.
  - destruct (step n s i) as [s1|] eqn:Hstep; [|discriminate].
    eapply IH; [eapply step_inv; eassumption|eassumption].
Qed.

Lemma reachable_inv n s0 sched s : init_ok n s0 -> run n s0 sched = Some s -> inv n s.
Proof. intros H0 Hrun; eapply run_inv; [apply init_inv; eassumption|eassumption]. Qed.

(** ** reader_sees_batch_boundary *)

(** [committed s d t K]: [K] is the content store (d,t) has at its current batch boundary *)
Lemma thm_reader_sees_batch_boundary n s0 sched s :
  init_ok n s0 -> run n s0 sched = Some s ->
  forall i, i < n -> forall k d t c v, In (k, d, t, c, v) (out (th s i)) ->
  v = snap s i k t c.
Proof.
  intros H0 Hrun i Hi k d t c v Hin.
  destruct (v_out _ _ (reachable_inv _ _ _ _ H0 Hrun) i Hi _ _ _ _ _ Hin) as [H _]; exact H.
Qed.

(** while a read lock is held the store stays at the batch boundary found when the lock was taken,
    and its content IS that committed content: no batch is half applied under a reader *)
Lemma thm_read_lock_freezes n s0 sched s :
  init_ok n s0 -> run n s0 sched = Some s ->
  forall i, i < n -> forall t, In t (hr (th s i)) -> forall c,
  mem s (dreg (th s i)) t c = comm s (dreg (th s i)) t c /\
  comm s (dreg (th s i)) t c = snap s i (reqno (th s i)) t c.
Proof.
  intros H0 Hrun i Hi t Hin c.
  pose proof (reachable_inv _ _ _ _ H0 Hrun) as [Hs Hp Hwn Hex Hf Hq Hsn Hds Ho].
  assert (Hne : hr (th s i) <> []) by (intros E; rewrite E in Hin; destruct Hin).
  split; [|symmetry; apply Hsn; assumption].
  apply Hq. intros j Hj Hdj. destruct (Nat.eq_dec j i) as [->|Hji].
  - split.
    + intros Hw; apply Hne; apply (Hwn i Hi t Hw).
    + destruct (priv (th s i)) eqn:E; [|reflexivity]. exfalso; apply Hne; apply (Hp i Hi E).
  - split.
    + intros Hw. destruct (Hex j i Hj Hi Hji Hdj t Hw) as [_ H]; contradiction.
    + destruct (priv (th s j)) eqn:E; [|reflexivity]. exfalso.
      apply (fr_alone _ _ Hf j i Hj Hi Hji E). auto.
Qed.

(** ** rebuild_invisible_until_swap *)

Lemma thm_rebuild_invisible n s0 sched s :
  init_ok n s0 -> run n s0 sched = Some s ->
  (* a data set under construction is seen by its builder only *)
  (forall i j, i < n -> j < n -> i <> j -> priv (th s i) = true -> dreg (th s j) <> dreg (th s i)) /\
  (* everything a thread serialised comes from published data sets, one per lock scope *)
  (forall i, i < n -> forall k d t c v, In (k, d, t, c, v) (out (th s i)) ->
     In d (pubs s) /\
     forall d' t' c' v', In (k, d', t', c', v') (out (th s i)) -> d' = d).
Proof.
  intros H0 Hrun.
  pose proof (reachable_inv _ _ _ _ H0 Hrun) as [Hs Hp Hwn Hex Hf Hq Hsn Hds Ho].
  split.
  - apply (fr_alone _ _ Hf).
  - intros i Hi k d t c v Hin.
    destruct (Ho i Hi _ _ _ _ _ Hin) as [_ [Hd [Hpub _]]].
    split; [assumption|].
    intros d' t' c' v' Hin'. destruct (Ho i Hi _ _ _ _ _ Hin') as [_ [Hd' _]]. congruence.
Qed.

(** ** lock_order_acyclic *)

Lemma wf_src n s i j : waits_for n s i j -> exists m, want (th s i) = Some m.
Proof.
  intros [_ [_ [_ [_ H]]]]. unfold want.
  destruct (code (th s i)) as [|[] r]; try contradiction; eauto.
Qed.

Lemma wf_edge n s i j : all_safe n s -> waits_for n s i j ->
  forall mj, want (th s j) = Some mj -> exists mi, want (th s i) = Some mi /\ mi < mj.
Proof.
  intros Hs [Hi [Hj [Hij [Hd H]]]] mj Hmj.
  pose proof (Hs j Hj) as Hsj.
  unfold want at 1. destruct (code (th s i)) as [|[] r] eqn:Ei; try contradiction.
  - (* i asks for a read lock on t *)
    destruct H as [Hw|Hpe].
    + rewrite (f_writer_moves _ Hsj _ Hw) in Hmj; discriminate.
    + destruct (f_pending _ Hsj _ Hpe) as [r' Ej]. unfold want in Hmj; rewrite Ej in Hmj.
      injection Hmj as <-. eexists; split; [reflexivity|lia].
  - (* i asks for the write lock on t *)
    destruct H as [Hw|Hin].
    + rewrite (f_writer_moves _ Hsj _ Hw) in Hmj; discriminate.
    + unfold want in Hmj. destruct (code (th s j)) as [|[] r'] eqn:Ej; try discriminate.
      * destruct (f_rlock _ Hsj _ _ Ej) as [_ [_ [_ [Hord _]]]]. specialize (Hord _ Hin).
        injection Hmj as <-. eexists; split; [reflexivity|lia].
      * destruct (f_lock _ Hsj _ _ Ej) as [Hnil _]. rewrite Hnil in Hin; destruct Hin.
Qed.

Lemma wf_path n s : all_safe n s -> forall i j, clos_trans _ (waits_for n s) i j ->
  (exists m, want (th s i) = Some m) /\
  forall mj, want (th s j) = Some mj -> exists mi, want (th s i) = Some mi /\ mi < mj.
Proof.
  intros Hs i j Hp; induction Hp as [i j He|i k j _ [IH1a IH1b] _ [IH2a IH2b]].
  - split; [eapply wf_src; eassumption|apply (wf_edge n); assumption].
  - split; [assumption|].
    intros mj Hmj. destruct (IH2b mj Hmj) as [mk [Hk Hlt]].
    destruct (IH1b mk Hk) as [mi [Hmi Hlt']]. exists mi; split; [assumption|lia].
Qed.

Lemma thm_lock_order_acyclic n s0 sched s :
  init_ok n s0 -> run n s0 sched = Some s ->
  forall i, ~ clos_trans _ (waits_for n s) i i.
Proof.
  intros H0 Hrun i Hc.
  pose proof (v_safe _ _ (reachable_inv _ _ _ _ H0 Hrun)) as Hs.
  destruct (wf_path n s Hs i i Hc) as [[m Hm] H].
  destruct (H m Hm) as [m' [Hm' Hlt]]. rewrite Hm in Hm'; injection Hm' as <-. lia.
Qed.

(** ** the roles of the code pass the static check *)

Lemma safe_reads h w pv rl cells rest :
  (forall tc, In tc cells -> In (fst tc) h) ->
  safe h w None pv rl (map (fun tc => IRead (fst tc) (snd tc)) cells ++ rest) = safe h w None pv rl rest.
Proof.
  induction cells as [|tc cells IH]; intros Hin; cbn [map app safe]; [reflexivity|].
  assert (Hm : memb (fst tc) h = true) by (apply memb_In; apply Hin; left; reflexivity).
  rewrite Hm; cbn [orb andb onone]. apply IH. intros x Hx; apply Hin; right; assumption.
Qed.

Lemma safe_locks rest : forall ts h rl,
  increasing ts = true -> (forall u t, In u h -> In t ts -> u < t) -> (h = [] \/ rl = false) ->
  safe h None None false rl (map IRLock ts ++ rest)
  = safe (rev ts ++ h) None None false (match ts with [] => rl | _ => false end) rest.
Proof.
  induction ts as [|t ts IH]; intros h rl Hinc Hlt Hrl; cbn [map app rev]; [reflexivity|].
  cbn [increasing] in Hinc. apply andb_true_iff in Hinc; destruct Hinc as [Hall Hinc].
  cbn [safe negb onone andb].
  assert (H1 : (lnil h || negb rl) = true) by (destruct Hrl as [->| ->]; [reflexivity|apply orb_true_r]).
  assert (H2 : forallb (fun u => Nat.ltb u t) h = true).
  { apply forallb_forall; intros u Hu; apply Nat.ltb_lt; apply Hlt; [assumption|left; reflexivity]. }
  rewrite H1, H2; cbn [andb].
  rewrite IH.
  - rewrite <- app_assoc; cbn [app].
    assert (E : (if lnil h then false else rl) = false) by (destruct Hrl as [->| ->]; [reflexivity|destruct (lnil h); reflexivity]).
    rewrite E. destruct ts; reflexivity.
  - assumption.
  - intros u t' [<-|Hu] Ht'.
    + rewrite forallb_forall in Hall. apply Nat.ltb_lt; auto.
    + apply Hlt; [assumption|right; assumption].
  - right. destruct Hrl as [->| ->]; [reflexivity|destruct (lnil h); reflexivity].
Qed.

Lemma remove1_notin t l : ~ In t l -> remove1 t l = l.
Proof.
  induction l as [|u r IH]; cbn [remove1]; [reflexivity|]. intros Hn.
  destruct (Nat.eqb_spec u t) as [->|Hne]; [exfalso; apply Hn; left; reflexivity|].
  f_equal; apply IH; intros H; apply Hn; right; assumption.
Qed.

Lemma remove1_spec t l x : NoDup l -> (In x (remove1 t l) <-> In x l /\ x <> t).
Proof.
  induction l as [|u r IH]; intros Hnd; cbn [remove1]; [cbn; tauto|].
  inversion Hnd as [|? ? Hnu Hnd']; subst.
  destruct (Nat.eqb_spec u t) as [->|Hne].
  - cbn [In]; split.
    + intros Hx; split; [right; assumption|intros ->; contradiction].
    + intros [[->|Hx] Hxt]; [contradiction|assumption].
  - cbn [In]; rewrite (IH Hnd'); split.
    + intros [->|[Hx Hxt]]; [split; [left; reflexivity|assumption]|split; [right; assumption|assumption]].
    + intros [[->|Hx] Hxt]; [left; reflexivity|right; split; assumption].
Qed.

Lemma remove1_nodup t l : NoDup l -> NoDup (remove1 t l).
Proof.
  induction l as [|u r IH]; intros Hnd; cbn [remove1]; [constructor|].
  inversion Hnd as [|? ? Hnu Hnd']; subst.
  destruct (Nat.eqb u t); [assumption|].
  constructor; [|apply IH; assumption].
  intros Hin; apply remove1_In in Hin; contradiction.
Qed.

Lemma safe_unlocks w pv rest : forall ts h rl,
  NoDup ts -> NoDup h -> (forall t, In t ts <-> In t h) ->
  safe h w None pv rl (map IRUnlock ts ++ rest)
  = safe [] w None pv (match ts with [] => rl | _ => true end) rest.
Proof.
  induction ts as [|t ts IH]; intros h rl Hnt Hnh Heq; cbn [map app].
  - destruct h as [|u h]; [reflexivity|]. exfalso. apply (proj2 (Heq u)). left; reflexivity.
  - inversion Hnt as [|? ? Hnt1 Hnt2]; subst.
    cbn [safe onone andb].
    assert (Hm : memb t h = true) by (apply memb_In; apply Heq; left; reflexivity).
    rewrite Hm; cbn [andb].
    rewrite (IH (remove1 t h) true Hnt2 (remove1_nodup _ _ Hnh)).
    + destruct ts; reflexivity.
    + intros x. rewrite (remove1_spec t h x Hnh). rewrite <- Heq. cbn [In]. split.
      * intros Hx; split; [right; assumption|intros ->; contradiction].
      * intros [[->|Hx] Hxt]; [contradiction|assumption].
Qed.

Lemma increasing_nodup ts : increasing ts = true -> NoDup ts.
Proof.
  induction ts as [|t ts IH]; cbn [increasing]; intros H; [constructor|].
  apply andb_true_iff in H; destruct H as [Hall Hinc]. constructor; [|apply IH; assumption].
  intros Hin. rewrite forallb_forall in Hall. specialize (Hall t Hin). apply Nat.ltb_lt in Hall; lia.
Qed.

(** a reader that locks in increasing table id order and reads only cells of tables it locked *)
Lemma reader_then_safe ts cells rest rl :
  increasing ts = true -> (forall tc, In tc cells -> In (fst tc) ts) ->
  safe [] None None false rl (reader_prog ts cells ++ rest)
  = safe [] None None false (match ts with [] => rl | _ => true end) rest.
Proof.
  intros Hinc Hcells. unfold reader_prog. cbn [app safe lnil onone negb andb].
  rewrite <- app_assoc. rewrite safe_locks; [|assumption|intros u t []|left; reflexivity].
  rewrite app_nil_r. rewrite <- app_assoc. rewrite safe_reads.
  - rewrite safe_unlocks.
    + destruct ts; reflexivity.
    + apply increasing_nodup; assumption.
    + apply NoDup_rev; apply increasing_nodup; assumption.
    + intros t; apply in_rev.
  - intros tc Htc. apply -> in_rev. apply Hcells; assumption.
Qed.

Lemma safe_rl_irrelevant code : forall w p pv rl rl',
  safe [] w p pv rl code = safe [] w p pv rl' code.
Proof.
  induction code as [|ins code IH]; intros w p pv rl rl'; [reflexivity|].
  destruct ins; cbn [safe lnil memb existsb orb andb]; try reflexivity;
    try (rewrite (IH _ _ _ rl rl'); reflexivity).
Qed.

Lemma reader_prog_safe ts cells :
  increasing ts = true -> (forall tc, In tc cells -> In (fst tc) ts) ->
  safe [] None None false false (reader_prog ts cells) = true.
Proof.
  intros Hinc Hcells. rewrite <- (app_nil_r (reader_prog ts cells)).
  rewrite reader_then_safe by assumption. reflexivity.
Qed.

Lemma safe_writes t v pv rl cells rest :
  safe [] (Some t) None pv rl (map (fun c => IWrite t c v) cells ++ rest) = safe [] (Some t) None pv rl rest.
Proof.
  induction cells as [|c cells IH]; cbn [map app safe oeqb]; [reflexivity|].
  rewrite Nat.eqb_refl; cbn [orb andb onone]. apply IH.
Qed.

Lemma batch_then_safe t v cells rest rl :
  safe [] None None false rl (batch_prog t v cells ++ rest) = safe [] None None false rl rest.
Proof.
  unfold batch_prog. cbn [app safe lnil onone negb andb oeqb]. rewrite !Nat.eqb_refl; cbn [andb].
  rewrite <- app_assoc. rewrite safe_writes. cbn [app safe oeqb lnil onone andb].
  rewrite Nat.eqb_refl; reflexivity.
Qed.

Lemma batches_then_safe bs rest rl :
  safe [] None None false rl (flat_map (fun b => batch_prog (fst (fst b)) (snd (fst b)) (snd b)) bs ++ rest)
  = safe [] None None false rl rest.
Proof.
  induction bs as [|b bs IH]; cbn [flat_map app]; [reflexivity|].
  rewrite <- app_assoc. rewrite batch_then_safe. apply IH.
Qed.

Lemma delta_prog_safe bs : safe [] None None false false (delta_prog bs) = true.
Proof.
  unfold delta_prog. cbn [safe lnil onone negb andb].
  rewrite <- (app_nil_r (flat_map _ bs)). rewrite batches_then_safe. reflexivity.
Qed.

Lemma commentdiff_prog_safe ts cells bs :
  increasing ts = true -> (forall tc, In tc cells -> In (fst tc) ts) ->
  safe [] None None false false (commentdiff_prog ts cells bs) = true.
Proof.
  intros Hinc Hcells. unfold commentdiff_prog. rewrite reader_then_safe by assumption.
  rewrite <- (app_nil_r (flat_map _ bs)). rewrite batches_then_safe. reflexivity.
Qed.

Lemma safe_builds v rl cells rest :
  safe [] None None true rl (map (fun tc => IWrite (fst tc) (snd tc) v) cells ++ rest) = safe [] None None true rl rest.
Proof.
  induction cells as [|c cells IH]; cbn [map app safe oeqb orb andb onone]; [reflexivity|]. apply IH.
Qed.

Lemma rebuild_prog_safe v cells : safe [] None None false false (rebuild_prog v cells) = true.
Proof.
  unfold rebuild_prog. cbn [safe lnil onone negb andb]. rewrite safe_builds. reflexivity.
Qed.
