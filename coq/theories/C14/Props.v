(** C14: concurrent queries and updates are safe and see whole objects - the part that is a THEOREM.

    LEVEL: PARTIAL. These theorems are about the locking PROTOCOL model of C14/Model.v (threads as
    instruction lists, per-store RW locks with writer preference, atomic pointer publication) for ANY
    number of threads, ANY programs passing the static discipline check [safe], ANY schedule of any
    length. They are NOT about Go: data races, the Go memory model, scheduler dependent crashes and the
    question whether the code follows the protocol are explored (not proved) by stream `c14race`
    (race detector, go-deadlock, version stamps). The access table of C14/Access.v is hand-written.

    Only statements, each closed by [exact]; proofs live in Proofs.v / Access.v. *)
From LMD Require Import C14.Model C14.Proofs C14.Rows C14.Access.
From LMD Require Import QE.SchemaTypes Gen.Schema C14.Locks Gen.Locks C14.GenLocksProofs C14.Lists.
From Coq Require Import Relations.

(** reader_sees_batch_boundary: whatever a thread serialised ([out]: lock scope k, data set d, table t,
    cell c, version v) is the content the store had at the batch boundary at which the thread took its
    read lock ([snap], recorded from [comm] = content at the last write-unlock / publication): never a
    cell of a half applied batch ... *)
Theorem C14_reader_sees_batch_boundary :
  forall (n : nat) (s0 : state) (sched : list thr) (s : state),
    init_ok n s0 -> run n s0 sched = Some s ->
    forall i, i < n -> forall k d t c v, In (k, d, t, c, v) (out (th s i)) ->
    v = snap s i k t c.
Proof. exact thm_reader_sees_batch_boundary. Qed.

(** ... because while a read lock is held the store does not move: its memory IS the committed
    content found when the lock was taken (no writer between gather and serialise). *)
Theorem C14_read_lock_freezes_store :
  forall (n : nat) (s0 : state) (sched : list thr) (s : state),
    init_ok n s0 -> run n s0 sched = Some s ->
    forall i, i < n -> forall t, In t (hr (th s i)) -> forall c,
    mem s (dreg (th s i)) t c = comm s (dreg (th s i)) t c /\
    comm s (dreg (th s i)) t c = snap s i (reqno (th s i)) t c.
Proof. exact thm_read_lock_freezes. Qed.

(** ... and read on rows ("no torn row"): a cell is (row, column), [ncols] columns per row. When the
    programs are reader instructions and whole-row batches (Lock one table, write every column of every row
    of the batch with the batch's version, Unlock: insertDeltaDataResult), any two columns of one row that a
    thread serialises within one lock scope carry the same version - the row was written entirely by one
    batch. (Initial contents whole; [snap] is ghost, its initial value is never read.) *)
Theorem C14_reader_sees_whole_rows :
  forall (ncols : nat), 1 <= ncols ->
  forall (n : nat) (s0 : state) (sched : list thr) (s : state),
    init_ok n s0 -> (forall i, i < n -> segs ncols (code (th s0 i))) ->
    (forall d t, rowsU ncols (mem s0 d t)) -> (forall i k t, rowsU ncols (snap s0 i k t)) ->
    run n s0 sched = Some s ->
    forall i, i < n -> forall k d t r c1 c2 v1 v2, c1 < ncols -> c2 < ncols ->
    In (k, d, t, cell_of ncols r c1, v1) (out (th s i)) ->
    In (k, d, t, cell_of ncols r c2, v2) (out (th s i)) -> v1 = v2.
Proof. exact thm_reader_sees_whole_rows. Qed.

(** the reader and the delta writer over whole rows are such programs *)
Theorem C14_whole_row_programs :
  forall (ncols : nat),
    (forall ts cells, segs ncols (reader_prog ts cells)) /\
    (forall t v rows, segs ncols (batch_prog t v (rows_cells ncols rows))) /\
    (forall bs : list (tid * ver * list nat),
       segs ncols (delta_prog (map (fun b => (fst (fst b), snd (fst b), rows_cells ncols (snd b))) bs))).
Proof. exact (fun ncols => conj (segs_reader ncols) (conj (segs_batch ncols) (segs_delta ncols))). Qed.

(** lock_order_acyclic: in every reachable state the wait-for graph (a lock request waits for the
    holders of that lock, a read request also for a pending writer) has no cycle: no deadlock among the
    modelled threads. ([safe]: locks are requested in increasing table id order, a write lock only while
    holding nothing.) *)
Theorem C14_lock_order_acyclic :
  forall (n : nat) (s0 : state) (sched : list thr) (s : state),
    init_ok n s0 -> run n s0 sched = Some s ->
    forall i, ~ clos_trans _ (waits_for n s) i i.
Proof. exact thm_lock_order_acyclic. Qed.

(** rebuild_invisible_until_swap: a data set under construction is reachable by its builder only, and
    everything a thread serialises within one lock scope comes from ONE data set that had been
    published: the complete old or the complete new set, never a mixture, never a half built one. *)
Theorem C14_rebuild_invisible_until_swap :
  forall (n : nat) (s0 : state) (sched : list thr) (s : state),
    init_ok n s0 -> run n s0 sched = Some s ->
    (forall i j, i < n -> j < n -> i <> j -> priv (th s i) = true -> dreg (th s j) <> dreg (th s i)) /\
    (forall i, i < n -> forall k d t c v, In (k, d, t, c, v) (out (th s i)) ->
       In d (pubs s) /\ forall d' t' c' v', In (k, d', t', c', v') (out (th s i)) -> d' = d).
Proof. exact thm_rebuild_invisible. Qed.

(** the roles of the code, as programs, pass the discipline check - the reader whenever it locks in
    strictly increasing table id order (what getAffectedTables' slices.Sort produces; observed on the
    real function for every query kind by the stream) and reads only tables it locked *)
Theorem C14_roles_pass_check :
  (forall ts cells, increasing ts = true -> (forall tc, In tc cells -> In (fst tc) ts) ->
     safe [] None None false false (reader_prog ts cells) = true) /\
  (forall bs, safe [] None None false false (delta_prog bs) = true) /\
  (forall ts cells bs, increasing ts = true -> (forall tc, In tc cells -> In (fst tc) ts) ->
     safe [] None None false false (commentdiff_prog ts cells bs) = true) /\
  (forall v cells, safe [] None None false false (rebuild_prog v cells) = true).
Proof.
  exact (conj reader_prog_safe (conj delta_prog_safe (conj commentdiff_prog_safe rebuild_prog_safe))).
Qed.

(** lockset_discipline, over the access table of the code WITH the patch of notes/C14.md: every shared
    field is atomic, never written after publication, or guarded by locks all writers hold exclusively
    and every reader shares *)
Theorem C14_lockset_discipline :
  forall f, In f all_fields -> disciplined table_fixed f = true.
Proof. exact lockset_discipline_fixed. Qed.

(** lockset_refuted, over the access table of the code as it is: DataStore.dupStringList is written by
    prepareDataUpdateSet before the table lock is taken, from the update loop and from client goroutines
    (D21) - and it is not the only field *)
Theorem C14_lockset_refuted :
  (exists f, In f all_fields /\ disciplined table f = false) /\
  violations table = [FRowCells; FTimeperiodRows; FStoreData; FStoreIndex; FDupStringList; FPeerMap; FConnectionPool].
Proof. exact lockset_refuted_pinned. Qed.

(** ** the generated lock coverage matrix (Gen/Locks.v: every table x column of the code's schema x position
    of the column in a request; printed by `lmdverif gen` from the real getAffectedTables, the column
    metadata and a perturbation measurement on a real Daemon; see C14/Locks.v) *)

(** lock_matrix_reads_locked: whatever stored table the value of a column reads, a request that uses the
    column (in Columns, Filter, Sort, Stats, Stats sum or as group key) holds that table's read lock - the
    hypothesis "reads only tables it locked" of the reader role, for the real code, column by column *)
Theorem C14_lock_matrix_reads_locked :
  forall t e u lk r,
    In t lock_matrix -> In e (lt_cols t) -> In (u, Some lk) (l_locks e) -> In r (l_reads e) ->
    In r lk /\ ~ In r lk_virtual /\ In r lk_stored.
Proof. exact lock_matrix_reads_locked. Qed.

(** ... and takes its locks in strictly increasing table id order (hypothesis of lock_order_acyclic) *)
Theorem C14_lock_matrix_increasing :
  forall t e u lk,
    In t lock_matrix -> In e (lt_cols t) -> In (u, Some lk) (l_locks e) ->
    increasing (held lk_virtual lk) = true.
Proof. exact lock_matrix_increasing. Qed.

(** ... so the reader role instantiated with the code's locks and any cells of the tables the column reads
    passes the static discipline check of the protocol model *)
Theorem C14_lock_matrix_readers_safe :
  forall t e u lk cells,
    In t lock_matrix -> In e (lt_cols t) -> In (u, Some lk) (l_locks e) ->
    (forall tc, In tc cells -> In (fst tc) (l_reads e)) ->
    safe [] None None false false (reader_prog (held lk_virtual lk) cells) = true.
Proof. exact lock_matrix_readers_safe. Qed.

(** the matrix covers the generated schema: every table answered from the cache x every column has an entry
    whose column can be requested; the matrix' notion of "virtual table" is the schema's; only calculated
    columns may lack a measurement (volatile) *)
Theorem C14_lock_matrix_covers_schema :
  forall t c,
    In t schema -> t_passthrough t = false -> In c (t_cols t) ->
    exists lt e lk, In lt lock_matrix /\ lt_name lt = t_name t /\ In e (lt_cols lt) /\ l_col e = c_name c /\
                    In (LCol, Some lk) (l_locks e) /\
                    t_virtual t = memn (lt_id lt) lk_virtual /\
                    (l_volatile e = true -> c_store c = SVirtual).
Proof. exact lock_matrix_covers_schema. Qed.

(** ** comment / downtime lists of hosts and services against the backend (what stream `c14race` evaluates
    on every observed list, C14/Lists.v): a list that passes [list_ok] against the backend versions of the
    window holds every entry that was attached the whole time and only entries that were attached at some
    time; against a backend whose comments and downtimes never change it is exactly the backend's list *)
Theorem C14_lists_complete_in_window :
  forall (served : list Z) (vs : list (list Z)),
    vs <> [] -> list_ok (served, must_of vs, may_of vs) = true ->
    (forall x, (forall v, In v vs -> In x v) -> In x served) /\
    (forall x, In x served -> exists v, In v vs /\ In x v).
Proof. exact list_ok_window. Qed.

Theorem C14_lists_exact_when_static :
  forall (served v : list Z),
    list_ok (served, must_of [v], may_of [v]) = true -> forall x, In x served <-> In x v.
Proof. exact list_ok_static. Qed.

(** ** WaitTrigger requests that really wait (stream `c14race`, C14/Lists.v [wait_ok] evaluated on every such
    request): an answer that arrives before the timeout (by more than the margin) shows the object waited for with a
    version that satisfies the WaitCondition *)
Theorem C14_wait_answer_meets_condition :
  forall elapsed timeout margin threshold served : Z,
    wait_ok [elapsed; timeout; margin; threshold; served] = true ->
    (0 <= served -> elapsed + margin < timeout -> threshold <= served)%Z.
Proof. exact wait_ok_spec. Qed.

(** ** non-vacuity *)

Example C14_example :
  (* the good programs pass the check, the first mutant does not *)
  forallb (fun p => safe [] None None false false p) good = true /\
  safe [] None None false false unlock_early = false /\
  (* reader 0 locked before the writer: it serialises the old row; reader 3 comes after the batch and
     before the swap: the new row of the old data set; after the swap reader 3 would see version 9 *)
  outs 4 (run 4 (st0 good) [0;0;1;1;0;0;0;0;0;0; 1;1;1;1; 2;2;2;2; 3;3;3;3;3; 2])
    = [[(1, 0, 4, 0, 0); (1, 0, 3, 1, 0); (1, 0, 3, 0, 0)]; []; []; [(1, 0, 3, 1, 7); (1, 0, 3, 0, 7)]] /\
  (* the writer cannot lock while the reader holds the table; a reader waits behind a pending writer *)
  run 4 (st0 good) [0;0;1;1;1] = None /\ run 4 (st0 good) [1;1;0;0] = None /\
  (* after the swap a new request sees the complete new data set (number 1, version 9) *)
  outs 4 (run 4 (st0 good) [2;2;2;2;2; 3;3;3;3;3]) = [[]; []; []; [(1, 1, 3, 1, 9); (1, 1, 3, 0, 9)]] /\
  (* the mutants: a torn row (cell 0 old, cell 1 new) reaches the output *)
  outs 2 (run 2 (st0 [unlock_early; delta_prog [(3, 7, [0; 1])]]) [0;0;0;0; 1;1;1;1;1;1; 0])
    = [[(1, 0, 3, 1, 7); (1, 0, 3, 0, 0)]; []] /\
  outs 2 (run 2 (st0 [reader_prog [3] [(3, 0); (3, 1)]; row_by_row]) [1;1;1;1;1; 0;0;0;0;0])
    = [[(1, 0, 3, 1, 0); (1, 0, 3, 0, 7)]; []].
Proof. vm_compute. repeat split. Qed.

(** the checks of the matrix are not vacuous: a request that locks tables 3 and 4 for a column reading 3 and 14
    is reported, as is a lock list in request order; the generated matrix has entries reading three stored tables
    (a reference column whose target is calculated from a third table) and entries of virtual tables *)
Example C14_lock_matrix_example :
  uncovered [17] [mkLT (s "x") 4 [mkL (s "c") [(LCol, Some [3; 4; 17]); (LFilter, None)] [3] [14] false]]
    = [(s "x", s "c", LCol, [14])] /\
  matrix_ok [17] [3; 4; 14] [mkLT (s "x") 4 [mkL (s "c") [(LCol, Some [3; 4; 17])] [3] [14] false]] = false /\
  matrix_ok [17] [3; 4; 14] [mkLT (s "x") 4 [mkL (s "c") [(LCol, Some [4; 3; 14])] [3] [14] false]] = false /\
  matrix_ok [17] [3; 4; 14] [mkLT (s "x") 4 [mkL (s "c") [(LCol, Some [3; 4; 14; 17])] [3] [14] false]] = true /\
  existsb (fun t => existsb (fun e => Nat.leb 3 (length (nodup Nat.eq_dec (l_reads e)))) (lt_cols t)) lock_matrix = true /\
  existsb (fun t => memn (lt_id t) lk_virtual) lock_matrix = true /\
  (* lists: the empty list of a data set published before its lists were rebuilt, a list with a foreign entry *)
  list_ok ([], must_of [[1; 4]; [1; 4; 1000]], may_of [[1; 4]; [1; 4; 1000]])%Z = false /\
  list_ok ([1; 4; 7], must_of [[1; 4]], may_of [[1; 4]])%Z = false /\
  list_ok ([4; 1], must_of [[1; 4]; [1; 4; 1000]], may_of [[1; 4]; [1; 4; 1000]])%Z = true /\
  (* waits: released after 600 of 1800 ms with the row of the replaced object set; with the new check result; timed out *)
  wait_ok [600; 1800; 300; 1035; 45]%Z = false /\ wait_ok [600; 1800; 300; 1035; 1036]%Z = true /\
  wait_ok [1800; 1800; 300; 1035; 45]%Z = true.
Proof. vm_compute. repeat split. Qed.

Print Assumptions C14_reader_sees_batch_boundary.
Print Assumptions C14_read_lock_freezes_store.
Print Assumptions C14_reader_sees_whole_rows.
Print Assumptions C14_whole_row_programs.
Print Assumptions C14_lock_order_acyclic.
Print Assumptions C14_rebuild_invisible_until_swap.
Print Assumptions C14_roles_pass_check.
Print Assumptions C14_lockset_discipline.
Print Assumptions C14_lockset_refuted.
Print Assumptions C14_lock_matrix_reads_locked.
Print Assumptions C14_lock_matrix_increasing.
Print Assumptions C14_lock_matrix_readers_safe.
Print Assumptions C14_lock_matrix_covers_schema.
Print Assumptions C14_lists_complete_in_window.
Print Assumptions C14_lists_exact_when_static.
Print Assumptions C14_wait_answer_meets_condition.
