(** C14: "no torn row" - reader_sees_batch_boundary read on rows.

    A cell is (row, column) with [ncols] columns per row. For pools of threads whose programs are made of
    reader instructions and WHOLE-ROW batches (Lock one table; write every column of every row of the
    batch with the batch's version; Unlock - the shape of insertDeltaDataResult), every committed content
    is row-uniform, hence every row a reader serialises under its read lock carries ONE version in all its
    columns: it was written entirely by one batch. (Rebuilds are left out here: a data set built aside is
    not readable before its publication - Props.C14_rebuild_invisible_until_swap.) *)
From LMD Require Import C14.Model C14.Proofs.

Section Rows.
  Variable ncols : nat.
  Hypothesis Hcols : 1 <= ncols.

  Notation cellof := (cell_of ncols).

  Lemma cell_inj r c r' c' : c < ncols -> c' < ncols -> cellof r c = cellof r' c' -> r = r' /\ c = c'.
  Proof.
    unfold cell_of; intros Hc Hc' E.
    destruct (Nat.lt_trichotomy r r') as [H|[H|H]]; [exfalso; nia|split; [assumption|nia]|exfalso; nia].
  Qed.

  Definition uniform_row (K : cell -> ver) (r : nat) : Prop :=
    forall c1 c2, c1 < ncols -> c2 < ncols -> K (cellof r c1) = K (cellof r c2).

  Definition rowsU (K : cell -> ver) : Prop := forall r, uniform_row K r.

  (** programs: reader instructions and whole-row batches *)
  Definition writes (t : tid) (v : ver) (cs : list cell) : list instr := map (fun c => IWrite t c v) cs.

  Inductive segs : list instr -> Prop :=
  | sg_nil : segs []
  | sg_load c : segs c -> segs (ILoad :: c)
  | sg_rlock t c : segs c -> segs (IRLock t :: c)
  | sg_runlock t c : segs c -> segs (IRUnlock t :: c)
  | sg_read t x c : segs c -> segs (IRead t x :: c)
  | sg_batch t v rows c : segs c ->
      segs (IWant t :: ILock t :: writes t v (rows_cells ncols rows) ++ IUnlock t :: c).

  (** the remaining code of a thread inside a batch on table [t], and the store's content [K]:
      at a row boundary all rows are whole; inside row [r0] its first [j] columns already carry [v] *)
  Inductive shape (t : tid) (K : cell -> ver) : list instr -> Prop :=
  | sh_boundary v rows c : segs c -> rowsU K ->
      shape t K (writes t v (rows_cells ncols rows) ++ IUnlock t :: c)
  | sh_inside v r0 j rows c : segs c -> 0 < j -> j < ncols ->
      (forall r, r <> r0 -> uniform_row K r) -> (forall x, x < j -> K (cellof r0 x) = v) ->
      shape t K (writes t v (map (cellof r0) (seq j (ncols - j)) ++ rows_cells ncols rows) ++ IUnlock t :: c).

  Record rinv (n : nat) (s : state) : Prop := {
    r_priv : forall j, j < n -> priv (th s j) = false;
    r_quiet : forall d t, (forall j, j < n -> dreg (th s j) = d -> hw (th s j) <> Some t) -> rowsU (mem s d t);
    r_hold : forall i t, i < n -> hw (th s i) = Some t -> shape t (mem s (dreg (th s i)) t) (code (th s i));
    r_pend : forall i t, i < n -> pend (th s i) = Some t ->
             exists v rows c, segs c /\ code (th s i) = ILock t :: writes t v (rows_cells ncols rows) ++ IUnlock t :: c;
    r_free : forall i, i < n -> hw (th s i) = None -> pend (th s i) = None -> segs (code (th s i));
    r_comm : forall d t, rowsU (comm s d t);
    r_snap : forall i k t, rowsU (snap s i k t) }.

  Lemma rows_cells_cons r rows : rows_cells ncols (r :: rows) = map (cellof r) (seq 0 ncols) ++ rows_cells ncols rows.
  Proof. reflexivity. Qed.

  Lemma seq_split_first j m : 0 < m -> seq j m = j :: seq (S j) (m - 1).
  Proof. destruct m; [lia|]. intros _. cbn [seq]. f_equal. f_equal. lia. Qed.

  (** one write of a batch *)
  Lemma shape_write t K x v c :
    shape t K (IWrite t x v :: c) -> shape t (upd K x v) c.
  Proof.
    intros H. inversion H as [v0 rows c0 Hseg HU E|v0 r0 j rows c0 Hseg Hj0 Hj Hoth Hdone E]; subst.
    - (* at a boundary: the first column of the next row *)
      destruct rows as [|r1 rows]; [cbn in E; discriminate|].
      rewrite rows_cells_cons in E. rewrite (seq_split_first 0 ncols) in E by lia.
      cbn [map app writes] in E. injection E as Ex Ev Ec. subst x v c.
      destruct (Nat.eq_dec ncols 1) as [E1|E1].
      + (* a single column: the row is whole again *)
        replace (ncols - 1) with 0 by lia. cbn [seq map app].
        apply sh_boundary; [assumption|].
        intros r c1 c2 Hc1 Hc2. assert (c1 = 0) by lia. assert (c2 = 0) by lia. subst. reflexivity.
      + assert (H1n : 1 < ncols) by lia. assert (H0n : 0 < ncols) by lia.
        apply (sh_inside t (upd K (cellof r1 0) v0) v0 r1 1 rows c0 Hseg Nat.lt_0_1 H1n).
        * intros r Hr c1 c2 Hc1 Hc2. unfold upd.
          destruct (Nat.eqb_spec (cellof r c1) (cellof r1 0)) as [Ea|_];
            [destruct (cell_inj _ _ _ _ Hc1 H0n Ea); contradiction|].
          destruct (Nat.eqb_spec (cellof r c2) (cellof r1 0)) as [Ea|_];
            [destruct (cell_inj _ _ _ _ Hc2 H0n Ea); contradiction|].
          apply HU; assumption.
        * intros y Hy. assert (y = 0) by lia. subst. unfold upd. rewrite Nat.eqb_refl. reflexivity.
    - (* inside row r0: column j *)
      rewrite (seq_split_first j (ncols - j)) in E by lia.
      cbn [map app writes] in E. injection E as Ex Ev Ec. subst x v c.
      destruct (Nat.eq_dec (S j) ncols) as [Ej|Ej].
      + (* the row is complete *)
        replace (ncols - j - 1) with 0 by lia. cbn [seq map app].
        apply sh_boundary; [assumption|].
        intros r c1 c2 Hc1 Hc2. unfold upd.
        destruct (Nat.eq_dec r r0) as [->|Hr].
        * assert (Hv : forall y, y < ncols -> (if Nat.eqb (cellof r0 y) (cellof r0 j) then v0 else K (cellof r0 y)) = v0).
          { intros y Hy. destruct (Nat.eqb_spec (cellof r0 y) (cellof r0 j)) as [_|Hne]; [reflexivity|].
            apply Hdone. assert (y <> j) by (intros ->; apply Hne; reflexivity). lia. }
          rewrite (Hv c1 Hc1), (Hv c2 Hc2). reflexivity.
        * destruct (Nat.eqb_spec (cellof r c1) (cellof r0 j)) as [Ea|_];
            [destruct (cell_inj _ _ _ _ Hc1 Hj Ea); contradiction|].
          destruct (Nat.eqb_spec (cellof r c2) (cellof r0 j)) as [Ea|_];
            [destruct (cell_inj _ _ _ _ Hc2 Hj Ea); contradiction|].
          apply Hoth; assumption.
      + replace (ncols - j - 1) with (ncols - S j) by lia.
        assert (HSj0 : 0 < S j) by lia. assert (HSj : S j < ncols) by lia.
        apply (sh_inside t (upd K (cellof r0 j) v0) v0 r0 (S j) rows c0 Hseg HSj0 HSj).
        * intros r Hr c1 c2 Hc1 Hc2. unfold upd.
          destruct (Nat.eqb_spec (cellof r c1) (cellof r0 j)) as [Ea|_];
            [destruct (cell_inj _ _ _ _ Hc1 Hj Ea); contradiction|].
          destruct (Nat.eqb_spec (cellof r c2) (cellof r0 j)) as [Ea|_];
            [destruct (cell_inj _ _ _ _ Hc2 Hj Ea); contradiction|].
          apply Hoth; assumption.
        * intros y Hy. unfold upd. destruct (Nat.eqb_spec (cellof r0 y) (cellof r0 j)) as [_|Hne]; [reflexivity|].
          apply Hdone. assert (y <> j) by (intros ->; apply Hne; reflexivity). lia.
  Qed.

  (** at the Unlock all rows are whole *)
  Lemma shape_unlock t K u c : shape t K (IUnlock u :: c) -> rowsU K /\ segs c.
  Proof.
    intros H. inversion H as [v0 rows c0 Hseg HU E|v0 r0 j rows c0 Hseg Hj0 Hj Hoth Hdone E]; subst.
    - destruct rows as [|r1 rows].
      + cbn in E. injection E as _ ->. auto.
      + rewrite rows_cells_cons in E. rewrite (seq_split_first 0 ncols) in E by lia. cbn in E. discriminate.
    - rewrite (seq_split_first j (ncols - j)) in E by lia. cbn in E. discriminate.
  Qed.

  (** inside a batch the next instruction is a write to the batch's table or the Unlock *)
  Lemma shape_head t K ins c : shape t K (ins :: c) ->
    (exists x v, ins = IWrite t x v) \/ ins = IUnlock t.
  Proof.
    intros H. inversion H as [v0 rows c0 Hseg HU E|v0 r0 j rows c0 Hseg Hj0 Hj Hoth Hdone E]; subst.
    - destruct rows as [|r1 rows].
      + cbn in E. injection E as <- _. right; reflexivity.
      + rewrite rows_cells_cons in E. rewrite (seq_split_first 0 ncols) in E by lia. cbn in E.
        injection E as <- _. left; eauto.
    - rewrite (seq_split_first j (ncols - j)) in E by lia. cbn in E. injection E as <- _. left; eauto.
  Qed.

  Lemma head_ok n s i ins r : rinv n s -> i < n -> code (th s i) = ins :: r ->
    match ins with INew | IPublish => False | _ => True end.
  Proof.
    intros Hr Hi Ec.
    destruct (hw (th s i)) as [t|] eqn:Ehw.
    - pose proof (r_hold _ _ Hr i t Hi Ehw) as Hsh. rewrite Ec in Hsh.
      destruct (shape_head _ _ _ _ Hsh) as [[x [v ->]]| ->]; exact I.
    - destruct (pend (th s i)) as [t|] eqn:Epe.
      + destruct (r_pend _ _ Hr i t Hi Epe) as [v [rows [c [_ E]]]]. rewrite Ec in E. injection E as -> _. exact I.
      + pose proof (r_free _ _ Hr i Hi Ehw Epe) as Hsg. rewrite Ec in Hsg. inversion Hsg; exact I.
  Qed.

  Lemma step_rinv n s i s' : inv n s -> rinv n s -> step n s i = Some s' -> rinv n s'.
  Proof.
    intros Hinv Hr Hstep.
    pose proof (v_safe _ _ Hinv) as Hs. pose proof (v_excl _ _ Hinv) as Hex.
    pose proof (Hs i) as Hsi.
    destruct Hr as [Rp Rq Rh Rpe Rf Rc Rsn].
    assert (Hr : rinv n s) by (constructor; assumption).
    step_cases Hstep n s i; specialize (Hsi Hlt);
      try (exfalso; exact (head_ok _ _ _ _ _ Hr Hlt Ecode)).
    - (* ILoad *)
      destruct (f_load _ Hsi _ Ecode) as [Hhr [Hhw [Hpe Hpv]]].
      pose proof (Rf i Hlt Hhw Hpe) as Hsg. rewrite Ecode in Hsg. inversion Hsg as [|c Hc| | | |]; subst.
      constructor; unfold set_th; cbn [th mem comm snap]; auto.
      + intros j Hj; thcase j i; auto.
      + intros d tt Hpre. apply Rq. intros j Hj Hdj. destruct (Nat.eq_dec j i) as [->|Hji]; [congruence|].
        specialize (Hpre j Hj). rewrite upd_other in Hpre by assumption. auto.
      + intros a tt Ha; thcase a i; [congruence|]. apply Rh; assumption.
      + intros a tt Ha; thcase a i; [congruence|]. apply Rpe; assumption.
      + intros a Ha; thcase a i; auto.
    - (* IRLock *)
      destruct (f_rlock _ Hsi _ _ Ecode) as [Hhw [Hpe _]].
      pose proof (Rf i Hlt Hhw Hpe) as Hsg. rewrite Ecode in Hsg. inversion Hsg as [| |t0 c Hc| | |]; subst.
      constructor; cbn [th mem comm snap]; auto.
      + intros j Hj; thcase j i; auto.
      + intros d tt Hpre. apply Rq. intros j Hj Hdj. destruct (Nat.eq_dec j i) as [->|Hji]; [congruence|].
        specialize (Hpre j Hj). rewrite upd_other in Hpre by assumption. auto.
      + intros a tt Ha; thcase a i; [congruence|]. apply Rh; assumption.
      + intros a tt Ha; thcase a i; [congruence|]. apply Rpe; assumption.
      + intros a Ha; thcase a i; auto.
      + intros a k tt. unfold upd. destruct (Nat.eqb a i); [|apply Rsn].
        unfold upd2. destruct (Nat.eqb k _ && Nat.eqb tt t); [apply Rc|apply Rsn].
    - (* IRUnlock *)
      assert (Hhw : hw (th s i) = None).
      { destruct (hw (th s i)) as [u|] eqn:E; [|reflexivity]. exfalso.
        pose proof (Rh i u Hlt E) as Hsh. rewrite Ecode in Hsh.
        destruct (shape_head _ _ _ _ Hsh) as [[x [v Hx]]|Hx]; discriminate. }
      assert (Hpe : pend (th s i) = None).
      { destruct (pend (th s i)) as [u|] eqn:E; [|reflexivity]. exfalso.
        destruct (f_pending _ Hsi _ E) as [r' E']. congruence. }
      pose proof (Rf i Hlt Hhw Hpe) as Hsg. rewrite Ecode in Hsg. inversion Hsg as [| | |t0 c Hc| |]; subst.
      constructor; unfold set_th; cbn [th mem comm snap]; auto.
      + intros j Hj; thcase j i; auto.
      + intros d tt Hpre. apply Rq. intros j Hj Hdj. destruct (Nat.eq_dec j i) as [->|Hji]; [congruence|].
        specialize (Hpre j Hj). rewrite upd_other in Hpre by assumption. auto.
      + intros a tt Ha; thcase a i; [congruence|]. apply Rh; assumption.
      + intros a tt Ha; thcase a i; [congruence|]. apply Rpe; assumption.
      + intros a Ha; thcase a i; auto.
    - (* IWant *)
      destruct (f_want _ Hsi _ _ Ecode) as [_ [Hhw [Hpe _]]].
      pose proof (Rf i Hlt Hhw Hpe) as Hsg. rewrite Ecode in Hsg.
      inversion Hsg as [| | | | |t0 v rows c Hc]; subst.
      constructor; unfold set_th; cbn [th mem comm snap]; auto.
      + intros j Hj; thcase j i; auto.
      + intros d tt Hpre. apply Rq. intros j Hj Hdj. destruct (Nat.eq_dec j i) as [->|Hji]; [congruence|].
        specialize (Hpre j Hj). rewrite upd_other in Hpre by assumption. auto.
      + intros a tt Ha; thcase a i; [congruence|]. apply Rh; assumption.
      + intros a tt Ha; thcase a i; [|apply Rpe; assumption].
        intros E; injection E as <-. exists v, rows, c. auto.
      + intros a Ha; thcase a i; [discriminate|]. apply Rf; assumption.
    - (* ILock *)
      destruct (f_lock _ Hsi _ _ Ecode) as [_ [Hhw [Hpe _]]].
      destruct (Rpe i t Hlt Hpe) as [v [rows [c [Hc E]]]]. rewrite Ecode in E. injection E as ->.
      constructor; unfold set_th; cbn [th mem comm snap]; auto.
      + intros j Hj; thcase j i; auto.
      + intros d tt Hpre. apply Rq. intros j Hj Hdj. destruct (Nat.eq_dec j i) as [->|Hji]; [congruence|].
        specialize (Hpre j Hj). rewrite upd_other in Hpre by assumption. auto.
      + intros a tt Ha; thcase a i; [|apply Rh; assumption].
        intros E; injection E as <-. apply sh_boundary; [assumption|].
        apply Rq. intros j Hj Hdj. destruct (Nat.eq_dec j i) as [->|Hji]; [congruence|].
        apply (can_lock_spec _ _ _ _ j Ecan Hj Hji Hdj).
      + intros a tt Ha; thcase a i; [discriminate|]. apply Rpe; assumption.
      + intros a Ha; thcase a i; [discriminate|]. apply Rf; assumption.
    - (* IUnlock *)
      destruct (f_unlock _ Hsi _ _ Ecode) as [Hhw [_ Hpe]].
      pose proof (Rh i t Hlt Hhw) as Hsh. rewrite Ecode in Hsh.
      destruct (shape_unlock _ _ _ _ Hsh) as [HU Hc].
      constructor; cbn [th mem comm snap]; auto.
      + intros j Hj; thcase j i; auto.
      + intros d tt Hpre.
        destruct (Nat.eq_dec d (dreg (th s i))) as [->|Hd]; [destruct (Nat.eq_dec tt t) as [->|Ht]; [assumption|]|].
        * apply Rq. intros j Hj Hdj. destruct (Nat.eq_dec j i) as [->|Hji]; [congruence|].
          specialize (Hpre j Hj). rewrite upd_other in Hpre by assumption. auto.
        * apply Rq. intros j Hj Hdj. destruct (Nat.eq_dec j i) as [->|Hji]; [congruence|].
          specialize (Hpre j Hj). rewrite upd_other in Hpre by assumption. auto.
      + intros a tt Ha; thcase a i; [discriminate|]. apply Rh; assumption.
      + intros a tt Ha; thcase a i; [congruence|]. apply Rpe; assumption.
      + intros a Ha; thcase a i; auto.
      + intros d tt. unfold upd2. destruct (Nat.eqb d _ && Nat.eqb tt t); [assumption|apply Rc].
    - (* IRead *)
      assert (Hhw : hw (th s i) = None).
      { destruct (hw (th s i)) as [u|] eqn:E; [|reflexivity]. exfalso.
        pose proof (Rh i u Hlt E) as Hsh. rewrite Ecode in Hsh.
        destruct (shape_head _ _ _ _ Hsh) as [[x [v Hx]]|Hx]; discriminate. }
      assert (Hpe : pend (th s i) = None).
      { destruct (pend (th s i)) as [u|] eqn:E; [|reflexivity]. exfalso.
        destruct (f_pending _ Hsi _ E) as [r' E']. congruence. }
      pose proof (Rf i Hlt Hhw Hpe) as Hsg. rewrite Ecode in Hsg. inversion Hsg as [| | | |t0 x0 c0 Hc|]; subst.
      constructor; unfold set_th; cbn [th mem comm snap]; auto.
      + intros j Hj; thcase j i; auto.
      + intros d tt Hpre. apply Rq. intros j Hj Hdj. destruct (Nat.eq_dec j i) as [->|Hji]; [congruence|].
        specialize (Hpre j Hj). rewrite upd_other in Hpre by assumption. auto.
      + intros a tt Ha; thcase a i; [congruence|]. apply Rh; assumption.
      + intros a tt Ha; thcase a i; [congruence|]. apply Rpe; assumption.
      + intros a Ha; thcase a i; auto.
    - (* IWrite *)
      destruct (f_write _ Hsi _ _ _ _ Ecode) as [[Hhw|Hpv] Hpe]; [|rewrite (Rp i Hlt) in Hpv; discriminate].
      pose proof (Rh i t Hlt Hhw) as Hsh. rewrite Ecode in Hsh. apply shape_write in Hsh.
      constructor; cbn [th mem comm snap]; auto.
      + intros j Hj; thcase j i; auto.
      + intros d tt Hpre.
        destruct (Nat.eq_dec d (dreg (th s i))) as [->|Hd]; [destruct (Nat.eq_dec tt t) as [->|Ht]|].
        * exfalso. specialize (Hpre i Hlt). rewrite upd_same in Hpre. cbn [dreg hw] in Hpre. apply Hpre; auto.
        * rewrite upd2_other by congruence.
          apply Rq. intros j Hj Hdj. destruct (Nat.eq_dec j i) as [->|Hji]; [congruence|].
          specialize (Hpre j Hj). rewrite upd_other in Hpre by assumption. auto.
        * rewrite upd2_other by congruence.
          apply Rq. intros j Hj Hdj. destruct (Nat.eq_dec j i) as [->|Hji]; [congruence|].
          specialize (Hpre j Hj). rewrite upd_other in Hpre by assumption. auto.
      + intros a tt Ha; thcase a i.
        * intros E. rewrite Hhw in E; injection E as <-. rewrite upd2_same. assumption.
        * intros Hwa.
          destruct (Nat.eq_dec (dreg (th s a)) (dreg (th s i))) as [Hd|Hd]; [destruct (Nat.eq_dec tt t) as [->|Ht]|].
          -- exfalso. destruct (Hex i a Hlt Ha (not_eq_sym Hji) (eq_sym Hd) t Hhw) as [H _]; contradiction.
          -- rewrite upd2_other by congruence. apply Rh; assumption.
          -- rewrite upd2_other by congruence. apply Rh; assumption.
      + intros a tt Ha; thcase a i; [congruence|]. apply Rpe; assumption.
      + intros a Ha; thcase a i; [congruence|]. apply Rf; assumption.
  Qed.

  Lemma run_rinv n sched : forall s s', inv n s -> rinv n s -> run n s sched = Some s' -> inv n s' /\ rinv n s'.
  Proof.
    induction sched as [|i rest IH]; intros s s' Hi Hr Hrun; cbn [run] in Hrun.
    - injection Hrun as <-; split; assumption.
    - destruct (step n s i) as [s1|] eqn:Hstep; [|discriminate].
      eapply IH; [eapply step_inv; eassumption|eapply step_rinv; eassumption|eassumption].
  Qed.

  Lemma init_rinv n s :
    init_ok n s -> (forall i, i < n -> segs (code (th s i))) ->
    (forall d t, rowsU (mem s d t)) -> (forall i k t, rowsU (snap s i k t)) -> rinv n s.
  Proof.
    intros H0 Hsg Hm Hsn. constructor; auto.
    - apply (i_priv _ _ H0).
    - intros i t Hi Hw. rewrite (i_hw _ _ H0 i Hi) in Hw; discriminate.
    - intros i t Hi Hp. rewrite (i_pend _ _ H0 i Hi) in Hp; discriminate.
    - intros d t r c1 c2 Hc1 Hc2. rewrite <- !(i_comm _ _ H0). apply Hm; assumption.
  Qed.

  (** no torn row: two columns of one row serialised within one lock scope carry one version *)
  Lemma thm_reader_sees_whole_rows n s0 sched s :
    init_ok n s0 -> (forall i, i < n -> segs (code (th s0 i))) ->
    (forall d t, rowsU (mem s0 d t)) -> (forall i k t, rowsU (snap s0 i k t)) ->
    run n s0 sched = Some s ->
    forall i, i < n -> forall k d t r c1 c2 v1 v2, c1 < ncols -> c2 < ncols ->
    In (k, d, t, cellof r c1, v1) (out (th s i)) -> In (k, d, t, cellof r c2, v2) (out (th s i)) -> v1 = v2.
  Proof.
    intros H0 Hsg Hm Hsn Hrun i Hi k d t r c1 c2 v1 v2 Hc1 Hc2 Hin1 Hin2.
    destruct (run_rinv n sched s0 s (init_inv _ _ H0) (init_rinv _ _ H0 Hsg Hm Hsn) Hrun) as [Hinv Hr].
    destruct (v_out _ _ Hinv i Hi _ _ _ _ _ Hin1) as [-> _].
    destruct (v_out _ _ Hinv i Hi _ _ _ _ _ Hin2) as [-> _].
    apply (r_snap _ _ Hr); assumption.
  Qed.

  (** the batch programs of Model.v over whole rows are such programs *)
  Lemma segs_app a b : segs a -> segs b -> segs (a ++ b).
  Proof. induction 1; cbn [app]; intros Hb; try (constructor; auto); auto.
    rewrite <- app_assoc. cbn [app]. apply sg_batch. auto. Qed.

  Lemma segs_batch t v rows : segs (batch_prog t v (rows_cells ncols rows)).
  Proof. unfold batch_prog. change (map (fun c => IWrite t c v) (rows_cells ncols rows)) with (writes t v (rows_cells ncols rows)).
    apply (sg_batch t v rows []). constructor. Qed.

  Lemma segs_reader ts cells : segs (reader_prog ts cells).
  Proof.
    unfold reader_prog. constructor. apply segs_app; [|apply segs_app].
    - induction ts; cbn [map]; constructor; assumption.
    - induction cells; cbn [map]; constructor; assumption.
    - induction ts; cbn [map]; constructor; assumption.
  Qed.

  Lemma segs_delta (bs : list (tid * ver * list nat)) :
    segs (delta_prog (map (fun b => (fst (fst b), snd (fst b), rows_cells ncols (snd b))) bs)).
  Proof.
    unfold delta_prog. constructor. induction bs as [|b bs IH]; cbn [map flat_map]; [constructor|].
    apply segs_app; [|assumption]. cbn [fst snd]. apply segs_batch.
  Qed.
End Rows.
