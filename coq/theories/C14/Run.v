(** C14 stream `c14race`: re-check of what the exploration observed (written by the harness into a
    cases file). EXPLORATION, NOT PROOF: one case = one concurrency scenario run for a few seconds in
    the race-detector build. The predicates are the conclusions / hypotheses of the theorems of
    Props.v read on the implementation's answers:
      - [c_orders]: tables locked per query kind, in acquisition order, asked from the real
        getAffectedTables: must be [increasing] (hypothesis of lock_order_acyclic / roles_pass_check)
      - [c_rows]: versions decoded from the stamped columns of one response row (or of the host row it
        refers to): all equal = no torn row (reader_sees_batch_boundary for batches writing whole rows)
      - [c_sets]: the generation (or epoch) values among the rows of one backend and table in one
        response: at most one (rebuild_invisible_until_swap; whole batches)
      - [c_stats]: [n0;n1;n2;n3;total;expected] of a Stats answer; [c_sums]: sums of columns carrying the
        same stamp: equal
      - [c_bad]: malformed / incomplete / filter violating / future answers; [c_races]: race detector
        reports that are not explained; [c_deadlocks]: go-deadlock reports; [c_crash].
      - [c_lists]: (served, must, may) per distinct comment / downtime id list of a host or service in an
        answer (own column, reference column, by-group table; ids of the `_with_info` variants): the ids
        the backend attached to the object during the whole run up to the answer, and at some time
        (C14/Lists.v [list_ok]: must <= served <= may; equal when the backend's comments never change):
        a freshly published data set must already carry its lists.
      - [c_waits]: [elapsed; timeout; margin; threshold; served] per WaitTrigger request that really waited for a
        check result arriving during the wait, while the update loop reloads the objects (C14/Lists.v [wait_ok]):
        an answer delivered before the timeout satisfies its own WaitCondition. *)
From LMD Require Export Base.Str C14.Model C14.Lists.
Open Scope Z_scope.

Record case := mkCase {
  c_orders : list (list nat);
  c_rows : list (list Z);
  c_sets : list (list Z);
  c_stats : list (list Z);
  c_sums : list (list Z);
  c_bad : nat;
  c_races : list str;
  c_deadlocks : nat;
  c_crash : bool;
  c_lists : list (list Z * list Z * list Z);
  c_waits : list (list Z) }.

Definition uniform (l : list Z) : bool :=
  match l with [] => true | x :: r => forallb (Z.eqb x) r end.

Definition at_most_one (l : list Z) : bool :=
  match l with [] | [_] => true | _ => false end.

Definition stats_ok (l : list Z) : bool :=
  match l with
  | [n0; n1; n2; n3; total; expected] => Z.eqb (n0 + n1 + n2 + n3) total && Z.eqb total expected
  | _ => false
  end.

(** verdict tags: 1 lock order, 2 torn row, 3 mixed generation/epoch, 4 Stats, 5 sums, 6 malformed,
    7 race report, 8 deadlock report, 9 crash, 10 comment / downtime list that does not fit the backend,
    11 answer of a WaitTrigger request before its timeout that does not meet its WaitCondition *)
Definition expected (c : case) : list nat :=
  (if forallb increasing (c_orders c) then [] else [1%nat]) ++
  (if forallb uniform (c_rows c) then [] else [2%nat]) ++
  (if forallb at_most_one (c_sets c) then [] else [3%nat]) ++
  (if forallb stats_ok (c_stats c) then [] else [4%nat]) ++
  (if forallb uniform (c_sums c) then [] else [5%nat]) ++
  (if Nat.eqb (c_bad c) 0 then [] else [6%nat]) ++
  (match c_races c with [] => [] | _ => [7%nat] end) ++
  (if Nat.eqb (c_deadlocks c) 0 then [] else [8%nat]) ++
  (if c_crash c then [9%nat] else []) ++
  (if forallb list_ok (c_lists c) then [] else [10%nat]) ++
  (if forallb wait_ok (c_waits c) then [] else [11%nat]).

Definition check (c : case) : bool := match expected c with [] => true | _ => false end.

Fixpoint mismatches_from (i : nat) (cs : list case) : list (nat * list nat) :=
  match cs with
  | [] => []
  | c :: rest => (if check c then [] else [(i, expected c)]) ++ mismatches_from (S i) rest
  end.

Definition mismatches := mismatches_from 0.
