(** C15: model of command routing in lmd.

    Transcribes
      - request.go  ParseRequests (commands are collected until the first GET / EOF,
                    a parse error rejects the whole batch),
      - client_con.go processRequests / sendRemainingCommands / SendCommands
                    (per-backend queue [commandsByPeer], flushed before each GET and at
                    the end, one goroutine per backend, error collection),
      - peer.go     SendCommandsWithRetry (dispatch on the peer status, wait in
                    warning/pending, a single retry after a ConnectionError),
                    SendCommands (one connection, join of the commands, refresh
                    scheduling), the command branch of Peer.query (reply parsing) and
                    setNextAddrFromErr (effect of a failed connection on the status).

    Everything the environment decides is an explicit input: the behaviour of the
    backend at every connection attempt ([p_script]) and the state changes that
    end a wait in warning/pending ([p_resolve]). *)
From Coq Require Import String Ascii.
From LMD Require Export Base.Str.
From Coq Require Import List.

Definition lit (x : string) : str := map N_of_ascii (list_ascii_of_string x).

Inductive pstatus := Up | Warning | Down | Broken | Pending | Syncing.

Definition pstatus_eqb (a b : pstatus) : bool :=
  match a, b with
  | Up, Up | Warning, Warning | Down, Down | Broken, Broken
  | Pending, Pending | Syncing, Syncing => true
  | _, _ => false
  end.

(** how lmd talks to the backend: a Livestatus socket (unix/tcp) or the Thruk
    HTTP API ([http://...] source, peer.go HTTPQuery...).  [ok] is
    [Peer.lastHTTPRequestSuccessful]: while it is set [tryConnection] skips the
    tcp connect test and the POST is made straight away. *)
Inductive transport := Socket | Http (ok : bool).

(** what the backend does with one connection (socket) / one POST (HTTP) that
    carries commands *)
Inductive behav :=
| Accept                         (* reads the commands; socket: no reply (Naemon), HTTP: rc 0, empty text *)
| Reject (code : Z) (msg : str)  (* reads them, replies "code: msg" (HTTP: as the text of an rc 0 answer) *)
| RejectPlain (msg : str)        (* reads them and answers with an error that is not "code: msg":
                                    socket: a text without colon; HTTP: such a text, a body that is not
                                    json, a status other than 200, json with rc <> 0, a remote error text
                                    (all of them well-formed answers: PeerError/ResponseError or plain) *)
| Drop                           (* socket: connection accepted, bytes discarded, closed *)
| Refuse                         (* connect fails: nothing is sent *)
| HttpBroken (received : bool).  (* HTTP: the exchange breaks without an answer; the backend had
                                    read the request ([true]) or not ([false]) *)

Record peer := mkPeer {
  p_id : str;
  p_status : pstatus;
  p_hasdata : bool;             (* Peer.data != nil *)
  p_stale : bool;               (* lastOnline older than StaleBackendTimeout *)
  p_lasterr : str;              (* Peer.lastError *)
  p_script : list behav;        (* backend behaviour per connection attempt; exhausted = Accept *)
  p_resolve : list pstatus;     (* environment: status changes observed while waiting *)
  p_log : list (list str);      (* backend side: commands received, one entry per connection *)
  p_trace : list (pstatus * behav); (* every connection attempt with the status it was made in *)
  p_sched : bool;               (* ScheduleImmediateUpdate has been called *)
  p_transport : transport
}.

(** result of SendCommandsWithRetry for one backend *)
Inductive sres :=
| ROk
| RErr (code : Z) (msg : str)
| RTimeout        (* still waiting after PeerCommandTimeout: answered 202 by the caller *)
| RFuel.          (* model artefact, proved unreachable *)

Definition msg_connerr : str := lit "CONNERR"%string.
Definition msg_retries : str := lit "RETRIES"%string.
Definition msg_timeout : str := lit "TIMEOUT"%string.
Definition msg_httperr : str := lit "HTTPERR"%string.   (* "http error: ..." of HTTPPostQueryResult *)

Definition set_status (s : pstatus) (p : peer) : peer :=
  mkPeer (p_id p) s (match s with Down | Broken => false | _ => p_hasdata p end) (p_stale p)
         (p_lasterr p) (p_script p) (p_resolve p) (p_log p) (p_trace p) (p_sched p) (p_transport p).

(** peer.go setNextAddrFromErr for a peer with a single address *)
Definition conn_failed (err : str) (p : peer) : peer :=
  let st1 := match p_status p with
             | Up | Pending | Syncing => if p_hasdata p then Warning else p_status p
             | s => s
             end in
  if p_stale p
  then mkPeer (p_id p) Down false (p_stale p) err (p_script p) (p_resolve p) (p_log p) (p_trace p) (p_sched p) (p_transport p)
  else mkPeer (p_id p) st1 (p_hasdata p) (p_stale p) err (p_script p) (p_resolve p) (p_log p) (p_trace p) (p_sched p) (p_transport p).

(** HTTPPostQueryResult: [lastHTTPRequestSuccessful] is set when the http client got
    any response and cleared when [HTTPClient.Do] failed; nothing to do for sockets *)
Definition set_httpok (answered : bool) (p : peer) : peer :=
  match p_transport p with
  | Socket => p
  | Http _ => mkPeer (p_id p) (p_status p) (p_hasdata p) (p_stale p) (p_lasterr p) (p_script p) (p_resolve p)
                     (p_log p) (p_trace p) (p_sched p) (Http answered)
  end.

(** the tcp connect test of tryConnection is skipped *)
Definition http_ok (p : peer) : bool :=
  match p_transport p with Http ok => ok | Socket => false end.

Definition next_behav (p : peer) : behav * list behav :=
  match p_script p with
  | [] => (Accept, [])
  | b :: r => (b, r)
  end.

(** one connection attempt in status [p_status p]: consumes one script entry and
    records the attempt; [received] says whether the backend got the bytes *)
Definition attempt (p : peer) (cmds : list str) (received sched : bool) : peer :=
  let '(b, rest) := next_behav p in
  mkPeer (p_id p) (p_status p) (p_hasdata p) (p_stale p) (p_lasterr p) rest (p_resolve p)
         (if received then p_log p ++ [cmds] else p_log p)
         (p_trace p ++ [(p_status p, b)])
         (if sched then true else p_sched p) (p_transport p).

(** peer.go SendCommandsWithRetry + SendCommands + the command branch of query.
    [retried] = the Go variable [retries > 0]. *)
Fixpoint send_retry (fuel : nat) (retried : bool) (p : peer) (cmds : list str) : peer * sres :=
  match fuel with
  | O => (p, RFuel)
  | S fuel' =>
    match p_status p with
    | Down | Broken => (p, RErr 500 (p_lasterr p))
    | Warning | Pending =>
        match p_resolve p with
        | [] => (p, RTimeout)
        | s :: rest =>
            let p' := set_status s p in
            send_retry fuel' retried
              (mkPeer (p_id p') (p_status p') (p_hasdata p') (p_stale p') (p_lasterr p') (p_script p')
                      rest (p_log p') (p_trace p') (p_sched p') (p_transport p')) cmds
        end
    | Up | Syncing =>
        match fst (next_behav p) with
        | Accept => (set_httpok true (attempt p cmds true true), ROk)
        | Drop => (attempt p cmds false true, ROk)
        | Reject code msg => (set_httpok true (attempt p cmds true false), RErr code msg)
        | RejectPlain msg =>
            (* plain error or PeerError of kind ResponseError: the backend is marked failed,
               lastError is returned, the batch is NOT sent again *)
            let p' := conn_failed msg (set_httpok true (attempt p cmds true false)) in
            (p', RErr 500 (p_lasterr p'))
        | HttpBroken rc =>
            (* "http error: ..." is a plain error: no retry either *)
            let p' := conn_failed msg_httperr (set_httpok false (attempt p cmds rc false)) in
            (p', RErr 500 (p_lasterr p'))
        | Refuse =>
            if http_ok p
            then (* no connect test was made: the POST itself fails, plain error *)
              let p' := conn_failed msg_httperr (set_httpok false (attempt p cmds false false)) in
              (p', RErr 500 (p_lasterr p'))
            else (* GetConnection: PeerError of kind ConnectionError, the only error that is retried *)
              let p' := conn_failed msg_connerr (attempt p cmds false false) in
              if retried then (p', RErr 500 msg_retries)
              else send_retry fuel' true p' cmds
        end
    end
  end.

Definition fuel_for (p : peer) : nat := length (p_resolve p) + 3.

Definition send (p : peer) (cmds : list str) : peer * sres :=
  send_retry (fuel_for p) false p cmds.

(** *** requests *)

Definition is_space (c : N) : bool :=
  ((9 <=? c) && (c <=? 13) || (c =? 32) || (c =? 133) || (c =? 160) || (c =? 5760)
   || ((8192 <=? c) && (c <=? 8202)) || (c =? 8232) || (c =? 8233) || (c =? 8239)
   || (c =? 8287) || (c =? 12288))%N.

Fixpoint trim_left (s : str) : str :=
  match s with
  | c :: r => if is_space c then trim_left r else s
  | [] => []
  end.

(** Go strings.TrimSpace *)
Definition trim_space (s : str) : str := rev (trim_left (rev (trim_left s))).

(** a queued command: the line as received and the Backends header ([] = all) *)
Definition qcmd := (str * list str)%type.

Inductive req :=
| Cmd (line : str) (backends : list str) (ka : bool)
| Get (ka : bool)
| Bad.

Definition selected (id : str) (c : qcmd) : bool :=
  match snd c with
  | [] => true
  | l => mem_str id l
  end.

(** commandsByPeer[id] at flush time *)
Definition cmds_for (id : str) (q : list qcmd) : list str :=
  map (fun c => trim_space (fst c)) (filter (selected id) q).

(** one backend's part of client_con.go SendCommands *)
Definition step_peer (p : peer) (q : list qcmd) : peer * option sres :=
  match cmds_for (p_id p) q with
  | [] => (p, None)
  | cmds => let (p', r) := send p cmds in (p', Some r)
  end.

Fixpoint flush_peers (ps : list peer) (q : list qcmd) : list peer * list sres :=
  match ps with
  | [] => ([], [])
  | p :: r =>
      let (p', o) := step_peer p q in
      let (r', os) := flush_peers r q in
      (p' :: r', match o with Some x => x :: os | None => os end)
  end.

(** client visible output *)
Inductive out :=
| OErr (cands : list (Z * str))  (* one line "code: msg"; the pair is one of [cands] *)
| OGet                            (* response of a GET *)
| OBad                            (* 400 bad request *)
| OClosed.                        (* lmd closed the connection *)

Definition is_timeout (r : sres) : bool := match r with RTimeout => true | _ => false end.

Definition errs_of (rs : list sres) : list (Z * str) :=
  flat_map (fun r => match r with
                     | RErr c m => if (c =? 200)%Z then [] else [(c, m)]
                     | RFuel => [(0%Z, lit "FUEL"%string)]
                     | _ => []
                     end) rs.

(** sendRemainingCommands: nothing is written on success *)
Definition flush (ps : list peer) (q : list qcmd) : list peer * list out :=
  match q with
  | [] => (ps, [])
  | _ =>
    let (ps', rs) := flush_peers ps q in
    if existsb is_timeout rs then (ps', [OErr [(202%Z, msg_timeout)]])
    else match errs_of rs with
         | [] => (ps', [])
         | es => (ps', [OErr es])
         end
  end.

(** client_con.go processRequests; the result flag is [cl.keepAlive] *)
Fixpoint process (ps : list peer) (q : list qcmd) (reqs : list req) (ka : bool)
  : list peer * list out * bool :=
  match reqs with
  | [] => let (ps', o) := flush ps q in (ps', o, ka)
  | Cmd l b k :: r => process ps (q ++ [(l, b)]) r k
  | Bad :: r => process ps q r ka
  | Get k :: r =>
      let (ps', o) := flush ps q in
      if k then let '(ps'', o2, ka') := process ps' [] r k in (ps'', o ++ OGet :: o2, ka')
      else (ps', o ++ [OGet], false)
  end.

(** one client write; [w_close]: the client half-closes afterwards *)
Record write := mkWrite { w_items : list req; w_close : bool }.

(** ParseRequests: requests up to and including the first GET; None = parse error *)
Fixpoint parse (items : list req) : option (list req) :=
  match items with
  | [] => Some []
  | Bad :: _ => None
  | Get k :: _ => Some [Get k]
  | Cmd l b k :: r => match parse r with Some rs => Some (Cmd l b k :: rs) | None => None end
  end.

(** a whole client connection (ClientConnection.answer) *)
Fixpoint connection (ps : list peer) (ws : list write) : list peer * list (list out) :=
  match ws with
  | [] => (ps, [])
  | w :: rest =>
      match parse (w_items w) with
      | None => (ps, [[OBad; OClosed]])
      | Some reqs =>
          let '(ps', o, ka) := process ps [] reqs true in
          if ka && negb (w_close w)
          then let (ps'', os) := connection ps' rest in (ps'', o :: os)
          else (ps', [o ++ [OClosed]])
      end
  end.

(** *** specification side: what was received, independent of the backends *)

(** the queues flushed by [process], in order *)
Fixpoint flushes_of (q : list qcmd) (reqs : list req) : list (list qcmd) :=
  match reqs with
  | [] => [q]
  | Cmd l b _ :: r => flushes_of (q ++ [(l, b)]) r
  | Bad :: r => flushes_of q r
  | Get k :: r => q :: (if k then flushes_of [] r else [])
  end.

Fixpoint process_ka (reqs : list req) (ka : bool) : bool :=
  match reqs with
  | [] => ka
  | Cmd _ _ k :: r => process_ka r k
  | Bad :: r => process_ka r ka
  | Get k :: r => if k then process_ka r k else false
  end.

(** all queues flushed during a connection *)
Fixpoint flushes (ws : list write) : list (list qcmd) :=
  match ws with
  | [] => []
  | w :: rest =>
      match parse (w_items w) with
      | None => []
      | Some reqs =>
          flushes_of [] reqs ++
          (if process_ka reqs true && negb (w_close w) then flushes rest else [])
      end
  end.

(** one backend over a sequence of flushes *)
Definition run_peer (p : peer) (qs : list (list qcmd)) : peer :=
  fold_left (fun p q => fst (step_peer p q)) qs p.

(** the batches a backend must see if every one is delivered *)
Definition batches_for (id : str) (qs : list (list qcmd)) : list (list str) :=
  filter (fun b => match b with [] => false | _ => true end) (map (cmds_for id) qs).
