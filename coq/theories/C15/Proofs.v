(** Proofs about the command routing model (C15). *)
From LMD Require Import C15.Model.
From Coq Require Import Arith Lia.

(** *** subsequences *)
Inductive subseq {A} : list A -> list A -> Prop :=
| sub_nil : subseq [] []
| sub_skip x l1 l2 : subseq l1 l2 -> subseq l1 (x :: l2)
| sub_take x l1 l2 : subseq l1 l2 -> subseq (x :: l1) (x :: l2).

Lemma subseq_refl {A} (l : list A) : subseq l l.
Proof. induction l; constructor; assumption. Qed.

Lemma subseq_nil_l {A} (l : list A) : subseq [] l.
Proof. induction l; constructor; assumption. Qed.

Lemma subseq_app {A} (a b c d : list A) : subseq a b -> subseq c d -> subseq (a ++ c) (b ++ d).
Proof.
  induction 1 as [|x l1 l2 _ IH|x l1 l2 _ IH]; intros Hcd; cbn [app].
  - assumption.
  - apply sub_skip; auto.
  - apply sub_take; auto.
Qed.

Lemma subseq_length {A} (a b : list A) : subseq a b -> length a <= length b.
Proof. induction 1; cbn [length]; lia. Qed.

(** *** one call of SendCommandsWithRetry *)

Definition received (b : behav) : bool :=
  match b with Accept | Reject _ _ | RejectPlain _ | HttpBroken true => true | _ => false end.

Definition good_status (s : pstatus) : bool :=
  match s with Up | Syncing => true | _ => false end.

(** effect of the last connection attempt of a call *)
Definition last_effect (b : behav) (cmds : list str) (dl : list (list str)) (r : sres)
           (sched0 sched1 : bool) : Prop :=
  match b with
  | Accept => dl = [cmds] /\ r = ROk /\ sched1 = true
  | Drop => dl = [] /\ r = ROk /\ sched1 = true
  | Reject c m => dl = [cmds] /\ r = RErr c m /\ sched1 = sched0
  | RejectPlain m => dl = [cmds] /\ r = RErr 500 m /\ sched1 = sched0
  | Refuse => dl = [] /\ (r = RTimeout \/ exists m, r = RErr 500 m) /\ sched1 = sched0
  | HttpBroken rc => dl = (if rc then [cmds] else []) /\ r = RErr 500 msg_httperr /\ sched1 = sched0
  end.

(** shape of what one call adds to trace [dt] and log [dl] *)
Definition call_shape (retried : bool) (cmds : list str) (dt : list (pstatus * behav))
           (dl : list (list str)) (r : sres) (sched0 sched1 : bool) : Prop :=
  match dt with
  | [] => dl = [] /\ sched1 = sched0 /\ (r = RTimeout \/ exists m, r = RErr 500 m)
  | [(s, b)] => good_status s = true /\ last_effect b cmds dl r sched0 sched1
  | [(s1, b1); (s2, b2)] =>
      retried = false /\ b1 = Refuse /\ good_status s1 = true /\ good_status s2 = true /\
      last_effect b2 cmds dl r sched0 sched1
  | _ => False
  end.

Definition post (retried : bool) (id : str) (tr : list (pstatus * behav)) (lg : list (list str))
           (sc : bool) (cmds : list str) (p' : peer) (r : sres) : Prop :=
  p_id p' = id /\
  exists dt dl, p_trace p' = tr ++ dt /\ p_log p' = lg ++ dl /\
                call_shape retried cmds dt dl r sc (p_sched p').

Definition measure (p : peer) (retried : bool) : nat :=
  length (p_resolve p) + (if retried then 1 else 2).

Lemma next_behav_fst_snd p : next_behav p = (fst (next_behav p), snd (next_behav p)).
Proof. destruct (next_behav p); reflexivity. Qed.

Lemma attempt_proj p cmds rc sc :
  let p' := attempt p cmds rc sc in
  p_id p' = p_id p /\ p_status p' = p_status p /\ p_hasdata p' = p_hasdata p /\
  p_stale p' = p_stale p /\ p_resolve p' = p_resolve p /\
  p_trace p' = p_trace p ++ [(p_status p, fst (next_behav p))] /\
  p_log p' = (if rc then p_log p ++ [cmds] else p_log p) /\
  p_sched p' = (if sc then true else p_sched p) /\
  p_script p' = snd (next_behav p) /\ p_lasterr p' = p_lasterr p /\ p_transport p' = p_transport p.
Proof.
  unfold attempt. destruct (next_behav p) as [b rest]. cbn. repeat split; reflexivity.
Qed.

Lemma conn_failed_proj err p :
  let p' := conn_failed err p in
  p_id p' = p_id p /\ p_resolve p' = p_resolve p /\ p_trace p' = p_trace p /\
  p_log p' = p_log p /\ p_sched p' = p_sched p /\ p_script p' = p_script p /\ p_lasterr p' = err.
Proof. unfold conn_failed. destruct (p_stale p); cbn; repeat split; reflexivity. Qed.

Lemma set_httpok_proj a p :
  let p' := set_httpok a p in
  p_id p' = p_id p /\ p_status p' = p_status p /\ p_hasdata p' = p_hasdata p /\
  p_stale p' = p_stale p /\ p_resolve p' = p_resolve p /\ p_trace p' = p_trace p /\
  p_log p' = p_log p /\ p_sched p' = p_sched p /\ p_script p' = p_script p /\ p_lasterr p' = p_lasterr p.
Proof. unfold set_httpok. destruct (p_transport p); cbn; repeat split; reflexivity. Qed.

(** the projections as rewrite rules *)
Lemma at_id p c r s : p_id (attempt p c r s) = p_id p. Proof. apply attempt_proj. Qed.
Lemma at_status p c r s : p_status (attempt p c r s) = p_status p. Proof. apply attempt_proj. Qed.
Lemma at_resolve p c r s : p_resolve (attempt p c r s) = p_resolve p. Proof. apply attempt_proj. Qed.
Lemma at_trace p c r s : p_trace (attempt p c r s) = p_trace p ++ [(p_status p, fst (next_behav p))].
Proof. apply attempt_proj. Qed.
Lemma at_log p c r s : p_log (attempt p c r s) = (if r then p_log p ++ [c] else p_log p).
Proof. apply attempt_proj. Qed.
Lemma at_sched p c r s : p_sched (attempt p c r s) = (if s then true else p_sched p).
Proof. apply attempt_proj. Qed.
Lemma at_script p c r s : p_script (attempt p c r s) = snd (next_behav p). Proof. apply attempt_proj. Qed.
Lemma cf_id e p : p_id (conn_failed e p) = p_id p. Proof. apply conn_failed_proj. Qed.
Lemma cf_resolve e p : p_resolve (conn_failed e p) = p_resolve p. Proof. apply conn_failed_proj. Qed.
Lemma cf_trace e p : p_trace (conn_failed e p) = p_trace p. Proof. apply conn_failed_proj. Qed.
Lemma cf_log e p : p_log (conn_failed e p) = p_log p. Proof. apply conn_failed_proj. Qed.
Lemma cf_sched e p : p_sched (conn_failed e p) = p_sched p. Proof. apply conn_failed_proj. Qed.
Lemma cf_lasterr e p : p_lasterr (conn_failed e p) = e. Proof. apply conn_failed_proj. Qed.
Lemma sh_id a p : p_id (set_httpok a p) = p_id p. Proof. apply set_httpok_proj. Qed.
Lemma sh_status a p : p_status (set_httpok a p) = p_status p. Proof. apply set_httpok_proj. Qed.
Lemma sh_resolve a p : p_resolve (set_httpok a p) = p_resolve p. Proof. apply set_httpok_proj. Qed.
Lemma sh_trace a p : p_trace (set_httpok a p) = p_trace p. Proof. apply set_httpok_proj. Qed.
Lemma sh_log a p : p_log (set_httpok a p) = p_log p. Proof. apply set_httpok_proj. Qed.
Lemma sh_sched a p : p_sched (set_httpok a p) = p_sched p. Proof. apply set_httpok_proj. Qed.
Lemma sh_script a p : p_script (set_httpok a p) = p_script p. Proof. apply set_httpok_proj. Qed.

Ltac psimp :=
  rewrite ?cf_id, ?cf_resolve, ?cf_trace, ?cf_log, ?cf_sched, ?cf_lasterr,
          ?sh_id, ?sh_status, ?sh_resolve, ?sh_trace, ?sh_log, ?sh_sched, ?sh_script,
          ?at_id, ?at_status, ?at_resolve, ?at_trace, ?at_log, ?at_sched, ?at_script.

(** a call that ends with the attempt made now *)
Ltac one_attempt dl :=
  split; [|discriminate]; split; [psimp; reflexivity|];
  eexists [(_, _)], dl; psimp;
  split; [reflexivity|]; split; [rewrite ?app_nil_r; reflexivity|];
  match goal with Hst : p_status _ = _, Hb : fst (next_behav _) = _ |- _ => rewrite Hst, Hb end;
  cbn; repeat split; try reflexivity; eauto.

Lemma send_retry_post fuel : forall retried p cmds,
  measure p retried <= fuel ->
  let (p', r) := send_retry fuel retried p cmds in
  post retried (p_id p) (p_trace p) (p_log p) (p_sched p) cmds p' r /\ r <> RFuel.
Proof.
  induction fuel as [|fuel IH]; intros retried p cmds Hm.
  - unfold measure in Hm. destruct retried; lia.
  - cbn [send_retry].
    assert (Hgood : forall st, good_status st = true -> p_status p = st ->
      let (p', r) :=
        match fst (next_behav p) with
        | Accept => (set_httpok true (attempt p cmds true true), ROk)
        | Reject code msg => (set_httpok true (attempt p cmds true false), RErr code msg)
        | RejectPlain msg =>
            let p' := conn_failed msg (set_httpok true (attempt p cmds true false)) in
            (p', RErr 500 (p_lasterr p'))
        | Drop => (attempt p cmds false true, ROk)
        | Refuse =>
            if http_ok p
            then let p' := conn_failed msg_httperr (set_httpok false (attempt p cmds false false)) in
                 (p', RErr 500 (p_lasterr p'))
            else let p' := conn_failed msg_connerr (attempt p cmds false false) in
                 if retried then (p', RErr 500 msg_retries) else send_retry fuel true p' cmds
        | HttpBroken rc =>
            let p' := conn_failed msg_httperr (set_httpok false (attempt p cmds rc false)) in
            (p', RErr 500 (p_lasterr p'))
        end in
      post retried (p_id p) (p_trace p) (p_log p) (p_sched p) cmds p' r /\ r <> RFuel).
    { intros st Hg Hst. destruct (fst (next_behav p)) as [|code msg|msg| | |rc] eqn:Hb.
      - one_attempt [cmds].
      - one_attempt [cmds].
      - one_attempt [cmds].
      - one_attempt (@nil (list str)).
      - destruct (http_ok p).
        + one_attempt (@nil (list str)).
        + destruct retried.
          * one_attempt (@nil (list str)).
          * set (p1 := conn_failed msg_connerr (attempt p cmds false false)) in *.
            assert (Hm1 : measure p1 true <= fuel).
            { unfold measure in *. subst p1. psimp. lia. }
            specialize (IH true p1 cmds Hm1).
            destruct (send_retry fuel true p1 cmds) as [p' r].
            destruct IH as [(Pi & dt & dl & Pt & Pl & Psh) Pf].
            split; [|exact Pf]. split; [rewrite Pi; subst p1; psimp; reflexivity|].
            exists ((st, Refuse) :: dt), dl.
            rewrite Pt, Pl. subst p1. psimp. rewrite Hst, Hb, <- app_assoc. cbn [app].
            split; [reflexivity|]. split; [reflexivity|].
            revert Psh. psimp. intros Psh.
            destruct dt as [|[s b] [|x dt]]; cbn [call_shape] in *.
            -- destruct Psh as (-> & -> & Hr'). cbn. repeat split; try reflexivity; assumption.
            -- destruct Psh as (Hg' & He). repeat split; try reflexivity; assumption.
            -- destruct x. destruct dt; [|contradiction]. destruct Psh as (Hf & _). discriminate.
      - destruct rc; [one_attempt [cmds]|one_attempt (@nil (list str))]. }
    destruct (p_status p) eqn:Hst.
    + (* Up *) exact (Hgood Up eq_refl eq_refl).
    + (* Warning *)
      destruct (p_resolve p) as [|s rest] eqn:Hres.
      * split; [|discriminate]. split; [reflexivity|]. exists [], []. rewrite !app_nil_r. cbn. auto 12.
      * match goal with |- context [send_retry fuel retried ?q cmds] => set (p1 := q) end.
        assert (Hm1 : measure p1 retried <= fuel).
        { unfold measure in *. subst p1. cbn. rewrite Hres in Hm. cbn [length] in Hm. lia. }
        specialize (IH retried p1 cmds Hm1). subst p1. cbn in IH. exact IH.
    + (* Down *)
      split; [|discriminate]. split; [reflexivity|]. exists [], []. rewrite !app_nil_r. cbn.
      repeat split; try reflexivity. right; eexists; reflexivity.
    + (* Broken *)
      split; [|discriminate]. split; [reflexivity|]. exists [], []. rewrite !app_nil_r. cbn.
      repeat split; try reflexivity. right; eexists; reflexivity.
    + (* Pending *)
      destruct (p_resolve p) as [|s rest] eqn:Hres.
      * split; [|discriminate]. split; [reflexivity|]. exists [], []. rewrite !app_nil_r. cbn. auto 12.
      * match goal with |- context [send_retry fuel retried ?q cmds] => set (p1 := q) end.
        assert (Hm1 : measure p1 retried <= fuel).
        { unfold measure in *. subst p1. cbn. rewrite Hres in Hm. cbn [length] in Hm. lia. }
        specialize (IH retried p1 cmds Hm1). subst p1. cbn in IH. exact IH.
    + (* Syncing *) exact (Hgood Syncing eq_refl eq_refl).
Qed.

Lemma fuel_ok p : measure p false <= fuel_for p.
Proof. unfold measure, fuel_for; lia. Qed.

Lemma send_post p cmds :
  let (p', r) := send p cmds in
  post false (p_id p) (p_trace p) (p_log p) (p_sched p) cmds p' r /\ r <> RFuel.
Proof. unfold send. apply send_retry_post, fuel_ok. Qed.

(** *** consequences of the shape of one call *)

Definition count_received (dt : list (pstatus * behav)) : nat :=
  length (filter (fun sb => received (snd sb)) dt).

Definition delivered (dt : list (pstatus * behav)) : bool := existsb (fun sb => received (snd sb)) dt.

(** what the property demands of the attempts made for one batch *)
Definition attempts_ok (dt : list (pstatus * behav)) : Prop :=
  length dt <= 2 /\
  (forall x y, dt = [x; y] -> snd x = Refuse) /\
  Forall (fun sb => good_status (fst sb) = true) dt /\
  count_received dt <= 1.

Lemma last_effect_dl b cmds dl r s0 s1 :
  last_effect b cmds dl r s0 s1 -> dl = (if received b then [cmds] else []).
Proof. destruct b as [| | | | |[]]; cbn; intros H; decompose [and] H; assumption. Qed.

Lemma last_effect_sched b cmds dl r s0 s1 :
  last_effect b cmds dl r s0 s1 ->
  (s0 = true -> s1 = true) /\ (r = ROk -> s1 = true) /\
  (b = Accept \/ b = Drop -> r = ROk /\ s1 = true) /\
  (forall c m, b = Reject c m -> r = RErr c m) /\
  (forall m, b = RejectPlain m -> r = RErr 500 m) /\
  (r = ROk -> b = Accept \/ b = Drop).
Proof.
  destruct b; cbn [last_effect]; intros (Hdl & Hr & Hs); subst;
    repeat split; intros; subst;
    repeat match goal with
           | H : _ \/ _ |- _ => destruct H
           | H : exists _, _ |- _ => destruct H
           end; subst; try discriminate; try congruence; auto.
Qed.

Lemma call_shape_ok rt cmds dt dl r s0 s1 :
  call_shape rt cmds dt dl r s0 s1 ->
  attempts_ok dt /\ dl = (if delivered dt then [cmds] else []) /\
  (s0 = true -> s1 = true) /\ (r = ROk -> s1 = true) /\
  (forall s, In (s, Accept) dt \/ In (s, Drop) dt -> r = ROk /\ s1 = true) /\
  (forall s c m, In (s, Reject c m) dt -> r = RErr c m) /\
  (forall s m, In (s, RejectPlain m) dt -> r = RErr 500 m).
Proof.
  unfold attempts_ok, count_received, delivered.
  destruct dt as [|[s1' b1] [|[s2' b2] [|x dt]]]; cbn [call_shape]; intros H.
  - destruct H as (-> & -> & Hr). cbn. repeat split; auto; try lia; try constructor;
      try (intros; discriminate); try (intros ? [[]|[]]); try (intros; contradiction).
    intros ->. destruct Hr as [?|[m ?]]; discriminate.
  - destruct H as (Hg & He). pose proof (last_effect_dl _ _ _ _ _ _ He) as Hdl.
    pose proof (last_effect_sched _ _ _ _ _ _ He) as (Hs1 & Hs2 & Hs3 & Hs4 & Hs5 & Hs6).
    cbn. rewrite orb_false_r. repeat split; auto; try lia.
    + intros; discriminate.
    + destruct (received b1); cbn; lia.
    + apply Hs3. destruct H as [[H|[]]|[H|[]]]; inversion H; auto.
    + apply Hs3. destruct H as [[H|[]]|[H|[]]]; inversion H; auto.
    + intros s c m [H|[]]. inversion H; subst. apply Hs4; reflexivity.
    + intros s m [H|[]]. inversion H; subst. apply Hs5; reflexivity.
  - destruct H as (_ & -> & Hg1 & Hg2 & He). pose proof (last_effect_dl _ _ _ _ _ _ He) as Hdl.
    pose proof (last_effect_sched _ _ _ _ _ _ He) as (Hs1 & Hs2 & Hs3 & Hs4 & Hs5 & Hs6).
    cbn. rewrite orb_false_r. repeat split; auto; try lia.
    + intros x y Hxy. inversion Hxy; reflexivity.
    + destruct (received b2); cbn; lia.
    + apply Hs3. destruct H as [[H|[H|[]]]|[H|[H|[]]]]; inversion H; auto.
    + apply Hs3. destruct H as [[H|[H|[]]]|[H|[H|[]]]]; inversion H; auto.
    + intros s c m [H|[H|[]]]; inversion H; subst. apply Hs4; reflexivity.
    + intros s m [H|[H|[]]]; inversion H; subst. apply Hs5; reflexivity.
  - contradiction.
Qed.

(** a batch that an attempt delivered is not sent again: the attempt that
    reached the backend is the last one of the call, everything before it
    failed to connect *)
Definition answered_last (dt : list (pstatus * behav)) : Prop :=
  forall s b, In (s, b) dt -> received b = true ->
    exists pre, dt = pre ++ [(s, b)] /\ Forall (fun sb => snd sb = Refuse) pre.

Lemma attempts_ok_answered_last dt : attempts_ok dt -> answered_last dt.
Proof.
  intros (Hlen & Htwo & _ & _) s b Hin Hrc.
  destruct dt as [|x [|y [|z l]]].
  - contradiction.
  - destruct Hin as [->|[]]. exists []. split; [reflexivity|constructor].
  - pose proof (Htwo x y eq_refl) as Hx. destruct Hin as [->|[->|[]]].
    + cbn [snd] in Hx. subst b. discriminate.
    + exists [x]. split; [reflexivity|]. constructor; [exact Hx|constructor].
  - cbn [length] in Hlen. lia.
Qed.

(** *** one backend, one flush *)

Definition step1 (q : list qcmd) (p : peer) : peer := fst (step_peer p q).

(** the (possibly empty) batch and what the step added *)
Lemma step1_spec q p :
  let p' := step1 q p in
  p_id p' = p_id p /\
  match cmds_for (p_id p) q with
  | [] => p' = p
  | cmds => exists dt dl r, snd (step_peer p q) = Some r /\ r <> RFuel /\
            p_trace p' = p_trace p ++ dt /\ p_log p' = p_log p ++ dl /\
            call_shape false cmds dt dl r (p_sched p) (p_sched p')
  end.
Proof.
  unfold step1, step_peer. destruct (cmds_for (p_id p) q) as [|c cs] eqn:Hc.
  - cbn. split; reflexivity.
  - pose proof (send_post p (c :: cs)) as H. destruct (send p (c :: cs)) as [p' r].
    destruct H as [(Hi & dt & dl & Ht & Hl & Hsh) Hf]. cbn. split; [exact Hi|].
    exists dt, dl, r. auto 10.
Qed.

Lemma run_peer_cons p q qs : run_peer p (q :: qs) = run_peer (step1 q p) qs.
Proof. reflexivity. Qed.

Lemma run_peer_id qs : forall p, p_id (run_peer p qs) = p_id p.
Proof.
  induction qs as [|q qs IH]; intros p; [reflexivity|].
  rewrite run_peer_cons, IH. apply step1_spec.
Qed.

Definition nonempty {A} (b : list A) : bool := match b with [] => false | _ => true end.

Lemma batches_for_cons id q qs :
  batches_for id (q :: qs) =
  (if nonempty (cmds_for id q) then [cmds_for id q] else []) ++ batches_for id qs.
Proof. unfold batches_for. cbn [map filter]. destruct (cmds_for id q); reflexivity. Qed.

(** the history of one backend: per non-empty batch the attempts made; the
    log is exactly the batches for which an attempt delivered the bytes *)
Lemma run_peer_history qs : forall p,
  exists ts,
    length ts = length (batches_for (p_id p) qs) /\
    Forall attempts_ok ts /\
    p_trace (run_peer p qs) = p_trace p ++ concat ts /\
    p_log (run_peer p qs) =
      p_log p ++ map fst (filter (fun bt => delivered (snd bt)) (combine (batches_for (p_id p) qs) ts)) /\
    (p_sched p = true -> p_sched (run_peer p qs) = true) /\
    (forall s, In (s, Accept) (concat ts) \/ In (s, Drop) (concat ts) -> p_sched (run_peer p qs) = true).
Proof.
  induction qs as [|q qs IH]; intros p.
  - exists []. cbn. rewrite !app_nil_r. repeat split; auto. intros s [[]|[]].
  - rewrite run_peer_cons, batches_for_cons.
    destruct (step1_spec q p) as [Hid Hstep].
    destruct (IH (step1 q p)) as (ts & Hlen & Hok & Htr & Hlg & Hsm & Hsa). rewrite Hid in *.
    destruct (cmds_for (p_id p) q) as [|c cs] eqn:Hc.
    + rewrite Hstep in *. cbn [nonempty app]. exists ts. auto 10.
    + destruct Hstep as (dt & dl & r & _ & _ & Ht & Hl & Hsh).
      destruct (call_shape_ok _ _ _ _ _ _ _ Hsh) as (Ha & Hdl & Hm & _ & Hacc & _).
      cbn [nonempty app]. exists (dt :: ts). cbn [length concat combine filter snd map fst].
      split; [congruence|]. split; [constructor; assumption|].
      split; [rewrite Htr, Ht, app_assoc; reflexivity|].
      split.
      * rewrite Hlg, Hl, Hdl. destruct (delivered dt); cbn [map fst app]; rewrite <- app_assoc; reflexivity.
      * split; [auto|]. intros s Hin.
        assert (Hcase : (In (s, Accept) dt \/ In (s, Drop) dt) \/
                        (In (s, Accept) (concat ts) \/ In (s, Drop) (concat ts))).
        { destruct Hin as [Hin|Hin]; apply in_app_or in Hin; tauto. }
        destruct Hcase as [Hd|Hd]; [|eauto]. apply Hsm. apply (Hacc s Hd).
Qed.

Lemma subseq_filter_combine {A B} (f : A * B -> bool) (l : list A) (ts : list B) :
  subseq (map fst (filter f (combine l ts))) l.
Proof.
  revert ts; induction l as [|x l IH]; intros ts; [constructor|].
  destruct ts as [|t ts]; [apply subseq_nil_l|].
  cbn [combine filter]. destruct (f (x, t)); cbn [map fst]; constructor; apply IH.
Qed.

(** delivered_is_ordered_subseq, general part *)
Lemma run_peer_log_subseq p qs :
  exists l, p_log (run_peer p qs) = p_log p ++ l /\ subseq l (batches_for (p_id p) qs).
Proof.
  destruct (run_peer_history qs p) as (ts & _ & _ & _ & Hlg & _).
  eexists; split; [exact Hlg|]. apply subseq_filter_combine.
Qed.

(** a backend that is up and answers every connection (accepting or rejecting) *)
Definition reliable (p : peer) : Prop :=
  good_status (p_status p) = true /\
  Forall (fun b => b = Accept \/ exists c m, b = Reject c m) (p_script p).

Lemma send_reliable p cmds :
  reliable p -> reliable (fst (send p cmds)) /\ p_log (fst (send p cmds)) = p_log p ++ [cmds].
Proof.
  intros [Hg Hs]. unfold send, fuel_for. rewrite Nat.add_comm. cbn [Nat.add send_retry].
  assert (Hnb : next_behav p = match p_script p with [] => (Accept, []) | b :: r => (b, r) end) by reflexivity.
  destruct (p_status p) eqn:Hst; try discriminate;
    (destruct (p_script p) as [|b rest] eqn:Hsc;
     [ rewrite Hnb; cbn [fst]; unfold reliable; psimp; rewrite Hst, Hnb; cbn; auto
     | inversion Hs as [|? ? Hb Hrest]; subst; destruct Hb as [->|(c & m & ->)];
       rewrite Hnb; cbn [fst]; unfold reliable; psimp; rewrite Hst, Hnb; cbn; auto ]).
Qed.

(** delivered_is_ordered_subseq, exact part *)
Lemma run_peer_log_exact qs : forall p,
  reliable p -> p_log (run_peer p qs) = p_log p ++ batches_for (p_id p) qs.
Proof.
  induction qs as [|q qs IH]; intros p Hr.
  - cbn. rewrite app_nil_r; reflexivity.
  - rewrite run_peer_cons, batches_for_cons.
    destruct (step1_spec q p) as [Hid _].
    unfold step1, step_peer in *. destruct (cmds_for (p_id p) q) as [|c cs] eqn:Hc.
    + cbn [fst nonempty app] in *. apply IH; assumption.
    + destruct (send_reliable p (c :: cs) Hr) as [Hr' Hl].
      destruct (send p (c :: cs)) as [p' r]. cbn [fst nonempty] in *.
      rewrite (IH p' Hr'), Hl, Hid, <- app_assoc. reflexivity.
Qed.

(** *** the whole connection: every backend sees its own sequence of flushes *)

Lemma cmds_for_nil id : cmds_for id [] = [].
Proof. reflexivity. Qed.

Lemma step1_nil p : step1 [] p = p.
Proof. reflexivity. Qed.

Lemma flush_peers_fst ps q : fst (flush_peers ps q) = map (step1 q) ps.
Proof.
  induction ps as [|p ps IH]; [reflexivity|].
  cbn [flush_peers map]. unfold step1 at 1. destruct (step_peer p q) as [p' o].
  destruct (flush_peers ps q) as [r' os]. cbn [fst] in *. rewrite IH; reflexivity.
Qed.

Definition result_of (q : list qcmd) (p : peer) : list sres :=
  match snd (step_peer p q) with Some r => [r] | None => [] end.

Lemma flush_peers_snd ps q : snd (flush_peers ps q) = flat_map (result_of q) ps.
Proof.
  induction ps as [|p ps IH]; [reflexivity|].
  cbn [flush_peers flat_map]. unfold result_of at 1. destruct (step_peer p q) as [p' o].
  destruct (flush_peers ps q) as [r' os]. cbn [snd] in *. rewrite <- IH. destruct o; reflexivity.
Qed.

Lemma map_step1_nil ps : map (step1 []) ps = ps.
Proof. induction ps as [|p ps IH]; [reflexivity|]. cbn [map]. rewrite IH, step1_nil; reflexivity. Qed.

Lemma flush_fst ps q : fst (flush ps q) = map (step1 q) ps.
Proof.
  unfold flush. destruct q as [|c q]; [cbn [fst]; symmetry; apply map_step1_nil|].
  pose proof (flush_peers_fst ps (c :: q)) as H.
  destruct (flush_peers ps (c :: q)) as [ps' rs]. cbn [fst] in H.
  destruct (existsb is_timeout rs); [exact H|]. destruct (errs_of rs); exact H.
Qed.

Definition step_all (ps : list peer) (q : list qcmd) : list peer := map (step1 q) ps.

Lemma process_spec reqs : forall ps q ka,
  fst (fst (process ps q reqs ka)) = fold_left step_all (flushes_of q reqs) ps /\
  snd (process ps q reqs ka) = process_ka reqs ka.
Proof.
  induction reqs as [|r reqs IH]; intros ps q ka.
  - cbn [process flushes_of process_ka fold_left]. pose proof (flush_fst ps q) as H.
    destruct (flush ps q) as [ps' o]. cbn [fst snd] in *. split; [exact H|reflexivity].
  - destruct r as [l b k|k|]; cbn [process flushes_of process_ka].
    + apply IH.
    + pose proof (flush_fst ps q) as H. destruct (flush ps q) as [ps' o]. cbn [fst] in H.
      destruct k.
      * specialize (IH ps' [] true). destruct (process ps' [] reqs true) as [[ps'' o2] ka'].
        subst ps'. simpl in IH. simpl. unfold step_all at 2. exact IH.
      * subst ps'. simpl. split; reflexivity.
    + apply IH.
Qed.

Lemma connection_fst ws : forall ps,
  fst (connection ps ws) = fold_left step_all (flushes ws) ps.
Proof.
  induction ws as [|w ws IH]; intros ps; [reflexivity|].
  cbn [connection flushes]. destruct (parse (w_items w)) as [reqs|]; [|reflexivity].
  destruct (process_spec reqs ps [] true) as [Hf Hk].
  destruct (process ps [] reqs true) as [[ps' o] ka]. cbn [fst snd] in *. subst ka.
  rewrite fold_left_app, <- Hf.
  destruct (process_ka reqs true && negb (w_close w)).
  - specialize (IH ps'). destruct (connection ps' ws) as [ps'' os]. exact IH.
  - reflexivity.
Qed.

Lemma fold_step_all qs : forall ps,
  fold_left step_all qs ps = map (fun p => run_peer p qs) ps.
Proof.
  induction qs as [|q qs IH]; intros ps.
  - cbn. symmetry. apply map_id.
  - cbn [fold_left]. rewrite IH. unfold step_all. rewrite map_map. reflexivity.
Qed.

Lemma connection_routing ps ws :
  fst (connection ps ws) = map (fun p => run_peer p (flushes ws)) ps.
Proof. rewrite connection_fst. apply fold_step_all. Qed.

(** *** what the client is told *)

Lemma step_peer_nil p : snd (step_peer p []) = None.
Proof. reflexivity. Qed.

Lemma errs_of_in rs c m : In (RErr c m) rs -> c <> 200%Z -> In (c, m) (errs_of rs).
Proof.
  intros Hin Hc. unfold errs_of. apply in_flat_map. exists (RErr c m). split; [assumption|].
  destruct (Z.eqb_spec c 200); [contradiction|]. left; reflexivity.
Qed.

Lemma errs_of_inv rs c m :
  In (c, m) (errs_of rs) -> In (RErr c m) rs \/ In RFuel rs.
Proof.
  unfold errs_of. intros H. apply in_flat_map in H as [r [Hr Hin]].
  destruct r; cbn in Hin; try contradiction.
  - destruct (code =? 200)%Z; [contradiction|]. destruct Hin as [Hin|[]]. inversion Hin; subst. left; assumption.
  - right; assumption.
Qed.

Lemma flush_reports ps q p c m :
  In p ps -> snd (step_peer p q) = Some (RErr c m) -> c <> 200%Z ->
  (forall p', In p' ps -> snd (step_peer p' q) <> Some RTimeout) ->
  exists es, snd (flush ps q) = [OErr es] /\ In (c, m) es /\
    forall c' m', In (c', m') es ->
      exists p', In p' ps /\ snd (step_peer p' q) = Some (RErr c' m').
Proof.
  intros Hp Hr Hc Hnt. unfold flush.
  destruct q as [|x q]; [rewrite step_peer_nil in Hr; discriminate|].
  pose proof (flush_peers_snd ps (x :: q)) as Hs.
  destruct (flush_peers ps (x :: q)) as [ps' rs]. cbn [snd] in Hs.
  assert (Hin : In (RErr c m) rs).
  { rewrite Hs. apply in_flat_map. exists p. split; [assumption|]. unfold result_of. rewrite Hr. left; reflexivity. }
  assert (Hto : existsb is_timeout rs = false).
  { destruct (existsb is_timeout rs) eqn:He; [|reflexivity]. apply existsb_exists in He as [r [Hrin Hrt]].
    destruct r; try discriminate. rewrite Hs in Hrin. apply in_flat_map in Hrin as [p' [Hp' Hr']].
    unfold result_of in Hr'. destruct (snd (step_peer p' (x :: q))) eqn:Hsp; [|contradiction].
    destruct Hr' as [->|[]]. exfalso. apply (Hnt p' Hp'). exact Hsp. }
  rewrite Hto. pose proof (errs_of_in rs c m Hin Hc) as Hes.
  destruct (errs_of rs) as [|e es] eqn:He; [contradiction|]. cbn [snd].
  exists (e :: es). split; [reflexivity|]. split; [assumption|].
  intros c' m' Hin'. rewrite <- He in Hin'. apply errs_of_inv in Hin' as [Hin'|Hin'].
  - rewrite Hs in Hin'. apply in_flat_map in Hin' as [p' [Hp' Hr']]. exists p'. split; [assumption|].
    unfold result_of in Hr'. destruct (snd (step_peer p' (x :: q))); [|contradiction].
    destruct Hr' as [->|[]]; reflexivity.
  - exfalso. rewrite Hs in Hin'. apply in_flat_map in Hin' as [p' [Hp' Hr']].
    unfold result_of in Hr'. destruct (snd (step_peer p' (x :: q))) eqn:Hsp; [|contradiction].
    destruct Hr' as [->|[]]. pose proof (step1_spec (x :: q) p') as [_ Hst].
    destruct (cmds_for (p_id p') (x :: q)) eqn:Hc'.
    + unfold step_peer in Hsp. rewrite Hc' in Hsp. discriminate.
    + destruct Hst as (dt & dl & r & Hsome & Hnf & _). rewrite Hsp in Hsome. inversion Hsome; subst. contradiction.
Qed.

Lemma flush_silent ps q :
  (forall p, In p ps -> snd (step_peer p q) = None \/ snd (step_peer p q) = Some ROk) ->
  snd (flush ps q) = [].
Proof.
  intros Hall. unfold flush. destruct q as [|x q]; [reflexivity|].
  pose proof (flush_peers_snd ps (x :: q)) as Hs.
  destruct (flush_peers ps (x :: q)) as [ps' rs]. cbn [snd] in Hs.
  assert (Hok : Forall (fun r => r = ROk) rs).
  { rewrite Hs. apply Forall_forall. intros r Hr. apply in_flat_map in Hr as [p [Hp Hr]].
    unfold result_of in Hr. destruct (Hall p Hp) as [H|H]; rewrite H in Hr; [contradiction|].
    destruct Hr as [<-|[]]; reflexivity. }
  assert (Hto : existsb is_timeout rs = false /\ errs_of rs = []).
  { clear Hs. induction Hok as [|r rs -> _ IH]; [split; reflexivity|]. destruct IH as [IH1 IH2].
    split; [cbn [existsb is_timeout orb]; exact IH1|].
    change (errs_of (ROk :: rs)) with (errs_of rs); exact IH2. }
  destruct Hto as [-> ->]. reflexivity.
Qed.

(** *** the forwarded bytes *)

Lemma trim_left_split l :
  exists a, l = a ++ trim_left l /\ Forall (fun c => is_space c = true) a.
Proof.
  induction l as [|c l IH]; [exists []; split; [reflexivity|constructor]|].
  cbn [trim_left]. destruct (is_space c) eqn:Hc.
  - destruct IH as [a [Ha Hs]]. exists (c :: a). split; [cbn [app]; congruence|constructor; assumption].
  - exists []. split; [reflexivity|constructor].
Qed.

Lemma Forall_rev' {A} (P : A -> Prop) l : Forall P l -> Forall P (rev l).
Proof. intros H. apply Forall_forall. intros x Hx. apply in_rev in Hx. eapply Forall_forall in H; eassumption. Qed.

(** the command is forwarded byte for byte except for white space around it *)
Lemma trim_space_split l :
  exists a b, l = a ++ trim_space l ++ b /\
              Forall (fun c => is_space c = true) a /\ Forall (fun c => is_space c = true) b.
Proof.
  unfold trim_space.
  destruct (trim_left_split l) as [a [Ha Hsa]].
  destruct (trim_left_split (rev (trim_left l))) as [b [Hb Hsb]].
  exists a, (rev b). split; [|split; [assumption|apply Forall_rev'; assumption]].
  rewrite <- rev_app_distr, <- Hb, rev_involutive. exact Ha.
Qed.

Definition head_not_space (l : str) : Prop :=
  match l with [] => True | c :: _ => is_space c = false end.

Lemma trim_left_id l : head_not_space l -> trim_left l = l.
Proof. destruct l as [|c l]; [reflexivity|]. cbn. intros ->. reflexivity. Qed.

Lemma trim_space_id l : head_not_space l -> head_not_space (rev l) -> trim_space l = l.
Proof.
  intros H1 H2. unfold trim_space. rewrite (trim_left_id l H1), (trim_left_id _ H2).
  apply rev_involutive.
Qed.

Lemma batches_elements id qs b c :
  In b (batches_for id qs) -> In c b ->
  exists q l bs, In q qs /\ In (l, bs) q /\ selected id (l, bs) = true /\ c = trim_space l.
Proof.
  unfold batches_for. intros Hb Hc. apply filter_In in Hb as [Hb _].
  apply in_map_iff in Hb as [q [<- Hq]]. unfold cmds_for in Hc.
  apply in_map_iff in Hc as [[l bs] [<- Hl]]. apply filter_In in Hl as [Hl Hsel].
  exists q, l, bs. auto.
Qed.

Lemma flushes_of_items reqs : forall q0 q l bs,
  In q (flushes_of q0 reqs) -> In (l, bs) q ->
  In (l, bs) q0 \/ exists ka, In (Cmd l bs ka) reqs.
Proof.
  induction reqs as [|r reqs IH]; intros q0 q l bs Hq Hl.
  - cbn in Hq. destruct Hq as [<-|[]]. left; assumption.
  - destruct r as [l' b' k|k|]; cbn [flushes_of] in Hq.
    + destruct (IH _ _ _ _ Hq Hl) as [H|[ka H]].
      * apply in_app_or in H as [H|[H|[]]]; [left; assumption|].
        inversion H; subst. right. exists k. left; reflexivity.
      * right. exists ka. right; assumption.
    + destruct Hq as [<-|Hq]; [left; assumption|]. destruct k; [|contradiction].
      destruct (IH _ _ _ _ Hq Hl) as [[]|[ka H]]. right. exists ka. right; assumption.
    + destruct (IH _ _ _ _ Hq Hl) as [H|[ka H]]; [left; assumption|]. right. exists ka. right; assumption.
Qed.

Lemma parse_incl items : forall reqs r, parse items = Some reqs -> In r reqs -> In r items.
Proof.
  induction items as [|i items IH]; intros reqs r Hp Hr.
  - inversion Hp; subst. contradiction.
  - destruct i as [l b k|k|]; cbn [parse] in Hp.
    + destruct (parse items) as [rs|] eqn:Hps; [|discriminate]. inversion Hp; subst.
      destruct Hr as [<-|Hr]; [left; reflexivity|]. right. eapply IH; [reflexivity|assumption].
    + inversion Hp; subst. destruct Hr as [<-|[]]. left; reflexivity.
    + discriminate.
Qed.

(** every queued command was sent by the client as a COMMAND request *)
Lemma flushes_items ws : forall q l bs,
  In q (flushes ws) -> In (l, bs) q ->
  exists w ka, In w ws /\ In (Cmd l bs ka) (w_items w).
Proof.
  induction ws as [|w ws IH]; intros q l bs Hq Hl; [contradiction|].
  cbn [flushes] in Hq. destruct (parse (w_items w)) as [reqs|] eqn:Hp; [|contradiction].
  apply in_app_or in Hq as [Hq|Hq].
  - destruct (flushes_of_items _ _ _ _ _ Hq Hl) as [[]|[ka H]].
    exists w, ka. split; [left; reflexivity|]. eapply parse_incl; eassumption.
  - destruct (process_ka reqs true && negb (w_close w)); [|contradiction].
    destruct (IH _ _ _ Hq Hl) as (w' & ka & Hw & Hc). exists w', ka. split; [right|]; assumption.
Qed.

(** *** sessions without pipelining: the flushed queues are the writes' commands *)

Definition is_cmd (r : req) : bool := match r with Cmd _ _ _ => true | _ => false end.

Definition cmd_queue (items : list req) : list qcmd :=
  flat_map (fun r => match r with Cmd l b _ => [(l, b)] | _ => [] end) items.

(** every write but the last is "commands, then a keep-alive GET"; the last
    one is commands optionally followed by a GET *)
Fixpoint session (ws : list write) : Prop :=
  match ws with
  | [] => True
  | w :: rest =>
      match rest with
      | [] => exists cs, forallb is_cmd cs = true /\
                         (w_items w = cs \/ exists k, w_items w = cs ++ [Get k])
      | _ => (exists cs, forallb is_cmd cs = true /\ w_items w = cs ++ [Get true]) /\
             w_close w = false /\ session rest
      end
  end.

Lemma parse_cmds cs tail :
  forallb is_cmd cs = true -> parse (cs ++ tail) = match parse tail with Some t => Some (cs ++ t) | None => None end.
Proof.
  induction cs as [|c cs IH]; intros H; cbn [app].
  - destruct (parse tail); reflexivity.
  - cbn [forallb] in H. apply andb_true_iff in H as [Hc H]. destruct c; try discriminate.
    cbn [parse]. rewrite (IH H). destruct (parse tail); reflexivity.
Qed.

Lemma flushes_of_cmds cs : forall q tail,
  forallb is_cmd cs = true -> flushes_of q (cs ++ tail) = flushes_of (q ++ cmd_queue cs) tail.
Proof.
  induction cs as [|c cs IH]; intros q tail H; cbn [app cmd_queue flat_map].
  - rewrite app_nil_r; reflexivity.
  - cbn [forallb] in H. apply andb_true_iff in H as [Hc H]. destruct c; try discriminate.
    cbn [flushes_of]. rewrite (IH _ _ H). fold (cmd_queue cs). rewrite <- app_assoc. reflexivity.
Qed.

Lemma process_ka_cmds cs : forall ka,
  forallb is_cmd cs = true -> process_ka (cs ++ [Get true]) ka = true.
Proof.
  induction cs as [|c cs IH]; intros ka H; [reflexivity|].
  cbn [forallb] in H. apply andb_true_iff in H as [Hc H]. destruct c; try discriminate.
  cbn [app process_ka]. apply IH; assumption.
Qed.

Lemma cmd_queue_app a b : cmd_queue (a ++ b) = cmd_queue a ++ cmd_queue b.
Proof. unfold cmd_queue. apply flat_map_app. Qed.

Lemma batches_for_app id a b : batches_for id (a ++ b) = batches_for id a ++ batches_for id b.
Proof. unfold batches_for. rewrite map_app, filter_app. reflexivity. Qed.

Lemma batches_for_one id q :
  batches_for id [q] = if nonempty (cmds_for id q) then [cmds_for id q] else [].
Proof. rewrite batches_for_cons. cbn. rewrite app_nil_r. reflexivity. Qed.

Definition write_batch (id : str) (w : write) : list str := cmds_for id (cmd_queue (w_items w)).

Lemma session_batches id ws :
  session ws ->
  batches_for id (flushes ws) = filter nonempty (map (write_batch id) ws).
Proof.
  induction ws as [|w ws IH]; intros Hs; [reflexivity|].
  cbn [flushes map filter]. change (write_batch id w) with (cmds_for id (cmd_queue (w_items w))).
  destruct ws as [|w2 ws].
  - destruct Hs as (cs & Hcs & [Hi|[k Hi]]); rewrite Hi.
    + replace cs with (cs ++ []) at 1 2 by apply app_nil_r.
      rewrite (parse_cmds cs [] Hcs). cbn [parse]. rewrite (flushes_of_cmds cs [] [] Hcs).
      cbn [flushes_of app flushes]. rewrite app_nil_r.
      destruct (process_ka _ true && negb (w_close w)); rewrite ?app_nil_r, batches_for_one;
        destruct (nonempty (cmds_for id (cmd_queue cs))); reflexivity.
    + rewrite (parse_cmds cs [Get k] Hcs). cbn [parse]. rewrite (flushes_of_cmds cs [] [Get k] Hcs).
      cbn [flushes_of app flushes]. rewrite cmd_queue_app. cbn [cmd_queue flat_map]. rewrite app_nil_r.
      fold (cmd_queue cs).
      destruct (process_ka _ true && negb (w_close w)); rewrite ?app_nil_r;
        destruct k; rewrite ?batches_for_cons; cbn [cmds_for filter map nonempty app batches_for];
        destruct (nonempty (cmds_for id (cmd_queue cs))); reflexivity.
  - destruct Hs as ((cs & Hcs & Hi) & Hcl & Hrest). rewrite Hi, Hcl.
    rewrite (parse_cmds cs [Get true] Hcs). cbn [parse]. rewrite (flushes_of_cmds cs [] [Get true] Hcs).
    rewrite (process_ka_cmds cs true Hcs).
    cbn [flushes_of app process_ka negb andb]. rewrite cmd_queue_app. cbn [cmd_queue flat_map]. rewrite app_nil_r.
    fold (cmd_queue cs).
    rewrite batches_for_cons, batches_for_cons, (IH Hrest). cbn [cmds_for filter map nonempty app].
    destruct (nonempty (cmds_for id (cmd_queue cs))); reflexivity.
Qed.

(** *** packaging for Props.v *)

Lemma Forall2_map_self {A B} (R : A -> B -> Prop) (f : A -> B) (l : list A) :
  (forall x, In x l -> R x (f x)) -> Forall2 R l (map f l).
Proof.
  induction l as [|x l IH]; intros H; cbn [map]; constructor.
  - apply H; left; reflexivity.
  - apply IH. intros y Hy. apply H; right; assumption.
Qed.

Lemma subseq_In {A} (a b : list A) x : subseq a b -> In x a -> In x b.
Proof.
  induction 1 as [|y l1 l2 _ IH|y l1 l2 _ IH]; intros Hx.
  - assumption.
  - right; auto.
  - destruct Hx as [->|Hx]; [left; reflexivity|right; auto].
Qed.

Lemma last_effect_sched_inv b cmds dl r s0 s1 :
  last_effect b cmds dl r s0 s1 -> s1 = true -> s0 = true \/ b = Accept \/ b = Drop.
Proof. destruct b; cbn [last_effect]; intros (_ & _ & Hs) H1; subst; auto. Qed.

Lemma call_shape_sched_inv rt cmds dt dl r s0 s1 :
  call_shape rt cmds dt dl r s0 s1 -> s1 = true ->
  s0 = true \/ exists s, In (s, Accept) dt \/ In (s, Drop) dt.
Proof.
  destruct dt as [|[s1' b1] [|[s2' b2] [|x dt]]]; cbn [call_shape]; intros H H1.
  - destruct H as (_ & -> & _). left; assumption.
  - destruct H as (_ & He). destruct (last_effect_sched_inv _ _ _ _ _ _ He H1) as [?|[->| ->]]; [left; assumption| |];
      right; exists s1'; [left|right]; left; reflexivity.
  - destruct H as (_ & _ & _ & _ & He).
    destruct (last_effect_sched_inv _ _ _ _ _ _ He H1) as [?|[->| ->]]; [left; assumption| |];
      right; exists s2'; [left|right]; right; left; reflexivity.
  - contradiction.
Qed.

(** refresh is scheduled only by a call that believes it delivered the batch *)
Lemma run_peer_sched_inv qs : forall p,
  p_sched (run_peer p qs) = true ->
  p_sched p = true \/
  exists dt s, p_trace (run_peer p qs) = p_trace p ++ dt /\ (In (s, Accept) dt \/ In (s, Drop) dt).
Proof.
  induction qs as [|q qs IH]; intros p H; [left; exact H|].
  rewrite run_peer_cons in *. destruct (IH _ H) as [Hs|(dt & s & Ht & Hin)].
  - destruct (step1_spec q p) as [_ Hstep]. destruct (cmds_for (p_id p) q).
    + rewrite Hstep in Hs. left; exact Hs.
    + destruct Hstep as (dt & dl & r & _ & _ & Ht & _ & Hsh).
      destruct (call_shape_sched_inv _ _ _ _ _ _ _ Hsh Hs) as [?|[st Hin]]; [left; assumption|].
      right. destruct (run_peer_history qs (step1 q p)) as (ts & _ & _ & Htr & _).
      exists (dt ++ concat ts), st. split; [rewrite Htr, Ht, app_assoc; reflexivity|].
      destruct Hin; [left|right]; apply in_or_app; left; assumption.
  - right. destruct (step1_spec q p) as [_ Hstep]. destruct (cmds_for (p_id p) q).
    + rewrite Hstep in *. exists dt, s. split; assumption.
    + destruct Hstep as (dt0 & dl & r & _ & _ & Ht0 & _ & _).
      exists (dt0 ++ dt), s. split; [rewrite Ht, Ht0, app_assoc; reflexivity|].
      destruct Hin; [left|right]; apply in_or_app; right; assumption.
Qed.

(** a backend's rejection is the result of the call *)
Lemma step_reject p q s c m dt :
  p_trace (step1 q p) = p_trace p ++ dt -> In (s, Reject c m) dt ->
  snd (step_peer p q) = Some (RErr c m).
Proof.
  intros Ht Hin. destruct (step1_spec q p) as [_ Hstep]. destruct (cmds_for (p_id p) q).
  - rewrite Hstep in Ht. rewrite <- (app_nil_r (p_trace p)) in Ht at 1.
    apply app_inv_head in Ht. subst dt. contradiction.
  - destruct Hstep as (dt' & dl & r & Hr & _ & Ht' & _ & Hsh). rewrite Ht' in Ht.
    apply app_inv_head in Ht. subst dt'.
    destruct (call_shape_ok _ _ _ _ _ _ _ Hsh) as (_ & _ & _ & _ & _ & Hrej & _).
    rewrite Hr. f_equal. eapply Hrej; eassumption.
Qed.

Lemma send_down p cmds :
  p_status p = Down \/ p_status p = Broken -> send p cmds = (p, RErr 500 (p_lasterr p)).
Proof.
  intros H. unfold send, fuel_for. rewrite Nat.add_comm. cbn [Nat.add send_retry].
  destruct H as [-> | ->]; reflexivity.
Qed.

(** *** the statements of Props.v *)

Lemma thm_C15_delivered_is_ordered_subseq :
  forall (ps : list peer) (ws : list write),
    Forall2 (fun p p' =>
      p_id p' = p_id p /\
      (exists l, p_log p' = p_log p ++ l /\ subseq l (batches_for (p_id p) (flushes ws))) /\
      (reliable p -> p_log p' = p_log p ++ batches_for (p_id p) (flushes ws)))
    ps (fst (connection ps ws)).
Proof.
  intros ps ws. rewrite connection_routing. apply Forall2_map_self. intros p _.
  exact (conj (run_peer_id (flushes ws) p)
          (conj (run_peer_log_subseq p (flushes ws)) (run_peer_log_exact (flushes ws) p))).
Qed.

Lemma thm_C15_at_most_once_or_single_retry :
  forall (ps : list peer) (ws : list write),
    Forall2 (fun p p' =>
      exists ts : list (list (pstatus * behav)),
        length ts = length (batches_for (p_id p) (flushes ws)) /\
        Forall attempts_ok ts /\
        p_trace p' = p_trace p ++ concat ts /\
        p_log p' = p_log p ++ map fst (filter (fun bt => delivered (snd bt))
                                        (combine (batches_for (p_id p) (flushes ws)) ts)))
    ps (fst (connection ps ws)).
Proof.
  intros ps ws. rewrite connection_routing. apply Forall2_map_self. intros p _.
  destruct (run_peer_history (flushes ws) p) as (ts & H1 & H2 & H3 & H4 & _).
  exact (ex_intro _ ts (conj H1 (conj H2 (conj H3 H4)))).
Qed.

Lemma thm_C15_answered_batch_not_resent :
  forall (ps : list peer) (ws : list write),
    Forall2 (fun p p' =>
      exists ts : list (list (pstatus * behav)),
        length ts = length (batches_for (p_id p) (flushes ws)) /\
        p_trace p' = p_trace p ++ concat ts /\
        Forall answered_last ts)
    ps (fst (connection ps ws)).
Proof.
  intros ps ws. rewrite connection_routing. apply Forall2_map_self. intros p _.
  destruct (run_peer_history (flushes ws) p) as (ts & H1 & H2 & H3 & _).
  exists ts. split; [exact H1|]. split; [exact H3|].
  eapply Forall_impl; [|exact H2]. exact attempts_ok_answered_last.
Qed.

Lemma thm_C15_never_to_down :
  (forall (ps : list peer) (ws : list write),
    Forall2 (fun p p' =>
      exists dt, p_trace p' = p_trace p ++ dt /\
                 Forall (fun sb => good_status (fst sb) = true) dt)
    ps (fst (connection ps ws))) /\
  (forall p cmds, p_status p = Down \/ p_status p = Broken ->
                  send p cmds = (p, RErr 500 (p_lasterr p))).
Proof.
  split; [|exact send_down].
  intros ps ws. rewrite connection_routing. apply Forall2_map_self. intros p _.
  destruct (run_peer_history (flushes ws) p) as (ts & _ & Hok & Htr & _).
  exists (concat ts). split; [exact Htr|].
  apply Forall_concat. eapply Forall_impl; [|exact Hok]. intros dt (_ & _ & Hg & _). exact Hg.
Qed.

Lemma thm_C15_rejection_propagates :
  forall (ps : list peer) (q : list qcmd) (p : peer) s c m dt,
    In p ps ->
    p_trace (fst (step_peer p q)) = p_trace p ++ dt -> In (s, Reject c m) dt ->
    c <> 200%Z ->
    (forall p', In p' ps -> snd (step_peer p' q) <> Some RTimeout) ->
    exists es, snd (flush ps q) = [OErr es] /\ In (c, m) es /\
      forall c' m', In (c', m') es ->
        exists p', In p' ps /\ snd (step_peer p' q) = Some (RErr c' m').
Proof.
  intros ps q p s c m dt Hp Ht Hin Hc Hnt.
  exact (flush_reports ps q p c m Hp (step_reject p q s c m dt Ht Hin) Hc Hnt).
Qed.

Lemma thm_C15_unchanged_bytes :
  forall (ps : list peer) (ws : list write),
    Forall2 (fun p p' =>
      exists l, p_log p' = p_log p ++ l /\
        forall b c, In b l -> In c b ->
          exists w line bs ka, In w ws /\ In (Cmd line bs ka) (w_items w) /\
                               selected (p_id p) (line, bs) = true /\ c = trim_space line)
    ps (fst (connection ps ws)).
Proof.
  intros ps ws. rewrite connection_routing. apply Forall2_map_self. intros p _.
  destruct (run_peer_log_subseq p (flushes ws)) as (l & Hl & Hsub).
  exists l. split; [exact Hl|]. intros b c Hb Hc.
  destruct (batches_elements _ _ _ _ (subseq_In _ _ _ Hsub Hb) Hc) as (q & line & bs & Hq & Hline & Hsel & Heq).
  destruct (flushes_items ws q line bs Hq Hline) as (w & ka & Hw & Hcmd).
  exact (ex_intro _ w (ex_intro _ line (ex_intro _ bs (ex_intro _ ka (conj Hw (conj Hcmd (conj Hsel Heq))))))).
Qed.

Lemma thm_C15_refresh_scheduled :
  forall (ps : list peer) (ws : list write),
    Forall2 (fun p p' =>
      exists dt, p_trace p' = p_trace p ++ dt /\
        (p_sched p = true -> p_sched p' = true) /\
        (forall s, In (s, Accept) dt \/ In (s, Drop) dt -> p_sched p' = true) /\
        (p_sched p' = true -> p_sched p = true \/ exists s, In (s, Accept) dt \/ In (s, Drop) dt))
    ps (fst (connection ps ws)).
Proof.
  intros ps ws. rewrite connection_routing. apply Forall2_map_self. intros p _.
  destruct (run_peer_history (flushes ws) p) as (ts & _ & _ & Htr & _ & Hm & Ha).
  exists (concat ts). split; [exact Htr|]. split; [exact Hm|]. split; [exact Ha|].
  intros Hs. destruct (run_peer_sched_inv (flushes ws) p Hs) as [H|(dt & s & Ht & Hin)]; [left; exact H|].
  right. exists s. rewrite Htr in Ht. apply app_inv_head in Ht. subst dt. exact Hin.
Qed.

Lemma thm_C15_fuel_sufficient :
  forall p cmds, snd (send p cmds) <> RFuel.
Proof.
  intros p cmds. pose proof (send_post p cmds) as H. destruct (send p cmds) as [p' r].
  exact (proj2 H).
Qed.
