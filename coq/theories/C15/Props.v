(** C15: commands reach exactly the selected backends, in order.
    Only statements; proofs live in Proofs.v.

    [connection ps ws] is one client connection: [ps] the backends (status,
    cached data, behaviour of the backend at every connection attempt, status
    changes that end a wait), [ws] the client's writes. All theorems hold for
    every such history.  [flushes ws] are the command queues lmd flushes,
    [batches_for id qs] the non-empty per-backend batches among them;
    [C15_received_batches] says what they are for sessions that do not pipeline. *)
From LMD Require Import C15.Model C15.Proofs.

(** Every backend's final state only depends on its own sequence of batches. *)
Theorem C15_routing :
  forall (ps : list peer) (ws : list write),
    fst (connection ps ws) = map (fun p => run_peer p (flushes ws)) ps.
Proof. exact connection_routing. Qed.

(** For a session in which every write is "commands, then a GET" (or ends the
    connection) the batches of backend [id] are, per write and in order, the
    white-space trimmed COMMAND lines whose Backends header selects [id]
    (no header = all backends). *)
Theorem C15_received_batches :
  forall (id : str) (ws : list write),
    session ws ->
    batches_for id (flushes ws) = filter nonempty (map (write_batch id) ws).
Proof. exact session_batches. Qed.

(** delivered_is_ordered_subseq: per backend the command log grows by a
    subsequence of the batches selected for it - same order, a batch is never
    split, merged or repeated - and for a backend that is up and answers
    (accepting or rejecting) it grows by exactly these batches. *)
Theorem C15_delivered_is_ordered_subseq :
  forall (ps : list peer) (ws : list write),
    Forall2 (fun p p' =>
      p_id p' = p_id p /\
      (exists l, p_log p' = p_log p ++ l /\ subseq l (batches_for (p_id p) (flushes ws))) /\
      (reliable p -> p_log p' = p_log p ++ batches_for (p_id p) (flushes ws)))
    ps (fst (connection ps ws)).
Proof. exact thm_C15_delivered_is_ordered_subseq. Qed.

(** at_most_once_or_single_retry: for every batch at most two connection
    attempts are made, two only if the first could not connect (nothing was
    sent), at most one attempt delivers the bytes, and the log consists of
    exactly the batches for which an attempt delivered them. *)
Theorem C15_at_most_once_or_single_retry :
  forall (ps : list peer) (ws : list write),
    Forall2 (fun p p' =>
      exists ts : list (list (pstatus * behav)),
        length ts = length (batches_for (p_id p) (flushes ws)) /\
        Forall attempts_ok ts /\
        p_trace p' = p_trace p ++ concat ts /\
        p_log p' = p_log p ++ map fst (filter (fun bt => delivered (snd bt))
                                        (combine (batches_for (p_id p) (flushes ws)) ts)))
    ps (fst (connection ps ws)).
Proof. exact thm_C15_at_most_once_or_single_retry. Qed.

(** answered_batch_not_resent: a backend that RECEIVED a batch - whether it took it,
    rejected it with "code: msg" or answered with any other error (socket: text
    without colon; HTTP: status <> 200, body that is not json, json with rc <> 0,
    remote error text), or the HTTP exchange broke after the request was read -
    is not sent this batch again: the receiving attempt is the last attempt made
    for the batch and every attempt before it failed to connect (nothing sent). *)
Theorem C15_answered_batch_not_resent :
  forall (ps : list peer) (ws : list write),
    Forall2 (fun p p' =>
      exists ts : list (list (pstatus * behav)),
        length ts = length (batches_for (p_id p) (flushes ws)) /\
        p_trace p' = p_trace p ++ concat ts /\
        Forall (fun dt => forall s b, In (s, b) dt -> received b = true ->
                  exists pre, dt = pre ++ [(s, b)] /\ Forall (fun sb => snd sb = Refuse) pre) ts)
    ps (fst (connection ps ws)).
Proof. exact thm_C15_answered_batch_not_resent. Qed.

(** never_to_down: every connection attempt of the history was made while the
    backend was up (or syncing); a call for a backend that is down or broken
    returns its last error without touching the backend. *)
Theorem C15_never_to_down :
  (forall (ps : list peer) (ws : list write),
    Forall2 (fun p p' =>
      exists dt, p_trace p' = p_trace p ++ dt /\
                 Forall (fun sb => good_status (fst sb) = true) dt)
    ps (fst (connection ps ws))) /\
  (forall p cmds, p_status p = Down \/ p_status p = Broken ->
                  send p cmds = (p, RErr 500 (p_lasterr p))).
Proof. exact thm_C15_never_to_down. Qed.

(** rejection_propagates: if a backend answers a batch with "code: msg" the
    client is sent one error line and (code, msg) is among its candidates;
    every candidate is the error of some backend of this flush. (With several
    failing backends lmd reports whichever result it reads last.) *)
Theorem C15_rejection_propagates :
  forall (ps : list peer) (q : list qcmd) (p : peer) s c m dt,
    In p ps ->
    p_trace (fst (step_peer p q)) = p_trace p ++ dt -> In (s, Reject c m) dt ->
    c <> 200%Z ->
    (forall p', In p' ps -> snd (step_peer p' q) <> Some RTimeout) ->
    exists es, snd (flush ps q) = [OErr es] /\ In (c, m) es /\
      forall c' m', In (c', m') es ->
        exists p', In p' ps /\ snd (step_peer p' q) = Some (RErr c' m').
Proof. exact thm_C15_rejection_propagates. Qed.

(** ... and nothing is written when every selected backend took the batch. *)
Theorem C15_silent_on_success :
  forall (ps : list peer) (q : list qcmd),
    (forall p, In p ps -> snd (step_peer p q) = None \/ snd (step_peer p q) = Some ROk) ->
    snd (flush ps q) = [].
Proof. exact flush_silent. Qed.

(** unchanged_bytes: every logged command is the white-space trimmed line of a
    COMMAND request of this connection that selects the backend ... *)
Theorem C15_unchanged_bytes :
  forall (ps : list peer) (ws : list write),
    Forall2 (fun p p' =>
      exists l, p_log p' = p_log p ++ l /\
        forall b c, In b l -> In c b ->
          exists w line bs ka, In w ws /\ In (Cmd line bs ka) (w_items w) /\
                               selected (p_id p) (line, bs) = true /\ c = trim_space line)
    ps (fst (connection ps ws)).
Proof. exact thm_C15_unchanged_bytes. Qed.

(** ... where trimming removes white space at both ends only, and nothing at
    all from a line that neither starts nor ends with white space. *)
Theorem C15_trim_only_whitespace :
  forall l : str,
    exists a b, l = a ++ trim_space l ++ b /\
                Forall (fun c => is_space c = true) a /\ Forall (fun c => is_space c = true) b.
Proof. exact trim_space_split. Qed.

Theorem C15_trim_identity :
  forall l : str, head_not_space l -> head_not_space (rev l) -> trim_space l = l.
Proof. exact trim_space_id. Qed.

(** refresh_scheduled: once a batch was accepted by the backend the immediate
    refresh stays scheduled; it is scheduled by nothing else than a call that
    lmd considers delivered. *)
Theorem C15_refresh_scheduled :
  forall (ps : list peer) (ws : list write),
    Forall2 (fun p p' =>
      exists dt, p_trace p' = p_trace p ++ dt /\
        (p_sched p = true -> p_sched p' = true) /\
        (forall s, In (s, Accept) dt \/ In (s, Drop) dt -> p_sched p' = true) /\
        (p_sched p' = true -> p_sched p = true \/ exists s, In (s, Accept) dt \/ In (s, Drop) dt))
    ps (fst (connection ps ws)).
Proof. exact thm_C15_refresh_scheduled. Qed.

(** the model never runs out of fuel *)
Theorem C15_fuel_sufficient :
  forall p cmds, snd (send p cmds) <> RFuel.
Proof. exact thm_C15_fuel_sufficient. Qed.

(** non-vacuity: backend a accepts, backend b refuses the first connection and
    comes back; the second batch selects b only and is rejected. *)
Example C15_example :
  let a := mkPeer (lit "a") Up true false [] [] [] [] [] false Socket in
  let b := mkPeer (lit "b") Up true false [] [Refuse; Accept; Reject 400 (lit "no")] [Up] [] [] false Socket in
  let ws := [mkWrite [Cmd (lit " COMMAND [1] X ") [] true; Cmd (lit "COMMAND [2] Y") [lit "a"] true; Get true] false;
             mkWrite [Cmd (lit "COMMAND [3] Z") [lit "b"] false] true] in
  let r := connection [a; b] ws in
  map p_log (fst r) = [[[lit "COMMAND [1] X"; lit "COMMAND [2] Y"]];
                       [[lit "COMMAND [1] X"]; [lit "COMMAND [3] Z"]]] /\
  map (fun p => map snd (p_trace p)) (fst r) = [[Accept]; [Refuse; Accept; Reject 400 (lit "no")]] /\
  snd r = [[OGet]; [OErr [(400%Z, lit "no")]; OClosed]] /\
  map p_sched (fst r) = [true; true].
Proof. vm_compute. repeat split. Qed.

(** non-vacuity, HTTP transport: the backend answers the first batch with "rc 1"
    (received, not sent again, the backend is marked failed); the second POST is
    refused while no connect test is made (plain error, no retry); the third batch
    meets a refused connect test, is retried once and taken. *)
Example C15_example_http :
  let h := mkPeer (lit "h") Up true false [] [RejectPlain (lit "REMOTE rc=1"); Refuse; Refuse; Accept]
                  [Up; Up; Up] [] [] false (Http true) in
  let ws := [mkWrite [Cmd (lit "COMMAND [1] X") [] true; Get true] false;
             mkWrite [Cmd (lit "COMMAND [2] Y") [] true; Get true] false;
             mkWrite [Cmd (lit "COMMAND [3] Z") [] false] true] in
  let r := connection [h] ws in
  map p_log (fst r) = [[[lit "COMMAND [1] X"]; [lit "COMMAND [3] Z"]]] /\
  map (fun p => map snd (p_trace p)) (fst r) = [[RejectPlain (lit "REMOTE rc=1"); Refuse; Refuse; Accept]] /\
  snd r = [[OErr [(500%Z, lit "REMOTE rc=1")]; OGet]; [OErr [(500%Z, msg_httperr)]; OGet]; [OClosed]] /\
  map p_transport (fst r) = [Http true].
Proof. vm_compute. repeat split. Qed.

Print Assumptions C15_routing.
Print Assumptions C15_answered_batch_not_resent.
Print Assumptions C15_received_batches.
Print Assumptions C15_delivered_is_ordered_subseq.
Print Assumptions C15_at_most_once_or_single_retry.
Print Assumptions C15_never_to_down.
Print Assumptions C15_rejection_propagates.
Print Assumptions C15_silent_on_success.
Print Assumptions C15_unchanged_bytes.
Print Assumptions C15_trim_only_whitespace.
Print Assumptions C15_trim_identity.
Print Assumptions C15_refresh_scheduled.
Print Assumptions C15_fuel_sufficient.
