(** C15: executable comparison of the model with what the harness observed
    (command logs of the scripted backends, client visible replies, final
    status in [GET sites], "refresh due" of periodicUpdate). *)
From LMD Require Export C15.Model.

Inductive tok :=
| TErr (code : Z) (msg : str)   (* a line "code: msg" *)
| TGet                          (* a fixed16 framed response *)
| TBad                          (* "bad request ..." *)
| TClosed.                      (* EOF *)

(** per backend: batches received (one per connection), refresh due, status *)
Definition pobs := (list (list str) * bool * pstatus)%type.

Record case := mkCase {
  c_peers : list peer;
  c_writes : list write;
  c_toks : list (list tok);
  c_pobs : list pobs }.

Definition list_eqb {A B} (eqb : A -> B -> bool) :=
  fix go (a : list A) (b : list B) : bool :=
    match a, b with
    | [], [] => true
    | x :: a', y :: b' => eqb x y && go a' b'
    | _, _ => false
    end.

Definition tok_match (o : out) (t : tok) : bool :=
  match o, t with
  | OErr cands, TErr c m => existsb (fun cm => Z.eqb (fst cm) c && str_eqb (snd cm) m) cands
  | OGet, TGet => true
  | OBad, TBad => true
  | OClosed, TClosed => true
  | _, _ => false
  end.

Definition pobs_of (p : peer) : pobs := (p_log p, p_sched p, p_status p).

Definition pobs_eqb (a b : pobs) : bool :=
  let '(l1, d1, s1) := a in
  let '(l2, d2, s2) := b in
  list_eqb (list_eqb str_eqb) l1 l2 && Bool.eqb d1 d2 && pstatus_eqb s1 s2.

Definition expected (c : case) : list (list out) * list pobs :=
  let (ps, os) := connection (c_peers c) (c_writes c) in (os, map pobs_of ps).

Definition check (c : case) : bool :=
  let (os, po) := expected c in
  list_eqb (list_eqb tok_match) os (c_toks c) && list_eqb pobs_eqb po (c_pobs c).

Fixpoint mismatches_from (i : nat) (cs : list case) : list (nat * (list (list out) * list pobs)) :=
  match cs with
  | [] => []
  | c :: rest => (if check c then [] else [(i, expected c)]) ++ mismatches_from (S i) rest
  end.

Definition mismatches := mismatches_from 0.
