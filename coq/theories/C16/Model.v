(** C16: model of pass-through queries (the [log] table) of lmd.

    Transcribes, for the CORRECT behaviour (see notes/C16.md for the four places
    where the pinned tree differs: D7, D7b, D7c, D8),

      - request.go   SetRequestColumns / GetColumnWithFallback (column resolution),
                     SetSortColumns, String() (what the sub request carries),
      - response.go  BuildPassThroughResult (split into backend / virtual columns,
                     sort columns appended behind the requested ones, [field.Index]),
                     PostProcessing (sort, removal of the appended columns, Offset, Limit),
                     Less (comparison by the sort keys), CalculateFinalStats / finalStatsApply,
      - peer.go      PassThroughQuery (insertion loop of the virtual values, Stats merge
                     through ApplyValue), isOnline / failed map,
      - filter.go    ApplyValue.

    A backend is what the environment decides: reachable or not, the rows of its log
    table that satisfy the client's filter (cells over the backend-side columns of the
    schema, in schema order) and, for Stats queries, the rows it answers.  The filter,
    the Stats lines and AuthUser are opaque texts that have to be forwarded unchanged. *)
From LMD Require Export Base.Str.
From Coq Require Import List ZArith Bool Lia.
Import ListNotations.

(** *** values, schema *)

Inductive cell :=
| CNum (z : Z)
| CStr (x : str)
| CList (l : list str)
| CBad.                      (* anything else (never produced by the generators) *)

Inductive vkind := VKey | VName | VEmpty.   (* peer_key, peer_name, placeholder of unknown columns *)
Inductive ctype := TNum | TStr | TList.
Inductive scol := SBackend (t : ctype) | SVirtual (k : vkind).

(** the log table as dumped from [Objects.Tables] on every run *)
Definition schema := list (str * scol).

(** a resolved column: backend column [name] = cell [idx] of the backend's rows *)
Inductive rcol :=
| RB (name : str) (idx : nat) (t : ctype)
| RV (k : vkind).

Definition row := list cell.

Definition vkind_eqb (a b : vkind) : bool :=
  match a, b with VKey, VKey | VName, VName | VEmpty, VEmpty => true | _, _ => false end.

Definition ctype_eqb (a b : ctype) : bool :=
  match a, b with TNum, TNum | TStr, TStr | TList, TList => true | _, _ => false end.

(** the implementation compares *Column pointers; one name resolves to one column *)
Definition rcol_eqb (a b : rcol) : bool :=
  match a, b with
  | RB n i t, RB m j u => str_eqb n m && Nat.eqb i j && ctype_eqb t u
  | RV k, RV l => vkind_eqb k l
  | _, _ => false
  end.

Fixpoint lookup (sch : schema) (off : nat) (n : str) : option rcol :=
  match sch with
  | [] => None
  | (m, SBackend t) :: r => if str_eqb n m then Some (RB m off t) else lookup r (S off) n
  | (m, SVirtual k) :: r => if str_eqb n m then Some (RV k) else lookup r off n
  end.

Fixpoint all_cols (sch : schema) (off : nat) : list rcol :=
  match sch with
  | [] => []
  | (m, SBackend t) :: r => RB m off t :: all_cols r (S off)
  | (_, SVirtual k) :: r => RV k :: all_cols r off
  end.

Fixpoint strip_prefix (p x : str) : option str :=
  match p, x with
  | [], _ => Some x
  | a :: p', b :: x' => if N.eqb a b then strip_prefix p' x' else None
  | _ :: _, [] => None
  end.

(** table.go GetColumnWithFallback for the log table: exact name, else the name
    without a leading "log_", else the virtual placeholder column *)
Definition resolve (sch : schema) (n : str) : rcol :=
  match lookup sch 0 n with
  | Some c => c
  | None =>
      match strip_prefix (s "log_") n with
      | Some n' => match lookup sch 0 n' with Some c => c | None => RV VEmpty end
      | None => RV VEmpty
      end
  end.

(** request.go SetSortColumns: exact (lower-cased) name; an unknown name is a
    rejected request (excluded by [valid_sort]) *)
Definition resolve_sort (sch : schema) (n : str) : rcol :=
  match lookup sch 0 n with Some c => c | None => RV VEmpty end.

(** *** requests and backends *)

Inductive skind := SCount | SSum | SAvg | SMin | SMax.

Record request := mkReq {
  q_columns : list str;            (* Columns header *)
  q_sort : list (str * bool);      (* Sort headers: column, descending *)
  q_limit : option nat;
  q_offset : nat;
  q_stats : list skind;            (* one per Stats header *)
  q_filter : list str;             (* the filter as text lines (opaque) *)
  q_stats_txt : list str;          (* the Stats headers as text lines (opaque) *)
  q_auth : str;
  q_select : list str }.           (* Backends header, [] = all *)

Record backend := mkBackend {
  b_key : str;
  b_name : str;
  b_up : bool;                             (* peer up/warning and the backend answers *)
  b_rows : list row;                       (* rows satisfying the filter, all backend columns *)
  b_stats : list (row * list Z) }.         (* answer to a Stats query: key cells, numbers (10^-6 units) *)

Definition selected (q : request) (b : backend) : bool :=
  match q_select q with [] => true | l => mem_str (b_key b) l end.

Definition reachable (q : request) (bs : list backend) : list backend :=
  filter (fun b => selected q b && b_up b) bs.

(** Response.failed after BuildPassThroughResult *)
Definition failed_keys (q : request) (bs : list backend) : list str :=
  map b_key (filter (fun b => selected q b && negb (b_up b)) bs).

(** *** columns *)

Definition is_nil {A} (l : list A) : bool := match l with [] => true | _ => false end.

(** Request.RequestColumns *)
Definition req_cols (sch : schema) (q : request) : list rcol :=
  if is_nil (q_columns q) && is_nil (q_stats q) then all_cols sch 0
  else map (resolve sch) (q_columns q).

Definition sort_cols (sch : schema) (q : request) : list (rcol * bool) :=
  map (fun nd => (resolve_sort sch (fst nd), snd nd)) (q_sort q).

(** BuildPassThroughResult: a sort column that is not requested is fetched in
    addition, behind the requested columns *)
Definition add_extra (acc : list rcol) (c : rcol) : list rcol :=
  if existsb (rcol_eqb c) acc then acc else acc ++ [c].

Definition bnames (cols : list rcol) : list str :=
  flat_map (fun c => match c with RB n _ _ => [n] | RV _ => [] end) cols.

Definition bidx (cols : list rcol) : list nat :=
  flat_map (fun c => match c with RB _ i _ => [i] | RV _ => [] end) cols.

Definition is_backend (c : rcol) : bool := match c with RB _ _ _ => true | RV _ => false end.

(** the first backend-side column of the table *)
Definition first_backend (sch : schema) : list rcol := firstn 1 (filter is_backend (all_cols sch 0)).

(** A Livestatus query without Columns header returns all columns: if the client asks
    for LMD-side columns only, one backend column is fetched in addition (and removed
    again like the additional sort columns). *)
Definition full_cols (sch : schema) (q : request) : list rcol :=
  let cols := fold_left add_extra (map fst (sort_cols sch q)) (req_cols sch q) in
  if is_nil (bnames cols) && is_nil (q_stats q) then cols ++ first_backend sch else cols.

(** the sub request as the backend parses it *)
Record subq := mkSub {
  sq_cols : list str; sq_filter : list str; sq_stats : list str; sq_limit : option nat; sq_auth : str }.

Definition sub_request (sch : schema) (q : request) : subq :=
  mkSub (bnames (full_cols sch q)) (q_filter q) (q_stats_txt q) (q_limit q) (q_auth q).

(** *** one backend's answer and the insertion of the virtual values *)

Definition limit_rows {A} (lim : option nat) (l : list A) : list A :=
  match lim with Some n => firstn n l | None => l end.

Definition project (cols : list rcol) (raw : row) : row :=
  map (fun i => nth i raw CBad) (bidx cols).

(** what a Livestatus backend answers to the sub request *)
Definition backend_answer (q : request) (cols : list rcol) (b : backend) : list row :=
  map (project cols) (limit_rows (q_limit q) (b_rows b)).

Definition vval (b : backend) (k : vkind) : cell :=
  CStr (match k with VKey => b_key b | VName => b_name b | VEmpty => [] end).

(** positions of the virtual columns in the final row *)
Fixpoint vpos (off : nat) (cols : list rcol) : list (nat * vkind) :=
  match cols with
  | [] => []
  | RB _ _ _ :: r => vpos (S off) r
  | RV k :: r => (off, k) :: vpos (S off) r
  end.

(** Go: [row = append(row, 0); copy(row[i+1:], row[i:]); row[i] = v] - panics for [i > len] *)
Definition insert_at (i : nat) (v : cell) (l : row) : option row :=
  if Nat.leb i (length l) then Some (firstn i l ++ v :: skipn i l) else None.

Fixpoint splice (b : backend) (vs : list (nat * vkind)) (r : row) : option row :=
  match vs with
  | [] => Some r
  | (i, k) :: rest =>
      match insert_at i (vval b k) r with
      | Some r' => splice b rest r'
      | None => None
      end
  end.

Fixpoint mapM {A B} (f : A -> option B) (l : list A) : option (list B) :=
  match l with
  | [] => Some []
  | x :: r => match f x, mapM f r with Some y, Some ys => Some (y :: ys) | _, _ => None end
  end.

(** Peer.PassThroughQuery, row queries: the rows appended to Response.result *)
Definition peer_rows (q : request) (cols : list rcol) (b : backend) : option (list row) :=
  mapM (splice b (vpos 0 cols)) (backend_answer q cols b).

(** the value of column [c] for row [raw] of backend [b] (specification) *)
Definition col_value (b : backend) (raw : row) (c : rcol) : cell :=
  match c with RB _ i _ => nth i raw CBad | RV k => vval b k end.

(** *** sorting *)

Definition num_of (c : cell) : Z := match c with CNum z => z | _ => 0%Z end.
Definition str_of (c : cell) : str := match c with CStr x => x | _ => [] end.

(** a sort key on final rows: index, numeric comparison, descending *)
Record skey := mkKey { k_idx : nat; k_num : bool; k_desc : bool }.

Fixpoint find_idx (c : rcol) (cols : list rcol) : nat :=
  match cols with
  | [] => 0
  | d :: r => if rcol_eqb c d then 0 else S (find_idx c r)
  end.

Definition is_num (c : rcol) : bool := match c with RB _ _ TNum => true | _ => false end.

Definition sort_keys (sch : schema) (q : request) : list skey :=
  map (fun cd => mkKey (find_idx (fst cd) (full_cols sch q)) (is_num (fst cd)) (snd cd)) (sort_cols sch q).

(** comparison of two cells under one key: [None] = equal, continue with the next key *)
Definition cmp_cells (num desc : bool) (x y : cell) : option bool :=
  if num then
    if Z.eqb (num_of x) (num_of y) then None
    else Some (if desc then Z.ltb (num_of y) (num_of x) else Z.ltb (num_of x) (num_of y))
  else
    if str_eqb (str_of x) (str_of y) then None
    else Some (if desc then str_ltb (str_of y) (str_of x) else str_ltb (str_of x) (str_of y)).

(** Response.Less (returns true when all keys are equal) *)
Fixpoint row_le (keys : list skey) (a b : row) : bool :=
  match keys with
  | [] => true
  | k :: ks =>
      match cmp_cells (k_num k) (k_desc k) (nth (k_idx k) a CBad) (nth (k_idx k) b CBad) with
      | Some r => r
      | None => row_le ks a b
      end
  end.

(** Response.PostProcessing: Offset, then Limit *)
Definition window {A} (q : request) (l : list A) : list A :=
  let l1 := if Nat.ltb 0 (q_offset q)
            then (if Nat.ltb (length l) (q_offset q) then [] else skipn (q_offset q) l)
            else l in
  match q_limit q with
  | Some n => if Nat.ltb n (length l1) then firstn n l1 else l1
  | None => l1
  end.

Fixpoint concat_opt {A} (l : list (option (list A))) : option (list A) :=
  match l with
  | [] => Some []
  | Some x :: r => match concat_opt r with Some y => Some (x ++ y) | None => None end
  | None :: _ => None
  end.

Section Sorting.
  (** Go's sort.Sort with Response.Less; any function with the two properties
      stated in Proofs.v (permutation, sorted) *)
  Variable sort : (row -> row -> bool) -> list row -> list row.

  (** rows of all reachable backends, as appended to Response.result
      (in backend order; the implementation appends in completion order) *)
  Definition merged (sch : schema) (q : request) (bs : list backend) : option (list row) :=
    concat_opt (map (peer_rows q (full_cols sch q)) (reachable q bs)).

  (** the data rows of the response of a query without Stats; [None] = the daemon panics *)
  Definition run_rows (sch : schema) (q : request) (bs : list backend) : option (list row) :=
    match merged sch q bs with
    | None => None
    | Some rows =>
        let sorted := if is_nil (q_sort q) then rows else sort (row_le (sort_keys sch q)) rows in
        Some (window q (map (firstn (length (req_cols sch q))) sorted))
    end.
End Sorting.

(** total_count of a wrapped_json response *)
Definition total_count (sch : schema) (q : request) (bs : list backend) : nat :=
  match merged sch q bs with Some rows => length rows | None => 0 end.

(** *** Stats *)

(** Filter.stats / Filter.statsCount *)
Record acc := mkAcc { a_val : Z; a_cnt : nat }.

Definition unit6 : Z := 1000000.

(** PassThroughQuery + ApplyValue: a counter column of the backend holds the number of
    rows it counted, every other number is one value *)
Definition apply_value (k : skind) (a : acc) (v : Z) : acc :=
  match k with
  | SCount => mkAcc (a_val a + v) (a_cnt a + Z.to_nat (v / unit6))
  | SSum | SAvg => mkAcc (a_val a + v) (S (a_cnt a))
  | SMin => mkAcc (if Nat.eqb (a_cnt a) 0 || Z.ltb v (a_val a) then v else a_val a) (S (a_cnt a))
  | SMax => mkAcc (if Nat.eqb (a_cnt a) 0 || Z.ltb (a_val a) v then v else a_val a) (S (a_cnt a))
  end.

(** finalStatsApply as a fraction (numerator, denominator) *)
Definition final_value (k : skind) (a : acc) : Z * Z :=
  match a_cnt a with
  | O => (0, 1)%Z
  | S _ => match k with SAvg => (a_val a, Z.of_nat (a_cnt a)) | _ => (a_val a, 1%Z) end
  end.

(** one accumulator per Stats header (rows of another width never get here) *)
Fixpoint zip_apply (ks : list skind) (accs : list acc) (vs : list Z) : list acc :=
  match ks with
  | [] => []
  | k :: ks' => apply_value k (hd (mkAcc 0 0) accs) (hd 0%Z vs) :: zip_apply ks' (tl accs) (tl vs)
  end.

(** decimal rendering of a number used as group key (fmt %v of a small integral float64) *)
Fixpoint dec_digits (fuel : nat) (n : N) (acc : str) : str :=
  match fuel with
  | O => acc
  | S f =>
      let d := (48 + N.modulo n 10)%N in
      if N.ltb n 10 then d :: acc else dec_digits f (N.div n 10) (d :: acc)
  end.

Definition dec_of_Z (z : Z) : str :=
  match z with
  | Z0 => [48%N]
  | Zpos p => dec_digits (S (N.to_nat (N.size (Npos p)))) (Npos p) []
  | Zneg p => 45%N :: dec_digits (S (N.to_nat (N.size (Npos p)))) (Npos p) []
  end.

(** interface2stringNoDedup of a key cell *)
Definition cell_text (c : cell) : str :=
  match c with CNum z => dec_of_Z z | CStr x => x | _ => [] end.

Definition gkey := list str.

Fixpoint gkey_eqb (a b : gkey) : bool :=
  match a, b with
  | [], [] => true
  | x :: a', y :: b' => str_eqb x y && gkey_eqb a' b'
  | _, _ => false
  end.

(** Request.StatsResult.Stats as association list in order of first appearance *)
Definition smap := list (gkey * list acc).

Definition zeros (ks : list skind) : list acc := map (fun _ => mkAcc 0 0) ks.

Fixpoint sm_get (ks : list skind) (m : smap) (k : gkey) : list acc :=
  match m with
  | [] => zeros ks
  | (k', a) :: r => if gkey_eqb k k' then a else sm_get ks r k
  end.

Fixpoint sm_mem (m : smap) (k : gkey) : bool :=
  match m with
  | [] => false
  | (k', _) :: r => gkey_eqb k k' || sm_mem r k
  end.

Fixpoint sm_set (m : smap) (k : gkey) (a : list acc) : smap :=
  match m with
  | [] => [(k, a)]
  | (k', a') :: r => if gkey_eqb k k' then (k', a) :: r else (k', a') :: sm_set r k a
  end.

(** one answered row: key cells with the virtual values inserted, numbers.  Rows of
    unexpected width are skipped ("invalid result row") *)
Definition stats_step (ks : list skind) (m : smap) (kr : gkey * list Z) : smap :=
  if Nat.eqb (length (snd kr)) (length ks)
  then sm_set m (fst kr) (zip_apply ks (sm_get ks m (fst kr)) (snd kr))
  else m.

(** the rows one backend contributes to a Stats query: group key and numbers *)
Definition peer_stats (cols : list rcol) (b : backend) : option (list (gkey * list Z)) :=
  mapM (fun kr => match splice b (vpos 0 cols) (fst kr) with
                  | Some r => Some (map cell_text r, snd kr)
                  | None => None
                  end) (b_stats b).

Definition stats_inputs (sch : schema) (q : request) (bs : list backend) : option (list (gkey * list Z)) :=
  concat_opt (map (peer_stats (full_cols sch q)) (reachable q bs)).

(** CalculateFinalStats: one row per group; without Columns and without any answer a
    single row of zeros *)
Definition stats_rows (sch : schema) (q : request) (bs : list backend) : option (list (gkey * list (Z * Z))) :=
  match stats_inputs sch q bs with
  | None => None
  | Some ins =>
      let m := fold_left (stats_step (q_stats q)) ins [] in
      let m' := if is_nil (q_columns q) && is_nil m then [([], zeros (q_stats q))] else m in
      Some (map (fun ka => (fst ka, map (fun p => final_value (fst p) (snd p)) (combine (q_stats q) (snd ka)))) m')
  end.

(** *** well-formed requests of the modelled fragment *)

Definition known_sort (sch : schema) (nd : str * bool) : bool :=
  match lookup sch 0 (fst nd) with Some _ => true | None => false end.

(** Sort keys name existing columns (otherwise the request is rejected); Sort together
    with Stats is outside the model *)
Definition valid_request (sch : schema) (q : request) : bool :=
  forallb (known_sort sch) (q_sort q) && (is_nil (q_stats q) || is_nil (q_sort q)).

(** *** a concrete sort (insertion sort) used to evaluate the model and as witness that
    the assumptions made on [sort] are satisfiable *)
Fixpoint insert_sorted (le : row -> row -> bool) (x : row) (l : list row) : list row :=
  match l with
  | [] => [x]
  | y :: r => if le x y then x :: l else y :: insert_sorted le x r
  end.

Definition isort (le : row -> row -> bool) (l : list row) : list row :=
  fold_right (insert_sorted le) [] l.
